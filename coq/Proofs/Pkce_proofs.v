(* Proofs/Pkce_proofs.v — lemmas about Model/Pkce.v (property C15). *)
From Verif Require Import Lib.Base Lib.PyStr Lib.PkceTy Gen.PkceTables Model.Pkce.
Open Scope N_scope.

(* ---------------------------------------------------------------- small facts *)
Lemma norm_some x c : norm x = Some c -> x = Some c /\ c <> [].
Proof. destruct x as [[|a r]|]; cbn; intro H; inversion H; subst; split; congruence. Qed.
Lemma norm_none x : norm x = None -> x = None \/ x = Some [].
Proof. destruct x as [[|a r]|]; cbn; intro H; auto; discriminate. Qed.
Lemma norm_of_nonempty v : v <> [] -> norm (Some v) = Some v.
Proof. destruct v; [congruence|reflexivity]. Qed.
Lemma norm_idem x : norm (norm x) = norm x.
Proof. destruct x as [[|a r]|]; reflexivity. Qed.

Lemma assoc_In {V} k (d : list (pystr * V)) v : assoc k d = Some v -> In (k, v) d.
Proof.
  induction d as [|[k' v'] r IH]; cbn; [discriminate|].
  destruct (str_eqb k k') eqn:E.
  - intro H; inversion H; subst. apply str_eqb_eq in E; subst. now left.
  - intro H. right. now apply IH.
Qed.

Lemma unreserved_ascii v : unreserved_s v = true -> is_ascii v = true.
Proof.
  unfold unreserved_s, is_ascii. rewrite !forallb_forall. intros H c Hc. specialize (H c Hc).
  unfold unreserved_c in H. apply N.ltb_lt.
  repeat match goal with
  | H : _ || _ = true |- _ => apply orb_true_iff in H as [H|H]
  | H : _ && _ = true |- _ => apply andb_true_iff in H as [? H]
  | H : (_ <=? _) = true |- _ => apply N.leb_le in H
  | H : (_ =? _) = true |- _ => apply N.eqb_eq in H
  end; lia.
Qed.

(* ---------------------------------------------------------------- facts about the regenerated tables
   (re-checked by the kernel against what /repo/src says on this run) *)
Definition tables_agree : bool :=
  forallb (fun mb : pystr * N =>
             match fst mb with [] => false | _ =>
               match assoc (fst mb) server_cc_methods with
               | Some (TrSha b) => snd mb =? b
               | _ => false
               end
             end) client_cc_methods.
Lemma tables_agree_true : tables_agree = true.
Proof. vm_compute. reflexivity. Qed.

Lemma client_method_on_server m bits :
  assoc m client_cc_methods = Some bits -> m <> [] /\ assoc m server_cc_methods = Some (TrSha bits).
Proof.
  intro H. apply assoc_In in H. pose proof tables_agree_true as T. unfold tables_agree in T.
  rewrite forallb_forall in T. specialize (T _ H). cbn [fst snd] in T.
  destruct m as [|a r]; [discriminate|]. split; [congruence|].
  destruct (assoc (a :: r) server_cc_methods) as [[|b]|]; try discriminate.
  apply N.eqb_eq in T. now subst.
Qed.

Lemma client_default_supported : has_key client_default_method client_cc_methods = true.
Proof. vm_compute. reflexivity. Qed.

(* the provider's default method names an entry of its own table *)
Lemma server_default_known : has_key server_default_method server_cc_methods = true.
Proof. vm_compute. reflexivity. Qed.

(* ---------------------------------------------------------------- the authorization leg *)
Lemma authn_leg_ok cf ce cc ccm st :
  authn_leg cf ce cc ccm = Ok st ->
  st = (norm cc, recorded_method ccm)
  /\ (forall c, norm cc = Some c -> In (recorded_method ccm) (pc_methods cf))
  /\ (essential_eff (pc_essential cf) ce = true -> norm cc <> None).
Proof.
  unfold authn_leg. destruct (norm cc) as [c|] eqn:Ec.
  - rewrite andb_false_r.
    destruct (str_in (recorded_method ccm) (pc_methods cf)) eqn:Ein; cbn [negb]; [|discriminate].
    intro H; inversion H; subst. repeat split.
    + intros c' _. now apply str_in_In.
    + intros _. discriminate.
  - rewrite andb_true_r. destruct (essential_eff (pc_essential cf) ce) eqn:Ee; [discriminate|].
    intro H; inversion H; subst. repeat split; intros; discriminate.
Qed.

Lemma authn_leg_missing cf ce cc ccm :
  essential_eff (pc_essential cf) ce = true -> norm cc = None -> authn_leg cf ce cc ccm = Err (Refused 1).
Proof. intros He Hc. unfold authn_leg. rewrite Hc, He. reflexivity. Qed.

Lemma authn_leg_unsupported cf ce cc ccm c :
  norm cc = Some c -> ~ In (recorded_method ccm) (pc_methods cf) -> authn_leg cf ce cc ccm = Err (Refused 2).
Proof.
  intros Hc Hn. unfold authn_leg. rewrite Hc, andb_false_r.
  destruct (str_in (recorded_method ccm) (pc_methods cf)) eqn:E; [apply str_in_In in E; contradiction|reflexivity].
Qed.

Lemma authn_leg_accepts cf ce cc ccm :
  (essential_eff (pc_essential cf) ce = true -> norm cc <> None) ->
  (forall c, norm cc = Some c -> In (recorded_method ccm) (pc_methods cf)) ->
  authn_leg cf ce cc ccm = Ok (norm cc, recorded_method ccm).
Proof.
  intros He Hm. unfold authn_leg. destruct (norm cc) as [c|] eqn:Ec.
  - rewrite andb_false_r. assert (In (recorded_method ccm) (pc_methods cf)) as Hin by (eapply Hm; eauto).
    apply str_in_In in Hin. rewrite Hin. reflexivity.
  - rewrite andb_true_r. destruct (essential_eff (pc_essential cf) ce); [exfalso; now apply He|reflexivity].
Qed.

Lemma essential_table :
  essential_eff true None = true /\ essential_eff false None = false
  /\ essential_eff true (Some false) = false /\ essential_eff false (Some true) = true
  /\ essential_eff true (Some true) = true /\ essential_eff false (Some false) = false.
Proof. repeat split. Qed.

Section P.
  Variable HB : N -> pystr -> pystr.

  (* ---------------------------------------------------------------- the token leg *)
  Lemma token_leg_ok_iff c m cv t :
    token_leg HB (Some c, m) cv t = Ok tt
    <-> exists v k, norm cv = Some v /\ assoc m server_cc_methods = Some k /\ tr HB k v = Ok c.
  Proof.
    unfold token_leg. cbn [fst snd]. split.
    - destruct (norm cv) as [v|]; [|discriminate].
      destruct (assoc m server_cc_methods) as [k|]; [|discriminate].
      destruct (tr HB k v) as [x|e|] eqn:Et; cbn [bind]; try discriminate.
      destruct (str_eqb x c) eqn:Ex; [|discriminate]. apply str_eqb_eq in Ex. subst. intros _.
      exists v, k. auto.
    - intros (v & k & Hv & Hk & Ht). rewrite Hv, Hk, Ht. cbn [bind]. now rewrite str_eqb_refl.
  Qed.

  Lemma token_leg_nochallenge m cv t : token_leg HB (None, m) cv t = Ok tt.
  Proof. reflexivity. Qed.

  Lemma token_leg_tccm_ignored st cv t1 t2 : token_leg HB st cv t1 = token_leg HB st cv t2.
  Proof. reflexivity. Qed.

  (* ---------------------------------------------------------------- whole flow *)
  Lemma flow_tokens cf ce cc ccm cv t :
    flow HB cf ce cc ccm cv t = Tokens ->
    authn_leg cf ce cc ccm = Ok (norm cc, recorded_method ccm)
    /\ token_leg HB (norm cc, recorded_method ccm) cv t = Ok tt.
  Proof.
    unfold flow. destruct (authn_leg cf ce cc ccm) as [st|e|] eqn:Ea.
    - destruct (authn_leg_ok _ _ _ _ _ Ea) as (-> & _ & _).
      destruct (token_leg HB (norm cc, recorded_method ccm) cv t) as [[]|e|] eqn:Et; try discriminate; auto.
      destruct e; discriminate.
    - destruct e; discriminate.
    - discriminate.
  Qed.

  Lemma bound cf ce cc ccm cv t c :
    norm cc = Some c -> flow HB cf ce cc ccm cv t = Tokens ->
    exists v k, norm cv = Some v /\ assoc (recorded_method ccm) server_cc_methods = Some k /\ tr HB k v = Ok c.
  Proof.
    intros Hc Hf. apply flow_tokens in Hf as [_ Ht]. rewrite Hc in Ht. now apply token_leg_ok_iff in Ht.
  Qed.

  Lemma tokens_iff cf ce cc ccm cv t :
    flow HB cf ce cc ccm cv t = Tokens <->
    authn_leg cf ce cc ccm = Ok (norm cc, recorded_method ccm)
    /\ (norm cc = None \/
        exists c v k, norm cc = Some c /\ norm cv = Some v
                      /\ assoc (recorded_method ccm) server_cc_methods = Some k /\ tr HB k v = Ok c).
  Proof.
    split.
    - intro Hf. pose proof (flow_tokens _ _ _ _ _ _ Hf) as [Ha Ht]. split; [exact Ha|].
      destruct (norm cc) as [c|] eqn:Ec; [right|now left].
      apply token_leg_ok_iff in Ht as (v & k & ? & ? & ?). exists c, v, k. auto.
    - intros [Ha Hb]. unfold flow. rewrite Ha. destruct Hb as [Hn|(c & v & k & Hc & Hv & Hk & Ht)].
      + rewrite Hn. reflexivity.
      + rewrite Hc. assert (token_leg HB (Some c, recorded_method ccm) cv t = Ok tt) as ->; [|reflexivity].
        apply token_leg_ok_iff. exists v, k. auto.
  Qed.

  Lemma missing_verifier_refused cf ce cc ccm cv t c :
    norm cc = Some c -> norm cv = None ->
    flow HB cf ce cc ccm cv t = AzRefused 2 \/ flow HB cf ce cc ccm cv t = TkRefused 3.
  Proof.
    intros Hc Hv. unfold flow, authn_leg. rewrite Hc, andb_false_r.
    destruct (str_in (recorded_method ccm) (pc_methods cf)); cbn [negb]; [right|now left].
    unfold token_leg. cbn [fst snd]. rewrite Hv. reflexivity.
  Qed.

  Lemma wrong_verifier_refused cf ce cc ccm cv t c v :
    norm cc = Some c -> norm cv = Some v ->
    (forall k, assoc (recorded_method ccm) server_cc_methods = Some k -> tr HB k v <> Ok c) ->
    flow HB cf ce cc ccm cv t <> Tokens.
  Proof.
    intros Hc Hv Hw Hf. destruct (bound _ _ _ _ _ _ _ Hc Hf) as (v' & k & Hv' & Hk & Ht).
    rewrite Hv in Hv'. inversion Hv'; subst. exact (Hw _ Hk Ht).
  Qed.

  Lemma essential_refuses cf ce cc ccm cv t :
    essential_eff (pc_essential cf) ce = true ->
    (norm cc = None -> flow HB cf ce cc ccm cv t = AzRefused 1)
    /\ (forall c, norm cc = Some c -> ~ In (recorded_method ccm) (pc_methods cf) ->
                  flow HB cf ce cc ccm cv t = AzRefused 2).
  Proof.
    intros He. split.
    - intro Hc. unfold flow. now rewrite authn_leg_missing.
    - intros c Hc Hn. unfold flow. now rewrite (authn_leg_unsupported _ _ _ _ _ Hc Hn).
  Qed.

  Lemma unsupported_refused_always cf ce cc ccm cv t c :
    norm cc = Some c -> ~ In (recorded_method ccm) (pc_methods cf) -> flow HB cf ce cc ccm cv t = AzRefused 2.
  Proof. intros Hc Hn. unfold flow. now rewrite (authn_leg_unsupported _ _ _ _ _ Hc Hn). Qed.

  Lemma not_essential_no_challenge cf ce cc ccm cv t :
    essential_eff (pc_essential cf) ce = false -> norm cc = None -> flow HB cf ce cc ccm cv t = Tokens.
  Proof.
    intros He Hc. apply tokens_iff. split; [|now left].
    apply authn_leg_accepts; [rewrite He; discriminate|intros c E; congruence].
  Qed.

  Lemma flow_tccm_ignored cf ce cc ccm cv t1 t2 : flow HB cf ce cc ccm cv t1 = flow HB cf ce cc ccm cv t2.
  Proof. reflexivity. Qed.

  (* a valid configuration never reaches the KeyError branch: the recorded method of a stored challenge is
     a configured one, and configured ones are keys of CC_METHOD *)
  Lemma no_keyerror cf ce cc ccm cv t :
    conf_valid cf = true -> flow HB cf ce cc ccm cv t <> TkRaised KeyError.
  Proof.
    intros Hv. unfold flow. destruct (authn_leg cf ce cc ccm) as [st|e|] eqn:Ea; [|destruct e; discriminate|discriminate].
    destruct (authn_leg_ok _ _ _ _ _ Ea) as (-> & Hin & _).
    unfold token_leg. cbn [fst snd]. destruct (norm cc) as [c|] eqn:Ec; [|discriminate].
    destruct (norm cv) as [v|]; [|discriminate].
    specialize (Hin c eq_refl). unfold conf_valid in Hv. rewrite forallb_forall in Hv. specialize (Hv _ Hin).
    unfold has_key in Hv. destruct (assoc (recorded_method ccm) server_cc_methods) as [k|]; [|discriminate].
    destruct (tr HB k v) as [x|e|] eqn:Et; cbn [bind]; try discriminate.
    - destruct (str_eqb x c); discriminate.
    - destruct k; cbn in Et; [discriminate|]. destruct (is_ascii v); inversion Et; subst. discriminate.
  Qed.

  (* ---------------------------------------------------------------- near misses need an injective hash *)
  Section Inj.
    Hypothesis HB_inj : forall n v v', HB n v = HB n v' -> v = v'.

    Lemma tr_inj k v v' c : tr HB k v = Ok c -> tr HB k v' = Ok c -> v = v'.
    Proof.
      destruct k as [|n]; cbn.
      - intros H1 H2. inversion H1; inversion H2; congruence.
      - destruct (is_ascii v); [|discriminate]. destruct (is_ascii v'); [|discriminate].
        intros H1 H2. inversion H1; inversion H2; subst. eapply HB_inj; eauto.
    Qed.

    Lemma near_miss cf ce cc ccm t c v v' :
      norm cc = Some c -> flow HB cf ce cc ccm (Some v) t = Tokens -> v' <> v ->
      flow HB cf ce cc ccm (Some v') t <> Tokens.
    Proof.
      intros Hc Hf Hne Hf'.
      destruct (bound _ _ _ _ _ _ _ Hc Hf) as (w & k & Hw & Hk & Ht).
      destruct (bound _ _ _ _ _ _ _ Hc Hf') as (w' & k' & Hw' & Hk' & Ht').
      apply norm_some in Hw as [Hw _]. apply norm_some in Hw' as [Hw' _].
      inversion Hw; inversion Hw'; subst. rewrite Hk in Hk'. inversion Hk'; subst.
      apply Hne. eapply tr_inj; eauto.
    Qed.
  End Inj.

  (* ---------------------------------------------------------------- relying party against provider *)
  Section Agree.
    Hypothesis HB_nonempty : forall n v, HB n v <> [].

    Lemma rp_make_ok rpm v c m :
      rp_make HB rpm v = Ok (c, m) ->
      exists bits, assoc m client_cc_methods = Some bits /\ is_ascii v = true /\ c = HB bits v
                   /\ m = match rpm with Some x => x | None => client_default_method end.
    Proof.
      unfold rp_make. set (m0 := match rpm with Some x => x | None => client_default_method end).
      destruct (assoc m0 client_cc_methods) as [bits|] eqn:Ea; [|discriminate].
      destruct (is_ascii v) eqn:Ev; [|discriminate]. intro H; inversion H; subst.
      exists bits. auto.
    Qed.

    Lemma rp_op_agree cf ce rpm v c m t :
      rp_make HB rpm v = Ok (c, m) -> v <> [] -> In m (pc_methods cf) ->
      flow HB cf ce (Some c) (Some m) (Some v) t = Tokens.
    Proof.
      intros Hrp Hv Hin. apply rp_make_ok in Hrp as (bits & Ha & Hasc & -> & _).
      apply client_method_on_server in Ha as [Hm Hs].
      assert (Hc : norm (Some (HB bits v)) = Some (HB bits v)) by (apply norm_of_nonempty, HB_nonempty).
      assert (Hr : recorded_method (Some m) = m) by (unfold recorded_method; now rewrite norm_of_nonempty).
      apply tokens_iff. rewrite Hc, Hr. split.
      - rewrite <- Hr at 2. rewrite <- Hc at 2. apply authn_leg_accepts.
        + rewrite Hc. discriminate.
        + intros c' _. now rewrite Hr.
      - right. exists (HB bits v), v, (TrSha bits). repeat split; auto.
        + now apply norm_of_nonempty.
        + cbn. now rewrite Hasc.
    Qed.

    Lemma rp_total rpm v :
      is_ascii v = true -> (exists c m, rp_make HB rpm v = Ok (c, m)) \/ rp_make HB rpm v = Err (Refused 5).
    Proof.
      intro Hv. unfold rp_make.
      destruct (assoc match rpm with Some m => m | None => client_default_method end client_cc_methods);
        [left; rewrite Hv; eauto|now right].
    Qed.

    Lemma rp_total_unreserved rpm v :
      unreserved_s v = true ->
      (exists c m, rp_make HB rpm v = Ok (c, m)) \/ rp_make HB rpm v = Err (Refused 5).
    Proof. intro H. apply rp_total. now apply unreserved_ascii. Qed.

    Lemma rp_default_starts v : is_ascii v = true -> exists c, rp_make HB None v = Ok (c, client_default_method).
    Proof.
      intro Hv. unfold rp_make. pose proof client_default_supported as H. unfold has_key in H.
      destruct (assoc client_default_method client_cc_methods); [|discriminate]. rewrite Hv. eauto.
    Qed.

    (* the guard v <> [] is necessary: a relying party configured with code_challenge_length = 0 draws the
       empty verifier; Message drops the empty code_verifier; the provider then misses it *)
    Lemma rp_op_empty_verifier_refused cf ce rpm c m t :
      rp_make HB rpm [] = Ok (c, m) -> In m (pc_methods cf) ->
      flow HB cf ce (Some c) (Some m) (Some []) t = TkRefused 3.
    Proof.
      intros Hrp Hin. apply rp_make_ok in Hrp as (bits & Ha & _ & -> & _).
      apply client_method_on_server in Ha as [Hm Hs].
      assert (Hc : norm (Some (HB bits [])) = Some (HB bits [])) by (apply norm_of_nonempty, HB_nonempty).
      assert (Hr : recorded_method (Some m) = m) by (unfold recorded_method; now rewrite norm_of_nonempty).
      unfold flow.
      assert (authn_leg cf ce (Some (HB bits [])) (Some m) = Ok (norm (Some (HB bits [])), recorded_method (Some m))) as ->.
      { apply authn_leg_accepts; [rewrite Hc; discriminate|intros; now rewrite Hr]. }
      rewrite Hc. reflexivity.
    Qed.
  End Agree.
End P.

(* ================================================================ transports of the authorization request *)
Lemma npk_idem p : npk (npk p) = npk p.
Proof. destruct p as [a b]. unfold npk. cbn [fst snd]. now rewrite !norm_idem. Qed.

Lemma norm_fill a b : norm (fill (norm a) (norm b)) = fill (norm a) (norm b).
Proof. unfold fill. destruct (norm a) eqn:E; [rewrite <- E|]; apply norm_idem. Qed.

(* every assembled pair is already normalised *)
Lemma assembled_normal d : npk (assembled d) = assembled d.
Proof.
  destruct d as [f|o f|o f|[b|o b] f]; cbn [assembled pushed_request]; try apply npk_idem.
  unfold over, npk. cbn [fst snd]. now rewrite !norm_fill.
Qed.

Lemma protected_normal d p : protected_of d = Some p -> npk p = p.
Proof.
  destruct d as [f|o f|o f|[b|o b] f]; cbn [protected_of pushed_request]; intro H; inversion H; subst; apply npk_idem.
Qed.

(* the front channel has no say at all about a pushed request or a request object passed by value *)
Lemma assembled_pushed_front_irrelevant b f f' : assembled (DPushed b f) = assembled (DPushed b f').
Proof. reflexivity. Qed.
Lemma assembled_value_front_irrelevant o f f' : assembled (DValue o f) = assembled (DValue o f').
Proof. reflexivity. Qed.

Lemma assembled_is_protected d p :
  protected_of d = Some p -> (forall o f, d <> DRef o f) -> assembled d = p.
Proof.
  destruct d as [f|o f|o f|b f]; cbn [protected_of assembled]; intros H Hn; inversion H; subst; auto.
  exfalso. now apply (Hn o f).
Qed.

(* whatever the transport: a parameter the protected request carries is the assembled one; the front channel
   can only fill a gap (and only for a request_uri document) *)
Lemma assembled_challenge_protected d p c :
  protected_of d = Some p -> fst p = Some c -> fst (assembled d) = Some c.
Proof.
  destruct d as [f|o f|o f|b f]; cbn [protected_of assembled]; intros H Hc; inversion H; subst; auto.
  unfold over, npk in *. cbn [fst snd] in *. now rewrite Hc.
Qed.
Lemma assembled_method_protected d p m :
  protected_of d = Some p -> snd p = Some m -> snd (assembled d) = Some m.
Proof.
  destruct d as [f|o f|o f|b f]; cbn [protected_of assembled]; intros H Hc; inversion H; subst; auto.
  unfold over, npk in *. cbn [fst snd] in *. now rewrite Hc.
Qed.

(* the only way a front-channel parameter reaches the PKCE hook next to a protected request *)
Lemma assembled_gap d p :
  protected_of d = Some p ->
  (fst p = None -> fst (assembled d) = None \/ exists o f, d = DRef o f /\ fst (assembled d) = fst (front_of d))
  /\ (snd p = None -> snd (assembled d) = None \/ exists o f, d = DRef o f /\ snd (assembled d) = snd (front_of d)).
Proof.
  destruct d as [f|o f|o f|b f]; cbn [protected_of assembled front_of]; intro H; inversion H; subst;
    split; intro Hn; auto; right; exists o, f; (split; [reflexivity|]);
    unfold over, npk in *; cbn [fst snd] in *; now rewrite Hn.
Qed.

Section PT.
  Variable HB : N -> pystr -> pystr.

  Lemma flow_d_pushed_front_irrelevant cf ce b f f' cv t :
    flow_d HB cf ce (DPushed b f) cv t = flow_d HB cf ce (DPushed b f') cv t.
  Proof. reflexivity. Qed.
  Lemma flow_d_value_front_irrelevant cf ce o f f' cv t :
    flow_d HB cf ce (DValue o f) cv t = flow_d HB cf ce (DValue o f') cv t.
  Proof. reflexivity. Qed.

  (* a pushed request / request object is judged exactly like the same parameters sent alone *)
  Lemma flow_d_is_protected_flow cf ce d p cv t :
    protected_of d = Some p -> (forall o f, d <> DRef o f) ->
    flow_d HB cf ce d cv t = flow HB cf ce (fst p) (snd p) cv t.
  Proof. intros Hp Hn. unfold flow_d. now rewrite (assembled_is_protected _ _ Hp Hn). Qed.

  Lemma norm_fst_assembled d : norm (fst (assembled d)) = fst (assembled d).
  Proof. rewrite <- (assembled_normal d) at 2. reflexivity. Qed.

  Lemma transport_bound cf ce d p c cv t :
    protected_of d = Some p -> fst p = Some c -> flow_d HB cf ce d cv t = Tokens ->
    exists v k, norm cv = Some v
                /\ assoc (recorded_method (snd (assembled d))) server_cc_methods = Some k
                /\ tr HB k v = Ok c.
  Proof.
    intros Hp Hc Hf. unfold flow_d in Hf.
    pose proof (assembled_challenge_protected _ _ _ Hp Hc) as Ha.
    eapply bound; [|exact Hf]. rewrite norm_fst_assembled. exact Ha.
  Qed.

  Lemma transport_tokens_iff cf ce d p c cv t :
    protected_of d = Some p -> fst p = Some c ->
    (flow_d HB cf ce d cv t = Tokens <->
     recorded_d cf ce d = Ok (Some c, recorded_method (snd (assembled d)))
     /\ exists v k, norm cv = Some v
                    /\ assoc (recorded_method (snd (assembled d))) server_cc_methods = Some k
                    /\ tr HB k v = Ok c).
  Proof.
    intros Hp Hc. pose proof (assembled_challenge_protected _ _ _ Hp Hc) as Ha.
    unfold flow_d, recorded_d. rewrite tokens_iff, norm_fst_assembled, Ha. split.
    - intros [H1 [H2|(c' & v & k & Hc' & Hv & Hk & Ht)]]; [discriminate|]. inversion Hc'; subst. split; eauto.
    - intros [H1 (v & k & Hv & Hk & Ht)]. split; [exact H1|]. right. exists c, v, k. auto.
  Qed.

  (* a verifier that does not transform to the PROTECTED challenge gets nothing, whatever the front channel said *)
  Lemma transport_wrong_verifier_refused cf ce d p c cv t v :
    protected_of d = Some p -> fst p = Some c -> norm cv = Some v ->
    (forall k, assoc (recorded_method (snd (assembled d))) server_cc_methods = Some k -> tr HB k v <> Ok c) ->
    flow_d HB cf ce d cv t <> Tokens.
  Proof.
    intros Hp Hc Hv Hw Hf. destruct (transport_bound _ _ _ _ _ _ _ Hp Hc Hf) as (v' & k & Hv' & Hk & Ht).
    rewrite Hv in Hv'. inversion Hv'; subst. exact (Hw _ Hk Ht).
  Qed.

  (* in particular the verifier of a DIFFERENT challenge that travelled on the front channel *)
  Lemma transport_front_verifier_refused cf ce d p c c' cv t v :
    protected_of d = Some p -> fst p = Some c -> norm cv = Some v -> c' <> c ->
    (forall k, assoc (recorded_method (snd (assembled d))) server_cc_methods = Some k -> tr HB k v = Ok c') ->
    flow_d HB cf ce d cv t <> Tokens.
  Proof.
    intros Hp Hc Hv Hne Hf'. eapply transport_wrong_verifier_refused; eauto.
    intros k Hk Ht. rewrite (Hf' k Hk) in Ht. inversion Ht. contradiction.
  Qed.

  Lemma transport_missing_verifier_refused cf ce d p c cv t :
    protected_of d = Some p -> fst p = Some c -> norm cv = None ->
    flow_d HB cf ce d cv t = AzRefused 2 \/ flow_d HB cf ce d cv t = TkRefused 3.
  Proof.
    intros Hp Hc Hv. unfold flow_d. eapply missing_verifier_refused; [|exact Hv].
    rewrite norm_fst_assembled. eapply assembled_challenge_protected; eauto.
  Qed.

  (* essential: a challenge on the front channel does not make up for a pushed request / request object without one *)
  Lemma transport_essential_front_does_not_count cf ce d p cv t :
    essential_eff (pc_essential cf) ce = true ->
    protected_of d = Some p -> (forall o f, d <> DRef o f) -> fst p = None ->
    flow_d HB cf ce d cv t = AzRefused 1.
  Proof.
    intros He Hp Hn Hc. rewrite (flow_d_is_protected_flow _ _ _ _ _ _ Hp Hn).
    apply essential_refuses; [exact He|]. rewrite Hc. reflexivity.
  Qed.

  (* the complete pair of the protected request, a configured method, the right verifier: accepted, whatever the
     front channel carries *)
  Lemma transport_accepts cf ce d p c m k v t :
    protected_of d = Some p -> p = (Some c, Some m) -> In m (pc_methods cf) ->
    assoc m server_cc_methods = Some k -> v <> [] -> tr HB k v = Ok c ->
    flow_d HB cf ce d (Some v) t = Tokens.
  Proof.
    intros Hp -> Hin Hk Hv Ht.
    pose proof (assembled_challenge_protected _ _ _ Hp eq_refl) as Ha.
    pose proof (assembled_method_protected _ _ _ Hp eq_refl) as Hm.
    pose proof (protected_normal _ _ Hp) as Hnp. unfold npk in Hnp. cbn [fst snd] in Hnp. apply pair_equal_spec in Hnp as [Hc1 Hm1].
    assert (Hrm : recorded_method (Some m) = m).
    { unfold recorded_method. now rewrite Hm1. }
    unfold flow_d. rewrite Ha, Hm. apply tokens_iff. rewrite Hc1, Hrm. split.
    - pose proof (authn_leg_accepts cf ce (Some c) (Some m)) as H. rewrite Hc1, Hrm in H. apply H.
      + discriminate.
      + intros c' _. exact Hin.
    - right. exists c, v, k. repeat split; auto. now apply norm_of_nonempty.
  Qed.
End PT.

(* ================================================================ the log-in page (interactive authentication):
   request -> query of the page -> request rebuilt by the application *)
From Verif Require Lib.Qs Proofs.Qs_proofs.

Lemma assoc_app {V} k (a b : list (pystr * V)) :
  assoc k (a ++ b) = match assoc k a with Some v => Some v | None => assoc k b end.
Proof. induction a as [|[k' v'] r IH]; cbn; [reflexivity|]. destruct (str_eqb k k'); [reflexivity|exact IH]. Qed.

(* a per-parameter map of the values: looking a name up afterwards = mapping what was there before *)
Lemma assoc_map_val {V W} (f : pystr -> V -> W) k (r : list (pystr * V)) :
  assoc k (map (fun kv => (fst kv, f (fst kv) (snd kv))) r) = option_map (f k) (assoc k r).
Proof.
  induction r as [|[k' v'] r IH]; cbn; [reflexivity|].
  destruct (str_eqb k k') eqn:E; [|exact IH]. apply str_eqb_eq in E. now subst.
Qed.

Definition values_nonempty (r : rparams) : bool := forallb (fun kv => Qs.nonempty (ser (snd kv))) r.

Lemma wire_nonempty r : values_nonempty r = true -> forallb (fun kv => Qs.nonempty (snd kv)) (wire r) = true.
Proof.
  unfold values_nonempty, wire. induction r as [|[k v] r IH]; cbn; [reflexivity|].
  intro H. apply andb_true_iff in H as [H1 H2]. now rewrite H1, IH.
Qed.

(* the whole round trip is a per-parameter map: nothing is dropped, nothing is added, order is kept *)
Lemma resume_is_map lists r q :
  to_query r = Some q -> values_nonempty r = true ->
  resume lists r = Ok (map (fun kv => (fst kv, deser lists (fst kv) (ser (snd kv)))) r).
Proof.
  intros Hq Hv. unfold resume. rewrite Hq. unfold from_query, to_query in *.
  rewrite (Qs_proofs.parse_qsl_urlencode _ _ Hq (wire_nonempty _ Hv)). cbn [bind].
  unfold wire. rewrite map_map. reflexivity.
Qed.

(* a parameter the class does not declare with a list type - in particular every extension parameter - comes back
   with the text it went in with *)
Lemma resume_param lists r q k :
  to_query r = Some q -> values_nonempty r = true -> str_in k lists = false ->
  forall r', resume lists r = Ok r' -> option_map ser (assoc k r') = option_map ser (assoc k r).
Proof.
  intros Hq Hv Hk r' Hr. rewrite (resume_is_map _ _ _ Hq Hv) in Hr. inversion Hr; subst r'. clear Hr.
  rewrite (assoc_map_val (fun k v => deser lists k (ser v))).
  destruct (assoc k r) as [v|]; [|reflexivity]. cbn [option_map]. unfold deser. rewrite Hk. reflexivity.
Qed.

Lemma resume_pair lists r q r' :
  str_in k_cc lists = false -> str_in k_ccm lists = false ->
  to_query r = Some q -> values_nonempty r = true ->
  resume lists r = Ok r' -> qpair r' = qpair r.
Proof.
  intros H1 H2 Hq Hv Hr. unfold qpair.
  now rewrite (resume_param _ _ _ _ Hq Hv H1 _ Hr), (resume_param _ _ _ _ Hq Hv H2 _ Hr).
Qed.

Lemma k_cc_ne_ccm : str_eqb k_cc k_ccm = false /\ str_eqb k_ccm k_cc = false.
Proof. split; vm_compute; reflexivity. Qed.

(* the pair the held request carries is what post_authn_parse left *)
Lemma qpair_held others st :
  assoc k_cc others = None -> assoc k_ccm others = None -> qpair (held others st) = (fst st, Some (snd st)).
Proof.
  intros H1 H2. destruct k_cc_ne_ccm as [N1 N2]. unfold qpair, held. rewrite !assoc_app, H1, H2.
  destruct (fst st) as [c|]; cbn [assoc app]; rewrite ?str_eqb_refl, ?N1, ?N2; reflexivity.
Qed.

Lemma held_values_nonempty others st :
  values_nonempty others = true -> norm (fst st) = fst st -> snd st <> [] -> values_nonempty (held others st) = true.
Proof.
  intros Ho Hc Hm. unfold values_nonempty, held. rewrite !forallb_app. fold (values_nonempty others). rewrite Ho.
  cbn [andb]. apply andb_true_iff. split.
  - destruct (fst st) as [[|a c]|]; [discriminate|reflexivity|reflexivity].
  - cbn. destruct (snd st); [congruence|reflexivity].
Qed.

Lemma recorded_method_nonempty ccm : recorded_method ccm <> [].
Proof.
  unfold recorded_method. destruct ccm as [[|a m]|]; cbn [norm]; try discriminate; vm_compute; discriminate.
Qed.

Lemma recorded_d_normal cf ce d st :
  recorded_d cf ce d = Ok st -> norm (fst st) = fst st /\ snd st <> [].
Proof.
  unfold recorded_d. intro H. destruct (authn_leg_ok _ _ _ _ _ H) as (-> & _ & _). cbn [fst snd].
  split; [apply norm_idem|apply recorded_method_nonempty].
Qed.

(* side conditions of the round trip: the other parameters carry text and do not themselves spell a PKCE parameter;
   the request class does not declare the PKCE parameters with a list type; the page's query can be written *)
Definition resumable (lists : list pystr) (others : rparams) : Prop :=
  str_in k_cc lists = false /\ str_in k_ccm lists = false
  /\ assoc k_cc others = None /\ assoc k_ccm others = None /\ values_nonempty others = true.

(* THE statement of this part: the pair recorded for the code minted after the log-in page is the pair
   post_authn_parse accepted for the authorization request that led to the page *)
Lemma recorded_i_is_request_pair cf ce d lists others st q :
  resumable lists others -> recorded_d cf ce d = Ok st -> to_query (held others st) = Some q ->
  recorded_i cf ce d lists others = Ok (fst st, Some (snd st)).
Proof.
  intros (L1 & L2 & O1 & O2 & Ov) Hd Hq. unfold recorded_i. rewrite Hd. cbn [bind].
  destruct (recorded_d_normal _ _ _ _ Hd) as [Nc Nm].
  pose proof (held_values_nonempty _ _ Ov Nc Nm) as Hv.
  rewrite (resume_is_map _ _ _ Hq Hv). cbn [bind].
  erewrite resume_pair; [| exact L1 | exact L2 | exact Hq | exact Hv | apply (resume_is_map _ _ _ Hq Hv)].
  now rewrite qpair_held.
Qed.

Section PI.
  Variable HB : N -> pystr -> pystr.

  Lemma token_leg_q_stored st cv t : token_leg_q HB (fst st, Some (snd st)) cv t = token_leg HB st cv t.
  Proof. destruct st as [[c|] m]; reflexivity. Qed.

  (* an interactive flow is judged exactly like the same request answered without a log-in page *)
  Lemma flow_i_is_flow_d cf ce d lists others cv t :
    resumable lists others ->
    (forall st, recorded_d cf ce d = Ok st -> to_query (held others st) <> None) ->
    flow_i HB cf ce d lists others cv t = flow_d HB cf ce d cv t.
  Proof.
    intros R Hq. unfold flow_i, flow_d, flow. fold (recorded_d cf ce d).
    destruct (recorded_d cf ce d) as [st|e|] eqn:Hd; try reflexivity.
    specialize (Hq st eq_refl). destruct (to_query (held others st)) as [q|] eqn:Eq; [|congruence].
    pose proof (recorded_i_is_request_pair _ _ _ _ _ _ _ R Hd Eq) as Hr. unfold recorded_i in Hr. rewrite Hd in Hr.
    cbn [bind] in Hr. destruct (resume lists (held others st)) as [r'|e|]; cbn [bind] in Hr; try discriminate.
    assert (Hp : qpair r' = (fst st, Some (snd st))) by congruence.
    rewrite Hp, token_leg_q_stored. reflexivity.
  Qed.

  Lemma resumed_tokens_iff cf ce d lists others cv t :
    resumable lists others ->
    (forall st, recorded_d cf ce d = Ok st -> to_query (held others st) <> None) ->
    (flow_i HB cf ce d lists others cv t = Tokens <->
     recorded_d cf ce d = Ok (fst (assembled d), recorded_method (snd (assembled d)))
     /\ (fst (assembled d) = None \/
         exists c v k, fst (assembled d) = Some c /\ norm cv = Some v
                       /\ assoc (recorded_method (snd (assembled d))) server_cc_methods = Some k /\ tr HB k v = Ok c)).
  Proof.
    intros R Hq. rewrite (flow_i_is_flow_d _ _ _ _ _ _ _ R Hq). unfold flow_d, recorded_d.
    rewrite tokens_iff, norm_fst_assembled. reflexivity.
  Qed.

  Lemma resumed_bound cf ce d lists others cv t c :
    resumable lists others ->
    (forall st, recorded_d cf ce d = Ok st -> to_query (held others st) <> None) ->
    fst (assembled d) = Some c -> flow_i HB cf ce d lists others cv t = Tokens ->
    exists v k, norm cv = Some v
                /\ assoc (recorded_method (snd (assembled d))) server_cc_methods = Some k /\ tr HB k v = Ok c.
  Proof.
    intros R Hq Hc Hf. apply (resumed_tokens_iff _ _ _ _ _ _ _ R Hq) in Hf as [_ [Hn|(c' & v & k & Hc' & Hv & Hk & Ht)]].
    - congruence.
    - rewrite Hc in Hc'. inversion Hc'; subst. eauto.
  Qed.

  Lemma resumed_missing_verifier_refused cf ce d lists others cv t c :
    resumable lists others ->
    (forall st, recorded_d cf ce d = Ok st -> to_query (held others st) <> None) ->
    fst (assembled d) = Some c -> norm cv = None ->
    flow_i HB cf ce d lists others cv t = AzRefused 2 \/ flow_i HB cf ce d lists others cv t = TkRefused 3.
  Proof.
    intros R Hq Hc Hv. rewrite (flow_i_is_flow_d _ _ _ _ _ _ _ R Hq). unfold flow_d.
    eapply missing_verifier_refused; [|exact Hv]. rewrite norm_fst_assembled. exact Hc.
  Qed.

  Lemma resumed_wrong_verifier_refused cf ce d lists others cv t c v :
    resumable lists others ->
    (forall st, recorded_d cf ce d = Ok st -> to_query (held others st) <> None) ->
    fst (assembled d) = Some c -> norm cv = Some v ->
    (forall k, assoc (recorded_method (snd (assembled d))) server_cc_methods = Some k -> tr HB k v <> Ok c) ->
    flow_i HB cf ce d lists others cv t <> Tokens.
  Proof.
    intros R Hq Hc Hv Hw Hf. destruct (resumed_bound _ _ _ _ _ _ _ _ R Hq Hc Hf) as (v' & k & Hv' & Hk & Ht).
    rewrite Hv in Hv'. inversion Hv'; subst. exact (Hw _ Hk Ht).
  Qed.

  (* the other parameters of the request, and which of them the class declares as lists, have no say *)
  Lemma resumed_others_irrelevant cf ce d lists others lists' others' cv t :
    resumable lists others -> resumable lists' others' ->
    (forall st, recorded_d cf ce d = Ok st -> to_query (held others st) <> None) ->
    (forall st, recorded_d cf ce d = Ok st -> to_query (held others' st) <> None) ->
    flow_i HB cf ce d lists others cv t = flow_i HB cf ce d lists' others' cv t.
  Proof. intros R R' Hq Hq'. now rewrite !flow_i_is_flow_d. Qed.
End PI.

(* a page whose query is written from the DECLARED parameters only loses the binding: the guard "every parameter the
   request holds is written" of resume_is_map is what carries the theorem.  declared_only is what such a page does. *)
Definition declared_only (declared : list pystr) (r : rparams) : rparams :=
  filter (fun kv => str_in (fst kv) declared) r.
Lemma declared_only_drops_pair declared r :
  str_in k_cc declared = false -> fst (qpair (declared_only declared r)) = None.
Proof.
  intro H. unfold qpair, declared_only. cbn [fst].
  assert (assoc k_cc (filter (fun kv => str_in (fst kv) declared) r) = None) as ->; [|reflexivity].
  induction r as [|[k v] r IH]; [reflexivity|]. cbn [filter fst].
  destruct (str_in k declared) eqn:E; [|exact IH]. cbn [assoc].
  destruct (str_eqb k_cc k) eqn:E2; [|exact IH]. apply str_eqb_eq in E2. subst. congruence.
Qed.

(* ================================================================ extension parameters; whether the hooks run *)
(* the loop never looks at the members of a request: the first hook is applied to EVERY request *)
Lemma post_parse_runs h hs r : post_parse (h :: hs) (PReq r) = post_parse hs (h r).
Proof. reflexivity. Qed.

(* hooks in front that leave a request as it is (whatever it carries) do not keep a later hook from running *)
Lemma post_parse_transparent pre hs r :
  (forall h, In h pre -> h r = PReq r) -> post_parse (pre ++ hs) (PReq r) = post_parse hs (PReq r).
Proof.
  induction pre as [|h pre IH]; intro H; [reflexivity|]. cbn [app post_parse].
  rewrite (H h (or_introl eq_refl)). apply IH. intros h' Hin. apply H. now right.
Qed.

Lemma sget_skip k x r : assoc k x = None -> sget k (x ++ r) = sget k r.
Proof. intro H. unfold sget. now rewrite assoc_app, H. Qed.

Lemma sget_pk_members p : sget k_cc (pk_members p) = fst p /\ sget k_ccm (pk_members p) = snd p.
Proof. destruct p as [[c|] [m|]]; split; reflexivity. Qed.

Lemma sget_tk_members cv t : sget k_cv (tk_members cv t) = cv /\ sget k_ccm (tk_members cv t) = t.
Proof. destruct cv, t; split; reflexivity. Qed.

(* the authorization hook applied to a request = post_authn_parse on the two parameters it reads by name *)
Lemma authz_leg_x_reads cf ce r :
  authz_leg_x cf ce r = authn_leg cf ce (sget k_cc r) (sget k_ccm r).
Proof.
  unfold authz_leg_x. rewrite post_parse_runs. cbn [post_parse]. unfold authn_hook.
  destruct (authn_leg cf ce (sget k_cc r) (sget k_ccm r)) as [st|e|] eqn:E.
  - apply authn_leg_ok in E as (-> & _ & _). cbn [snd].
    assert (sget k_ccm ((k_ccm, PvS (recorded_method (sget k_ccm r))) :: r) = Some (recorded_method (sget k_ccm r))) as ->
      by (unfold sget; cbn [assoc]; now rewrite str_eqb_refl).
    assert (sget k_cc ((k_ccm, PvS (recorded_method (sget k_ccm r))) :: r) = sget k_cc r) as ->
      by (unfold sget; cbn [assoc]; now rewrite (proj1 k_cc_ne_ccm)).
    reflexivity.
  - destruct e; reflexivity.
  - exfalso. unfold authn_leg in E.
    repeat match type of E with context [if ?b then _ else _] => destruct b end;
    try discriminate; destruct (norm (sget k_cc r)); try discriminate;
    repeat match type of E with context [if ?b then _ else _] => destruct b end; discriminate.
Qed.

(* extension parameters of the authorization request have no say: what is recorded for the code is what the
   assembled PKCE pair alone decides *)
Lemma authz_extras_irrelevant cf ce d ax :
  assoc k_cc ax = None -> assoc k_ccm ax = None ->
  authz_leg_x cf ce (ax ++ pk_members (assembled d)) = recorded_d cf ce d.
Proof.
  intros H1 H2. rewrite authz_leg_x_reads, !sget_skip by assumption.
  destruct (sget_pk_members (assembled d)) as [-> ->]. reflexivity.
Qed.

Section PX.
  Variable HB : N -> pystr -> pystr.

  Lemma token_hook_reads st tx cv t :
    assoc k_cv tx = None -> assoc k_ccm tx = None ->
    post_parse [token_hook HB st] (PReq (tx ++ tk_members cv t))
    = match token_leg HB st cv t with
      | Ok _ => PReq (tx ++ tk_members cv t)
      | Err (Refused n) => PErr n
      | Err e => PRaise e
      | Unmodelled => PRaise TypeError
      end.
  Proof.
    intros H1 H2. rewrite post_parse_runs. cbn [post_parse]. unfold token_hook.
    rewrite !sget_skip by assumption. destruct (sget_tk_members cv t) as [-> ->]. reflexivity.
  Qed.

  (* THE statement: forall extras, flow (rq + extras) = flow rq *)
  Lemma flow_x_extras_irrelevant cf ce d ax tx cv t :
    assoc k_cc ax = None -> assoc k_ccm ax = None -> assoc k_cv tx = None -> assoc k_ccm tx = None ->
    flow_x HB cf ce d ax tx cv t = flow_d HB cf ce d cv t.
  Proof.
    intros A1 A2 T1 T2. unfold flow_x, flow_d, flow. rewrite (authz_extras_irrelevant _ _ _ _ A1 A2).
    unfold recorded_d. destruct (authn_leg cf ce (fst (assembled d)) (snd (assembled d))) as [st|e|]; [|reflexivity|reflexivity].
    rewrite (token_hook_reads _ _ _ _ T1 T2). destruct (token_leg HB st cv t) as [u|e|]; [reflexivity| |reflexivity].
    destruct e; reflexivity.
  Qed.

  (* extension parameters change neither verdict: same flow with other extension parameters *)
  Lemma flow_x_any_extras cf ce d ax tx ax' tx' cv t :
    assoc k_cc ax = None -> assoc k_ccm ax = None -> assoc k_cv tx = None -> assoc k_ccm tx = None ->
    assoc k_cc ax' = None -> assoc k_ccm ax' = None -> assoc k_cv tx' = None -> assoc k_ccm tx' = None ->
    flow_x HB cf ce d ax tx cv t = flow_x HB cf ce d ax' tx' cv t.
  Proof. intros. now rewrite !flow_x_extras_irrelevant. Qed.

  (* with PKCE essential a request without a challenge gets no code, whatever else it carries *)
  Lemma flow_x_essential cf ce d ax tx cv t :
    assoc k_cc ax = None -> assoc k_ccm ax = None -> assoc k_cv tx = None -> assoc k_ccm tx = None ->
    essential_eff (pc_essential cf) ce = true -> fst (assembled d) = None ->
    flow_x HB cf ce d ax tx cv t = AzRefused 1.
  Proof.
    intros A1 A2 T1 T2 He Hc. rewrite flow_x_extras_irrelevant by assumption. unfold flow_d, flow.
    rewrite authn_leg_missing; [reflexivity|exact He|now rewrite Hc].
  Qed.

  (* the interactive variant *)
  Lemma flow_ix_extras_irrelevant cf ce d lists others ax tx cv t :
    resumable lists others -> resumable lists (others ++ ax) ->
    (forall st, recorded_d cf ce d = Ok st -> to_query (held others st) <> None) ->
    (forall st, recorded_d cf ce d = Ok st -> to_query (held (others ++ ax) st) <> None) ->
    assoc k_cv tx = None -> assoc k_ccm tx = None ->
    flow_ix HB cf ce d lists others ax tx cv t = flow_i HB cf ce d lists others cv t.
  Proof.
    intros R R' Q Q' T1 T2. unfold flow_ix. rewrite !sget_skip by assumption.
    destruct (sget_tk_members cv t) as [-> ->].
    now apply resumed_others_irrelevant.
  Qed.
End PX.
