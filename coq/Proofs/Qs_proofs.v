(* Proofs/Qs_proofs.v — UTF-8 and query-string round trips (Lib/Utf8.v, Lib/Qs.v over Lib/Urlenc.v). *)
From Verif Require Import Lib.Base Lib.PyStr Lib.Urlenc Lib.Utf8 Lib.Qs.
Open Scope N_scope.

(* ---------------------------------------------------------------- UTF-8 *)
Lemma enc1_bytes c : c < 1114112 -> Forall (fun b => b < 256) (utf8_enc1 c).
Proof.
  intros H. unfold utf8_enc1.
  destruct (c <? 128) eqn:E1; [apply N.ltb_lt in E1; repeat constructor; lia|].
  destruct (c <? 2048) eqn:E2.
  { apply N.ltb_lt in E2. repeat constructor.
    - assert (c / 64 < 32) by (apply N.div_lt_upper_bound; lia). lia.
    - assert (c mod 64 < 64) by (apply N.mod_lt; lia). lia. }
  destruct (c <? 65536) eqn:E3.
  { apply N.ltb_lt in E3. repeat constructor.
    - assert (c / 4096 < 16) by (apply N.div_lt_upper_bound; lia). lia.
    - assert ((c / 64) mod 64 < 64) by (apply N.mod_lt; lia). lia.
    - assert (c mod 64 < 64) by (apply N.mod_lt; lia). lia. }
  repeat constructor.
  - assert (c / 262144 < 5) by (apply N.div_lt_upper_bound; lia). lia.
  - assert ((c / 4096) mod 64 < 64) by (apply N.mod_lt; lia). lia.
  - assert ((c / 64) mod 64 < 64) by (apply N.mod_lt; lia). lia.
  - assert (c mod 64 < 64) by (apply N.mod_lt; lia). lia.
Qed.

Lemma is_scalar_lt c : is_scalar c = true -> c < 1114112.
Proof.
  unfold is_scalar. intros H. apply orb_true_iff in H as [H|H].
  - apply N.ltb_lt in H. lia.
  - apply andb_true_iff in H as [_ H]. now apply N.ltb_lt in H.
Qed.

Lemma cont_ok x : x < 64 -> is_cont (128 + x) = true.
Proof. intros H. unfold is_cont. apply andb_true_iff. split; [apply N.leb_le|apply N.ltb_lt]; lia. Qed.

(* lia (zify) chokes on hypotheses of the form  is_scalar c = true : drop them first *)
Ltac sc_lia := repeat match goal with H : is_scalar _ = _ |- _ => clear H end; lia.

Lemma dec_enc1 c r : is_scalar c = true ->
  utf8_decode (utf8_enc1 c ++ r) = option_map (cons c) (utf8_decode r).
Proof.
  intros Hs. pose proof (is_scalar_lt c Hs) as Hlt. assert (NZ : 64 <> 0) by sc_lia. unfold utf8_enc1.
  destruct (c <? 128) eqn:E1.
  { cbn [app utf8_decode]. now rewrite E1. }
  apply N.ltb_ge in E1.
  destruct (c <? 2048) eqn:E2.
  { apply N.ltb_lt in E2.
    assert (DM := N.div_mod c 64 NZ).
    assert (c mod 64 < 64) as M by (apply N.mod_lt; sc_lia).
    assert (c / 64 < 32) as D by (apply N.div_lt_upper_bound; sc_lia).
    assert (2 <= c / 64) as D2 by (apply N.div_le_lower_bound; sc_lia).
    cbn [app utf8_decode].
    assert (192 + c / 64 <? 128 = false) as -> by (apply N.ltb_ge; sc_lia).
    assert (192 + c / 64 <? 192 = false) as -> by (apply N.ltb_ge; sc_lia).
    assert (192 + c / 64 <? 224 = true) as -> by (apply N.ltb_lt; sc_lia).
    rewrite cont_ok by exact M.
    pose proof (N.le_0_l (c mod 64)) as P0.
    assert (A1 : 192 + c / 64 - 192 = c / 64) by sc_lia. assert (A0 : 128 + c mod 64 - 128 = c mod 64) by sc_lia.
    rewrite A1, A0. replace (c / 64 * 64 + c mod 64) with c by sc_lia.
    assert (128 <=? c = true) as -> by (apply N.leb_le; sc_lia). reflexivity. }
  apply N.ltb_ge in E2.
  destruct (c <? 65536) eqn:E3.
  { apply N.ltb_lt in E3.
    assert (DM := N.div_mod c 64 NZ).
    assert (DM2 := N.div_mod (c / 64) 64 NZ).
    assert (c / 64 / 64 = c / 4096) as DD by (rewrite N.div_div by sc_lia; reflexivity).
    assert (c mod 64 < 64) as M by (apply N.mod_lt; sc_lia).
    assert ((c / 64) mod 64 < 64) as M2 by (apply N.mod_lt; sc_lia).
    assert (c / 4096 < 16) as D by (apply N.div_lt_upper_bound; sc_lia).
    cbn [app utf8_decode].
    assert (224 + c / 4096 <? 128 = false) as -> by (apply N.ltb_ge; sc_lia).
    assert (224 + c / 4096 <? 192 = false) as -> by (apply N.ltb_ge; sc_lia).
    assert (224 + c / 4096 <? 224 = false) as -> by (apply N.ltb_ge; sc_lia).
    assert (224 + c / 4096 <? 240 = true) as -> by (apply N.ltb_lt; sc_lia).
    rewrite !cont_ok by assumption.
    pose proof (N.le_0_l (c mod 64)) as P0. pose proof (N.le_0_l ((c / 64) mod 64)) as P1. pose proof (N.le_0_l (c / 4096)) as P2.
    assert (A2 : 224 + c / 4096 - 224 = c / 4096) by sc_lia.
    assert (A1 : 128 + (c / 64) mod 64 - 128 = (c / 64) mod 64) by sc_lia.
    assert (A0 : 128 + c mod 64 - 128 = c mod 64) by sc_lia.
    rewrite A2, A1, A0. replace (c / 4096 * 4096 + (c / 64) mod 64 * 64 + c mod 64) with c by sc_lia.
    assert (2048 <=? c = true) as -> by (apply N.leb_le; sc_lia). rewrite Hs. reflexivity. }
  apply N.ltb_ge in E3.
  assert (DM := N.div_mod c 64 NZ).
  assert (DM2 := N.div_mod (c / 64) 64 NZ).
  assert (DM3 := N.div_mod (c / 4096) 64 NZ).
  assert (c / 64 / 64 = c / 4096) as DD by (rewrite N.div_div by sc_lia; reflexivity).
  assert (c / 4096 / 64 = c / 262144) as DD2 by (rewrite N.div_div by sc_lia; reflexivity).
  assert (c mod 64 < 64) as M by (apply N.mod_lt; sc_lia).
  assert ((c / 64) mod 64 < 64) as M2 by (apply N.mod_lt; sc_lia).
  assert ((c / 4096) mod 64 < 64) as M3 by (apply N.mod_lt; sc_lia).
  assert (c / 262144 < 5) as D by (apply N.div_lt_upper_bound; sc_lia).
  cbn [app utf8_decode].
  assert (240 + c / 262144 <? 128 = false) as -> by (apply N.ltb_ge; sc_lia).
  assert (240 + c / 262144 <? 192 = false) as -> by (apply N.ltb_ge; sc_lia).
  assert (240 + c / 262144 <? 224 = false) as -> by (apply N.ltb_ge; sc_lia).
  assert (240 + c / 262144 <? 240 = false) as -> by (apply N.ltb_ge; sc_lia).
  assert (240 + c / 262144 <? 248 = true) as -> by (apply N.ltb_lt; sc_lia).
  rewrite !cont_ok by assumption.
  pose proof (N.le_0_l (c mod 64)) as P0. pose proof (N.le_0_l ((c / 64) mod 64)) as P1.
  pose proof (N.le_0_l ((c / 4096) mod 64)) as P2. pose proof (N.le_0_l (c / 262144)) as P3.
  assert (A3 : 240 + c / 262144 - 240 = c / 262144) by sc_lia.
  assert (A2 : 128 + (c / 4096) mod 64 - 128 = (c / 4096) mod 64) by sc_lia.
  assert (A1 : 128 + (c / 64) mod 64 - 128 = (c / 64) mod 64) by sc_lia.
  assert (A0 : 128 + c mod 64 - 128 = c mod 64) by sc_lia.
  rewrite A3, A2, A1, A0.
  replace (c / 262144 * 262144 + (c / 4096) mod 64 * 4096 + (c / 64) mod 64 * 64 + c mod 64) with c by sc_lia.
  assert (65536 <=? c = true) as -> by (apply N.leb_le; sc_lia).
  assert (c <? 1114112 = true) as -> by (apply N.ltb_lt; sc_lia). reflexivity.
Qed.

Theorem utf8_roundtrip s b : utf8_encode s = Some b -> utf8_decode b = Some s.
Proof.
  unfold utf8_encode. destruct (forallb is_scalar s) eqn:H; [|discriminate]. intros E. inversion E; subst b. clear E.
  induction s as [|c s IH]; [reflexivity|]. cbn in H. apply andb_true_iff in H as [Hc Hs].
  cbn [flat_map]. rewrite dec_enc1 by exact Hc. rewrite IH by exact Hs. reflexivity.
Qed.

Lemma utf8_bytes s b : utf8_encode s = Some b -> is_bytes b.
Proof.
  unfold utf8_encode. destruct (forallb is_scalar s) eqn:H; [|discriminate]. intros E. inversion E; subst b. clear E.
  induction s as [|c s IH]; [constructor|]. cbn in H. apply andb_true_iff in H as [Hc Hs].
  cbn [flat_map]. apply Forall_app. split; [apply enc1_bytes, is_scalar_lt, Hc | now apply IH].
Qed.

Lemma utf8_nonempty s b : utf8_encode s = Some b -> s <> [] -> b <> [].
Proof.
  unfold utf8_encode. destruct (forallb is_scalar s); [|discriminate]. intros E Hne. inversion E; subst b.
  destruct s as [|c s]; [congruence|]. cbn [flat_map]. unfold utf8_enc1.
  destruct (c <? 128); [discriminate|]. destruct (c <? 2048); [discriminate|]. destruct (c <? 65536); discriminate.
Qed.

(* ---------------------------------------------------------------- quote_plus on str *)
Definition ascii1 (c : N) : bool := forallb (fun x => x <? 128) (quote1 c).
Lemma sweep_ascii : forallb ascii1 all_bytes = true. Proof. vm_compute. reflexivity. Qed.
Lemma in_all_bytes c : c < 256 -> In c all_bytes.
Proof. intros H. unfold all_bytes. apply in_map_iff. exists (N.to_nat c). split; [apply N2Nat.id|]. apply in_seq. lia. Qed.
Lemma quote_ascii s : is_bytes s -> forallb (fun x => x <? 128) (quote_plus s) = true.
Proof.
  induction 1 as [|c s Hc _ IH]; [reflexivity|]. cbn [quote_plus flat_map]. fold (quote_plus s).
  rewrite forallb_app, IH, andb_true_r.
  pose proof sweep_ascii as S. rewrite forallb_forall in S. apply (S c). now apply in_all_bytes.
Qed.
Lemma quote1_nonempty c : quote1 c <> [].
Proof. unfold quote1. destruct (unreserved c); [discriminate|]. destruct (c =? 32); discriminate. Qed.
Lemma quote_nonempty s : s <> [] -> quote_plus s <> [].
Proof.
  destruct s as [|c s]; [congruence|]. intros _. cbn [quote_plus flat_map].
  pose proof (quote1_nonempty c). destruct (quote1 c); [congruence|discriminate].
Qed.

Lemma forallb_impl {A} (P Q : A -> bool) l :
  (forall x, P x = true -> Q x = true) -> forallb P l = true -> forallb Q l = true.
Proof. intros H. rewrite !forallb_forall. auto. Qed.

Lemma quote_str_rt s q : quote_str s = Some q -> unquote_str q = Some s.
Proof.
  unfold quote_str, unquote_str. destruct (utf8_encode s) as [b|] eqn:E; [|discriminate].
  intros Q. inversion Q; subst q. rewrite unquote_quote by (eapply utf8_bytes; eauto). now apply utf8_roundtrip.
Qed.
Lemma quote_str_props s q : quote_str s = Some q ->
  is_ascii q = true /\ no_c amp q = true /\ no_c eqs q = true /\ (s <> [] -> q <> []).
Proof.
  unfold quote_str. destruct (utf8_encode s) as [b|] eqn:E; [|discriminate].
  intros Q. inversion Q; subst q. pose proof (utf8_bytes _ _ E) as Hb.
  pose proof (quote_delim_free b Hb) as D.
  repeat split.
  - now apply quote_ascii.
  - unfold no_c. eapply forallb_impl; [|exact D]. intros x Hx. cbn beta in Hx.
    apply negb_true_iff in Hx. apply orb_false_iff in Hx as [Hx _]. apply orb_false_iff in Hx as [Hx _].
    apply orb_false_iff in Hx as [Hx _]. unfold amp. now rewrite Hx.
  - unfold no_c. eapply forallb_impl; [|exact D]. intros x Hx. cbn beta in Hx.
    apply negb_true_iff in Hx. apply orb_false_iff in Hx as [Hx _]. apply orb_false_iff in Hx as [Hx _].
    apply orb_false_iff in Hx as [_ Hx]. unfold eqs. now rewrite Hx.
  - intros Hne. apply quote_nonempty. eapply utf8_nonempty; eauto.
Qed.

(* ---------------------------------------------------------------- parse_qsl (urlencode l) = l *)

Lemma join_forallb (P : N -> bool) sep l :
  forallb P sep = true -> forallb (forallb P) l = true -> forallb P (join sep l) = true.
Proof.
  intros Hs. induction l as [|x r IH]; [reflexivity|]. intros H. cbn in H. apply andb_true_iff in H as [Hx Hr].
  destruct r as [|y r']; [exact Hx|].
  change (join sep (x :: y :: r')) with (x ++ sep ++ join sep (y :: r')).
  rewrite !forallb_app, Hx, Hs, (IH Hr). reflexivity.
Qed.
Lemma join_nonempty sep x r : x <> [] -> join sep (x :: r) <> [].
Proof. intros H. destruct r; cbn; [exact H|]. destruct x; [congruence|discriminate]. Qed.

Lemma encode_pairs_spec l fs :
  encode_pairs l = Some fs -> forallb (fun kv => nonempty (snd kv)) l = true ->
  parse_fields fs = Ok l /\ forallb (no_c amp) fs = true /\ forallb is_ascii fs = true
  /\ forallb nonempty fs = true /\ length fs = length l.
Proof.
  revert fs. induction l as [|[k v] r IH]; intros fs E Hv.
  - cbn in E. inversion E. repeat split; reflexivity.
  - cbn [encode_pairs] in E.
    destruct (quote_str k) as [k'|] eqn:Ek; [|discriminate].
    destruct (quote_str v) as [v'|] eqn:Ev; [|discriminate].
    destruct (encode_pairs r) as [r'|] eqn:Er; [|discriminate].
    inversion E; subst fs. clear E.
    cbn [forallb snd] in Hv. apply andb_true_iff in Hv as [Hv Hr].
    destruct (IH r' eq_refl Hr) as (P1 & P2 & P3 & P4 & P5).
    destruct (quote_str_props _ _ Ek) as (Ka & Kamp & Keq & _).
    destruct (quote_str_props _ _ Ev) as (Va & Vamp & Veq & Vne).
    assert (Hvne : v' <> []) by (apply Vne; destruct v; [discriminate|congruence]).
    repeat split.
    + cbn [parse_fields]. rewrite P1. cbn [bind].
      destruct (k' ++ eqs :: v') eqn:F; [destruct k'; discriminate|]. rewrite <- F.
      rewrite split1_c_digits by exact Keq.
      destruct v' as [|c0 v0]; [congruence|].
      rewrite (quote_str_rt _ _ Ek), (quote_str_rt _ _ Ev). reflexivity.
    + cbn [forallb]. rewrite P2, andb_true_r. unfold no_c in *. rewrite forallb_app. cbn [forallb].
      rewrite Kamp, Vamp. reflexivity.
    + cbn [forallb]. rewrite P3, andb_true_r. unfold is_ascii in *. rewrite forallb_app. cbn [forallb].
      rewrite Ka, Va. reflexivity.
    + cbn [forallb]. rewrite P4, andb_true_r. destruct k'; reflexivity.
    + cbn [length]. now rewrite P5.
Qed.

Theorem parse_qsl_urlencode l t :
  urlencode l = Some t -> forallb (fun kv => nonempty (snd kv)) l = true -> parse_qsl t = Ok l.
Proof.
  unfold urlencode. destruct (encode_pairs l) as [fs|] eqn:E; [|discriminate]. intros T Hv.
  inversion T; subst t. clear T.
  destruct (encode_pairs_spec _ _ E Hv) as (P1 & P2 & P3 & P4 & P5).
  unfold parse_qsl.
  assert (A : is_ascii (join [amp] fs) = true).
  { unfold is_ascii. apply join_forallb; [reflexivity|exact P3]. }
  rewrite A. cbn [negb].
  destruct fs as [|f fs'].
  - destruct l; [reflexivity|discriminate].
  - cbn [forallb] in P4. apply andb_true_iff in P4 as [Pf _].
    assert (Hf : f <> []) by (destruct f; [discriminate|congruence]).
    pose proof (join_nonempty [amp] f fs' Hf) as Hj.
    destruct (join [amp] (f :: fs')) eqn:J; [congruence|]. rewrite <- J.
    rewrite split_c_join; [exact P1|congruence|exact P2].
Qed.
