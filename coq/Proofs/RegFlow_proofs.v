(* Proofs/RegFlow_proofs.v — property C06, registration -> stored form -> authorization.
   The loop of verify_redirect_uris is a map: the stored form of the i-th redirect URI of a registration
   request depends on that URI and the application type only (not on its neighbours, not on its position,
   not on the order of the list), and what the authorization endpoint serves afterwards matches the own
   (base, query) split of ONE of the URIs the client sent. *)
From Coq Require Import String List Permutation.
From Verif Require Import Lib.Base Lib.PyStr.
From Verif Require Model.RegUri Model.Registration.
From Verif Require Import Model.Uri Model.RegFlow Proofs.Uri_proofs.
Import ListNotations.
Open Scope N_scope.

(* ------------------------------------------------------------------ the loop is a map *)
Lemma store_list_cons ct mh u r :
  store_list ct mh (u :: r) = (x <- store1 ct mh u ;; xs <- store_list ct mh r ;; Ok (x :: xs)).
Proof. reflexivity. Qed.

Lemma store_list_is_map ct mh l : store_list ct mh l = mapM (store1 ct mh) l.
Proof.
  induction l as [|u r IH]; [reflexivity|].
  rewrite store_list_cons. cbn [mapM]. rewrite IH. reflexivity.
Qed.

Lemma store_list_pointwise ct mh l st :
  store_list ct mh l = Ok st <-> Forall2 (fun u x => store1 ct mh u = Ok x) l st.
Proof.
  revert st. induction l as [|u r IH]; intros st.
  - split; intros H.
    + cbv in H. inversion H. constructor.
    + inversion H. reflexivity.
  - rewrite store_list_cons. split; intros H.
    + destruct (store1 ct mh u) as [x| |] eqn:V; cbn [bind] in H; try discriminate.
      destruct (store_list ct mh r) as [xs| |] eqn:R; cbn [bind] in H; try discriminate.
      inversion H; subst. constructor; [exact V|]. apply IH. reflexivity.
    + inversion H as [|? x ? xs V T]; subst. rewrite V. cbn [bind].
      apply IH in T. rewrite T. reflexivity.
Qed.

Lemma Forall2_nth {A B} (R : A -> B -> Prop) l st :
  Forall2 R l st -> forall i u, nth_error l i = Some u -> exists x, nth_error st i = Some x /\ R u x.
Proof.
  induction 1 as [|a b l st Hab _ IH]; intros i u Hn.
  - destruct i; discriminate.
  - destruct i as [|i]; cbn in *.
    + inversion Hn; subst. eauto.
    + eauto.
Qed.

Lemma Forall2_in_r {A B} (R : A -> B -> Prop) l st :
  Forall2 R l st -> forall x, In x st -> exists u, In u l /\ R u x.
Proof.
  induction 1 as [|a b l st Hab _ IH]; intros x Hin.
  - destruct Hin.
  - destruct Hin as [->|Hin].
    + exists a. split; [left; reflexivity|exact Hab].
    + destruct (IH x Hin) as (u & Hu & Hr). exists u. split; [right; exact Hu|exact Hr].
Qed.

Lemma Forall2_len {A B} (R : A -> B -> Prop) l st : Forall2 R l st -> length st = length l.
Proof. induction 1; cbn; congruence. Qed.

(* the i-th stored pair is the stored form of the i-th URI *)
Lemma store_list_nth ct mh l st :
  store_list ct mh l = Ok st ->
  length st = length l /\
  forall i u, nth_error l i = Some u -> exists x, nth_error st i = Some x /\ store1 ct mh u = Ok x.
Proof.
  intros H. apply store_list_pointwise in H. split.
  - eapply Forall2_len; eauto.
  - intros i u Hn. eapply (Forall2_nth _ _ _ H); eauto.
Qed.

(* neighbours and position are irrelevant: the same URI in two accepted lists has the same stored form *)
Lemma store_neighbours_irrelevant ct mh l l' st st' i j u :
  store_list ct mh l = Ok st -> store_list ct mh l' = Ok st' ->
  nth_error l i = Some u -> nth_error l' j = Some u ->
  exists x, nth_error st i = Some x /\ nth_error st' j = Some x /\ store1 ct mh u = Ok x.
Proof.
  intros H H' Hn Hn'.
  destruct (proj2 (store_list_nth _ _ _ _ H) _ _ Hn) as (x & Hx & Vx).
  destruct (proj2 (store_list_nth _ _ _ _ H') _ _ Hn') as (x' & Hx' & Vx').
  rewrite Vx in Vx'. inversion Vx'; subst. eauto.
Qed.

(* a list is accepted exactly when each of its URIs is, on its own *)
Lemma store_list_accepts ct mh l :
  (exists st, store_list ct mh l = Ok st) <-> Forall (fun u => exists x, store1 ct mh u = Ok x) l.
Proof.
  induction l as [|u r IH].
  - split; [constructor|]. intros _. exists []. reflexivity.
  - rewrite store_list_cons. split.
    + intros (st & H).
      destruct (store1 ct mh u) as [x| |] eqn:V; cbn [bind] in H; try discriminate.
      destruct (store_list ct mh r) as [xs| |] eqn:R; cbn [bind] in H; try discriminate.
      constructor; [eauto|]. apply IH. eauto.
    + intros H. inversion H as [|? ? (x & V) T]; subst. apply IH in T. destruct T as (xs & R).
      exists (x :: xs). rewrite V, R. reflexivity.
Qed.

Lemma store_list_app ct mh l1 l2 st :
  store_list ct mh (l1 ++ l2) = Ok st <->
  exists s1 s2, store_list ct mh l1 = Ok s1 /\ store_list ct mh l2 = Ok s2 /\ st = s1 ++ s2.
Proof.
  rewrite store_list_pointwise. split.
  - intros H. apply Forall2_app_inv_l in H. destruct H as (s1 & s2 & H1 & H2 & ->).
    exists s1, s2. rewrite !store_list_pointwise. auto.
  - intros (s1 & s2 & H1 & H2 & ->). apply Forall2_app; apply store_list_pointwise; assumption.
Qed.

(* any order of the list: the same pairs, in the order of the URIs *)
Lemma store_list_perm ct mh l l' :
  Permutation l l' -> forall st, store_list ct mh l = Ok st ->
  exists st', store_list ct mh l' = Ok st' /\ Permutation st st'.
Proof.
  induction 1 as [|u l l' _ IH|u v l|l l' l'' _ IH1 _ IH2]; intros st H.
  - exists st. split; [exact H|apply Permutation_refl].
  - rewrite store_list_cons in H.
    destruct (store1 ct mh u) as [x| |] eqn:V; cbn [bind] in H; try discriminate.
    destruct (store_list ct mh l) as [xs| |] eqn:R; cbn [bind] in H; try discriminate.
    inversion H; subst. destruct (IH xs eq_refl) as (xs' & R' & P).
    exists (x :: xs'). rewrite store_list_cons, V, R'. split; [reflexivity|constructor; exact P].
  - rewrite !store_list_cons in H.
    destruct (store1 ct mh v) as [y| |] eqn:Vy; cbn [bind] in H; try discriminate.
    destruct (store1 ct mh u) as [x| |] eqn:Vx; cbn [bind] in H; try discriminate.
    destruct (store_list ct mh l) as [xs| |] eqn:R; cbn [bind] in H; try discriminate.
    inversion H; subst. exists (x :: y :: xs).
    rewrite !store_list_cons, Vx, Vy, R. split; [reflexivity|apply perm_swap].
  - destruct (IH1 st H) as (st1 & H1 & P1). destruct (IH2 st1 H1) as (st2 & H2 & P2).
    exists st2. split; [exact H2|eapply Permutation_trans; eauto].
Qed.

(* ------------------------------------------------------------------ the stored form of one URI is its own split *)
(* split_uri of THIS URI (custom-scheme URIs of native clients included, since the repair d77dc7b) *)
Lemma store1_own ct mh u x : store1 ct mh u = Ok x -> Registration.do_split u = Ok x.
Proof.
  unfold store1, Registration.verify_one. intros H.
  destruct (RegUri.urlsplit u) as [p| |]; cbn [bind] in H; try discriminate.
  repeat match type of H with
         | (if ?c then _ else _) = _ => destruct c eqn:?; try discriminate
         end;
    exact H.
Qed.

Lemma do_split_own u x :
  Registration.do_split u = Ok x ->
  exists p, RegUri.urlsplit u = Ok p /\
    fst x = RegUri.urlunsplit (RegUri.u_scheme p) (RegUri.u_netloc p) (RegUri.u_path p) [] [] /\
    match RegUri.u_query p with
    | [] => snd x = []
    | q => RegUri.parse_qs q = Ok (snd x)
    end.
Proof.
  unfold Registration.do_split, RegUri.split_uri. intros H.
  destruct (RegUri.urlsplit u) as [p| |]; cbn [bind] in H; try discriminate.
  exists p. split; [reflexivity|].
  destruct (RegUri.u_query p) as [|c q] eqn:Q; cbn [bind] in H.
  - inversion H; subst. split; reflexivity.
  - destruct (RegUri.parse_qs (c :: q)) as [d| |]; cbn [bind] in H; try discriminate.
    inversion H; subst. split; reflexivity.
Qed.

(* ------------------------------------------------------------------ the registration response *)
Lemma register_echo ct co l st ec :
  register ct co l = Ok (st, ec) ->
  store_list ct (must_https ct co) l = Ok st /\ ec = List.map echo1 st /\ length ec = length l.
Proof.
  unfold register. intros H.
  destruct (store_list ct (must_https ct co) l) as [s| |] eqn:S; cbn [bind] in H; try discriminate.
  inversion H; subst. split; [reflexivity|]. split; [reflexivity|].
  rewrite map_length. apply (store_list_nth _ _ _ _ S).
Qed.

(* ------------------------------------------------------------------ registration, then authorization *)
Lemma parse_reg_to_reg x rp : parse_reg (to_reg x) = Ok rp -> snd rp = snd x /\ urlparse (fst x) = Ok (fst rp).
Proof.
  unfold to_reg, parse_reg. intros H.
  destruct (urlparse (fst x)) as [p| |]; cbn [bind] in H; try discriminate.
  inversion H; subst. split; reflexivity.
Qed.

(* Whatever the authorization endpoint serves for a dynamically registered client was matched against the
   stored form of ONE URI of the registration request, and that stored form is store1 of that URI alone. *)
Lemma served_after_registration ct co l oidc u v :
  decide_registered ct co l oidc (Some u) = Redirectable v ->
  v = u /\
  exists uri x, In uri l /\ store1 ct (must_https ct co) uri = Ok x /\
    exists d p bp, unquote u = Ok d /\ urlparse d = Ok p /\ urlparse (fst x) = Ok bp /\
      fragment p = [] /\ hostname p <> None /\
      scheme p = scheme bp /\ path p = path bp /\ params p = params bp /\
      (exists qd, parse_qs true (query p) = Ok qd /\ qd_eqb qd (snd x) = true) /\
      (if is_native ct
       then exists p' r', norm_native p = Ok p' /\ norm_native bp = Ok r' /\ netloc p' = netloc r'
       else netloc p = netloc bp).
Proof.
  unfold decide_registered. intros H.
  destruct (store_list ct (must_https ct co) l) as [st| |] eqn:S; try discriminate.
  apply decide_redirectable in H. destruct H as (-> & V). split; [reflexivity|].
  apply verify_uri_sound in V.
  destruct V as (d & p & r & rp & Hd & Hp & Hin & Hr & Hf & Hh & _ & _ & Hs & Hpa & Hpr & _ & Hq & Hn & _).
  apply in_map_iff in Hin. destruct Hin as (x & <- & Hx).
  apply store_list_pointwise in S.
  destruct (Forall2_in_r _ _ _ S x Hx) as (uri & Huri & Hst).
  apply parse_reg_to_reg in Hr. destruct Hr as (Hsnd & Hbp).
  exists uri, x. split; [exact Huri|]. split; [exact Hst|].
  exists d, p, (fst rp). rewrite <- Hsnd. repeat split; try assumption.
Qed.

(* a requested URI the matcher refuses under the stored list never becomes a redirect target *)
Lemma refused_after_registration ct co l oidc u :
  verify_registered ct co l oidc u <> Ok tt -> forall v, decide_registered ct co l oidc (Some u) <> Redirectable v.
Proof.
  unfold verify_registered, decide_registered.
  destruct (store_list ct (must_https ct co) l) as [st| |]; try discriminate.
  apply decide_error_is_direct.
Qed.
