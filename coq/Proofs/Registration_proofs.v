(* Proofs/Registration_proofs.v — lemmas about Model/Registration.v (property C19). *)
From Coq Require Import String.
From Verif Require Import Lib.Base Lib.PyStr Lib.Urlenc Model.RegUri Model.Registration.
Open Scope N_scope.

(* ================================================================== association lists *)
Section AssocFacts.
  Context {V : Type}.
  Implicit Types d : list (pystr * V).

  Lemma has_key_true k d : has_key k d = true <-> exists v, assoc k d = Some v.
  Proof. unfold has_key. destruct (assoc k d) as [v|]; split; intro H; eauto; try discriminate. now destruct H. Qed.
  Lemma has_key_false k d : has_key k d = false <-> assoc k d = None.
  Proof. unfold has_key. destruct (assoc k d); split; intro H; congruence. Qed.

  Lemma assoc_adel_other k k' d : k <> k' -> assoc k' (adel k d) = assoc k' d.
  Proof.
    intros Hne. induction d as [|[k2 v2] r IH]; cbn; [reflexivity|].
    destruct (str_eqb k k2) eqn:E.
    - apply str_eqb_eq in E; subst k2.
      assert (str_eqb k' k = false) as -> by (apply str_eqb_neq; congruence). reflexivity.
    - cbn. destruct (str_eqb k' k2); auto.
  Qed.

  Lemma adel_aset_fresh k v d : assoc k d = None -> adel k (aset k v d) = d.
  Proof.
    induction d as [|[k2 v2] r IH]; cbn; intros H.
    - now rewrite str_eqb_refl.
    - destruct (str_eqb k k2) eqn:E; [discriminate|]. cbn. rewrite E. now rewrite IH.
  Qed.

  Lemma has_key_aset_mono k k' v d : has_key k' d = true -> has_key k' (aset k v d) = true.
  Proof.
    intros H. destruct (str_eqb k k') eqn:E.
    - apply str_eqb_eq in E; subst. apply has_key_true. eexists. apply assoc_aset_same.
    - apply str_eqb_neq in E. unfold has_key in *. now rewrite assoc_aset_other.
  Qed.
  Lemma has_key_aset_same k v d : has_key k (aset k v d) = true.
  Proof. apply has_key_true. eexists. apply assoc_aset_same. Qed.
End AssocFacts.

Lemma str_in_false_forall o l : str_in o l = false -> forall x, In x l -> str_eqb x o = false.
Proof.
  induction l as [|b r IH]; cbn; intros H x Hin; [contradiction|].
  apply orb_false_iff in H as [H1 H2]. destruct Hin as [<-|Hin]; [now rewrite str_eqb_sym|auto].
Qed.
Lemma del_owner_absent o l : str_in o l = false -> del_owner o l = l.
Proof.
  intros H. unfold del_owner. pose proof (str_in_false_forall o l H) as F.
  induction l as [|b r IH]; cbn; [reflexivity|].
  rewrite (F b) by now left. cbn. f_equal. apply IH.
  - cbn in H. now apply orb_false_iff in H as [_ H2].
  - intros x Hx. apply F. now right.
Qed.
Lemma del_add_owner o l : str_in o l = false -> del_owner o (add_owner o l) = l.
Proof.
  intros H. unfold add_owner. rewrite H. unfold del_owner. rewrite filter_app. cbn. rewrite str_eqb_refl. cbn.
  rewrite List.app_nil_r. now apply del_owner_absent.
Qed.

(* ================================================================== 1. the redirect-URI decision *)

(* the whole finite table, by kernel evaluation *)
Lemma table_ok_true : table_ok = true.
Proof. vm_compute. reflexivity. Qed.

Lemma all_abs_complete a : In a all_abs.
Proof. destruct a as [[] [] [] []]; vm_compute; tauto. Qed.
Lemma all_app_complete t : In t all_app.
Proof. destruct t; cbn; tauto. Qed.

Lemma cell_ok_all t mh ih a : cell_ok t mh ih a = true.
Proof.
  pose proof table_ok_true as T. unfold table_ok in T.
  rewrite forallb_forall in T. specialize (T t (all_app_complete t)).
  rewrite forallb_forall in T. specialize (T mh).
  assert (In mh [true; false]) as Hm by (destruct mh; cbn; tauto). specialize (T Hm).
  rewrite forallb_forall in T. specialize (T ih).
  assert (In ih [true; false]) as Hi by (destruct ih; cbn; tauto). specialize (T Hi).
  rewrite forallb_forall in T. apply T. apply all_abs_complete.
Qed.

(* an accepting verdict obeys the rule, provided must_https was set whenever a web client uses an
   implicit or hybrid flow *)
Lemma decide_sound t mh ih a :
  (t = Web -> ih = true -> mh = true) ->
  (forall n, decide t mh a <> VReject n) ->
  rule_ok t ih a = true.
Proof.
  intros Hmh Hacc. pose proof (cell_ok_all t mh ih a) as C. unfold cell_ok in C.
  destruct (decide t mh a) eqn:D; try (exfalso; eapply Hacc; reflexivity).
  - destruct t; try exact C. destruct ih; cbn in C; [|exact C]. rewrite (Hmh eq_refl eq_refl) in C. exact C.
  - destruct t; try exact C. destruct ih; cbn in C; [|exact C]. rewrite (Hmh eq_refl eq_refl) in C. exact C.
Qed.

(* ---- factoring: the concrete function only looks at the abstraction ---- *)
Lemma scheme_facts s :
  match scheme_class_of s with
  | SHttp => s = S_http
  | SHttps => s = S_https
  | SNone => s = []
  | SCustom => nonempty s = true /\ str_eqb s S_http = false /\ str_eqb s S_https = false
  end.
Proof.
  unfold scheme_class_of. destruct (str_eqb s S_http) eqn:E1; [now apply str_eqb_eq|].
  destruct (str_eqb s S_https) eqn:E2; [now apply str_eqb_eq|].
  destruct s; [reflexivity|]. cbn. auto.
Qed.

Lemma app_of_native ct : str_eqb ct S_native = true -> app_of ct = Native.
Proof. intros H. apply str_eqb_eq in H. subst. reflexivity. Qed.
Lemma app_of_other ct : str_eqb ct S_native = false -> app_of ct = Web \/ app_of ct = OtherApp.
Proof. intros H. unfold app_of. rewrite H. destruct (str_eqb ct S_web); auto. Qed.

Definition lift_verdict (uri : pystr) (v : verdict) : res (pystr * qdict) :=
  match v with VReject n => Err (Refused n) | VCustom => Ok (uri, []) | VSplit => do_split uri end.

Lemma verify_one_factors ct mh uri :
  verify_one ct mh uri = (p <- urlsplit uri ;; lift_verdict uri (decide (app_of ct) mh (classify p))).
Proof.
  unfold verify_one. destruct (urlsplit uri) as [p| |]; cbn [bind]; try reflexivity.
  unfold decide, classify. cbn [a_frag a_scheme a_host].
  destruct (nonempty (u_fragment p)) eqn:F; [reflexivity|].
  pose proof (scheme_facts (u_scheme p)) as SF.
  destruct (str_eqb ct S_native) eqn:N.
  - rewrite (app_of_native ct N).
    destruct (scheme_class_of (u_scheme p)) eqn:SC.
    + rewrite SF. change (nonempty S_http && negb (str_in S_http [S_http; S_https])) with false. cbn iota.
      rewrite str_eqb_refl. cbn [andb].
      unfold host_class_of. destruct (hostname (u_netloc p)) as [h|]; [|reflexivity].
      destruct (str_in h [S_localhost; S_127]); reflexivity.
    + rewrite SF. reflexivity.
    + destruct SF as (A & B & C). rewrite A. cbn [str_in]. rewrite B, C. reflexivity.
    + rewrite SF. reflexivity.
  - assert (G : forall t, t = Web \/ t = OtherApp ->
             (if mh && negb (str_eqb (u_scheme p) S_https) then Err (Refused 3)
              else if negb (str_in (u_scheme p) [S_http; S_https]) then Err (Refused 4)
              else if false then Err (Refused 1) else do_split uri)
             = lift_verdict uri
                 (match t with
                  | Native => match scheme_class_of (u_scheme p) with
                              | SCustom => VCustom
                              | SHttp => match host_class_of (hostname (u_netloc p)) with HLoop => VSplit | HOther => VReject 2 end
                              | _ => VReject 2 end
                  | _ => match scheme_class_of (u_scheme p) with
                         | SHttps => VSplit
                         | SHttp => if mh then VReject 3 else VSplit
                         | _ => if mh then VReject 3 else VReject 4 end
                  end)).
    { intros t Ht.
      assert (E : (match t with
                   | Native => match scheme_class_of (u_scheme p) with
                               | SCustom => VCustom
                               | SHttp => match host_class_of (hostname (u_netloc p)) with HLoop => VSplit | HOther => VReject 2 end
                               | _ => VReject 2 end
                   | _ => match scheme_class_of (u_scheme p) with
                          | SHttps => VSplit
                          | SHttp => if mh then VReject 3 else VSplit
                          | _ => if mh then VReject 3 else VReject 4 end
                   end) = match scheme_class_of (u_scheme p) with
                          | SHttps => VSplit
                          | SHttp => if mh then VReject 3 else VSplit
                          | _ => if mh then VReject 3 else VReject 4 end) by (destruct Ht; subst; reflexivity).
      rewrite E. clear E.
      destruct (scheme_class_of (u_scheme p)) eqn:SC.
      - rewrite SF. destruct mh; reflexivity.
      - rewrite SF. destruct mh; reflexivity.
      - destruct SF as (A & B & C). cbn [str_in]. rewrite B, C. destruct mh; reflexivity.
      - rewrite SF. destruct mh; reflexivity. }
    apply G. now apply app_of_other.
Qed.

(* must_https is set whenever a web client lists a response type other than "code" *)
Lemma is_code_only_no_implicit l ss :
  strs_of l = Some ss -> is_code_only (Some (VList l)) = true -> uses_implicit_or_hybrid ss = false.
Proof.
  intros Hs H. destruct l as [|[| | |s| | |] [|? ?]]; cbn in H; try discriminate.
  cbn in Hs. inversion Hs; subst. cbn. now rewrite H.
Qed.

Definition req_rts (req : dict) : list pystr :=
  match req_strs K_response_types req with Some ss => ss | None => [] end.

Lemma must_https_when_implicit req :
  app_of (client_type req) = Web -> uses_implicit_or_hybrid (req_rts req) = true -> must_https_of req = true.
Proof.
  intros HW HI. unfold must_https_of.
  assert (str_eqb (client_type req) S_web = true) as ->.
  { unfold app_of in HW. destruct (str_eqb (client_type req) S_web); [reflexivity|].
    destruct (str_eqb (client_type req) S_native); discriminate. }
  cbn [andb]. apply negb_true_iff. apply not_true_is_false. intro C.
  unfold req_rts, req_strs in HI. destruct (assoc K_response_types req) as [[| | | |l| |]|]; cbn in C; try discriminate.
  destruct (strs_of l) as [ss|] eqn:Hs.
  - rewrite (is_code_only_no_implicit l ss Hs C) in HI. discriminate.
  - cbn in HI. discriminate.
Qed.

Definition uri_obeys_rule (req : dict) (u : pystr) : Prop :=
  exists p, urlsplit u = Ok p /\
            rule_ok (app_of (client_type req)) (uses_implicit_or_hybrid (req_rts req)) (classify p) = true.

Lemma verify_uris_rule req uris l :
  verify_uris (client_type req) (must_https_of req) uris = Ok l -> Forall (uri_obeys_rule req) uris.
Proof.
  revert l. induction uris as [|u r IH]; intros l H; [constructor|].
  cbn [verify_uris] in H.
  destruct (verify_one (client_type req) (must_https_of req) u) as [x| |] eqn:V; cbn [bind] in H; try discriminate.
  destruct (verify_uris (client_type req) (must_https_of req) r) as [xs| |] eqn:R; cbn [bind] in H; try discriminate.
  constructor; [|eapply IH; reflexivity].
  rewrite verify_one_factors in V. destruct (urlsplit u) as [p| |] eqn:U; cbn [bind] in V; try discriminate.
  exists p. split; [exact U|].
  apply decide_sound with (mh := must_https_of req).
  - intros HW HI. now apply must_https_when_implicit.
  - intros n C. rewrite C in V. cbn in V. discriminate.
Qed.

Lemma verify_redirect_uris_rule req l :
  verify_redirect_uris req = Ok l ->
  exists uris, req_strs K_redirect_uris req = Some uris /\ Forall (uri_obeys_rule req) uris
               /\ List.length l = List.length uris.
Proof.
  unfold verify_redirect_uris. destruct (req_strs K_redirect_uris req) as [uris|]; [|discriminate].
  intros H. exists uris. split; [reflexivity|]. split; [eapply verify_uris_rule; eauto|].
  revert l H. generalize (client_type req) (must_https_of req). intros ct mh.
  induction uris as [|u r IH]; intros l H; cbn in H.
  - inversion H. reflexivity.
  - destruct (verify_one ct mh u); cbn [bind] in H; try discriminate.
    destruct (verify_uris ct mh r) eqn:R; cbn [bind] in H; try discriminate.
    inversion H; subst. cbn. f_equal. now apply IH.
Qed.
