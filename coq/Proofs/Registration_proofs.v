(* Proofs/Registration_proofs.v — lemmas about Model/Registration.v (property C19). *)
From Coq Require Import String.
From Verif Require Import Lib.Base.
From Verif Require Import Lib.PyStr.
From Verif Require Import Lib.Urlenc.
From Verif Require Import Model.RegUri.
From Verif Require Import Model.Registration.
Open Scope N_scope.

(* ================================================================== association lists *)
Section AssocFacts.
  Context {V : Type}.
  Implicit Types d : list (pystr * V).

  Lemma has_key_true k d : has_key k d = true <-> exists v, assoc k d = Some v.
  Proof. unfold has_key. destruct (assoc k d) as [v|]; split; intro H; eauto; try discriminate. now destruct H. Qed.
  Lemma has_key_false k d : has_key k d = false <-> assoc k d = None.
  Proof. unfold has_key. destruct (assoc k d); split; intro H; congruence. Qed.

  Lemma assoc_adel_other k k' d : k <> k' -> assoc k' (adel k d) = assoc k' d.
  Proof.
    intros Hne. induction d as [|[k2 v2] r IH]; cbn; [reflexivity|].
    destruct (str_eqb k k2) eqn:E.
    - apply str_eqb_eq in E; subst k2.
      assert (str_eqb k' k = false) as -> by (apply str_eqb_neq; congruence). reflexivity.
    - cbn. destruct (str_eqb k' k2); auto.
  Qed.

  Lemma adel_aset_fresh k v d : assoc k d = None -> adel k (aset k v d) = d.
  Proof.
    induction d as [|[k2 v2] r IH]; cbn; intros H.
    - now rewrite str_eqb_refl.
    - destruct (str_eqb k k2) eqn:E; [discriminate|]. cbn. rewrite E. now rewrite IH.
  Qed.

  Lemma has_key_aset_mono k k' v d : has_key k' d = true -> has_key k' (aset k v d) = true.
  Proof.
    intros H. destruct (str_eqb k k') eqn:E.
    - apply str_eqb_eq in E; subst. apply has_key_true. eexists. apply assoc_aset_same.
    - apply str_eqb_neq in E. unfold has_key in *. now rewrite assoc_aset_other.
  Qed.
  Lemma has_key_aset_same k v d : has_key k (aset k v d) = true.
  Proof. apply has_key_true. eexists. apply assoc_aset_same. Qed.
End AssocFacts.

Lemma str_in_false_forall o l : str_in o l = false -> forall x, In x l -> str_eqb x o = false.
Proof.
  induction l as [|b r IH]; cbn; intros H x Hin; [contradiction|].
  apply orb_false_iff in H as [H1 H2]. destruct Hin as [<-|Hin]; [now rewrite str_eqb_sym|auto].
Qed.
Lemma del_owner_absent o l : str_in o l = false -> del_owner o l = l.
Proof.
  intros H. unfold del_owner. pose proof (str_in_false_forall o l H) as F.
  induction l as [|b r IH]; cbn; [reflexivity|].
  rewrite (F b) by now left. cbn. f_equal. apply IH.
  - cbn in H. now apply orb_false_iff in H as [_ H2].
  - intros x Hx. apply F. now right.
Qed.
Lemma del_add_owner o l : str_in o l = false -> del_owner o (add_owner o l) = l.
Proof.
  intros H. unfold add_owner. rewrite H. unfold del_owner. rewrite filter_app. cbn. rewrite str_eqb_refl. cbn.
  rewrite List.app_nil_r. now apply del_owner_absent.
Qed.

(* ================================================================== 1. the redirect-URI decision *)

(* the whole finite table, by kernel evaluation *)
Lemma table_ok_true : table_ok = true.
Proof. vm_compute. reflexivity. Qed.

Lemma all_abs_complete a : In a all_abs.
Proof. destruct a as [[] [] [] []]; vm_compute; tauto. Qed.
Lemma all_app_complete t : In t all_app.
Proof. destruct t; cbn; tauto. Qed.

Lemma cell_ok_all t mh ih a : cell_ok t mh ih a = true.
Proof.
  pose proof table_ok_true as T. unfold table_ok in T.
  rewrite forallb_forall in T. specialize (T t (all_app_complete t)).
  rewrite forallb_forall in T. specialize (T mh).
  assert (In mh [true; false]) as Hm by (destruct mh; cbn; tauto). specialize (T Hm).
  rewrite forallb_forall in T. specialize (T ih).
  assert (In ih [true; false]) as Hi by (destruct ih; cbn; tauto). specialize (T Hi).
  rewrite forallb_forall in T. apply T. apply all_abs_complete.
Qed.

(* an accepting verdict obeys the rule, provided must_https was set whenever a web client uses an
   implicit or hybrid flow *)
Lemma decide_sound t mh ih a :
  (t = Web -> ih = true -> mh = true) ->
  (forall n, decide t mh a <> VReject n) ->
  rule_ok t ih a = true.
Proof.
  intros Hmh Hacc. pose proof (cell_ok_all t mh ih a) as C. unfold cell_ok in C.
  destruct (decide t mh a) eqn:D; try (exfalso; eapply Hacc; reflexivity).
  - destruct t; try exact C. destruct ih; cbn in C; [|exact C]. rewrite (Hmh eq_refl eq_refl) in C. exact C.
  - destruct t; try exact C. destruct ih; cbn in C; [|exact C]. rewrite (Hmh eq_refl eq_refl) in C. exact C.
Qed.

(* ---- factoring: the concrete function only looks at the abstraction ---- *)
Lemma scheme_facts s :
  match scheme_class_of s with
  | SHttp => s = S_http
  | SHttps => s = S_https
  | SNone => s = []
  | SCustom => nonempty s = true /\ str_eqb s S_http = false /\ str_eqb s S_https = false
  end.
Proof.
  unfold scheme_class_of. destruct (str_eqb s S_http) eqn:E1; [now apply str_eqb_eq|].
  destruct (str_eqb s S_https) eqn:E2; [now apply str_eqb_eq|].
  destruct s; [reflexivity|]. cbn. auto.
Qed.

Lemma app_of_native ct : str_eqb ct S_native = true -> app_of ct = Native.
Proof. intros H. apply str_eqb_eq in H. subst. reflexivity. Qed.
Lemma app_of_other ct : str_eqb ct S_native = false -> app_of ct = Web \/ app_of ct = OtherApp.
Proof. intros H. unfold app_of. rewrite H. destruct (str_eqb ct S_web); auto. Qed.

Definition lift_verdict (uri : pystr) (v : verdict) : res (pystr * qdict) :=
  match v with VReject n => Err (Refused n) | VCustom => do_split uri | VSplit => do_split uri end.

Lemma verify_one_factors ct mh uri :
  verify_one ct mh uri = (p <- urlsplit uri ;; lift_verdict uri (decide (app_of ct) mh (classify p))).
Proof.
  unfold verify_one. destruct (urlsplit uri) as [p| |]; cbn [bind]; try reflexivity.
  unfold decide, classify. cbn [a_frag a_scheme a_host].
  destruct (nonempty (u_fragment p)) eqn:F; [reflexivity|].
  pose proof (scheme_facts (u_scheme p)) as SF.
  destruct (str_eqb ct S_native) eqn:N.
  - rewrite (app_of_native ct N).
    destruct (scheme_class_of (u_scheme p)) eqn:SC.
    + rewrite SF. change (nonempty S_http && negb (str_in S_http [S_http; S_https])) with false. cbn iota.
      rewrite str_eqb_refl. cbn [andb].
      unfold host_class_of. destruct (hostname (u_netloc p)) as [h|]; [|reflexivity].
      destruct (str_in h [S_localhost; S_127]); reflexivity.
    + rewrite SF. reflexivity.
    + destruct SF as (A & B & C). rewrite A. cbn [str_in]. rewrite B, C. reflexivity.
    + rewrite SF. reflexivity.
  - assert (G : forall t, t = Web \/ t = OtherApp ->
             (if mh && negb (str_eqb (u_scheme p) S_https) then Err (Refused 3)
              else if negb (str_in (u_scheme p) [S_http; S_https]) then Err (Refused 4)
              else if false then Err (Refused 1) else do_split uri)
             = lift_verdict uri
                 (match t with
                  | Native => match scheme_class_of (u_scheme p) with
                              | SCustom => VCustom
                              | SHttp => match host_class_of (hostname (u_netloc p)) with HLoop => VSplit | HOther => VReject 2 end
                              | _ => VReject 2 end
                  | _ => match scheme_class_of (u_scheme p) with
                         | SHttps => VSplit
                         | SHttp => if mh then VReject 3 else VSplit
                         | _ => if mh then VReject 3 else VReject 4 end
                  end)).
    { intros t Ht.
      assert (E : (match t with
                   | Native => match scheme_class_of (u_scheme p) with
                               | SCustom => VCustom
                               | SHttp => match host_class_of (hostname (u_netloc p)) with HLoop => VSplit | HOther => VReject 2 end
                               | _ => VReject 2 end
                   | _ => match scheme_class_of (u_scheme p) with
                          | SHttps => VSplit
                          | SHttp => if mh then VReject 3 else VSplit
                          | _ => if mh then VReject 3 else VReject 4 end
                   end) = match scheme_class_of (u_scheme p) with
                          | SHttps => VSplit
                          | SHttp => if mh then VReject 3 else VSplit
                          | _ => if mh then VReject 3 else VReject 4 end) by (destruct Ht; subst; reflexivity).
      rewrite E. clear E.
      destruct (scheme_class_of (u_scheme p)) eqn:SC.
      - rewrite SF. destruct mh; reflexivity.
      - rewrite SF. destruct mh; reflexivity.
      - destruct SF as (A & B & C). cbn [str_in]. rewrite B, C. destruct mh; reflexivity.
      - rewrite SF. destruct mh; reflexivity. }
    apply G. now apply app_of_other.
Qed.

(* must_https is set whenever a web client lists a response type other than "code" *)
Lemma is_code_only_no_implicit l ss :
  strs_of l = Some ss -> is_code_only (Some (VList l)) = true -> uses_implicit_or_hybrid ss = false.
Proof.
  intros Hs H. destruct l as [|[| | |s| | |] [|? ?]]; cbn in H; try discriminate.
  cbn in Hs. inversion Hs; subst. cbn. now rewrite H.
Qed.

Definition req_rts (req : dict) : list pystr :=
  match req_strs K_response_types req with Some ss => ss | None => [] end.

Lemma must_https_when_implicit req :
  app_of (client_type req) = Web -> uses_implicit_or_hybrid (req_rts req) = true -> must_https_of req = true.
Proof.
  intros HW HI. unfold must_https_of.
  assert (str_eqb (client_type req) S_web = true) as ->.
  { unfold app_of in HW. destruct (str_eqb (client_type req) S_web); [reflexivity|].
    destruct (str_eqb (client_type req) S_native); discriminate. }
  cbn [andb]. apply negb_true_iff. apply not_true_is_false. intro C.
  unfold req_rts, req_strs in HI. destruct (assoc K_response_types req) as [[| | | |l| |]|]; cbn in C; try discriminate.
  destruct (strs_of l) as [ss|] eqn:Hs.
  - rewrite (is_code_only_no_implicit l ss Hs C) in HI. discriminate.
  - cbn in HI. discriminate.
Qed.

Definition uri_obeys_rule (req : dict) (u : pystr) : Prop :=
  exists p, urlsplit u = Ok p /\
            rule_ok (app_of (client_type req)) (uses_implicit_or_hybrid (req_rts req)) (classify p) = true.

Lemma verify_uris_rule req uris l :
  verify_uris (client_type req) (must_https_of req) uris = Ok l -> Forall (uri_obeys_rule req) uris.
Proof.
  revert l. induction uris as [|u r IH]; intros l H; [constructor|].
  cbn [verify_uris] in H.
  destruct (verify_one (client_type req) (must_https_of req) u) as [x| |] eqn:V; cbn [bind] in H; try discriminate.
  destruct (verify_uris (client_type req) (must_https_of req) r) as [xs| |] eqn:R; cbn [bind] in H; try discriminate.
  constructor; [|eapply IH; reflexivity].
  rewrite verify_one_factors in V. destruct (urlsplit u) as [p| |] eqn:U; cbn [bind] in V; try discriminate.
  exists p. split; [exact U|].
  apply decide_sound with (mh := must_https_of req).
  - intros HW HI. now apply must_https_when_implicit.
  - intros n C. rewrite C in V. cbn in V. discriminate.
Qed.

Lemma verify_redirect_uris_rule req l :
  verify_redirect_uris req = Ok l ->
  exists uris, req_strs K_redirect_uris req = Some uris /\ Forall (uri_obeys_rule req) uris
               /\ List.length l = List.length uris.
Proof.
  unfold verify_redirect_uris. destruct (req_strs K_redirect_uris req) as [uris|]; [|discriminate].
  intros H. exists uris. split; [reflexivity|]. split; [eapply verify_uris_rule; eauto|].
  revert l H. generalize (client_type req) (must_https_of req). intros ct mh.
  induction uris as [|u r IH]; intros l H; cbn in H.
  - inversion H. reflexivity.
  - destruct (verify_one ct mh u); cbn [bind] in H; try discriminate.
    destruct (verify_uris ct mh r) eqn:R; cbn [bind] in H; try discriminate.
    inversion H; subst. cbn. f_equal. now apply IH.
Qed.

(* ================================================================== 2. dictionaries with unique keys *)
Definition keys {V} (d : list (pystr * V)) : list pystr := List.map fst d.

Lemma assoc_none_notin {V} k (d : list (pystr * V)) : assoc k d = None <-> ~ In k (keys d).
Proof.
  induction d as [|[k2 v2] r IH]; cbn; [tauto|].
  destruct (str_eqb k k2) eqn:E.
  - apply str_eqb_eq in E. subst. split; [discriminate|]. intros H. exfalso. apply H. now left.
  - apply str_eqb_neq in E. rewrite IH. split; intros H; [intros [C|C]; [congruence|tauto]|tauto].
Qed.

Lemma keys_aset {V} k (v : V) d : forall x, In x (keys (aset k v d)) <-> x = k \/ In x (keys d).
Proof.
  induction d as [|[k2 v2] r IH]; intros x; cbn; [intuition|].
  destruct (str_eqb k k2) eqn:E; cbn.
  - apply str_eqb_eq in E. subst. intuition.
  - rewrite IH. intuition.
Qed.
Lemma nodup_aset {V} k (v : V) d : NoDup (keys d) -> NoDup (keys (aset k v d)).
Proof.
  induction d as [|[k2 v2] r IH]; cbn; intros H.
  - constructor; [intros []|constructor].
  - inversion H as [|? ? Hn Hr]; subst. destruct (str_eqb k k2) eqn:E; cbn.
    + constructor; assumption.
    + constructor; [|now apply IH]. intro C. apply keys_aset in C as [C|C]; [|contradiction].
      subst. now rewrite str_eqb_refl in E.
Qed.
Lemma keys_filter_sub {V} (f : pystr * V -> bool) d x : In x (keys (List.filter f d)) -> In x (keys d).
Proof.
  induction d as [|a r IH]; cbn; [tauto|]. destruct (f a); cbn; intuition.
Qed.
Lemma nodup_filter {V} (f : pystr * V -> bool) d : NoDup (keys d) -> NoDup (keys (List.filter f d)).
Proof.
  induction d as [|a r IH]; cbn; intros H; [constructor|]. inversion H; subst.
  destruct (f a); cbn; [constructor; [intro C; apply keys_filter_sub in C; contradiction|]|]; auto.
Qed.
Lemma keys_adel_sub {V} k (d : list (pystr * V)) x : In x (keys (adel k d)) -> In x (keys d).
Proof.
  induction d as [|[k2 v2] r IH]; cbn; [tauto|]. destruct (str_eqb k k2); cbn; intuition.
Qed.
Lemma nodup_adel {V} k (d : list (pystr * V)) : NoDup (keys d) -> NoDup (keys (adel k d)).
Proof.
  induction d as [|[k2 v2] r IH]; cbn; intros H; [constructor|]. inversion H; subst.
  destruct (str_eqb k k2); cbn; [assumption|]. constructor; [|auto]. intro C. apply keys_adel_sub in C. contradiction.
Qed.
Lemma assoc_filter_keep {V} (f : pystr * V -> bool) k v (d : list (pystr * V)) :
  assoc k d = Some v -> f (k, v) = true -> (forall k' v', str_eqb k k' = true -> f (k', v') = f (k, v')) ->
  assoc k (List.filter f d) = Some v.
Proof.
  intros H Hf Hext. induction d as [|[k2 v2] r IH]; cbn in *; [discriminate|].
  destruct (str_eqb k k2) eqn:E.
  - inversion H; subst. rewrite (Hext k2 v E), Hf. cbn. now rewrite E.
  - destruct (f (k2, v2)); cbn; [rewrite E|]; auto.
Qed.

(* ---- request_verify keeps every binding it does not add, and keeps keys unique ---- *)
Lemma enc_alg_step_frame prefix x d' :
  enc_alg_step prefix x = Ok d' ->
  exists d, x = Ok d /\ (NoDup (keys d) -> NoDup (keys d'))
            /\ forall k, k <> PS (prefix ++ "_enc") -> assoc k d' = assoc k d.
Proof.
  unfold enc_alg_step. destruct x as [d| |]; cbn [bind]; try discriminate. intros H. exists d. split; [reflexivity|].
  destruct (has_key (PS (prefix ++ "_alg")) d && negb (has_key (PS (prefix ++ "_enc")) d)).
  - destruct (_ && _) in H; inversion H; subst. split; [apply nodup_aset|].
    intros k Hk. apply assoc_aset_other. congruence.
  - destruct (_ && _) in H; inversion H; subst. split; auto.
Qed.

Definition enc_keys : list pystr :=
  [PS "request_object_encryption_enc"; PS "id_token_encrypted_response_enc"; PS "userinfo_encrypted_response_enc"].

Local Arguments enc_alg_step : simpl never.
Lemma request_verify_frame d d' :
  request_verify d = Ok d' ->
  (exists v, assoc K_redirect_uris d = Some v /\ py_truthy v = true)
  /\ (NoDup (keys d) -> NoDup (keys d'))
  /\ forall k, ~ In k enc_keys -> assoc k d' = assoc k d.
Proof.
  unfold request_verify. intros H.
  destruct (assoc K_redirect_uris d) as [v|] eqn:R; cbn in H; [|discriminate].
  destruct (py_truthy v) eqn:T; cbn in H; [|discriminate].
  split; [eauto|].
  repeat match type of H with (if ?b then Err _ else _) = _ => destruct b; [discriminate|] end.
  match type of H with (bind ?x _) = _ => destruct x as [d3| |] eqn:E3; cbn [bind] in H; try discriminate end.
  match type of H with (if ?b then Err _ else _) = _ => destruct b; [discriminate|] end.
  inversion H; subst d3. clear H.
  apply enc_alg_step_frame in E3 as (d2 & E2 & N3 & F3).
  apply enc_alg_step_frame in E2 as (d1 & E1 & N2 & F2).
  apply enc_alg_step_frame in E1 as (d0 & E0 & N1 & F1).
  inversion E0; subst d0.
  split; [auto|].
  intros k Hk. rewrite F3, F2, F1; [reflexivity| | |]; intro C; apply Hk; subst k; cbn; auto.
Qed.

(* ---- rm_blanks / filter_request / adel ---- *)
Lemma rm_blanks_keep k v d : assoc k d = Some v -> py_truthy v = true -> assoc k (rm_blanks d) = Some v.
Proof. intros H T. unfold rm_blanks. apply assoc_filter_keep; auto. Qed.

Lemma keys_filter_request c d d' x : filter_request c d = Ok d' -> In x (keys d') -> In x (keys d).
Proof.
  revert d'. induction d as [|[k v] r IH]; intros d' H Hin; cbn in H.
  - inversion H; subst. exact Hin.
  - destruct (assoc k (c_support c)) as [sup|].
    + destruct (match_claim c k v sup) as [v'| | |]; try discriminate.
      * destruct (filter_request c r) as [r'| |]; cbn [bind] in H; try discriminate. inversion H; subst.
        destruct (py_truthy v'); cbn in Hin; [destruct Hin as [<-|Hin]; [now left|]|]; right; eapply IH; eauto.
      * right. eapply IH; eauto.
    + destruct (filter_request c r) as [r'| |]; cbn [bind] in H; try discriminate. inversion H; subst.
      cbn in Hin. destruct Hin as [<-|Hin]; [now left|]. right. eapply IH; eauto.
Qed.
Lemma nodup_filter_request c d d' : filter_request c d = Ok d' -> NoDup (keys d) -> NoDup (keys d').
Proof.
  revert d'. induction d as [|[k v] r IH]; intros d' H N; cbn in H.
  - inversion H; subst. constructor.
  - inversion N as [|? ? Hn Nr]; subst.
    destruct (assoc k (c_support c)) as [sup|].
    + destruct (match_claim c k v sup) as [v'| | |]; try discriminate.
      * destruct (filter_request c r) as [r'| |] eqn:R; cbn [bind] in H; try discriminate. inversion H; subst.
        destruct (py_truthy v'); [|now apply IH]. cbn. constructor; [|now apply IH].
        intro C. apply Hn. eapply keys_filter_request; eauto.
      * now apply IH.
    + destruct (filter_request c r) as [r'| |] eqn:R; cbn [bind] in H; try discriminate. inversion H; subst.
      cbn. constructor; [|now apply IH]. intro C. apply Hn. eapply keys_filter_request; eauto.
Qed.
(* a claim the provider does not negotiate passes the filter untouched *)
Lemma filter_request_keep c d d' k : filter_request c d = Ok d' -> assoc k (c_support c) = None -> assoc k d' = assoc k d.
Proof.
  revert d'. induction d as [|[k2 v2] r IH]; intros d' H S; cbn in H.
  - inversion H; reflexivity.
  - destruct (str_eqb k k2) eqn:E.
    + apply str_eqb_eq in E. subst k2. rewrite S in H.
      destruct (filter_request c r) as [r'| |]; cbn [bind] in H; try discriminate. inversion H; subst.
      cbn. now rewrite str_eqb_refl.
    + cbn [assoc]. rewrite E.
      destruct (assoc k2 (c_support c)) as [sup|].
      * destruct (match_claim c k2 v2 sup) as [v'| | |]; try discriminate.
        -- destruct (filter_request c r) as [r'| |] eqn:R; cbn [bind] in H; try discriminate. inversion H; subst.
           destruct (py_truthy v'); cbn; [rewrite E|]; now apply IH.
        -- now apply IH.
      * destruct (filter_request c r) as [r'| |] eqn:R; cbn [bind] in H; try discriminate. inversion H; subst.
        cbn. rewrite E. now apply IH.
Qed.
(* a negotiated claim that survives the filter lies within the provider's support *)
Definition within_support (v : pyval) (sup : list pystr) : Prop :=
  match v with
  | VStr s => In s sup
  | VList l => exists ss, strs_of l = Some ss /\ forall s, In s ss -> In s sup
  | _ => False
  end.
Lemma in_insert_sorted s x l : In x (insert_sorted s l) -> x = s \/ In x l.
Proof.
  induction l as [|y r IH]; cbn; [intuition|].
  destruct (str_eqb s y); [cbn; intuition|]. destruct (str_leb s y); cbn; intuition.
Qed.
Lemma in_sort_dedup x l : In x (sort_dedup l) -> In x l.
Proof.
  induction l as [|y r IH]; cbn; [tauto|]. intros H. apply in_insert_sorted in H as [->|H]; auto.
Qed.
Lemma strs_of_map_VStr l : strs_of (List.map VStr l) = Some l.
Proof. induction l as [|x r IH]; cbn; [reflexivity|]. now rewrite IH. Qed.
Lemma match_claim_within c k v sup v' : match_claim c k v sup = MKeep v' -> within_support v' sup.
Proof.
  unfold match_claim. destruct (negb (str_in k (c_resp_keys c))); [discriminate|].
  destruct (negb (nonempty sup)); [discriminate|].
  destruct (str_in k (c_listy c)).
  - destruct v as [| | |s|l| |]; try discriminate.
    + destruct (str_in s sup) eqn:E; [|discriminate]. intros H; inversion H; subst. cbn. now apply str_in_In.
    + destruct (strs_of l) as [ss|]; [|discriminate].
      destruct (sort_dedup (List.filter (fun s => str_in s sup) ss)) as [|a r] eqn:E; [discriminate|].
      intros H; inversion H; subst. cbn [within_support]. exists (a :: r). split; [apply (strs_of_map_VStr (a :: r))|].
      intros s Hs. rewrite <- E in Hs. apply in_sort_dedup in Hs. apply filter_In in Hs as [_ Hs]. now apply str_in_In.
  - destruct v as [| | |s| | |]; try discriminate.
    destruct (str_in s sup) eqn:E; [|discriminate]. intros H; inversion H; subst. cbn. now apply str_in_In.
Qed.
Lemma filter_request_within c d d' k v sup :
  filter_request c d = Ok d' -> NoDup (keys d) -> assoc k (c_support c) = Some sup -> assoc k d' = Some v ->
  within_support v sup.
Proof.
  revert d'. induction d as [|[k2 v2] r IH]; intros d' H N S A; cbn in H.
  - inversion H; subst. discriminate.
  - inversion N as [|? ? Hn Nr]; subst.
    destruct (str_eqb k k2) eqn:E.
    + apply str_eqb_eq in E. subst k2. rewrite S in H.
      destruct (match_claim c k v2 sup) as [v'| | |] eqn:M; try discriminate.
      * destruct (filter_request c r) as [r'| |] eqn:R; cbn [bind] in H; try discriminate. inversion H; subst.
        destruct (py_truthy v').
        -- cbn in A. rewrite str_eqb_refl in A. inversion A; subst. eapply match_claim_within; eauto.
        -- exfalso. assert (assoc k r' = None) as C; [|congruence].
           apply assoc_none_notin. intro C. apply Hn. eapply keys_filter_request; eauto.
      * exfalso. assert (assoc k d' = None) as C; [|congruence].
        apply assoc_none_notin. intro C. apply Hn. eapply keys_filter_request; eauto.
    + destruct (assoc k2 (c_support c)) as [sup2|].
      * destruct (match_claim c k2 v2 sup2) as [v'| | |]; try discriminate.
        -- destruct (filter_request c r) as [r'| |] eqn:R; cbn [bind] in H; try discriminate. inversion H; subst.
           destruct (py_truthy v'); [cbn in A; rewrite E in A|]; eapply IH; eauto.
        -- eapply IH; eauto.
      * destruct (filter_request c r) as [r'| |] eqn:R; cbn [bind] in H; try discriminate. inversion H; subst.
        cbn in A. rewrite E in A. eapply IH; eauto.
Qed.

(* ---- copy_request on a dictionary with unique keys ---- *)
Lemma copy_request_plain req : forall c k,
  NoDup (keys req) -> str_in k reserved_keys = false -> str_in k ignore_keys = false ->
  assoc k (copy_request req c) = match assoc k req with Some v => Some v | None => assoc k c end.
Proof.
  induction req as [|[k2 v2] r IH]; intros c k N R I; cbn [copy_request assoc]; [reflexivity|].
  inversion N as [|? ? Hn Nr]; subst.
  destruct (str_eqb k k2) eqn:E.
  - apply str_eqb_eq in E. subst k2. unfold copy_key. rewrite R, I. cbn [andb negb].
    rewrite IH by assumption.
    assert (assoc k r = None) as -> by now apply assoc_none_notin. apply assoc_aset_same.
  - rewrite IH by assumption. destruct (assoc k r); [reflexivity|].
    destruct (copy_key k2 c); [|reflexivity]. apply assoc_aset_other. apply str_eqb_neq in E. congruence.
Qed.
(* what the provider assigned is not for the request to choose *)
Lemma copy_request_reserved req : forall c k,
  str_in k reserved_keys = true -> has_key k c = true -> assoc k (copy_request req c) = assoc k c.
Proof.
  induction req as [|[k2 v2] r IH]; intros c k R Hk; cbn [copy_request]; [reflexivity|].
  destruct (copy_key k2 c) eqn:CK; [|now apply IH].
  destruct (str_eqb k k2) eqn:E.
  - apply str_eqb_eq in E. subst k2. unfold copy_key in CK. rewrite R, Hk in CK. discriminate.
  - rewrite IH; [|assumption|now apply has_key_aset_mono]. apply assoc_aset_other. apply str_eqb_neq in E. congruence.
Qed.
(* the ignore list is really skipped *)
Lemma copy_request_ignored req : forall c k, str_in k ignore_keys = true -> assoc k (copy_request req c) = assoc k c.
Proof.
  induction req as [|[k2 v2] r IH]; intros c k I; cbn [copy_request]; [reflexivity|].
  destruct (copy_key k2 c) eqn:CK; [|now apply IH]. rewrite IH by assumption.
  apply assoc_aset_other. intro C. subst k2. unfold copy_key in CK. rewrite I in CK.
  rewrite andb_false_r in CK. discriminate.
Qed.

(* ================================================================== 3. do_client_registration *)
Definition frame1 (K : pystr) (c c' : dict) : Prop := forall k, k <> K -> assoc k c' = assoc k c.

Ltac break_match H :=
  repeat match type of H with
         | context [match ?x with _ => _ end] => destruct x eqn:?; try discriminate
         end.
Ltac frame_done :=
  match goal with
  | H : DOk _ = DOk _ |- _ => inversion H; subst; clear H
  end;
  intros k Hk;
  first [ reflexivity | apply assoc_aset_other; congruence | apply assoc_adel_other; congruence ].

Lemma step_post_logout_frame req c c' : step_post_logout req c = DOk c' -> frame1 K_post_logout c c'.
Proof. unfold step_post_logout, lift_res. intros H. break_match H; frame_done. Qed.
Lemma step_redirect_uris_frame req c c' : step_redirect_uris req c = DOk c' -> frame1 K_redirect_uris c c'.
Proof. unfold step_redirect_uris. intros H. break_match H; frame_done. Qed.
Lemma step_request_uris_frame req c c' : step_request_uris req c = DOk c' -> frame1 K_request_uris c c'.
Proof. unfold step_request_uris, lift_res. intros H. break_match H; frame_done. Qed.
Lemma step_sector_id req c c' : step_sector req c = DOk c' -> c' = c.
Proof. unfold step_sector. intros H. break_match H. now inversion H. Qed.
Lemma step_uri_item_frame item req c c' : step_uri_item item req c = DOk c' -> frame1 item c c'.
Proof. unfold step_uri_item, lift_res. intros H. break_match H; frame_done. Qed.
Lemma step_sig_alg_frame cf item req c c' : step_sig_alg cf item req c = DOk c' -> frame1 item c c'.
Proof. unfold step_sig_alg. intros H. break_match H; frame_done. Qed.

(* the keys do_client_registration may rewrite after the plain copy *)
Definition touched : list pystr :=
  [K_post_logout; K_redirect_uris; K_request_uris; K_policy_uri; K_logo_uri; K_tos_uri; K_idt_sig; K_ui_sig].

Lemma str_in_false_neq k l K : str_in k l = false -> In K l -> k <> K.
Proof. intros H Hin E. subst. assert (str_in K l = true) by now apply str_in_In. congruence. Qed.

Lemma dcr_inv c req stub j cinfo :
  do_client_registration c req stub j = DOk cinfo ->
  exists c1 c2 c3 c5 c6 c7 c8,
    step_post_logout req (copy_request req stub) = DOk c1 /\ step_redirect_uris req c1 = DOk c2
    /\ step_request_uris req c2 = DOk c3 /\ step_uri_item K_policy_uri req c3 = DOk c5
    /\ step_uri_item K_logo_uri req c5 = DOk c6 /\ step_uri_item K_tos_uri req c6 = DOk c7
    /\ step_sig_alg c K_idt_sig req c7 = DOk c8 /\ step_sig_alg c K_ui_sig req c8 = DOk cinfo /\ j = true.
Proof.
  unfold do_client_registration. intros H.
  destruct (step_post_logout req (copy_request req stub)) as [c1| | |] eqn:E1; cbn [dcr_bind] in H; try discriminate.
  destruct (step_redirect_uris req c1) as [c2| | |] eqn:E2; cbn [dcr_bind] in H; try discriminate.
  destruct (step_request_uris req c2) as [c3| | |] eqn:E3; cbn [dcr_bind] in H; try discriminate.
  destruct (step_sector req c3) as [c4| | |] eqn:E4; cbn [dcr_bind] in H; try discriminate.
  apply step_sector_id in E4. subst c4.
  destruct (step_uri_item K_policy_uri req c3) as [c5| | |] eqn:E5; cbn [dcr_bind] in H; try discriminate.
  destruct (step_uri_item K_logo_uri req c5) as [c6| | |] eqn:E6; cbn [dcr_bind] in H; try discriminate.
  destruct (step_uri_item K_tos_uri req c6) as [c7| | |] eqn:E7; cbn [dcr_bind] in H; try discriminate.
  destruct (step_sig_alg c K_idt_sig req c7) as [c8| | |] eqn:E8; cbn [dcr_bind] in H; try discriminate.
  destruct (step_sig_alg c K_ui_sig req c8) as [c9| | |] eqn:E9; cbn [dcr_bind] in H; try discriminate.
  destruct j; [|discriminate]. inversion H; subst c9.
  exists c1, c2, c3, c5, c6, c7, c8. repeat split; assumption.
Qed.

Lemma dcr_frame c req stub j cinfo k :
  do_client_registration c req stub j = DOk cinfo -> str_in k touched = false ->
  assoc k cinfo = assoc k (copy_request req stub).
Proof.
  intros H T. apply dcr_inv in H as (c1 & c2 & c3 & c5 & c6 & c7 & c8 & E1 & E2 & E3 & E5 & E6 & E7 & E8 & E9 & _).
  assert (N : forall K, In K touched -> k <> K) by (intros K HK; eapply str_in_false_neq; eauto).
  rewrite (step_sig_alg_frame _ _ _ _ _ E9) by (apply N; cbn; tauto).
  rewrite (step_sig_alg_frame _ _ _ _ _ E8) by (apply N; cbn; tauto).
  rewrite (step_uri_item_frame _ _ _ _ E7) by (apply N; cbn; tauto).
  rewrite (step_uri_item_frame _ _ _ _ E6) by (apply N; cbn; tauto).
  rewrite (step_uri_item_frame _ _ _ _ E5) by (apply N; cbn; tauto).
  rewrite (step_request_uris_frame _ _ _ E3) by (apply N; cbn; tauto).
  rewrite (step_redirect_uris_frame _ _ _ E2) by (apply N; cbn; tauto).
  rewrite (step_post_logout_frame _ _ _ E1) by (apply N; cbn; tauto).
  reflexivity.
Qed.

(* the stored redirect_uris are exactly what verify_redirect_uris admitted *)
Lemma dcr_redirect c req stub j cinfo :
  do_client_registration c req stub j = DOk cinfo -> has_key K_redirect_uris req = true ->
  exists l, verify_redirect_uris req = Ok l /\ assoc K_redirect_uris cinfo = Some (VList (List.map pv_ruri l)).
Proof.
  intros H HK. apply dcr_inv in H as (c1 & c2 & c3 & c5 & c6 & c7 & c8 & E1 & E2 & E3 & E5 & E6 & E7 & E8 & E9 & _).
  unfold step_redirect_uris in E2. rewrite HK in E2.
  destruct (verify_redirect_uris req) as [l|e|] eqn:V; [|destruct e; discriminate|discriminate].
  inversion E2; subst c2. exists l. split; [reflexivity|].
  rewrite (step_sig_alg_frame _ _ _ _ _ E9) by (intro C; vm_compute in C; discriminate).
  rewrite (step_sig_alg_frame _ _ _ _ _ E8) by (intro C; vm_compute in C; discriminate).
  rewrite (step_uri_item_frame _ _ _ _ E7) by (intro C; vm_compute in C; discriminate).
  rewrite (step_uri_item_frame _ _ _ _ E6) by (intro C; vm_compute in C; discriminate).
  rewrite (step_uri_item_frame _ _ _ _ E5) by (intro C; vm_compute in C; discriminate).
  rewrite (step_request_uris_frame _ _ _ E3) by (intro C; vm_compute in C; discriminate).
  apply assoc_aset_same.
Qed.

(* ================================================================== 4. one registration *)
Definition not_accepted (x : outcome) : Prop := forall cid r, x <> OAccepted cid r.

Lemma pick_id_spec ids cdb cid : pick_id ids cdb = Ok cid -> In cid ids /\ has_key cid cdb = false.
Proof.
  induction ids as [|i r IH]; cbn; [discriminate|].
  destruct (has_key i cdb) eqn:E.
  - intros H. apply IH in H as [A B]. auto.
  - intros H. inversion H; subst. auto.
Qed.

Inductive reg_result (c : cfg) (st : state) (o : reg_op) : state -> outcome -> Prop :=
| RR_same x : not_accepted x -> reg_result c st o st x
| RR_rollback cid x extra :
    pick_id (r_ids o) (s_cdb st) = Ok cid -> not_accepted x ->
    (extra = s_owners st \/ extra = add_owner cid (s_owners st)) ->
    reg_result c st o
      (rollback (mkSt (s_cdb (set_stub st c cid o (make_stub c cid o))) (s_rat (set_stub st c cid o (make_stub c cid o))) extra)
                cid (make_stub c cid o)) x
| RR_accept d0 d1 req0 cid cinfo resp :
    request_verify (r_req o) = Ok d0 -> request_verify d0 = Ok d1 ->
    filter_request c (rm_blanks d1) = Ok req0 ->
    pick_id (r_ids o) (s_cdb st) = Ok cid ->
    do_client_registration c (adel K_client_id req0) (make_stub c cid o) (r_jwks_loads o) = DOk cinfo ->
    response_args c cinfo = Ok resp ->
    reg_result c st o
      (mkSt (aset cid cinfo (aset cid (make_stub c cid o) (s_cdb st)))
            (match c_read c with Some _ => aset (r_rat o) cid (s_rat st) | None => s_rat st end)
            (add_owner cid (s_owners st)))
      (OAccepted cid resp).

Lemma register_cases c st o st' x : register c st o = (st', x) -> reg_result c st o st' x.
Proof.
  unfold register. intros H.
  assert (NA1 : not_accepted OParseRefused) by (intros ? ? C; discriminate).
  assert (NA2 : not_accepted OUnm) by (intros ? ? C; discriminate).
  assert (NA3 : forall e, not_accepted (ORefused e)) by (intros ? ? ? C; discriminate).
  destruct (request_verify (r_req o)) as [d0| |] eqn:V0; [|inversion H; subst; now constructor..].
  destruct (request_verify d0) as [d1| |] eqn:V1; [|inversion H; subst; now constructor..].
  destruct (filter_request c (rm_blanks d1)) as [req0| |] eqn:F; [|inversion H; subst; now constructor..].
  destruct (pick_id (r_ids o) (s_cdb st)) as [cid| |] eqn:P; [|inversion H; subst; now constructor..].
  destruct (do_client_registration c (adel K_client_id req0) (make_stub c cid o) (r_jwks_loads o)) as [cinfo|code| |] eqn:D;
    cbn [dcr_bind] in H; cbv beta in H.
  - destruct (response_args c cinfo) as [resp| |] eqn:RA; cbv beta iota in H; try rewrite RA in H.
    + inversion H; subst. cbn [set_stub s_cdb s_rat s_owners]. eapply RR_accept; eauto.
    + inversion H; subst. eapply RR_rollback; eauto.
    + inversion H; subst. now constructor.
  - inversion H; subst. destruct st as [cdb rat ow]. eapply RR_rollback with (extra := ow); eauto.
  - inversion H; subst. eapply RR_rollback; eauto.
  - inversion H; subst. now constructor.
Qed.

Lemma stub_rat c cid o :
  assoc K_rat (make_stub c cid o) = match c_read c with Some _ => Some (VStr (r_rat o)) | None => None end.
Proof. unfold make_stub. destruct (c_read c); destruct (c_expires_in c) as [dt|]; [destruct (Z.eqb _ _)| |destruct (Z.eqb _ _)|]; reflexivity. Qed.
Lemma stub_secret c cid o : assoc K_client_secret (make_stub c cid o) = Some (VStr (r_secret o)).
Proof. unfold make_stub. destruct (c_read c); destruct (c_expires_in c) as [dt|]; [destruct (Z.eqb _ _)| |destruct (Z.eqb _ _)|]; reflexivity. Qed.
Lemma stub_client_id c cid o : assoc K_client_id (make_stub c cid o) = Some (VStr cid).
Proof. reflexivity. Qed.

(* ---- a refusal leaves nothing behind ---- *)
Lemma rollback_restores c st o cid extra :
  pick_id (r_ids o) (s_cdb st) = Ok cid ->
  assoc (r_rat o) (s_rat st) = None ->
  str_in cid (s_owners st) = false ->
  (extra = s_owners st \/ extra = add_owner cid (s_owners st)) ->
  rollback (mkSt (s_cdb (set_stub st c cid o (make_stub c cid o))) (s_rat (set_stub st c cid o (make_stub c cid o))) extra)
           cid (make_stub c cid o) = st.
Proof.
  intros P FR NO EX. apply pick_id_spec in P as [_ P]. apply has_key_false in P.
  destruct st as [cdb rat ow]. unfold rollback, set_stub. cbn [s_cdb s_rat s_owners] in *.
  rewrite stub_rat. f_equal.
  - now apply adel_aset_fresh.
  - destruct (c_read c); [|reflexivity]. rewrite has_key_aset_same. now apply adel_aset_fresh.
  - destruct EX as [->| ->]; [now apply del_owner_absent|now apply del_add_owner].
Qed.

Lemma register_reject_unchanged c st o st' x :
  register c st o = (st', x) -> not_accepted x ->
  assoc (r_rat o) (s_rat st) = None ->
  (forall i, In i (r_ids o) -> str_in i (s_owners st) = true -> has_key i (s_cdb st) = true) ->
  st' = st.
Proof.
  intros H NA FR OW. apply register_cases in H. destruct H as [x _|cid x extra P _ EX|]; [reflexivity| |].
  - apply rollback_restores; auto. pose proof (pick_id_spec _ _ _ P) as [I K].
    destruct (str_in cid (s_owners st)) eqn:E; [|reflexivity]. rewrite (OW cid I E) in K. discriminate.
  - exfalso. eapply NA. reflexivity.
Qed.

(* ---- what an accepted registration stores ---- *)
Lemma reserved_not_touched k : str_in k reserved_keys = true -> str_in k touched = false.
Proof.
  intros H. apply str_in_In in H. cbn in H.
  repeat (destruct H as [<-|H]; [reflexivity|]). contradiction.
Qed.

Lemma register_accept_stored c st o st' cid resp :
  register c st o = (st', OAccepted cid resp) ->
  exists cinfo,
    assoc cid (s_cdb st') = Some cinfo /\ response_args c cinfo = Ok resp
    /\ has_key cid (s_cdb st) = false /\ In cid (r_ids o)
    /\ assoc K_client_id cinfo = Some (VStr cid)
    /\ assoc K_client_secret cinfo = Some (VStr (r_secret o))
    /\ (forall path, c_read c = Some path ->
          assoc K_rat cinfo = Some (VStr (r_rat o)) /\ assoc (r_rat o) (s_rat st') = Some cid).
Proof.
  intros H. apply register_cases in H.
  inversion H as [x NA|? x extra P NA EX|d0 d1 req0 cid' cinfo resp' V0 V1 F P D RA]; subst.
  - exfalso. eapply NA. reflexivity.
  - exfalso. eapply NA. reflexivity.
  - exists cinfo. cbn [s_cdb s_rat]. pose proof (pick_id_spec _ _ _ P) as [I K].
    split; [apply assoc_aset_same|]. split; [assumption|]. split; [assumption|]. split; [assumption|].
    assert (R : forall k, str_in k reserved_keys = true -> has_key k (make_stub c cid o) = true ->
                          assoc k cinfo = assoc k (make_stub c cid o)).
    { intros k Rk Hk. rewrite (dcr_frame _ _ _ _ _ k D) by now apply reserved_not_touched.
      now apply copy_request_reserved. }
    split; [rewrite R; [apply stub_client_id|reflexivity|reflexivity]|].
    split; [rewrite R; [apply stub_secret|reflexivity|apply has_key_true; eexists; apply stub_secret]|].
    intros path HP. rewrite HP. split; [|apply assoc_aset_same].
    rewrite R; [rewrite stub_rat, HP; reflexivity|reflexivity|].
    apply has_key_true. eexists. rewrite stub_rat, HP. reflexivity.
Qed.

(* ================================================================== 5. the stored record obeys the rule *)
Lemma enc_keys_not k : In k [K_redirect_uris; K_application_type; K_response_types; K_client_id] -> ~ In k enc_keys.
Proof.
  intros H C. cbn in H. cbn in C.
  repeat (destruct H as [<-|H]; [repeat (destruct C as [C|C]; [vm_compute in C; discriminate|]); contradiction|]).
  contradiction.
Qed.

(* the request the provider decides on (after verify, rm_blanks, filter, removal of client_id) *)
Lemma decided_request_facts c o d0 d1 req0 :
  request_verify (r_req o) = Ok d0 -> request_verify d0 = Ok d1 -> filter_request c (rm_blanks d1) = Ok req0 ->
  NoDup (keys (r_req o)) -> assoc K_redirect_uris (c_support c) = None ->
  NoDup (keys (adel K_client_id req0))
  /\ assoc K_redirect_uris (adel K_client_id req0) = assoc K_redirect_uris (r_req o)
  /\ has_key K_redirect_uris (adel K_client_id req0) = true.
Proof.
  intros V0 V1 F N S.
  apply request_verify_frame in V0 as ((v & Hv & Tv) & N0 & F0).
  apply request_verify_frame in V1 as (_ & N1 & F1).
  split; [apply nodup_adel; eapply nodup_filter_request; eauto; apply nodup_filter; auto|].
  assert (A : assoc K_redirect_uris (adel K_client_id req0) = Some v).
  { rewrite assoc_adel_other by (intro C; vm_compute in C; discriminate).
    rewrite (filter_request_keep _ _ _ _ F S). apply rm_blanks_keep; [|assumption].
    rewrite F1, F0; [assumption| |]; apply enc_keys_not; cbn; tauto. }
  split; [congruence|]. apply has_key_true. eauto.
Qed.

Lemma client_type_ext a b : assoc K_application_type a = assoc K_application_type b -> client_type a = client_type b.
Proof. unfold client_type, req_str. now intros ->. Qed.
Lemma req_rts_ext a b : assoc K_response_types a = assoc K_response_types b -> req_rts a = req_rts b.
Proof. unfold req_rts, req_strs. now intros ->. Qed.

Lemma stub_lacks c cid o k : str_in k reserved_keys = false -> assoc k (make_stub c cid o) = None.
Proof.
  intros H. apply assoc_none_notin. intro C. apply not_true_iff_false in H. apply H. apply str_in_In.
  unfold make_stub, keys in C. rewrite !map_app in C. rewrite !in_app_iff in C. cbn.
  destruct C as [C|[C|[C|C]]].
  - cbn in C. tauto.
  - destruct (c_read c); cbn in C; tauto.
  - cbn in C. tauto.
  - destruct (c_expires_in c) as [dt|]; [destruct (Z.eqb _ _)|]; cbn in C; tauto.
Qed.

Theorem redirect_rule_stored c st o st' cid resp :
  assoc K_redirect_uris (c_support c) = None ->
  NoDup (keys (r_req o)) ->
  register c st o = (st', OAccepted cid resp) ->
  exists cinfo uris stored,
    assoc cid (s_cdb st') = Some cinfo
    /\ req_strs K_redirect_uris (r_req o) = Some uris
    /\ assoc K_redirect_uris cinfo = Some (VList stored) /\ List.length stored = List.length uris
    /\ Forall (uri_obeys_rule cinfo) uris.
Proof.
  intros S N H. apply register_cases in H.
  inversion H as [x NA|? x extra P NA EX|d0 d1 req0 cid' cinfo resp' V0 V1 F P D RA]; subst;
    try (exfalso; eapply NA; reflexivity).
  destruct (decided_request_facts _ _ _ _ _ V0 V1 F N S) as (Nr & Ar & Hr).
  set (req := adel K_client_id req0) in *.
  destruct (dcr_redirect _ _ _ _ _ D Hr) as (l & Vl & Sl).
  destruct (verify_redirect_uris_rule _ _ Vl) as (uris & Hu & Fu & Len).
  exists cinfo, uris, (List.map pv_ruri l). cbn [s_cdb].
  split; [apply assoc_aset_same|]. split; [unfold req_strs in *; now rewrite <- Ar|].
  split; [assumption|]. split; [now rewrite map_length|].
  (* the stored application_type / response_types are those the decision was made on *)
  assert (T : forall k, str_in k reserved_keys = false -> str_in k ignore_keys = false -> str_in k touched = false ->
                        assoc k cinfo = assoc k req).
  { intros k R I T. rewrite (dcr_frame _ _ _ _ _ k D T). rewrite copy_request_plain by assumption.
    rewrite stub_lacks by assumption. now destruct (assoc k req). }
  assert (CT : client_type cinfo = client_type req) by (apply client_type_ext, T; reflexivity).
  assert (RT : req_rts cinfo = req_rts req) by (apply req_rts_ext, T; reflexivity).
  eapply Forall_impl; [|exact Fu]. intros u (p & Up & Rp). exists p. split; [assumption|]. now rewrite CT, RT.
Qed.

(* negotiated metadata that is stored lies within what the provider supports *)
Theorem stored_within_support c st o st' cid resp k sup v :
  NoDup (keys (r_req o)) ->
  register c st o = (st', OAccepted cid resp) ->
  assoc k (c_support c) = Some sup ->
  str_in k reserved_keys = false -> str_in k ignore_keys = false -> str_in k touched = false ->
  forall cinfo, assoc cid (s_cdb st') = Some cinfo -> assoc k cinfo = Some v -> within_support v sup.
Proof.
  intros N H S R I T cinfo' Hc Hv. apply register_cases in H.
  inversion H as [x NA|? x extra P NA EX|d0 d1 req0 cid' cinfo resp' V0 V1 F P D RA]; subst;
    try (exfalso; eapply NA; reflexivity).
  cbn [s_cdb] in Hc. rewrite assoc_aset_same in Hc. inversion Hc; subst cinfo'.
  rewrite (dcr_frame _ _ _ _ _ k D T) in Hv.
  apply request_verify_frame in V0 as (_ & N0 & _). apply request_verify_frame in V1 as (_ & N1 & _).
  assert (Nf : NoDup (keys req0)) by (eapply nodup_filter_request; eauto; apply nodup_filter; auto).
  rewrite copy_request_plain in Hv by (try apply nodup_adel; assumption).
  rewrite stub_lacks in Hv by assumption.
  destruct (assoc k (adel K_client_id req0)) as [v'|] eqn:A; [|discriminate]. inversion Hv; subst v'.
  destruct (str_eqb K_client_id k) eqn:E.
  - apply str_eqb_eq in E. subst k. discriminate.
  - apply str_eqb_neq in E. rewrite assoc_adel_other in A by assumption.
    eapply filter_request_within; eauto. apply nodup_filter; auto.
Qed.

(* ================================================================== 6. histories *)
Lemma read_frame c st h q now st' x :
  read c st h q now = (st', x) ->
  s_rat st' = s_rat st /\ s_owners st' = s_owners st /\ (forall k, has_key k (s_cdb st) = true -> has_key k (s_cdb st') = true).
Proof.
  unfold read. intros H.
  repeat match type of H with
         | context [match ?t with _ => _ end] => destruct t eqn:?
         end; inversion H; subst; cbn [s_rat s_owners s_cdb]; repeat split; auto; intros; now apply has_key_aset_mono.
Qed.

Lemma register_keys_mono c st o st' x k :
  register c st o = (st', x) -> has_key k (s_cdb st) = true -> has_key k (s_cdb st') = true.
Proof.
  intros H Hk. apply register_cases in H. destruct H as [x _|cid x extra P _ EX|]; [assumption| |].
  - cbn [rollback s_cdb set_stub]. apply pick_id_spec in P as [_ P]. apply has_key_false in P.
    now rewrite adel_aset_fresh.
  - cbn [s_cdb]. now do 2 apply has_key_aset_mono.
Qed.

Lemma step_keys_mono c st o st' x k : step c st o = (st', x) -> has_key k (s_cdb st) = true -> has_key k (s_cdb st') = true.
Proof.
  destruct o as [r|h q now]; cbn [step].
  - destruct (register c st r) as [s y] eqn:E. intros H. inversion H; subst. eapply register_keys_mono; eauto.
  - destruct (read c st h q now) as [s y] eqn:E. intros H. inversion H; subst. apply read_frame in E as (_ & _ & M). auto.
Qed.

Lemma run_cons c st o r : run c st (o :: r) =
  let '(s1, x) := step c st o in let '(s2, xs) := run c s1 r in (s2, x :: xs).
Proof. reflexivity. Qed.

Theorem unique_fresh_ids c ops : forall st st' outs,
  run c st ops = (st', outs) ->
  NoDup (assigned ops outs) /\ (forall i, In i (assigned ops outs) -> has_key i (s_cdb st) = false).
Proof.
  induction ops as [|o r IH]; intros st st' outs H.
  - cbn in H. inversion H; subst. cbn. split; [constructor|tauto].
  - rewrite run_cons in H. destruct (step c st o) as [s1 x] eqn:S. destruct (run c s1 r) as [s2 xs] eqn:R.
    inversion H; subst. destruct (IH _ _ _ R) as [ND FR].
    assert (MONO : forall i, In i (assigned r xs) -> has_key i (s_cdb st) = false).
    { intros i Hi. specialize (FR i Hi). destruct (has_key i (s_cdb st)) eqn:E; [|reflexivity].
      rewrite (step_keys_mono _ _ _ _ _ i S E) in FR. discriminate. }
    destruct x as [[| |cid resp|]|y]; cbn [assigned]; try (split; assumption).
    destruct o as [ro|h q now]; cbn [step] in S.
    + destruct (register c st ro) as [s y] eqn:E. inversion S; subst.
      destruct (register_accept_stored _ _ _ _ _ _ E) as (cinfo & A & _ & K & _).
      split.
      * constructor; [|assumption]. intro C. specialize (FR cid C).
        assert (has_key cid (s_cdb s1) = true) by (apply has_key_true; eauto). congruence.
      * intros i [<-|Hi]; auto.
    + destruct (read c st h q now) as [s y]. inversion S.
Qed.

(* ---- registration tokens ---- *)
Lemma register_rat_other c st o st' x t :
  register c st o = (st', x) -> t <> r_rat o -> assoc t (s_rat st') = assoc t (s_rat st).
Proof.
  intros H Hne. apply register_cases in H. destruct H as [x _|cid x extra P _ EX|]; [reflexivity| |].
  - cbn [rollback s_rat set_stub]. rewrite stub_rat. destruct (c_read c); [|reflexivity].
    rewrite has_key_aset_same. rewrite assoc_adel_other by congruence. apply assoc_aset_other. congruence.
  - cbn [s_rat]. destruct (c_read c); [|reflexivity]. apply assoc_aset_other. congruence.
Qed.

Lemma step_rat_other c st o st' x t :
  step c st o = (st', x) -> (forall r, o = OpReg r -> t <> r_rat r) -> assoc t (s_rat st') = assoc t (s_rat st).
Proof.
  destruct o as [r|h q now]; cbn [step]; intros H Hne.
  - destruct (register c st r) as [s y] eqn:E. inversion H; subst. eapply register_rat_other; eauto.
  - destruct (read c st h q now) as [s y] eqn:E. inversion H; subst. apply read_frame in E as (-> & _). reflexivity.
Qed.

Lemma run_rat_other c ops : forall st st' outs t,
  run c st ops = (st', outs) -> ~ In t (rat_draws ops) -> assoc t (s_rat st') = assoc t (s_rat st).
Proof.
  induction ops as [|o r IH]; intros st st' outs t H Hn.
  - cbn in H. inversion H; subst. reflexivity.
  - rewrite run_cons in H. destruct (step c st o) as [s1 x] eqn:S. destruct (run c s1 r) as [s2 xs] eqn:R.
    inversion H; subst. rewrite (IH _ _ _ t R).
    + eapply step_rat_other; eauto. intros ro ->. intro C. apply Hn. cbn. now left.
    + intro C. apply Hn. destruct o; cbn; auto.
Qed.

Theorem issued_tokens_kept c ops : forall st st' outs,
  run c st ops = (st', outs) ->
  (exists path, c_read c = Some path) ->
  NoDup (rat_draws ops) ->
  forall t a, In (t, a) (issued ops outs) -> assoc t (s_rat st') = Some a.
Proof.
  induction ops as [|o r IH]; intros st st' outs H RD ND t a Hin.
  - cbn in H. inversion H; subst. cbn in Hin. contradiction.
  - rewrite run_cons in H. destruct (step c st o) as [s1 x] eqn:S. destruct (run c s1 r) as [s2 xs] eqn:R.
    inversion H; subst. clear H.
    destruct o as [ro|h q now].
    + cbn [rat_draws] in ND. inversion ND as [|? ? Hnot ND']; subst.
      cbn [step] in S. destruct (register c st ro) as [s y] eqn:E. inversion S; subst. clear S.
      destruct y as [| |cid resp|]; cbn [issued] in Hin; try solve [eapply IH; eauto].
      destruct Hin as [Heq|Hin]; [|solve [eapply IH; eauto]].
      inversion Heq; subst. rewrite (run_rat_other _ _ _ _ _ _ R Hnot).
      destruct RD as (path & RD).
      destruct (register_accept_stored _ _ _ _ _ _ E) as (cinfo & _ & _ & _ & _ & _ & _ & T).
      now destruct (T path RD).
    + cbn [rat_draws] in ND. cbn [issued] in Hin. destruct x; eapply IH; eauto.
Qed.

(* ---- the read endpoint ---- *)
Lemma read_answer_inv c st hdr q now st' cid resp :
  read c st hdr q now = (st', RAnswer cid resp) ->
  q = Some cid
  /\ (exists h, hdr = Some h /\ starts_with S_Bearer_sp h = true /\ assoc (skipn 7 h) (s_rat st) = Some cid)
  /\ (exists cinfo, assoc cid (s_cdb st) = Some cinfo /\ valid_client_secret cinfo now = true
                    /\ assoc cid (s_cdb st') = Some (set_auth_method cinfo)
                    /\ response_args c (set_auth_method cinfo) = Ok resp).
Proof.
  unfold read. intros H.
  destruct hdr as [h|]; [|discriminate].
  destruct (starts_with S_Bearer_sp h) eqn:B; cbn [negb] in H; [|discriminate].
  destruct q as [x|].
  - destruct (assoc (skipn 7 h) (s_rat st)) as [owner|] eqn:A; [|discriminate].
    destruct (str_eqb x owner) eqn:E.
    + apply str_eqb_eq in E. subst owner.
      destruct (assoc x (s_cdb st)) as [cinfo|] eqn:C; [|discriminate].
      destruct cinfo as [|e cr]; [discriminate|]. destruct x as [|x0 xr]; [discriminate|].
      destruct (valid_client_secret (e :: cr) now) eqn:V; cbn [negb] in H; [|discriminate].
      destruct (has_key K_ep_cam (e :: cr) || has_key K_cam (e :: cr)); [discriminate|].
      destruct (response_args c (set_auth_method (e :: cr))) eqn:RA; try discriminate.
      inversion H; subst. split; [reflexivity|]. split; [eauto|].
      exists (e :: cr). cbn [s_cdb]. repeat split; auto. apply assoc_aset_same.
    + destruct (assoc [] (s_cdb st)) as [cinfo|]; [|discriminate]. destruct cinfo; discriminate.
  - destruct (assoc [] (s_cdb st)) as [cinfo|]; [|discriminate]. destruct cinfo; discriminate.
Qed.

Lemma filter_aset_out (f : pystr -> bool) k v (d : dict) :
  f k = false -> (forall a b, str_eqb a b = true -> f a = f b) ->
  List.filter (fun kv => f (fst kv)) (aset k v d) = List.filter (fun kv => f (fst kv)) d.
Proof.
  intros Hf Hext. induction d as [|[k2 v2] r IH]; cbn; [now rewrite Hf|].
  destruct (str_eqb k k2) eqn:E; cbn.
  - rewrite <- (Hext k k2 E), Hf. reflexivity.
  - destruct (f k2); [f_equal|]; assumption.
Qed.
Lemma str_in_ext l a b : str_eqb a b = true -> str_in a l = str_in b l.
Proof. intros E. apply str_eqb_eq in E. now subst. Qed.

(* the read endpoint returns what registration returned for that record: bookkeeping of the
   authentication method is invisible in the answer *)
Lemma response_args_auth_method c cinfo :
  str_in K_auth_method (c_resp_keys c) = false ->
  response_args c (set_auth_method cinfo) = response_args c cinfo.
Proof.
  intros H. unfold response_args, set_auth_method.
  assert (G : forall v, List.filter (fun kv => str_in (fst kv) (c_resp_keys c)) (aset K_auth_method v cinfo)
                        = List.filter (fun kv => str_in (fst kv) (c_resp_keys c)) cinfo).
  { intros v. apply (filter_aset_out (fun k => str_in k (c_resp_keys c))); [assumption|].
    intros a b E. now apply str_in_ext. }
  destruct (assoc K_auth_method cinfo) as [[| | | | |m|]|]; try (now rewrite G).
  destruct m; now rewrite G.
Qed.

(* ================================================================== 7. statements used by Props/C19.v *)
Theorem echo_registration c st o st' cid resp :
  register c st o = (st', OAccepted cid resp) ->
  exists cinfo, assoc cid (s_cdb st') = Some cinfo /\ response_args c cinfo = Ok resp.
Proof. intros H. destruct (register_accept_stored _ _ _ _ _ _ H) as (cinfo & A & B & _). eauto. Qed.

Theorem echo_read c st hdr q now st' cid resp :
  str_in K_auth_method (c_resp_keys c) = false ->
  read c st hdr q now = (st', RAnswer cid resp) ->
  exists cinfo, assoc cid (s_cdb st) = Some cinfo /\ response_args c cinfo = Ok resp.
Proof.
  intros HK H. apply read_answer_inv in H as (_ & _ & cinfo & A & _ & _ & R).
  rewrite response_args_auth_method in R by assumption. eauto.
Qed.

Lemma skip_bearer t : skipn 7 (S_Bearer_sp ++ t) = t.
Proof. reflexivity. Qed.

Theorem read_isolation c ops st st' outs :
  run c st ops = (st', outs) ->
  (exists path, c_read c = Some path) ->
  NoDup (rat_draws ops) ->
  forall t a, In (t, a) (issued ops outs) ->
    assoc t (s_rat st') = Some a
    /\ forall q now s2 cid resp,
         read c st' (Some (S_Bearer_sp ++ t)) q now = (s2, RAnswer cid resp) -> cid = a /\ q = Some a.
Proof.
  intros R RD ND t a Hin. pose proof (issued_tokens_kept _ _ _ _ _ R RD ND t a Hin) as K.
  split; [assumption|]. intros q now s2 cid resp H.
  apply read_answer_inv in H as (Hq & (h & Hh & _ & A) & _).
  assert (E : skipn 7 h = t) by (inversion Hh; reflexivity).
  rewrite E, K in A. inversion A; subst. auto.
Qed.

(* every pairing (token of A, client B <> A) is refused *)
Corollary read_cross_refused c ops st st' outs t a b now :
  run c st ops = (st', outs) -> (exists path, c_read c = Some path) -> NoDup (rat_draws ops) ->
  In (t, a) (issued ops outs) -> b <> a ->
  forall s2 x, read c st' (Some (S_Bearer_sp ++ t)) (Some b) now = (s2, x) -> forall cid resp, x <> RAnswer cid resp.
Proof.
  intros R RD ND Hin Hne s2 x H cid resp C. subst x.
  destruct (read_isolation _ _ _ _ _ R RD ND t a Hin) as [_ G]. destruct (G _ _ _ _ _ H) as [_ Q]. congruence.
Qed.

(* ================================================================== 8. restricted provider lists: all three views *)
(* ---- the stored record is a dictionary (unique keys) ---- *)
Lemma nodup_copy_request req : forall c, NoDup (keys c) -> NoDup (keys (copy_request req c)).
Proof.
  induction req as [|[k v] r IH]; intros c N; cbn [copy_request]; [assumption|].
  apply IH. destruct (copy_key k c); [now apply nodup_aset|assumption].
Qed.

Ltac nodup_done :=
  match goal with
  | H : DOk _ = DOk _ |- _ => inversion H; subst; clear H
  end;
  first [ assumption | now apply nodup_aset | now apply nodup_adel ].

Lemma step_post_logout_nodup req c c' : step_post_logout req c = DOk c' -> NoDup (keys c) -> NoDup (keys c').
Proof. unfold step_post_logout, lift_res. intros H N. break_match H; nodup_done. Qed.
Lemma step_redirect_uris_nodup req c c' : step_redirect_uris req c = DOk c' -> NoDup (keys c) -> NoDup (keys c').
Proof. unfold step_redirect_uris. intros H N. break_match H; nodup_done. Qed.
Lemma step_request_uris_nodup req c c' : step_request_uris req c = DOk c' -> NoDup (keys c) -> NoDup (keys c').
Proof. unfold step_request_uris, lift_res. intros H N. break_match H; nodup_done. Qed.
Lemma step_uri_item_nodup item req c c' : step_uri_item item req c = DOk c' -> NoDup (keys c) -> NoDup (keys c').
Proof. unfold step_uri_item, lift_res. intros H N. break_match H; nodup_done. Qed.
Lemma step_sig_alg_nodup cf item req c c' : step_sig_alg cf item req c = DOk c' -> NoDup (keys c) -> NoDup (keys c').
Proof. unfold step_sig_alg. intros H N. break_match H; nodup_done. Qed.

Lemma nodup_stub c cid o : NoDup (keys (make_stub c cid o)).
Proof.
  unfold make_stub, keys. destruct (c_read c), (c_expires_in c) as [dt|]; [destruct (Z.eqb _ _)| |destruct (Z.eqb _ _)|]; cbn;
    repeat (constructor; [cbn; intros C; repeat (destruct C as [C|C]; [vm_compute in C; discriminate|]); exact C|]);
    constructor.
Qed.

(* removing a key never makes another binding appear *)
Lemma assoc_adel_self {V} k (d : list (pystr * V)) : NoDup (keys d) -> assoc k (adel k d) = None.
Proof.
  induction d as [|[k2 v2] r IH]; cbn; intros N; [reflexivity|]. inversion N as [|? ? Hn Nr]; subst.
  destruct (str_eqb k k2) eqn:E.
  - apply str_eqb_eq in E. subst k2. now apply assoc_none_notin.
  - cbn. rewrite E. now apply IH.
Qed.
Lemma assoc_adel_some {V} k k' (v : V) d : NoDup (keys d) -> assoc k' (adel k d) = Some v -> assoc k' d = Some v.
Proof.
  intros N H. destruct (str_eqb k k') eqn:E.
  - apply str_eqb_eq in E. subst k'. rewrite assoc_adel_self in H by assumption. discriminate.
  - apply str_eqb_neq in E. now rewrite assoc_adel_other in H.
Qed.

(* the key check on the signing algorithms only ever REMOVES the parameter *)
Lemma step_sig_alg_sub cf item req c c' :
  step_sig_alg cf item req c = DOk c' -> NoDup (keys c) -> forall k v, assoc k c' = Some v -> assoc k c = Some v.
Proof.
  unfold step_sig_alg. intros H N k v A. break_match H;
    match goal with Hd : DOk _ = DOk _ |- _ => inversion Hd; subst; clear Hd end;
    first [assumption | eapply assoc_adel_some; eassumption].
Qed.

(* the keys do_client_registration REWRITES after the plain copy: the URI parameters (none of them negotiated) *)
Definition touched_uri : list pystr :=
  [K_post_logout; K_redirect_uris; K_request_uris; K_policy_uri; K_logo_uri; K_tos_uri].

Lemma dcr_nodup c req stub j cinfo :
  do_client_registration c req stub j = DOk cinfo -> NoDup (keys stub) -> NoDup (keys cinfo).
Proof.
  intros H N. apply dcr_inv in H as (c1 & c2 & c3 & c5 & c6 & c7 & c8 & E1 & E2 & E3 & E5 & E6 & E7 & E8 & E9 & _).
  eapply step_sig_alg_nodup; [exact E9|]. eapply step_sig_alg_nodup; [exact E8|].
  eapply step_uri_item_nodup; [exact E7|]. eapply step_uri_item_nodup; [exact E6|]. eapply step_uri_item_nodup; [exact E5|].
  eapply step_request_uris_nodup; [exact E3|]. eapply step_redirect_uris_nodup; [exact E2|].
  eapply step_post_logout_nodup; [exact E1|]. now apply nodup_copy_request.
Qed.

Lemma dcr_sub c req stub j cinfo k v :
  do_client_registration c req stub j = DOk cinfo -> NoDup (keys stub) -> str_in k touched_uri = false ->
  assoc k cinfo = Some v -> assoc k (copy_request req stub) = Some v.
Proof.
  intros H Ns T A. apply dcr_inv in H as (c1 & c2 & c3 & c5 & c6 & c7 & c8 & E1 & E2 & E3 & E5 & E6 & E7 & E8 & E9 & _).
  assert (N : forall K, In K touched_uri -> k <> K) by (intros K HK; eapply str_in_false_neq; eauto).
  assert (N0 : NoDup (keys (copy_request req stub))) by now apply nodup_copy_request.
  pose proof (step_post_logout_nodup _ _ _ E1 N0) as N1. pose proof (step_redirect_uris_nodup _ _ _ E2 N1) as N2.
  pose proof (step_request_uris_nodup _ _ _ E3 N2) as N3. pose proof (step_uri_item_nodup _ _ _ _ E5 N3) as N5.
  pose proof (step_uri_item_nodup _ _ _ _ E6 N5) as N6. pose proof (step_uri_item_nodup _ _ _ _ E7 N6) as N7.
  pose proof (step_sig_alg_nodup _ _ _ _ _ E8 N7) as N8.
  apply (step_sig_alg_sub _ _ _ _ _ E9 N8) in A. apply (step_sig_alg_sub _ _ _ _ _ E8 N7) in A.
  rewrite (step_uri_item_frame _ _ _ _ E7) in A by (apply N; cbn; tauto).
  rewrite (step_uri_item_frame _ _ _ _ E6) in A by (apply N; cbn; tauto).
  rewrite (step_uri_item_frame _ _ _ _ E5) in A by (apply N; cbn; tauto).
  rewrite (step_request_uris_frame _ _ _ E3) in A by (apply N; cbn; tauto).
  rewrite (step_redirect_uris_frame _ _ _ E2) in A by (apply N; cbn; tauto).
  rewrite (step_post_logout_frame _ _ _ E1) in A by (apply N; cbn; tauto).
  exact A.
Qed.

(* a parameter the provider neither assigns itself nor rewrites as a URI: the negotiated metadata lives here *)
Definition negotiable (k : pystr) : bool :=
  negb (str_in k reserved_keys) && negb (str_in k ignore_keys) && negb (str_in k touched_uri).

(* a stored record: a dictionary every negotiated parameter of which lies within the provider's list for it *)
Definition record_within (c : cfg) (cinfo : dict) : Prop :=
  NoDup (keys cinfo)
  /\ forall k sup v, assoc k (c_support c) = Some sup -> negotiable k = true -> assoc k cinfo = Some v -> within_support v sup.

Lemma negotiable_inv k : negotiable k = true ->
  str_in k reserved_keys = false /\ str_in k ignore_keys = false /\ str_in k touched_uri = false.
Proof.
  unfold negotiable. intros H. apply andb_prop in H as [H C]. apply andb_prop in H as [A B].
  repeat split; now apply negb_true_iff.
Qed.

(* view 1: the client database.  Unlike stored_within_support this includes the two signing algorithms that the
   key check may remove. *)
Theorem stored_record_within c st o st' cid resp :
  NoDup (keys (r_req o)) ->
  register c st o = (st', OAccepted cid resp) ->
  exists cinfo, assoc cid (s_cdb st') = Some cinfo /\ response_args c cinfo = Ok resp /\ record_within c cinfo.
Proof.
  intros N H. apply register_cases in H.
  inversion H as [x NA|? x extra P NA EX|d0 d1 req0 cid' cinfo resp' V0 V1 F P D RA]; subst;
    try (exfalso; eapply NA; reflexivity).
  exists cinfo. cbn [s_cdb]. split; [apply assoc_aset_same|]. split; [assumption|].
  pose proof (nodup_stub c cid o) as Ns.
  split; [eapply dcr_nodup; eauto|].
  intros k sup v S Ng Hv. apply negotiable_inv in Ng as (R & I & T).
  apply (dcr_sub _ _ _ _ _ _ _ D Ns T) in Hv.
  apply request_verify_frame in V0 as (_ & N0 & _). apply request_verify_frame in V1 as (_ & N1 & _).
  assert (Nf : NoDup (keys req0)) by (eapply nodup_filter_request; eauto; apply nodup_filter; auto).
  rewrite copy_request_plain in Hv by (try apply nodup_adel; assumption).
  rewrite stub_lacks in Hv by assumption.
  destruct (assoc k (adel K_client_id req0)) as [v'|] eqn:A; [|discriminate]. inversion Hv; subst v'.
  destruct (str_eqb K_client_id k) eqn:E.
  - apply str_eqb_eq in E. subst k. discriminate.
  - apply str_eqb_neq in E. rewrite assoc_adel_other in A by assumption.
    eapply filter_request_within; eauto. apply nodup_filter; auto.
Qed.

(* ---- view 2: the registration response is a function of the stored record that invents no negotiated value ---- *)
Lemma assoc_some_in {V} k (v : V) d : assoc k d = Some v -> In k (keys d).
Proof.
  induction d as [|[k2 v2] r IH]; cbn; [discriminate|]. destruct (str_eqb k k2) eqn:E.
  - apply str_eqb_eq in E. subst. auto.
  - auto.
Qed.
Lemma assoc_filter_some {V} (f : pystr * V -> bool) k v (d : list (pystr * V)) :
  NoDup (keys d) -> assoc k (List.filter f d) = Some v -> assoc k d = Some v.
Proof.
  induction d as [|[k2 v2] r IH]; cbn; intros N H; [discriminate|]. inversion N as [|? ? Hn Nr]; subst.
  destruct (f (k2, v2)); cbn in H.
  - destruct (str_eqb k k2); [assumption|auto].
  - specialize (IH Nr H). destruct (str_eqb k k2) eqn:E; [|assumption].
    apply str_eqb_eq in E. subst k2. exfalso. apply Hn. eapply assoc_some_in; eauto.
Qed.

Definition comb_keys : list pystr := [K_redirect_uris; K_post_logout; K_request_uris].
Lemma comb_uri_frame args a :
  comb_uri args = Ok a -> NoDup (keys args) ->
  NoDup (keys a) /\ forall k, ~ In k comb_keys -> assoc k a = assoc k args.
Proof.
  unfold comb_uri. intros H N.
  match type of H with bind ?x _ = _ => destruct x as [a1| |] eqn:E1; cbn [bind] in H; try discriminate end.
  match type of H with bind ?x _ = _ => destruct x as [a2| |] eqn:E2; cbn [bind] in H; try discriminate end.
  assert (F1 : NoDup (keys a1) /\ forall k, k <> K_redirect_uris -> assoc k a1 = assoc k args).
  { break_match E1; try (inversion E1; subst; split; [assumption|reflexivity]).
    all: match type of E1 with bind ?x _ = _ => destruct x eqn:?; cbn [bind] in E1; try discriminate end.
    all: inversion E1; subst; split; [now apply nodup_aset|intros; apply assoc_aset_other; congruence]. }
  destruct F1 as [N1 F1].
  assert (F2 : NoDup (keys a2) /\ forall k, k <> K_post_logout -> assoc k a2 = assoc k a1).
  { break_match E2; try (inversion E2; subst; split; [assumption|reflexivity]).
    all: match type of E2 with bind ?x _ = _ => destruct x eqn:?; cbn [bind] in E2; try discriminate end.
    all: inversion E2; subst; split; [now apply nodup_aset|intros; apply assoc_aset_other; congruence]. }
  destruct F2 as [N2 F2].
  assert (F3 : NoDup (keys a) /\ forall k, k <> K_request_uris -> assoc k a = assoc k a2).
  { break_match H; try (inversion H; subst; split; [assumption|reflexivity]).
    all: match type of H with bind ?x _ = _ => destruct x eqn:?; cbn [bind] in H; try discriminate end.
    all: inversion H; subst; split; [now apply nodup_aset|intros; apply assoc_aset_other; congruence]. }
  destruct F3 as [N3 F3]. split; [assumption|].
  intros k Hk. rewrite F3, F2, F1; [reflexivity| | |]; intro C; apply Hk; subst k; cbn; auto.
Qed.

Lemma response_args_sub c cinfo resp k v :
  response_args c cinfo = Ok resp -> NoDup (keys cinfo) -> ~ In k comb_keys ->
  assoc k resp = Some v -> assoc k cinfo = Some v.
Proof.
  unfold response_args. intros H N Hk A.
  match type of H with bind ?x _ = _ => destruct x as [a| |] eqn:E; cbn [bind] in H; try discriminate end.
  inversion H; subst resp. clear H.
  apply comb_uri_frame in E as [Na Fa]; [|now apply nodup_filter].
  apply assoc_filter_some in A; [|assumption]. rewrite Fa in A by assumption.
  eapply assoc_filter_some; eauto.
Qed.

Lemma negotiable_not_comb k : negotiable k = true -> ~ In k comb_keys.
Proof.
  intros H C. apply negotiable_inv in H as (_ & _ & T). apply not_true_iff_false in T. apply T. apply str_in_In.
  cbn in C. cbn. tauto.
Qed.

(* whatever the response carries for a negotiated parameter lies within the provider's list *)
Theorem response_within c cinfo resp k sup v :
  record_within c cinfo -> response_args c cinfo = Ok resp ->
  assoc k (c_support c) = Some sup -> negotiable k = true -> assoc k resp = Some v -> within_support v sup.
Proof.
  intros [N W] RA S Ng A. eapply W; eauto. eapply response_args_sub; eauto. now apply negotiable_not_comb.
Qed.

Theorem echoed_within_support c st o st' cid resp k sup v :
  NoDup (keys (r_req o)) ->
  register c st o = (st', OAccepted cid resp) ->
  assoc k (c_support c) = Some sup -> negotiable k = true -> assoc k resp = Some v -> within_support v sup.
Proof.
  intros N H S Ng A. destruct (stored_record_within _ _ _ _ _ _ N H) as (cinfo & _ & RA & W).
  eapply response_within; eauto.
Qed.

(* ---- view 3: the read endpoint ---- *)
Lemma record_within_auth_method c cinfo :
  assoc K_auth_method (c_support c) = None -> record_within c cinfo -> record_within c (set_auth_method cinfo).
Proof.
  intros HA [N W].
  assert (G : forall x, record_within c (aset K_auth_method x cinfo)).
  { intros x. split; [now apply nodup_aset|]. intros k sup v S Ng A.
    destruct (str_eqb K_auth_method k) eqn:E.
    - apply str_eqb_eq in E. subst k. congruence.
    - apply str_eqb_neq in E. rewrite assoc_aset_other in A by assumption. eauto. }
  unfold set_auth_method. destruct (assoc K_auth_method cinfo) as [[| | | | |m|]|]; try apply G. destruct m; apply G.
Qed.

Theorem read_within_support c st hdr q now st' cid resp k sup v :
  assoc K_auth_method (c_support c) = None ->
  (forall cinfo, assoc cid (s_cdb st) = Some cinfo -> record_within c cinfo) ->
  read c st hdr q now = (st', RAnswer cid resp) ->
  assoc k (c_support c) = Some sup -> negotiable k = true -> assoc k resp = Some v -> within_support v sup.
Proof.
  intros HA Inv H S Ng A. apply read_answer_inv in H as (_ & _ & cinfo & C & _ & _ & R).
  eapply response_within; [|exact R| | |]; eauto. apply record_within_auth_method; auto.
Qed.

(* ---- histories: no request can bring a value outside the lists into the client database ---- *)
Definition cdb_within (c : cfg) (st : state) : Prop :=
  forall cid cinfo, assoc cid (s_cdb st) = Some cinfo -> record_within c cinfo.
Definition op_wf (o : op) : Prop := match o with OpReg r => NoDup (keys (r_req r)) | OpRead _ _ _ => True end.

Lemma register_within c st o st' x :
  NoDup (keys (r_req o)) -> cdb_within c st -> register c st o = (st', x) -> cdb_within c st'.
Proof.
  intros N Inv H. pose proof H as H0. apply register_cases in H.
  destruct H as [x _|cid x extra P _ EX|d0 d1 req0 cid cinfo resp V0 V1 F P D RA]; [assumption| |].
  - unfold cdb_within. cbn [rollback s_cdb set_stub]. apply pick_id_spec in P as [_ P]. apply has_key_false in P.
    rewrite adel_aset_fresh by assumption. exact Inv.
  - destruct (stored_record_within _ _ _ _ _ _ N H0) as (cinfo' & A & _ & W).
    cbn [s_cdb] in A. rewrite assoc_aset_same in A. inversion A; subst cinfo'.
    intros cid2 ci2. cbn [s_cdb]. destruct (str_eqb cid cid2) eqn:E.
    + apply str_eqb_eq in E. subst cid2. rewrite assoc_aset_same. intros X. inversion X; subst. assumption.
    + apply str_eqb_neq in E. rewrite !assoc_aset_other by assumption. apply Inv.
Qed.

Lemma read_within c st hdr q now st' x :
  assoc K_auth_method (c_support c) = None -> cdb_within c st -> read c st hdr q now = (st', x) -> cdb_within c st'.
Proof.
  intros HA Inv H.
  assert (G : forall cid cinfo, assoc cid (s_cdb st) = Some cinfo ->
                cdb_within c (mkSt (aset cid (set_auth_method cinfo) (s_cdb st)) (s_rat st) (s_owners st))).
  { intros cid cinfo A cid2 ci2. cbn [s_cdb]. destruct (str_eqb cid cid2) eqn:E.
    - apply str_eqb_eq in E. subst cid2. rewrite assoc_aset_same. intros X. inversion X; subst.
      apply record_within_auth_method; eauto.
    - apply str_eqb_neq in E. rewrite assoc_aset_other by assumption. apply Inv. }
  unfold read in H.
  repeat match type of H with
         | context [match ?t with _ => _ end] => destruct t eqn:?
         end; inversion H; subst; try assumption; eapply G; eauto.
Qed.

Theorem history_within c ops : forall st st' outs,
  assoc K_auth_method (c_support c) = None -> Forall op_wf ops -> cdb_within c st ->
  run c st ops = (st', outs) -> cdb_within c st'.
Proof.
  induction ops as [|o r IH]; intros st st' outs HA WF Inv H.
  - cbn in H. inversion H; subst. assumption.
  - rewrite run_cons in H. destruct (step c st o) as [s1 x] eqn:S. destruct (run c s1 r) as [s2 xs] eqn:R.
    inversion H; subst. inversion WF as [|? ? W1 WR]; subst.
    eapply IH; [assumption|exact WR| |exact R].
    destruct o as [ro|h q now]; cbn [step] in S.
    + destruct (register c st ro) as [s y] eqn:E. inversion S; subst. eapply register_within; eauto.
    + destruct (read c st h q now) as [s y] eqn:E. inversion S; subst. eapply read_within; eauto.
Qed.

Lemma cdb_within_empty c rat owners : cdb_within c (mkSt [] rat owners).
Proof. intros cid cinfo H. discriminate. Qed.

(* after any history, whatever the read endpoint answers lies within the lists *)
Theorem history_read_within c ops st st' outs hdr q now s2 cid resp k sup v :
  assoc K_auth_method (c_support c) = None -> Forall op_wf ops -> cdb_within c st ->
  run c st ops = (st', outs) ->
  read c st' hdr q now = (s2, RAnswer cid resp) ->
  assoc k (c_support c) = Some sup -> negotiable k = true -> assoc k resp = Some v -> within_support v sup.
Proof.
  intros HA WF Inv R H S Ng A. pose proof (history_within _ _ _ _ _ HA WF Inv R) as Inv'.
  eapply (read_within_support c st' hdr q now s2 cid resp k sup v); eauto.
Qed.

(* the three encryption-enc parameters are negotiated ones; in particular the default that verify() fills in for an
   alg-only request is stored only when the provider lists it *)
Lemma enc_keys_negotiable k : In k enc_keys -> negotiable k = true.
Proof. intros H. cbn in H. repeat (destruct H as [<-|H]; [vm_compute; reflexivity|]). contradiction. Qed.

Theorem default_enc_only_if_listed c st o st' cid resp k sup :
  NoDup (keys (r_req o)) ->
  register c st o = (st', OAccepted cid resp) ->
  In k enc_keys -> assoc k (c_support c) = Some sup ->
  forall cinfo, assoc cid (s_cdb st') = Some cinfo -> assoc k cinfo = Some (VStr S_default_enc) -> In S_default_enc sup.
Proof.
  intros N H Hk S cinfo C A. destruct (stored_record_within _ _ _ _ _ _ N H) as (cinfo' & C' & _ & _ & W).
  rewrite C in C'. inversion C'; subst cinfo'.
  exact (W k sup _ S (enc_keys_negotiable _ Hk) A).
Qed.
