(* Proofs/RpReuse_proofs.v — the nonce clause of C08 over histories in which authorization requests are begun
   under states that already have a record (Model/RpReuse.v): an accepted ID Token carries the nonce of the
   LATEST request under its state. *)
From Coq Require Import String.
From Verif Require Import Lib.Base Lib.PyStr Lib.RpTy Gen.RpTables Model.IdToken Model.RpState Model.RpReuse
     Proofs.IdToken_proofs Proofs.RpState_proofs.
Open Scope string_scope.

Lemma in_assoc_some {V} k (v : V) (d : list (pystr * V)) : In (k, v) d -> exists v', assoc k d = Some v'.
Proof.
  induction d as [|[k' v'] r IH]; [intros []|]. intros [Heq|Hin]; cbn [assoc].
  - inversion Heq; subst. rewrite str_eqb_refl. eauto.
  - destruct (str_eqb k k'); eauto.
Qed.

Section Reuse.
  Variable lhash : pystr -> pystr -> pystr.

  (* for every state of client i, the record names the nonce of the latest request under it *)
  Definition latest_inv (w : list (pystr * client)) (i : pystr) (L : list (pystr * pystr)) : Prop :=
    forall st n, assoc st (List.rev L) = Some n ->
      (exists rec, rec_of w i st = Some rec /\ assoc (PS "nonce") rec = Some (VStr n)) /\ n <> [].

  Lemma step_latest_inv w o w' out i L :
    latest_inv w i L -> sound_begin w o -> step lhash w o = (w', out) -> latest_inv w' i (L ++ sent_by i [o]).
  Proof.
    intros Hinv Hb H.
    destruct o as [j st0 nonce req|i0 r now|i0 st0 r now|i0 st0 u|st0 r now|i0 st0 r now|st0 r now|st0 u].
    1: {
      cbn [step] in H. cbn [sound_begin] in Hb. destruct Hb as (Hcl & _ & Hne & Hhas & Honly).
      unfold has_key in Hcl. destruct (assoc j w) as [c|] eqn:Ej; [|discriminate]. clear Hcl.
      inversion H; subst w'. clear H. cbn [sent_by].
      destruct (str_eqb j i) eqn:E.
      - apply str_eqb_eq in E. subst j. intros st n Hin. rewrite rev_unit in Hin. cbn [assoc] in Hin.
        unfold rec_of, w_set. rewrite assoc_aset_same. cbn [step_begin cl_db].
        destruct (str_eqb st st0) eqn:Es.
        + apply str_eqb_eq in Es. subst st0. inversion Hin; subst n. rewrite assoc_aset_same.
          split; [|exact Hne]. eexists. split; [reflexivity|].
          apply dict_update_assoc_only; [exact Honly|left; exact Hhas].
        + destruct (Hinv _ _ Hin) as ((rec & Hr & Hn) & Hnn). unfold rec_of in Hr. rewrite Ej in Hr.
          rewrite assoc_aset_other by (intro; subst; rewrite str_eqb_refl in Es; discriminate).
          split; [eauto|exact Hnn].
      - rewrite app_nil_r. intros st n Hin. destruct (Hinv _ _ Hin) as ((rec & Hr & Hn) & Hnn).
        unfold rec_of, w_set in *.
        rewrite assoc_aset_other by (intro; subst; rewrite str_eqb_refl in E; discriminate). split; [eauto|exact Hnn]. }
    all: cbn [sent_by]; rewrite app_nil_r; intros st n Hin; destruct (Hinv _ _ Hin) as ((rec & Hr & Hn) & Hnn);
      (split; [eapply step_keeps_record_nonce; eauto; intros; discriminate|exact Hnn]).
  Qed.

  Lemma run_latest_inv : forall ops w i L,
    latest_inv w i L -> reuse_history lhash w ops -> latest_inv (run lhash w ops) i (L ++ sent_by i ops).
  Proof.
    induction ops as [|o r IH]; intros w i L Hinv Hf.
    - cbn. rewrite app_nil_r. exact Hinv.
    - cbn [run]. cbn [reuse_history] in Hf. destruct Hf as [Hfo Hfr].
      destruct (step lhash w o) as [w1 out] eqn:E. cbn [fst] in *.
      change (o :: r) with ([o] ++ r)%list. rewrite sent_by_app, app_assoc.
      apply IH; [|exact Hfr]. eapply step_latest_inv; eauto.
  Qed.

  Lemma reuse_invariant cfgs ops i st n :
    reuse_history lhash (init_world cfgs) ops -> latest_sent i ops st = Some n ->
    (exists rec, rec_of (run lhash (init_world cfgs) ops) i st = Some rec /\ assoc (PS "nonce") rec = Some (VStr n)) /\
    n <> [].
  Proof.
    intros Hf Hl.
    assert (H0 : latest_inv (init_world cfgs) i []) by (intros s m H; discriminate).
    exact (run_latest_inv ops _ i [] H0 Hf st n Hl).
  Qed.

  (* THE NONCE CLAUSE OVER HISTORIES WITH RE-USED STATES *)
  Theorem reuse_history_nonce_sent cfgs pre o w' stored i st vd :
    reuse_history lhash (init_world cfgs) pre ->
    step lhash (run lhash (init_world cfgs) pre) o = (w', Ok stored) ->
    idtoken_op o = true -> has_key (PS "error") stored = false ->
    op_target (run lhash (init_world cfgs) pre) o = Some i -> accepted_for o stored st ->
    assoc (verified_name (PS "id_token")) stored = Some (VDict vd) ->
    exists n, latest_sent i pre st = Some n /\
      (forall x, assoc (PS "nonce") vd = Some x -> x = VStr n) /\
      (refresh_of o = None -> assoc (PS "nonce") vd = Some (VStr n)).
  Proof.
    intros Hf H Hop Herr Ht Hfor Hv.
    destruct (accepted_nonce_of_record lhash _ _ _ _ _ _ _ H Hop Herr Ht Hfor Hv) as (rec & Hr & Hall).
    assert (Hissued : In (i, st) (issued pre)).
    { unfold rec_of in Hr. destruct (assoc i (run lhash (init_world cfgs) pre)) as [c|] eqn:Ec; [|discriminate].
      eapply history_states_issued; eauto. unfold has_key. rewrite Hr. reflexivity. }
    destruct (issued_sent_by _ _ _ Hissued) as (n0 & Hin).
    apply in_rev in Hin. destruct (in_assoc_some _ _ _ Hin) as (n & Hl).
    destruct (reuse_invariant cfgs pre i st n Hf Hl) as ((rec' & Hr' & Hn) & Hnn).
    assert (rec' = rec) by congruence. subst rec'.
    exists n. split; [exact Hl|]. apply (Hall n Hn Hnn).
  Qed.

  (* what latest_sent is: the empty history has sent nothing; a request of client i under st makes its nonce the
     latest one for st; no other operation changes it *)
  Lemma latest_sent_nil i st : latest_sent i [] st = None.
  Proof. reflexivity. Qed.
  Lemma latest_sent_begin i ops st n req : latest_sent i (ops ++ [OBegin i st n req]) st = Some n.
  Proof.
    unfold latest_sent. rewrite sent_by_app. cbn [sent_by]. rewrite str_eqb_refl, rev_unit. cbn [assoc].
    now rewrite str_eqb_refl.
  Qed.
  Lemma latest_sent_other i ops o st :
    (forall n req, o <> OBegin i st n req) -> latest_sent i (ops ++ [o]) st = latest_sent i ops st.
  Proof.
    intro Hne. unfold latest_sent. rewrite sent_by_app.
    destruct o as [j s n req| | | | | | |]; cbn [sent_by]; try (now rewrite app_nil_r).
    destruct (str_eqb j i) eqn:E; [|now rewrite app_nil_r].
    apply str_eqb_eq in E. subst j. rewrite rev_unit. cbn [assoc].
    destruct (str_eqb st s) eqn:Es; [|reflexivity].
    apply str_eqb_eq in Es. subst s. exfalso. eapply Hne. reflexivity.
  Qed.

  (* the histories of Model/RpState.v (every state fresh) are among these, and there the latest request under a
     state is its only one *)
  Lemma fresh_is_reuse : forall ops w, fresh_history lhash w ops -> reuse_history lhash w ops.
  Proof.
    induction ops as [|o r IH]; intros w Hf; [exact I|].
    cbn [fresh_history] in Hf. destruct Hf as [Hb Hr]. cbn [reuse_history]. split; [|apply IH; exact Hr].
    destruct o; cbn [fresh_begin sound_begin] in *; auto. tauto.
  Qed.

  Lemma fresh_latest_is_sent cfgs ops i st n :
    fresh_history lhash (init_world cfgs) ops -> (latest_sent i ops st = Some n <-> In (st, n) (sent_by i ops)).
  Proof.
    intro Hf. split.
    - unfold latest_sent. intro Hl. apply in_rev. clear Hf. induction (List.rev (sent_by i ops)) as [|[k v] r IH]; [discriminate|].
      cbn [assoc] in Hl. destruct (str_eqb st k) eqn:E.
      + apply str_eqb_eq in E. inversion Hl; subst. now left.
      + right. auto.
    - intro Hin. pose proof Hin as Hin0. apply in_rev in Hin. destruct (in_assoc_some _ _ _ Hin) as (n' & Hl).
      assert (Hin' : In (st, n') (sent_by i ops)).
      { apply in_rev. clear - Hl. unfold latest_sent in *. induction (List.rev (sent_by i ops)) as [|[k v] r IH]; [discriminate|].
        cbn [assoc] in Hl. destruct (str_eqb st k) eqn:E.
        - apply str_eqb_eq in E. inversion Hl; subst. now left.
        - right. auto. }
      pose proof (history_nonce_inv lhash cfgs ops i Hf) as Hinv.
      rewrite (nonce_inv_unique _ _ _ _ _ _ Hinv Hin0 Hin'). exact Hl.
  Qed.
End Reuse.
