(* Proofs/RpState_proofs.v — lemmas about Model/RpState.v (properties C08 and C09). *)
From Coq Require Import String Lia.
From Verif Require Import Lib.Base Lib.PyStr Lib.RpTy Gen.RpTables Model.IdToken Model.RpState Proofs.IdToken_proofs.
Open Scope string_scope.

(* ---- association lists ---- *)
Lemma aset_same_id {V} k (v : V) d : assoc k d = Some v -> aset k v d = d.
Proof.
  induction d as [|[k' v'] r IH]; cbn; intro H; [discriminate|].
  destruct (str_eqb k k') eqn:E.
  - inversion H; subst. reflexivity.
  - rewrite IH; auto.
Qed.

Lemma assoc_filter_keep {V} (f : pystr -> bool) k (d : list (pystr * V)) :
  f k = true -> assoc k (filter (fun kv => f (fst kv)) d) = assoc k d.
Proof.
  intro Hf. induction d as [|[k' v] r IH]; cbn; [reflexivity|].
  destruct (f k') eqn:E; cbn.
  - destruct (str_eqb k k'); auto.
  - destruct (str_eqb k k') eqn:Ek; auto. apply str_eqb_eq in Ek. subst. congruence.
Qed.
Lemma assoc_filter_drop {V} (f : pystr -> bool) k (d : list (pystr * V)) :
  f k = false -> assoc k (filter (fun kv => f (fst kv)) d) = None.
Proof.
  intro Hf. induction d as [|[k' v] r IH]; cbn; [reflexivity|].
  destruct (f k') eqn:E; cbn; auto.
  destruct (str_eqb k k') eqn:Ek; auto. apply str_eqb_eq in Ek. subst. congruence.
Qed.

Lemma has_key_assoc {V} k (d : list (pystr * V)) : has_key k d = true <-> exists v, assoc k d = Some v.
Proof. unfold has_key. destruct (assoc k d); split; intro H; eauto; try discriminate. destruct H; discriminate. Qed.
Lemma has_key_false {V} k (d : list (pystr * V)) : has_key k d = false <-> assoc k d = None.
Proof. unfold has_key. destruct (assoc k d); split; intro H; auto; discriminate. Qed.

(* ---- Current ---- *)
Lemma db_update_other db st info s' : s' <> st -> assoc s' (db_update db st info) = assoc s' db.
Proof.
  intro Hne. unfold db_update. destruct (assoc st db); apply assoc_aset_other; congruence.
Qed.
Lemma db_update_same db st info :
  assoc st (db_update db st info) =
  Some (match assoc st db with Some cur => dict_update cur (keep_nonce cur info) | None => info end).
Proof. unfold db_update. destruct (assoc st db); apply assoc_aset_same. Qed.

(* ---- serialisation of a stored response keeps the parameters that matter ---- *)
Lemma resp_to_dict_assoc spec d k :
  (match find_spec k spec with Some ps => match ps_type ps with CSpList => false | _ => true end | None => true end) = true ->
  assoc k (resp_to_dict spec d) = assoc k d.
Proof.
  intro Hk. unfold resp_to_dict. induction d as [|[k' v] r IH]; cbn [List.map assoc]; [reflexivity|].
  destruct (str_eqb k k') eqn:E.
  - apply str_eqb_eq in E. subst k'. cbn [fst snd].
    destruct (find_spec k spec) as [ps|]; cbn [fst snd]; [|rewrite str_eqb_refl; reflexivity].
    destruct (ps_type ps); try discriminate; cbn [fst]; rewrite str_eqb_refl; reflexivity.
  - cbn [fst snd]. destruct (find_spec k' spec) as [ps|]; cbn [fst]; [|rewrite E; exact IH].
    destruct (ps_type ps), v; cbn [fst]; rewrite E; exact IH.
Qed.
Lemma resp_to_dict_has_key spec d k : has_key k (resp_to_dict spec d) = has_key k d.
Proof.
  unfold resp_to_dict, has_key. induction d as [|[k' v] r IH]; cbn [List.map assoc]; [reflexivity|].
  cbn [fst snd]. destruct (find_spec k' spec) as [ps|]; cbn [fst].
  - destruct (ps_type ps), v; cbn [fst]; destruct (str_eqb k k'); auto.
  - destruct (str_eqb k k'); auto.
Qed.

Lemma with_expires_at_assoc d now stored k :
  with_expires_at d now = Ok stored -> k <> PS "__expires_at" -> assoc k stored = assoc k d.
Proof.
  unfold with_expires_at. destruct (assoc (PS "expires_in") d) as [[| |e| | | |]|]; intros H Hne; inversion H; subst; auto.
  apply assoc_aset_other. congruence.
Qed.
Lemma with_expires_at_has_key d now stored k :
  with_expires_at d now = Ok stored -> k <> PS "__expires_at" -> has_key k stored = has_key k d.
Proof. intros H Hne. unfold has_key. erewrite with_expires_at_assoc; eauto. Qed.

(* ---- clear_verified_claims ---- *)
Lemma strip_verified_none d c : In c claims_with_verified -> assoc (verified_name c) (strip_verified d) = None.
Proof.
  intro Hin. unfold strip_verified.
  apply (assoc_filter_drop (fun k => negb (is_verified_name k))).
  apply negb_false_iff. unfold is_verified_name. apply existsb_exists. exists c. split; auto. apply str_eqb_refl.
Qed.
Lemma strip_verified_keep d k : is_verified_name k = false -> assoc k (strip_verified d) = assoc k d.
Proof.
  intro H. unfold strip_verified. apply (assoc_filter_keep (fun k => negb (is_verified_name k))). now rewrite H.
Qed.
Lemma id_token_is_listed : In (PS "id_token") claims_with_verified.
Proof. vm_compute. tauto. Qed.

(* invert H only when its left-hand side already is a pair (never reduce a big stuck match) *)
Ltac pair_same H := lazymatch type of H with (pair _ _) = _ => inversion H; reflexivity end.
Ltac pair_absurd H := lazymatch type of H with (pair _ _) = _ => now inversion H end.

Section WithHash.
  Variable lhash : pystr -> pystr -> pystr.

  (* ---- message-level response verification ---- *)
  Lemma authz_response_verify_inv kw d idt now d1 :
    authz_response_verify lhash kw d idt now = Ok d1 ->
    param_matches d (PS "client_id") (kw_client_id kw) = Ok tt /\
    param_matches d (PS "iss") (kw_iss kw) = Ok tt /\
    (forall k, is_verified_name k = false -> assoc k d1 = assoc k d) /\
    (forall v, assoc (verified_name (PS "id_token")) d1 = Some v ->
       exists t code atok vd, idt = Some t /\ v = VDict vd /\
         opt_param (strip_verified d) (PS "code") = Ok code /\
         opt_param (strip_verified d) (PS "access_token") = Ok atok /\
         verify_id_token lhash kw true code atok t now = Ok vd).
  Proof.
    unfold authz_response_verify. intro H.
    apply bind_ok in H as ([] & _ & H). apply bind_ok in H as ([] & _ & H).
    apply bind_ok in H as ([] & Hc & H). apply bind_ok in H as ([] & Hi & H).
    split; [exact Hc|]. split; [exact Hi|].
    destruct (assoc (PS "id_token") (strip_verified d)) as [[| | |s| | |]|] eqn:Eid; try discriminate.
    - destruct idt as [t|]; try discriminate.
      apply bind_ok in H as (code & Hcode & H). apply bind_ok in H as (atok & Hat & H).
      apply bind_ok in H as (vd & Hv & H). inversion H; subst d1. split.
      + intros k Hk. rewrite assoc_aset_other.
        * apply strip_verified_keep; exact Hk.
        * intro E. subst k. unfold is_verified_name in Hk.
          assert (existsb (fun c => str_eqb (verified_name (PS "id_token")) (verified_name c)) claims_with_verified = true).
          { apply existsb_exists. exists (PS "id_token"). split; [apply id_token_is_listed|apply str_eqb_refl]. }
          congruence.
      + intros v Hv'. rewrite assoc_aset_same in Hv'. inversion Hv'; subst v.
        exists t, code, atok, vd. repeat split; auto.
    - inversion H; subst d1. split.
      + intros k Hk. apply strip_verified_keep; exact Hk.
      + intros v Hv. rewrite strip_verified_none in Hv by apply id_token_is_listed. discriminate.
  Qed.

  Lemma token_response_verify_inv kw d idt now d1 :
    token_response_verify lhash kw d idt now = Ok d1 ->
    (forall k, is_verified_name k = false -> assoc k d1 = assoc k d) /\
    (forall v, assoc (verified_name (PS "id_token")) d1 = Some v ->
       exists t vd, idt = Some t /\ v = VDict vd /\ verify_id_token lhash kw false None None t now = Ok vd).
  Proof.
    unfold token_response_verify. intro H.
    apply bind_ok in H as ([] & _ & H). apply bind_ok in H as ([] & _ & H).
    destruct (assoc (PS "id_token") (strip_verified d)) as [[| | |s| | |]|] eqn:Eid; try discriminate.
    - destruct idt as [t|]; try discriminate.
      apply bind_ok in H as (vd & Hv & H). inversion H; subst d1. split.
      + intros k Hk. rewrite assoc_aset_other.
        * apply strip_verified_keep; exact Hk.
        * intro E. subst k. unfold is_verified_name in Hk.
          assert (existsb (fun c => str_eqb (verified_name (PS "id_token")) (verified_name c)) claims_with_verified = true).
          { apply existsb_exists. exists (PS "id_token"). split; [apply id_token_is_listed|apply str_eqb_refl]. }
          congruence.
      + intros v Hv'. rewrite assoc_aset_same in Hv'. inversion Hv'; subst v. exists t, vd. auto.
    - inversion H; subst d1. split.
      + intros k Hk. apply strip_verified_keep; exact Hk.
      + intros v Hv. rewrite strip_verified_none in Hv by apply id_token_is_listed. discriminate.
  Qed.

  (* ---- what an accepted authorization response establishes ---- *)
  Definition eff_issuer (cfg : rp_cfg) : pystr :=
    match cf_pi_issuer cfg with Some i => i | None => cf_issuer cfg end.

  Lemma state_param_inv d st : state_param d = Ok st -> assoc (PS "state") d = Some (VStr st).
  Proof. unfold state_param. destruct (assoc (PS "state") d) as [[| | |s| | |]|]; intro H; inversion H; reflexivity. Qed.

  Lemma verified_nonempty kw ch code atok t now vd :
    verify_id_token lhash kw ch code atok t now = Ok vd -> exists x r, vd = x :: r.
  Proof.
    intro H. apply verify_id_token_stages in H as (signed & _ & _ & _ & Hr & _).
    destruct (check_required_ok _ _ Hr _ idtoken_iss_required eq_refl) as (v & Hv & _).
    destruct vd as [|x r]; [discriminate|eauto].
  Qed.

  Lemma parse_authz_inv c r now d :
    parse_authz lhash c r now = Ok d -> has_key (PS "error") d = false ->
    exists d0, from_dict authz_resp_params (r_params r) [] = Ok d0 /\
      authz_response_verify lhash (svc_kwargs (cl_cfg c)) d0 (r_idt r) now = Ok d /\
      (forall x idt, assoc (verified_name (PS "id_token")) d = Some (VDict (x :: idt)) ->
         exists st rec, state_param d = Ok st /\ db_get (cl_db c) st = Ok rec /\
           forall n, assoc (PS "nonce") rec = Some (VStr n) -> n <> [] -> assoc (PS "nonce") (x :: idt) = Some (VStr n)).
  Proof.
    unfold parse_authz. intros H Hne.
    destruct (r_params r) as [|p ps] eqn:Erp; try discriminate.
    destruct (from_dict authz_resp_params (p :: ps) []) as [[|y d0]| |] eqn:Ef; try discriminate.
    destruct (has_key (PS "error") (y :: d0)) eqn:Eerr.
    - inversion H; subst d. congruence.
    - apply bind_ok in H as (d1 & Hv & H). apply bind_ok in H as ([] & Hpost & H). inversion H; subst d1.
      exists (y :: d0). split; [reflexivity|]. split; [exact Hv|].
      intros x idt Hx. rewrite Hx in Hpost.
      apply bind_ok in Hpost as (st & Hst & Hpost). apply bind_ok in Hpost as (rec & Hrec & Hpost).
      exists st, rec. split; [exact Hst|]. split; [exact Hrec|].
      intros n Hn Hnn. rewrite Hn in Hpost.
      destruct n as [|c0 n']; [congruence|]. cbn [py_truthy] in Hpost.
      destruct (assoc (PS "nonce") (x :: idt)) as [v|]; try discriminate.
      destruct (py_truthy v); try discriminate.
      destruct (pyval_eqb (VStr (c0 :: n')) v) eqn:E; try discriminate.
      apply pyval_eqb_vstr_l in E. congruence.
  Qed.

  Lemma key_not_expires_state : PS "state" <> PS "__expires_at". Proof. intro E; vm_compute in E; discriminate. Qed.
  Lemma key_not_expires_iss : PS "iss" <> PS "__expires_at". Proof. intro E; vm_compute in E; discriminate. Qed.
  Lemma key_not_expires_cid : PS "client_id" <> PS "__expires_at". Proof. intro E; vm_compute in E; discriminate. Qed.
  Lemma key_not_expires_err : PS "error" <> PS "__expires_at". Proof. intro E; vm_compute in E; discriminate. Qed.
  Lemma key_not_expires_ver : verified_name (PS "id_token") <> PS "__expires_at".
  Proof. intro E; vm_compute in E; discriminate. Qed.

  Lemma stored_assoc spec d now stored k :
    with_expires_at (resp_to_dict spec d) now = Ok stored -> k <> PS "__expires_at" ->
    (match find_spec k spec with Some ps => match ps_type ps with CSpList => false | _ => true end | None => true end) = true ->
    assoc k stored = assoc k d.
  Proof.
    intros H Hne Hk. rewrite (with_expires_at_assoc _ _ _ _ H Hne). apply resp_to_dict_assoc; exact Hk.
  Qed.

  Theorem step_authz_accept c r now c' stored :
    step_authz lhash c r now = (c', Ok stored) -> has_key (PS "error") stored = false ->
    exists st rec,
      assoc (PS "state") stored = Some (VStr st) /\
      db_get (cl_db c) st = Ok rec /\
      assoc (PS "iss") rec = Some (VStr (eff_issuer (cl_cfg c))) /\
      (forall v, assoc (PS "iss") stored = Some v -> v = VStr (cf_issuer (cl_cfg c))) /\
      (cf_client_id (cl_cfg c) <> [] ->
       forall v, assoc (PS "client_id") stored = Some v -> v = VStr (cf_client_id (cl_cfg c))) /\
      c' = mkClient (cl_cfg c) (db_update (cl_db c) st stored) (cl_map c) /\
      (forall v, assoc (verified_name (PS "id_token")) stored = Some v ->
         exists t code atok vd, r_idt r = Some t /\ v = VDict vd /\
           verify_id_token lhash (svc_kwargs (cl_cfg c)) true code atok t now = Ok vd /\
           (forall n, assoc (PS "nonce") rec = Some (VStr n) -> n <> [] -> assoc (PS "nonce") vd = Some (VStr n))).
  Proof.
    unfold step_authz. intros H Hnoerr.
    destruct (parse_authz lhash c r now) as [d| |] eqn:Hp; try (pair_absurd H).
    destruct (has_key (PS "error") d) eqn:Eerr.
    { inversion H; subst. rewrite resp_to_dict_has_key in Hnoerr. congruence. }
    destruct (state_param d) as [st| |] eqn:Est; try (pair_absurd H).
    destruct (db_get (cl_db c) st) as [rec| |] eqn:Erec; try (pair_absurd H).
    fold (eff_issuer (cl_cfg c)) in H.
    destruct (negb (option_eqb pyval_eqb (assoc (PS "iss") rec) (Some (VStr (eff_issuer (cl_cfg c)))))) eqn:Eiss;
      [pair_absurd H|].
    destruct (with_expires_at (resp_to_dict authz_resp_params d) now) as [st0| |] eqn:Ew; try (pair_absurd H).
    inversion H; subst c' st0.
    clear H. apply negb_false_iff in Eiss.
    destruct (parse_authz_inv _ _ _ _ Hp Eerr) as (d0 & Hf & Hv & Hpost).
    destruct (authz_response_verify_inv _ _ _ _ _ Hv) as (Hcid & Hissp & Hkeep & Hver).
    assert (Sstate : assoc (PS "state") stored = assoc (PS "state") d)
      by (eapply stored_assoc; eauto using key_not_expires_state).
    assert (Siss : assoc (PS "iss") stored = assoc (PS "iss") d)
      by (eapply stored_assoc; eauto using key_not_expires_iss).
    assert (Scid : assoc (PS "client_id") stored = assoc (PS "client_id") d)
      by (eapply stored_assoc; eauto using key_not_expires_cid).
    assert (Sver : assoc (verified_name (PS "id_token")) stored = assoc (verified_name (PS "id_token")) d)
      by (eapply stored_assoc; eauto using key_not_expires_ver).
    exists st, rec.
    split; [rewrite Sstate; apply state_param_inv; exact Est|].
    split; [exact Erec|].
    split.
    { destruct (assoc (PS "iss") rec) as [v|]; cbn in Eiss; try discriminate.
      apply pyval_eqb_vstr_r in Eiss. congruence. }
    split.
    { intros v Hv'. rewrite Siss, (Hkeep (PS "iss") eq_refl) in Hv'.
      unfold param_matches in Hissp. rewrite Hv' in Hissp. cbn [svc_kwargs kw_iss] in Hissp.
      destruct (pyval_eqb v (VStr (cf_issuer (cl_cfg c)))) eqn:E; try discriminate.
      now apply pyval_eqb_vstr_r. }
    split.
    { intros Hne v Hv'. rewrite Scid, (Hkeep (PS "client_id") eq_refl) in Hv'.
      unfold param_matches in Hcid. rewrite Hv' in Hcid. cbn [svc_kwargs kw_client_id] in Hcid.
      destruct (cf_client_id (cl_cfg c)) as [|c0 cid] eqn:Ecid; [congruence|].
      destruct (pyval_eqb v (VStr (c0 :: cid))) eqn:E; try discriminate.
      now apply pyval_eqb_vstr_r. }
    split; [reflexivity|].
    intros v Hv'. rewrite Sver in Hv'.
    destruct (Hver v Hv') as (t & code & atok & vd & Ht & -> & _ & _ & Hvd).
    exists t, code, atok, vd. repeat split; auto.
    intros n Hn Hnn.
    destruct (verified_nonempty _ _ _ _ _ _ _ Hvd) as (x & idt & ->).
    destruct (Hpost x idt Hv') as (st' & rec' & Hst' & Hrec' & Hnonce).
    rewrite Est in Hst'. inversion Hst'; subst st'. rewrite Erec in Hrec'. inversion Hrec'; subst rec'.
    apply Hnonce; auto.
  Qed.

  (* ---- what an accepted token response establishes ---- *)
  Theorem step_token_accept c st r now c' stored :
    step_token lhash c st r now = (c', Ok stored) ->
    exists rec,
      db_get (cl_db c) st = Ok rec /\
      cl_cfg c' = cl_cfg c /\
      cl_db c' = db_update (cl_db c) st stored /\
      (forall v, assoc (verified_name (PS "id_token")) stored = Some v ->
         exists t vd n sub, r_idt r = Some t /\ v = VDict vd /\
           verify_id_token lhash (svc_kwargs (cl_cfg c)) false None None t now = Ok vd /\
           assoc (PS "nonce") vd = Some (VStr n) /\ assoc n (cl_map c) = Some st /\
           assoc (PS "sub") vd = Some (VStr sub) /\ cl_map c' = aset sub st (cl_map c) /\
           sub_clash (cl_db c) (cl_map c) st sub = false /\
           assoc (PS "nonce") rec = Some (VStr n)) /\
      (assoc (verified_name (PS "id_token")) stored = None -> cl_map c' = cl_map c).
  Proof.
    unfold step_token. intro H.
    destruct (db_get (cl_db c) st) as [rec| |] eqn:Erec; try (pair_absurd H).
    destruct (negb _); [pair_absurd H|].
    destruct (r_params r) as [|p ps]; [pair_absurd H|].
    destruct (from_dict token_resp_params (p :: ps) []) as [[|x d]| |]; try (pair_absurd H).
    destruct (has_key (PS "error") (x :: d)); [pair_absurd H|].
    destruct (token_response_verify lhash (svc_kwargs (cl_cfg c)) (x :: d) (r_idt r) now) as [d1| |] eqn:Hv;
      try (pair_absurd H).
    destruct (token_response_verify_inv _ _ _ _ _ Hv) as (_ & Hver).
    assert (Sver : forall stored0, with_expires_at (resp_to_dict token_resp_params d1) now = Ok stored0 ->
              assoc (verified_name (PS "id_token")) stored0 = assoc (verified_name (PS "id_token")) d1).
    { intros s0 Hs0. eapply stored_assoc; eauto using key_not_expires_ver. }
    exists rec. split; [reflexivity|].
    destruct (assoc (verified_name (PS "id_token")) d1) as [v1|] eqn:Ev1.
    - destruct (Hver v1 eq_refl) as (t & vd & Ht & -> & Hvd).
      destruct (assoc (PS "nonce") vd) as [[| | |n| | |]|] eqn:En; try (pair_absurd H).
      destruct (assoc n (cl_map c)) as [s|] eqn:Emap; try (pair_absurd H).
      destruct (str_eqb s st) eqn:Es; try (pair_absurd H). apply str_eqb_eq in Es. subst s.
      destruct (negb (option_eqb pyval_eqb (assoc (PS "nonce") rec) (Some (VStr n)))) eqn:Ercn; try (pair_absurd H).
      apply negb_false_iff in Ercn.
      assert (Hrn : assoc (PS "nonce") rec = Some (VStr n)).
      { destruct (assoc (PS "nonce") rec) as [v0|]; cbn in Ercn; try discriminate.
        apply pyval_eqb_vstr_r in Ercn. congruence. }
      destruct (assoc (PS "sub") vd) as [[| | |sub| | |]|] eqn:Esub; try (pair_absurd H).
      destruct (sub_clash (cl_db c) (cl_map c) st sub) eqn:Eclash; try (pair_absurd H).
      destruct (with_expires_at (resp_to_dict token_resp_params d1) now) as [s0| |] eqn:Ew; try (pair_absurd H).
      inversion H; subst c' s0.
      cbn [cl_cfg cl_db cl_map]. split; [reflexivity|]. split; [reflexivity|]. split.
      + intros v Hv'. rewrite (Sver _ eq_refl) in Hv'. inversion Hv'; subst v.
        exists t, vd, n, sub. repeat split; auto.
      + intro Hnone. rewrite (Sver _ eq_refl) in Hnone. discriminate.
    - destruct (with_expires_at (resp_to_dict token_resp_params d1) now) as [s0| |] eqn:Ew; try (pair_absurd H).
      inversion H; subst c' s0.
      cbn [cl_cfg cl_db cl_map]. split; [reflexivity|]. split; [reflexivity|]. split.
      + intros v Hv'. rewrite (Sver _ eq_refl) in Hv'. discriminate.
      + intros _. reflexivity.
  Qed.

  Theorem step_userinfo_accept c st u c' d :
    step_userinfo c st u = (c', Ok d) ->
    exists rec, db_get (cl_db c) st = Ok rec /\
      c' = mkClient (cl_cfg c) (db_update (cl_db c) st d) (cl_map c) /\
      (forall idt s, assoc (verified_name (PS "id_token")) rec = Some (VDict idt) ->
                     assoc (PS "sub") idt = Some (VStr s) -> assoc (PS "sub") d = Some (VStr s)).
  Proof.
    unfold step_userinfo. intro H.
    destruct (db_get (cl_db c) st) as [rec| |] eqn:Erec; try (pair_absurd H).
    destruct (negb _); [pair_absurd H|].
    destruct u as [|p ps]; [pair_absurd H|].
    destruct (from_dict userinfo_params (p :: ps) []) as [[|x d0]| |]; try (pair_absurd H).
    destruct (has_key (PS "error") (x :: d0)); [pair_absurd H|].
    destruct (check_required userinfo_params (x :: d0)); try (pair_absurd H).
    destruct (_ || _); [pair_absurd H|].
    exists rec. split; [reflexivity|].
    destruct (assoc (verified_name (PS "id_token")) rec) as [[| | | | |idt|]|] eqn:Ev; try (pair_absurd H).
    destruct (assoc (PS "sub") idt) as [s|] eqn:Es.
      + destruct (option_eqb pyval_eqb (assoc (PS "sub") (x :: d0)) (Some s)) eqn:Eq; try (pair_absurd H).
        inversion H; subst.
        split; [reflexivity|]. intros idt' s' Hi Hs'. inversion Hi; subst idt'. rewrite Es in Hs'. inversion Hs'; subst s.
        destruct (assoc (PS "sub") (x :: d0)) as [v|]; cbn in Eq; try discriminate.
        apply pyval_eqb_vstr_r in Eq. congruence.
      + inversion H; subst. split; [reflexivity|]. intros idt' s' Hi Hs'. inversion Hi; subst. congruence.
  Qed.

  (* ---- a refused operation changes nothing (C08: never stored; C09: rejected op changes nothing) ---- *)
  Lemma step_authz_reject c r now c' out :
    step_authz lhash c r now = (c', out) -> (forall d, out <> Ok d) -> c' = c.
  Proof.
    unfold step_authz. intros H Hno.
    destruct (parse_authz lhash c r now) as [d| |]; try (pair_same H).
    destruct (has_key (PS "error") d); [pair_same H|].
    destruct (state_param d) as [st| |]; try (pair_same H).
    destruct (db_get (cl_db c) st) as [rec| |]; try (pair_same H).
    destruct (negb _); [pair_same H|].
    destruct (with_expires_at _ now) as [stored| |]; inversion H; subst; auto.
    exfalso. eapply Hno; reflexivity.
  Qed.

  Lemma step_token_reject c st r now c' out :
    step_token lhash c st r now = (c', out) -> (forall d, out <> Ok d) -> c' = c.
  Proof.
    unfold step_token. intros H Hno.
    destruct (db_get (cl_db c) st) as [rec| |]; try (pair_same H).
    destruct (negb _); [pair_same H|].
    destruct (r_params r); [pair_same H|].
    destruct (from_dict token_resp_params _ []) as [[|x d]| |]; try (pair_same H).
    destruct (has_key (PS "error") (x :: d)); [pair_same H|].
    destruct (token_response_verify lhash _ _ _ now) as [d1| |]; try (pair_same H).
    match type of H with (match ?b with _ => _ end) = _ => destruct b as [m| |] end; try (pair_same H).
    destruct (with_expires_at _ now) as [stored| |]; inversion H; subst; auto.
    exfalso. eapply Hno; reflexivity.
  Qed.

  Lemma step_userinfo_reject c st u c' out :
    step_userinfo c st u = (c', out) -> (forall d, out <> Ok d) -> c' = c.
  Proof.
    unfold step_userinfo. intros H Hno.
    destruct (db_get (cl_db c) st) as [rec| |]; try (pair_same H).
    destruct (negb _); [pair_same H|].
    destruct u; [pair_same H|].
    destruct (from_dict userinfo_params _ []) as [[|x d]| |]; try (pair_same H).
    destruct (has_key (PS "error") (x :: d)); [pair_same H|].
    destruct (check_required userinfo_params (x :: d)); try (pair_same H).
    destruct (_ || _); [pair_same H|].
    match type of H with (match ?b with _ => _ end) = _ => destruct b as [[|]| |] end; inversion H; subst; auto.
    exfalso. eapply Hno; reflexivity.
  Qed.
End WithHash.

(* ================================================================================================
   several clients: frame conditions and histories (C09)
   ================================================================================================ *)
Lemma from_dict_origin spec : forall claims acc d k v,
  from_dict spec claims acc = Ok d -> assoc k d = Some v ->
  assoc k acc = Some v \/
  exists v0, In (k, v0) claims /\
    match find_spec k spec with
    | None => v = v0
    | Some ps => coerce (ps_type ps) v0 = Ok (Some v)
    end.
Proof.
  induction claims as [|[k0 v0] r IH]; intros acc d k v H Hd.
  - cbn in H. inversion H; subst. left; exact Hd.
  - cbn [from_dict] in H.
    assert (Hstep : forall acc', from_dict spec r acc' = Ok d ->
              (assoc k acc' = Some v -> assoc k acc = Some v \/
                 (k = k0 /\ match find_spec k spec with None => v = v0 | Some ps => coerce (ps_type ps) v0 = Ok (Some v) end)) ->
              assoc k acc = Some v \/
              exists v1, In (k, v1) ((k0, v0) :: r) /\
                match find_spec k spec with None => v = v1 | Some ps => coerce (ps_type ps) v1 = Ok (Some v) end).
    { intros acc' H' Hacc. destruct (IH acc' d k v H' Hd) as [Ha|(v1 & Hin & Hm)].
      - destruct (Hacc Ha) as [Hl|[-> Hm]]; [left; exact Hl|right]. exists v0. split; [left; reflexivity|exact Hm].
      - right. exists v1. split; [right; exact Hin|exact Hm]. }
    destruct (is_blank v0); [apply (Hstep acc H); auto|].
    destruct (find_spec k0 spec) as [ps|] eqn:Ef.
    + destruct (coerce (ps_type ps) v0) as [[v'|]|e|] eqn:Ec; try discriminate.
      * apply (Hstep _ H). intro Ha. destruct (str_eqb k0 k) eqn:Ek.
        -- apply str_eqb_eq in Ek. subst k0. rewrite assoc_aset_same in Ha. inversion Ha; subst v'.
           right. split; [reflexivity|]. rewrite Ef. exact Ec.
        -- left. rewrite assoc_aset_other in Ha; auto. intro; subst. rewrite str_eqb_refl in Ek. discriminate.
      * apply (Hstep acc H); auto.
    + destruct (existsb (N.eqb 35) k0); try discriminate.
      apply (Hstep _ H). intro Ha. destruct (str_eqb k0 k) eqn:Ek.
      * apply str_eqb_eq in Ek. subst k0. rewrite assoc_aset_same in Ha. inversion Ha; subst v.
        right. split; [reflexivity|]. rewrite Ef. reflexivity.
      * left. rewrite assoc_aset_other in Ha; auto. intro; subst. rewrite str_eqb_refl in Ek. discriminate.
Qed.

Lemma coerce_cstr_vstr v0 s : coerce CStr v0 = Ok (Some (VStr s)) -> v0 = VStr s.
Proof.
  destruct v0 as [| | | |l| |]; cbn; intro H; try discriminate; try (inversion H; reflexivity).
  destruct l as [|[] ?]; cbn in H; discriminate.
Qed.

Lemma has_entry_in k s d : In (k, VStr s) d -> has_entry k (VStr s) d = true.
Proof.
  intro H. unfold has_entry. apply existsb_exists. exists (k, VStr s). split; [exact H|].
  cbn. now rewrite !str_eqb_refl.
Qed.

Lemma from_dict_cstr_entry spec claims d k s ps :
  from_dict spec claims [] = Ok d -> assoc k d = Some (VStr s) ->
  find_spec k spec = Some ps -> ps_type ps = CStr -> has_entry k (VStr s) claims = true.
Proof.
  intros H Hd Hf Ht. destruct (from_dict_origin spec claims [] d k _ H Hd) as [Ha|(v0 & Hin & Hm)]; [discriminate|].
  rewrite Hf, Ht in Hm. apply coerce_cstr_vstr in Hm. subst v0. apply has_entry_in; exact Hin.
Qed.

Section World.
  Variable lhash : pystr -> pystr -> pystr.

  (* ---- the shape of every client step: nothing, or an update of the record of the addressed state ---- *)
  Lemma step_authz_shape c r now c' out :
    step_authz lhash c r now = (c', out) ->
    c' = c \/
    exists st rec stored, db_get (cl_db c) st = Ok rec /\ has_entry (PS "state") (VStr st) (r_params r) = true /\
      out = Ok stored /\ c' = mkClient (cl_cfg c) (db_update (cl_db c) st stored) (cl_map c).
  Proof.
    intro H. destruct out as [stored| |]; try (left; eapply step_authz_reject; eauto; discriminate).
    destruct (has_key (PS "error") stored) eqn:Eerr.
    - (* an error response is handed back without touching the state *)
      left. unfold step_authz in H.
      destruct (parse_authz lhash c r now) as [d| |]; try (pair_absurd H).
      destruct (has_key (PS "error") d) eqn:E; [inversion H; reflexivity|].
      destruct (state_param d) as [st| |]; try (pair_absurd H).
      destruct (db_get (cl_db c) st) as [rec| |]; try (pair_absurd H).
      destruct (negb _); [pair_absurd H|].
      destruct (with_expires_at (resp_to_dict authz_resp_params d) now) as [s0| |] eqn:Ew; try (pair_absurd H).
      inversion H; subst. exfalso.
      rewrite (with_expires_at_has_key _ _ _ _ Ew key_not_expires_err), resp_to_dict_has_key in Eerr. congruence.
    - right. pose proof H as H0. unfold step_authz in H0.
      destruct (parse_authz lhash c r now) as [d| |] eqn:Hp; try (pair_absurd H0).
      destruct (has_key (PS "error") d) eqn:E.
      { inversion H0; subst. rewrite resp_to_dict_has_key in Eerr. congruence. }
      destruct (parse_authz_inv lhash _ _ _ _ Hp E) as (d0 & Hf & Hv & _).
      destruct (authz_response_verify_inv lhash _ _ _ _ _ Hv) as (_ & _ & Hkeep & _).
      destruct (step_authz_accept lhash _ _ _ _ _ H Eerr) as (st & rec & Hst & Hrec & _ & _ & _ & Hc' & _).
      exists st, rec, stored. repeat split; auto.
      destruct (state_param d) as [st1| |] eqn:Est; try (pair_absurd H0).
      destruct (db_get (cl_db c) st1) as [rec1| |]; try (pair_absurd H0).
      destruct (negb _); [pair_absurd H0|].
      destruct (with_expires_at (resp_to_dict authz_resp_params d) now) as [s0| |] eqn:Ew; try (pair_absurd H0).
      inversion H0; subst s0.
      assert (Hsd : assoc (PS "state") d = Some (VStr st)).
      { erewrite <- stored_assoc; eauto using key_not_expires_state. }
      rewrite (Hkeep (PS "state") eq_refl) in Hsd.
      eapply from_dict_cstr_entry; eauto; reflexivity.
  Qed.

  Lemma step_token_shape c st r now c' out :
    step_token lhash c st r now = (c', out) ->
    c' = c \/
    exists rec stored, db_get (cl_db c) st = Ok rec /\ out = Ok stored /\ cl_cfg c' = cl_cfg c /\
      cl_db c' = db_update (cl_db c) st stored /\
      (cl_map c' = cl_map c \/
       exists sub t, r_idt r = Some t /\ has_entry (PS "sub") (VStr sub) (t_claims t) = true /\
                     sub_clash (cl_db c) (cl_map c) st sub = false /\ cl_map c' = aset sub st (cl_map c)).
  Proof.
    intro H. destruct out as [stored| |]; try (left; eapply step_token_reject; eauto; discriminate).
    right. destruct (step_token_accept lhash _ _ _ _ _ _ H) as (rec & Hrec & Hcfg & Hdb & Hver & Hnone).
    exists rec, stored. repeat split; auto.
    destruct (assoc (verified_name (PS "id_token")) stored) as [v|] eqn:Ev.
    - right. destruct (Hver v eq_refl) as (t & vd & n & sub & Ht & _ & Hvd & _ & _ & Hsub & Hmap & Hclash & _).
      exists sub, t. repeat split; auto.
      apply verify_id_token_stages in Hvd as (_ & _ & _ & Hf & _).
      eapply from_dict_cstr_entry; eauto; reflexivity.
    - left. auto.
  Qed.

  Lemma step_userinfo_shape c st u c' out :
    step_userinfo c st u = (c', out) ->
    c' = c \/ exists rec d, db_get (cl_db c) st = Ok rec /\ out = Ok d /\
                c' = mkClient (cl_cfg c) (db_update (cl_db c) st d) (cl_map c).
  Proof.
    intro H. destruct out as [d| |]; try (left; eapply step_userinfo_reject; eauto; discriminate).
    right. destruct (step_userinfo_accept _ _ _ _ _ H) as (rec & Hrec & Hc' & _). eauto.
  Qed.

  Lemma step_refresh_shape c st r now c' out :
    step_refresh lhash c st r now = (c', out) ->
    c' = c \/ exists rec stored, db_get (cl_db c) st = Ok rec /\ out = Ok stored /\
                c' = mkClient (cl_cfg c) (db_update (cl_db c) st stored) (cl_map c).
  Proof.
    unfold step_refresh. intro H.
    destruct (db_get (cl_db c) st) as [rec| |] eqn:Erec; try (left; pair_same H).
    destruct (assoc (PS "refresh_token") rec) as [[| | |[|x0 s0]| | |]|]; try (left; pair_same H).
    destruct (r_params r); [left; pair_same H|].
    destruct (from_dict token_resp_params _ []) as [[|x d]| |]; try (left; pair_same H).
    destruct (has_key (PS "error") (x :: d)); [left; pair_same H|].
    destruct (token_response_verify lhash _ _ _ now) as [d1| |]; try (left; pair_same H).
    destruct (refresh_bound c st rec d1) as [[]| |]; try (left; pair_same H).
    destruct (with_expires_at _ now) as [stored| |]; try (left; pair_same H).
    right. inversion H; subst. exists rec, stored. auto.
  Qed.

  Lemma step_refresh_reject c st r now c' out :
    step_refresh lhash c st r now = (c', out) -> (forall d, out <> Ok d) -> c' = c.
  Proof.
    intros H Hno. apply step_refresh_shape in H as [->|(rec & stored & _ & -> & _)]; auto.
    exfalso. eapply Hno; reflexivity.
  Qed.

  (* what the checks of a refresh response establish about a verified ID Token it carries *)
  Lemma refresh_bound_inv c st rec d1 idt :
    refresh_bound c st rec d1 = Ok tt -> assoc (verified_name (PS "id_token")) d1 = Some (VDict idt) ->
    (forall n, assoc (PS "nonce") idt = Some (VStr n) ->
       assoc n (cl_map c) = Some st /\ assoc (PS "nonce") rec = Some (VStr n)) /\
    (forall before s, assoc (verified_name (PS "id_token")) rec = Some (VDict before) ->
                      assoc (PS "sub") before = Some (VStr s) -> assoc (PS "sub") idt = Some (VStr s)).
  Proof.
    unfold refresh_bound. intros H Hv. rewrite Hv in H.
    apply bind_ok in H as ([] & Hsub & Hn). split.
    - intros n En. rewrite En in Hn. destruct (assoc n (cl_map c)) as [s|]; try discriminate.
      destruct (str_eqb s st) eqn:E; try discriminate. apply str_eqb_eq in E. cbn [andb] in Hn.
      destruct (option_eqb pyval_eqb (assoc (PS "nonce") rec) (Some (VStr n))) eqn:Ern; try discriminate.
      split; [congruence|].
      destruct (assoc (PS "nonce") rec) as [v0|]; cbn in Ern; try discriminate.
      apply pyval_eqb_vstr_r in Ern. congruence.
    - intros before s Hb Hs. rewrite Hb, Hs in Hsub.
      destruct (assoc (PS "sub") idt) as [v|]; cbn in Hsub; try discriminate.
      destruct (pyval_eqb v (VStr s)) eqn:E; try discriminate.
      apply pyval_eqb_vstr_r in E. congruence.
  Qed.

  (* an accepted refresh response: recorded under the state of the request; an ID Token in it was verified like
     the ID Token of a token response, its nonce (when it has one) is bound to this very state, its subject is
     the subject of the ID Token the session already had *)
  Lemma step_refresh_accept c st r now c' stored :
    step_refresh lhash c st r now = (c', Ok stored) ->
    exists rec rt, db_get (cl_db c) st = Ok rec /\ assoc (PS "refresh_token") rec = Some (VStr rt) /\
      c' = mkClient (cl_cfg c) (db_update (cl_db c) st stored) (cl_map c) /\
      (forall v, assoc (verified_name (PS "id_token")) stored = Some v ->
         exists t vd, r_idt r = Some t /\ v = VDict vd /\
           verify_id_token lhash (svc_kwargs (cl_cfg c)) false None None t now = Ok vd /\
           (forall n, assoc (PS "nonce") vd = Some (VStr n) ->
              assoc n (cl_map c) = Some st /\ assoc (PS "nonce") rec = Some (VStr n)) /\
           (forall before s, assoc (verified_name (PS "id_token")) rec = Some (VDict before) ->
                             assoc (PS "sub") before = Some (VStr s) -> assoc (PS "sub") vd = Some (VStr s))).
  Proof.
    unfold step_refresh. intro H.
    destruct (db_get (cl_db c) st) as [rec| |] eqn:Erec; try (pair_absurd H).
    destruct (assoc (PS "refresh_token") rec) as [[| | |[|x0 s0]| | |]|] eqn:Ert; try (pair_absurd H).
    destruct (r_params r); [pair_absurd H|].
    destruct (from_dict token_resp_params _ []) as [[|x d]| |]; try (pair_absurd H).
    destruct (has_key (PS "error") (x :: d)); [pair_absurd H|].
    destruct (token_response_verify lhash _ _ _ now) as [d1| |] eqn:Hv; try (pair_absurd H).
    destruct (refresh_bound c st rec d1) as [[]| |] eqn:Hb; try (pair_absurd H).
    destruct (with_expires_at _ now) as [s0'| |] eqn:Ew; try (pair_absurd H).
    inversion H; subst c' s0'. exists rec, (x0 :: s0). repeat split; auto.
    intros v Hv'. destruct (token_response_verify_inv lhash _ _ _ _ _ Hv) as (_ & Hver).
    assert (Hd1 : assoc (verified_name (PS "id_token")) d1 = Some v)
      by (erewrite <- stored_assoc; eauto using key_not_expires_ver).
    destruct (Hver v Hd1) as (t & vd & Ht & -> & Hvd).
    destruct (refresh_bound_inv _ _ _ _ _ Hb Hd1) as (Hn & Hs).
    exists t, vd. split; [exact Ht|]. split; [reflexivity|]. split; [exact Hvd|]. split; [exact Hn|exact Hs].
  Qed.

  (* ---- worlds ---- *)
  Lemma w_set_same (w : list (pystr * client)) i c : assoc i w = Some c -> w_set w i c = w.
  Proof. apply aset_same_id. Qed.

  Lemma on_client_inv (w : list (pystr * client)) i f w' out :
    on_client w i f = (w', out) ->
    (assoc i w = None /\ w' = w /\ out = Err KeyError) \/
    exists c c', assoc i w = Some c /\ f c = (c', out) /\ w' = w_set w i c'.
  Proof.
    unfold on_client. destruct (assoc i w) as [c|]; intro H.
    - right. destruct (f c) as [c' o] eqn:Ef. inversion H; subst. eauto.
    - left. inversion H; auto.
  Qed.

  Lemma rec_of_w_set (w : list (pystr * client)) i c c' j s :
    assoc i w = Some c -> assoc s (cl_db c') = assoc s (cl_db c) -> rec_of (w_set w i c') j s = rec_of w j s.
  Proof.
    intros Hi Hs. unfold rec_of, w_set. destruct (str_eqb i j) eqn:E.
    - apply str_eqb_eq in E. subst j. rewrite assoc_aset_same, Hi. exact Hs.
    - rewrite assoc_aset_other; auto. intro; subst. rewrite str_eqb_refl in E. discriminate.
  Qed.
  Lemma map_of_w_set (w : list (pystr * client)) i c c' j k :
    assoc i w = Some c -> assoc k (cl_map c') = assoc k (cl_map c) -> map_of (w_set w i c') j k = map_of w j k.
  Proof.
    intros Hi Hs. unfold map_of, w_set. destruct (str_eqb i j) eqn:E.
    - apply str_eqb_eq in E. subst j. rewrite assoc_aset_same, Hi. exact Hs.
    - rewrite assoc_aset_other; auto. intro; subst. rewrite str_eqb_refl in E. discriminate.
  Qed.

  Lemma neq_of_eqb a b : str_eqb a b = false -> b <> a.
  Proof. intros H E. subst. rewrite str_eqb_refl in H. discriminate. Qed.

  (* every operation leaves the record of every state it does not carry untouched, in every client *)
  Theorem step_frame_db w o w' out j s :
    step lhash w o = (w', out) -> op_mentions o s = false -> rec_of w' j s = rec_of w j s.
  Proof.
    intros H Hm. destruct o as [i st nonce req|i r now|i st r now|i st u|st r now|i st r now|st r now|st u]; cbn [step op_mentions] in *.
    - destruct (assoc i w) as [c|] eqn:Ei; inversion H; subst; auto.
      apply (rec_of_w_set _ _ c); auto. cbn [step_begin cl_db]. apply assoc_aset_other. apply neq_of_eqb in Hm. congruence.
    - apply on_client_inv in H as [(_ & -> & _)|(c & c' & Hi & Hf & ->)]; auto.
      apply (rec_of_w_set _ _ c); auto.
      apply step_authz_shape in Hf as [->|(st & rec & stored & _ & Hst & _ & ->)]; auto.
      cbn [cl_db]. apply db_update_other. intro E. subst s. congruence.
    - apply on_client_inv in H as [(_ & -> & _)|(c & c' & Hi & Hf & ->)]; auto.
      apply (rec_of_w_set _ _ c); auto.
      apply step_token_shape in Hf as [->|(rec & stored & _ & _ & _ & Hdb & _)]; auto.
      rewrite Hdb. apply db_update_other. apply neq_of_eqb in Hm. exact Hm.
    - apply on_client_inv in H as [(_ & -> & _)|(c & c' & Hi & Hf & ->)]; auto.
      apply (rec_of_w_set _ _ c); auto.
      apply step_userinfo_shape in Hf as [->|(rec & d & _ & _ & ->)]; auto.
      cbn [cl_db]. apply db_update_other. apply neq_of_eqb in Hm. exact Hm.
    - destruct (state2issuer w st) as [[| | |i| | |]|]; try (inversion H; subst; reflexivity).
      apply on_client_inv in H as [(_ & -> & _)|(c & c' & Hi & Hf & ->)]; auto.
      apply (rec_of_w_set _ _ c); auto.
      apply step_token_shape in Hf as [->|(rec & stored & _ & _ & _ & Hdb & _)]; auto.
      rewrite Hdb. apply db_update_other. apply neq_of_eqb in Hm. exact Hm.
    - apply on_client_inv in H as [(_ & -> & _)|(c & c' & Hi & Hf & ->)]; auto.
      apply (rec_of_w_set _ _ c); auto.
      apply step_refresh_shape in Hf as [->|(rec & stored & _ & _ & ->)]; auto.
      cbn [cl_db]. apply db_update_other. apply neq_of_eqb in Hm. exact Hm.
    - destruct (state2issuer w st) as [[| | |i| | |]|]; try (inversion H; subst; reflexivity).
      apply on_client_inv in H as [(_ & -> & _)|(c & c' & Hi & Hf & ->)]; auto.
      apply (rec_of_w_set _ _ c); auto.
      apply step_refresh_shape in Hf as [->|(rec & stored & _ & _ & ->)]; auto.
      cbn [cl_db]. apply db_update_other. apply neq_of_eqb in Hm. exact Hm.
    - destruct (state2issuer w st) as [[| | |i| | |]|]; try (inversion H; subst; reflexivity).
      apply on_client_inv in H as [(_ & -> & _)|(c & c' & Hi & Hf & ->)]; auto.
      apply (rec_of_w_set _ _ c); auto.
      apply step_userinfo_shape in Hf as [->|(rec & d & _ & _ & ->)]; auto.
      cbn [cl_db]. apply db_update_other. apply neq_of_eqb in Hm. exact Hm.
  Qed.

  (* ... and the key -> state binding of every key it cannot bind *)
  Theorem step_frame_map w o w' out j k :
    step lhash w o = (w', out) -> op_may_bind o k = false -> map_of w' j k = map_of w j k.
  Proof.
    intros H Hm. destruct o as [i st nonce req|i r now|i st r now|i st u|st r now|i st r now|st r now|st u]; cbn [step op_may_bind] in *.
    - destruct (assoc i w) as [c|] eqn:Ei; inversion H; subst; auto.
      apply (map_of_w_set _ _ c); auto. cbn [step_begin cl_map]. apply assoc_aset_other. apply neq_of_eqb in Hm. congruence.
    - apply on_client_inv in H as [(_ & -> & _)|(c & c' & Hi & Hf & ->)]; auto.
      apply (map_of_w_set _ _ c); auto.
      apply step_authz_shape in Hf as [->|(st & rec & stored & _ & _ & _ & ->)]; auto.
    - apply on_client_inv in H as [(_ & -> & _)|(c & c' & Hi & Hf & ->)]; auto.
      apply (map_of_w_set _ _ c); auto.
      apply step_token_shape in Hf as [->|(rec & stored & _ & _ & _ & _ & [->|(sub & t & Ht & Hsub & _ & ->)])]; auto.
      rewrite Ht in Hm. apply assoc_aset_other. intro E. subst sub. congruence.
    - apply on_client_inv in H as [(_ & -> & _)|(c & c' & Hi & Hf & ->)]; auto.
      apply (map_of_w_set _ _ c); auto.
      apply step_userinfo_shape in Hf as [->|(rec & d & _ & _ & ->)]; auto.
    - destruct (state2issuer w st) as [[| | |i| | |]|]; try (inversion H; subst; reflexivity).
      apply on_client_inv in H as [(_ & -> & _)|(c & c' & Hi & Hf & ->)]; auto.
      apply (map_of_w_set _ _ c); auto.
      apply step_token_shape in Hf as [->|(rec & stored & _ & _ & _ & _ & [->|(sub & t & Ht & Hsub & _ & ->)])]; auto.
      rewrite Ht in Hm. apply assoc_aset_other. intro E. subst sub. congruence.
    - apply on_client_inv in H as [(_ & -> & _)|(c & c' & Hi & Hf & ->)]; auto.
      apply (map_of_w_set _ _ c); auto.
      apply step_refresh_shape in Hf as [->|(rec & stored & _ & _ & ->)]; auto.
    - destruct (state2issuer w st) as [[| | |i| | |]|]; try (inversion H; subst; reflexivity).
      apply on_client_inv in H as [(_ & -> & _)|(c & c' & Hi & Hf & ->)]; auto.
      apply (map_of_w_set _ _ c); auto.
      apply step_refresh_shape in Hf as [->|(rec & stored & _ & _ & ->)]; auto.
    - destruct (state2issuer w st) as [[| | |i| | |]|]; try (inversion H; subst; reflexivity).
      apply on_client_inv in H as [(_ & -> & _)|(c & c' & Hi & Hf & ->)]; auto.
      apply (map_of_w_set _ _ c); auto.
      apply step_userinfo_shape in Hf as [->|(rec & d & _ & _ & ->)]; auto.
  Qed.

  (* an operation only ever touches the client it is executed on *)
  Theorem step_frame_client w o w' out j :
    step lhash w o = (w', out) -> op_target w o <> Some j -> assoc j w' = assoc j w.
  Proof.
    intros H Ht.
    assert (Hset : forall i c', i <> j -> assoc j (w_set w i c') = assoc j w)
      by (intros; apply assoc_aset_other; auto).
    destruct o as [i st nonce req|i r now|i st r now|i st u|st r now|i st r now|st r now|st u]; cbn [step op_target] in *.
    - destruct (assoc i w); inversion H; subst; auto. apply Hset. congruence.
    - apply on_client_inv in H as [(_ & -> & _)|(c & c' & _ & _ & ->)]; auto. apply Hset. congruence.
    - apply on_client_inv in H as [(_ & -> & _)|(c & c' & _ & _ & ->)]; auto. apply Hset. congruence.
    - apply on_client_inv in H as [(_ & -> & _)|(c & c' & _ & _ & ->)]; auto. apply Hset. congruence.
    - destruct (state2issuer w st) as [[| | |i| | |]|]; try (inversion H; subst; reflexivity).
      apply on_client_inv in H as [(_ & -> & _)|(c & c' & _ & _ & ->)]; auto. apply Hset. congruence.
    - apply on_client_inv in H as [(_ & -> & _)|(c & c' & _ & _ & ->)]; auto. apply Hset. congruence.
    - destruct (state2issuer w st) as [[| | |i| | |]|]; try (inversion H; subst; reflexivity).
      apply on_client_inv in H as [(_ & -> & _)|(c & c' & _ & _ & ->)]; auto. apply Hset. congruence.
    - destruct (state2issuer w st) as [[| | |i| | |]|]; try (inversion H; subst; reflexivity).
      apply on_client_inv in H as [(_ & -> & _)|(c & c' & _ & _ & ->)]; auto. apply Hset. congruence.
  Qed.

  (* a refused operation changes nothing at all *)
  Theorem step_reject w o w' out :
    step lhash w o = (w', out) -> (forall d, out <> Ok d) -> w' = w.
  Proof.
    intros H Hno. destruct o as [i st nonce req|i r now|i st r now|i st u|st r now|i st r now|st r now|st u]; cbn [step] in *.
    - destruct (assoc i w); inversion H; subst; auto. exfalso. eapply Hno; reflexivity.
    - apply on_client_inv in H as [(_ & -> & _)|(c & c' & Hi & Hf & ->)]; auto.
      apply step_authz_reject in Hf; auto. subst. apply w_set_same; auto.
    - apply on_client_inv in H as [(_ & -> & _)|(c & c' & Hi & Hf & ->)]; auto.
      apply step_token_reject in Hf; auto. subst. apply w_set_same; auto.
    - apply on_client_inv in H as [(_ & -> & _)|(c & c' & Hi & Hf & ->)]; auto.
      apply step_userinfo_reject in Hf; auto. subst. apply w_set_same; auto.
    - destruct (state2issuer w st) as [[| | |i| | |]|]; try (inversion H; subst; reflexivity).
      apply on_client_inv in H as [(_ & -> & _)|(c & c' & Hi & Hf & ->)]; auto.
      apply step_token_reject in Hf; auto. subst. apply w_set_same; auto.
    - apply on_client_inv in H as [(_ & -> & _)|(c & c' & Hi & Hf & ->)]; auto.
      apply step_refresh_reject in Hf; auto. subst. apply w_set_same; auto.
    - destruct (state2issuer w st) as [[| | |i| | |]|]; try (inversion H; subst; reflexivity).
      apply on_client_inv in H as [(_ & -> & _)|(c & c' & Hi & Hf & ->)]; auto.
      apply step_refresh_reject in Hf; auto. subst. apply w_set_same; auto.
    - destruct (state2issuer w st) as [[| | |i| | |]|]; try (inversion H; subst; reflexivity).
      apply on_client_inv in H as [(_ & -> & _)|(c & c' & Hi & Hf & ->)]; auto.
      apply step_userinfo_reject in Hf; auto. subst. apply w_set_same; auto.
  Qed.

  (* the nonce binding of a pending flow survives every operation that does not start a flow drawing that nonce *)
  Lemma step_token_keeps_nonce c st r now c' out k s' rec :
    step_token lhash c st r now = (c', out) ->
    assoc k (cl_map c) = Some s' -> assoc s' (cl_db c) = Some rec -> assoc (PS "nonce") rec = Some (VStr k) ->
    assoc k (cl_map c') = Some s'.
  Proof.
    intros H Hk Hs Hn.
    apply step_token_shape in H as [->|(rec0 & stored & _ & _ & _ & _ & [->|(sub & t & _ & _ & Hclash & ->)])]; auto.
    destruct (str_eqb sub k) eqn:E.
    - apply str_eqb_eq in E. subst sub. unfold sub_clash in Hclash. rewrite Hk, Hs, Hn in Hclash.
      cbn [option_eqb pyval_eqb] in Hclash. rewrite str_eqb_refl, andb_true_r in Hclash.
      apply negb_false_iff, str_eqb_eq in Hclash. subst s'. apply assoc_aset_same.
    - rewrite assoc_aset_other; auto. intro; subst. rewrite str_eqb_refl in E. discriminate.
  Qed.

  Lemma map_of_w_set_some (w : list (pystr * client)) i c c' j k v :
    assoc i w = Some c -> (i = j -> assoc k (cl_map c') = Some v) -> map_of w j k = Some v ->
    map_of (w_set w i c') j k = Some v.
  Proof.
    intros Hi Hc Hm. unfold map_of, w_set in *. destruct (str_eqb i j) eqn:E.
    - apply str_eqb_eq in E. subst j. rewrite assoc_aset_same. auto.
    - rewrite assoc_aset_other; auto. intro; subst. rewrite str_eqb_refl in E. discriminate.
  Qed.

  Theorem step_keeps_nonce_binding w o w' out j k s' rec :
    step lhash w o = (w', out) -> op_draws_nonce o k = false ->
    map_of w j k = Some s' -> rec_of w j s' = Some rec -> assoc (PS "nonce") rec = Some (VStr k) ->
    map_of w' j k = Some s'.
  Proof.
    intros H Hd Hm Hr Hn.
    assert (Htok : forall i c c' st r now o', assoc i w = Some c -> step_token lhash c st r now = (c', o') ->
                     map_of (w_set w i c') j k = Some s').
    { intros i c c' st r now o' Hi Hf. apply (map_of_w_set_some _ _ c); auto. intros ->.
      unfold map_of in Hm. unfold rec_of in Hr. rewrite Hi in Hm, Hr. eapply step_token_keeps_nonce; eauto. }
    assert (Hsame : forall i c c', assoc i w = Some c -> cl_map c' = cl_map c -> map_of (w_set w i c') j k = Some s').
    { intros i c c' Hi Hmap. apply (map_of_w_set_some _ _ c); auto. intros ->.
      unfold map_of in Hm. rewrite Hi in Hm. rewrite Hmap. exact Hm. }
    destruct o as [i st nonce req|i r now|i st r now|i st u|st r now|i st r now|st r now|st u]; cbn [step op_draws_nonce] in *.
    - destruct (assoc i w) as [c|] eqn:Ei; inversion H; subst; auto.
      apply (map_of_w_set_some _ _ c); auto. intros ->. cbn [step_begin cl_map].
      unfold map_of in Hm. rewrite Ei in Hm. rewrite assoc_aset_other; auto. apply neq_of_eqb in Hd. congruence.
    - apply on_client_inv in H as [(_ & -> & _)|(c & c' & Hi & Hf & ->)]; auto.
      apply (Hsame _ c); auto. apply step_authz_shape in Hf as [->|(st & rec0 & stored & _ & _ & _ & ->)]; auto.
    - apply on_client_inv in H as [(_ & -> & _)|(c & c' & Hi & Hf & ->)]; auto. eapply Htok; eauto.
    - apply on_client_inv in H as [(_ & -> & _)|(c & c' & Hi & Hf & ->)]; auto.
      apply (Hsame _ c); auto. apply step_userinfo_shape in Hf as [->|(rec0 & d & _ & _ & ->)]; auto.
    - destruct (state2issuer w st) as [[| | |i| | |]|]; try (inversion H; subst; exact Hm).
      apply on_client_inv in H as [(_ & -> & _)|(c & c' & Hi & Hf & ->)]; auto. eapply Htok; eauto.
    - apply on_client_inv in H as [(_ & -> & _)|(c & c' & Hi & Hf & ->)]; auto.
      apply (Hsame _ c); auto. apply step_refresh_shape in Hf as [->|(rec0 & d & _ & _ & ->)]; auto.
    - destruct (state2issuer w st) as [[| | |i| | |]|]; try (inversion H; subst; exact Hm).
      apply on_client_inv in H as [(_ & -> & _)|(c & c' & Hi & Hf & ->)]; auto.
      apply (Hsame _ c); auto. apply step_refresh_shape in Hf as [->|(rec0 & d & _ & _ & ->)]; auto.
    - destruct (state2issuer w st) as [[| | |i| | |]|]; try (inversion H; subst; exact Hm).
      apply on_client_inv in H as [(_ & -> & _)|(c & c' & Hi & Hf & ->)]; auto.
      apply (Hsame _ c); auto. apply step_userinfo_shape in Hf as [->|(rec0 & d & _ & _ & ->)]; auto.
  Qed.

  (* ---- histories ---- *)
  Theorem run_frame_db : forall ops w j s,
    (forall o, In o ops -> op_mentions o s = false) -> rec_of (run lhash w ops) j s = rec_of w j s.
  Proof.
    induction ops as [|o r IH]; intros w j s Hall; [reflexivity|].
    cbn [run]. rewrite IH by (intros; apply Hall; now right).
    destruct (step lhash w o) as [w1 out] eqn:E. cbn [fst].
    eapply step_frame_db; eauto. apply Hall. now left.
  Qed.

  Theorem run_frame_map : forall ops w j k,
    (forall o, In o ops -> op_may_bind o k = false) -> map_of (run lhash w ops) j k = map_of w j k.
  Proof.
    induction ops as [|o r IH]; intros w j k Hall; [reflexivity|].
    cbn [run]. rewrite IH by (intros; apply Hall; now right).
    destruct (step lhash w o) as [w1 out] eqn:E. cbn [fst].
    eapply step_frame_map; eauto. apply Hall. now left.
  Qed.

  (* every record a client holds belongs to a state this relying party issued for that issuer *)
  Definition states_issued (w : list (pystr * client)) (L : list (pystr * pystr)) : Prop :=
    forall i c st, assoc i w = Some c -> has_key st (cl_db c) = true -> In (i, st) L.

  Lemma has_key_db_update db st info s rec :
    db_get db st = Ok rec -> has_key s (db_update db st info) = true -> has_key s db = true.
  Proof.
    intros Hg H. unfold db_get in Hg. destruct (assoc st db) as [[|x r]|] eqn:Ea; try discriminate.
    destruct (str_eqb s st) eqn:E.
    - apply str_eqb_eq in E. subst. unfold has_key. now rewrite Ea.
    - unfold has_key in *. rewrite db_update_other in H; auto. intro; subst. rewrite str_eqb_refl in E. discriminate.
  Qed.

  Lemma states_issued_w_set w L i c c' :
    states_issued w L -> assoc i w = Some c ->
    (forall s, has_key s (cl_db c') = true -> has_key s (cl_db c) = true) ->
    states_issued (w_set w i c') L.
  Proof.
    intros Hinv Hi Hsub j cj st Hj Hk. unfold w_set in Hj. destruct (str_eqb i j) eqn:E.
    - apply str_eqb_eq in E. subst j. rewrite assoc_aset_same in Hj. inversion Hj; subst cj. eapply Hinv; eauto.
    - rewrite assoc_aset_other in Hj; [eapply Hinv; eauto|]. intro; subst. rewrite str_eqb_refl in E. discriminate.
  Qed.

  Lemma step_states_issued w o w' out L :
    states_issued w L -> step lhash w o = (w', out) -> states_issued w' (L ++ issued [o]).
  Proof.
    intros Hinv H.
    assert (Hweak : forall w0, states_issued w0 L -> states_issued w0 (L ++ issued [o])).
    { intros w0 H0 i c st Hi Hk. apply in_or_app. left. eapply H0; eauto. }
    destruct o as [i st nonce req|i r now|i st r now|i st u|st r now|i st r now|st r now|st u]; cbn [step] in *.
    - destruct (assoc i w) as [c|] eqn:Ei; inversion H; subst; [|apply Hweak; exact Hinv].
      intros j cj s Hj Hk. cbn [issued]. unfold w_set in Hj. destruct (str_eqb i j) eqn:E.
      + apply str_eqb_eq in E. subst j. rewrite assoc_aset_same in Hj. inversion Hj; subst cj.
        cbn [step_begin cl_db] in Hk. destruct (str_eqb s st) eqn:Es.
        * apply str_eqb_eq in Es. subst. apply in_or_app. right. now left.
        * apply in_or_app. left. eapply Hinv; eauto. unfold has_key in *.
          rewrite assoc_aset_other in Hk; auto. intro; subst. rewrite str_eqb_refl in Es. discriminate.
      + rewrite assoc_aset_other in Hj; [|intro; subst; rewrite str_eqb_refl in E; discriminate].
        apply in_or_app. left. eapply Hinv; eauto.
    - apply Hweak. apply on_client_inv in H as [(_ & -> & _)|(c & c' & Hi & Hf & ->)]; auto.
      eapply states_issued_w_set; eauto.
      apply step_authz_shape in Hf as [->|(st & rec & stored & Hrec & _ & _ & ->)]; auto.
      cbn [cl_db]. intros s. eapply has_key_db_update; eauto.
    - apply Hweak. apply on_client_inv in H as [(_ & -> & _)|(c & c' & Hi & Hf & ->)]; auto.
      eapply states_issued_w_set; eauto.
      apply step_token_shape in Hf as [->|(rec & stored & Hrec & _ & _ & Hdb & _)]; auto.
      rewrite Hdb. intros s. eapply has_key_db_update; eauto.
    - apply Hweak. apply on_client_inv in H as [(_ & -> & _)|(c & c' & Hi & Hf & ->)]; auto.
      eapply states_issued_w_set; eauto.
      apply step_userinfo_shape in Hf as [->|(rec & d & Hrec & _ & ->)]; auto.
      cbn [cl_db]. intros s. eapply has_key_db_update; eauto.
    - apply Hweak. destruct (state2issuer w st) as [[| | |i| | |]|]; try (inversion H; subst; exact Hinv).
      apply on_client_inv in H as [(_ & -> & _)|(c & c' & Hi & Hf & ->)]; auto.
      eapply states_issued_w_set; eauto.
      apply step_token_shape in Hf as [->|(rec & stored & Hrec & _ & _ & Hdb & _)]; auto.
      rewrite Hdb. intros s. eapply has_key_db_update; eauto.
    - apply Hweak. apply on_client_inv in H as [(_ & -> & _)|(c & c' & Hi & Hf & ->)]; auto.
      eapply states_issued_w_set; eauto.
      apply step_refresh_shape in Hf as [->|(rec & d & Hrec & _ & ->)]; auto.
      cbn [cl_db]. intros s. eapply has_key_db_update; eauto.
    - apply Hweak. destruct (state2issuer w st) as [[| | |i| | |]|]; try (inversion H; subst; exact Hinv).
      apply on_client_inv in H as [(_ & -> & _)|(c & c' & Hi & Hf & ->)]; auto.
      eapply states_issued_w_set; eauto.
      apply step_refresh_shape in Hf as [->|(rec & d & Hrec & _ & ->)]; auto.
      cbn [cl_db]. intros s. eapply has_key_db_update; eauto.
    - apply Hweak. destruct (state2issuer w st) as [[| | |i| | |]|]; try (inversion H; subst; exact Hinv).
      apply on_client_inv in H as [(_ & -> & _)|(c & c' & Hi & Hf & ->)]; auto.
      eapply states_issued_w_set; eauto.
      apply step_userinfo_shape in Hf as [->|(rec & d & Hrec & _ & ->)]; auto.
      cbn [cl_db]. intros s. eapply has_key_db_update; eauto.
  Qed.

  Lemma issued_app a b : issued (a ++ b) = (issued a ++ issued b)%list.
  Proof. induction a as [|o r IH]; cbn; [reflexivity|]. destruct o; cbn; rewrite IH; reflexivity. Qed.

  Lemma run_states_issued : forall ops w L,
    states_issued w L -> states_issued (run lhash w ops) (L ++ issued ops).
  Proof.
    induction ops as [|o r IH]; intros w L Hinv.
    - cbn. rewrite app_nil_r. exact Hinv.
    - cbn [run]. destruct (step lhash w o) as [w1 out] eqn:E. cbn [fst].
      change (o :: r) with ([o] ++ r)%list. rewrite issued_app, app_assoc.
      apply IH. eapply step_states_issued; eauto.
  Qed.

  Lemma init_world_empty cfgs : states_issued (init_world cfgs) [].
  Proof.
    intros i c st Hi Hk. unfold init_world in Hi.
    induction cfgs as [|[j cf] r IH]; cbn in Hi; [discriminate|].
    destruct (str_eqb i j); [inversion Hi; subst; cbn in Hk; discriminate|auto].
  Qed.

  Theorem history_states_issued cfgs ops i c st :
    assoc i (run lhash (init_world cfgs) ops) = Some c -> has_key st (cl_db c) = true -> In (i, st) (issued ops).
  Proof.
    intros Hi Hk. pose proof (run_states_issued ops _ _ (init_world_empty cfgs)) as Hinv.
    cbn [app] in Hinv. eapply Hinv; eauto.
  Qed.

  (* in every history, an accepted authorization response carries a state this RP issued earlier for the
     very issuer whose client processed it *)
  Theorem history_authz_own cfgs pre i r now w' stored :
    step lhash (run lhash (init_world cfgs) pre) (OAuthz i r now) = (w', Ok stored) ->
    has_key (PS "error") stored = false ->
    exists st c rec, assoc (PS "state") stored = Some (VStr st) /\ In (i, st) (issued pre) /\
      assoc i (run lhash (init_world cfgs) pre) = Some c /\ db_get (cl_db c) st = Ok rec /\
      assoc (PS "iss") rec = Some (VStr (eff_issuer (cl_cfg c))).
  Proof.
    intros H Herr. cbn [step] in H.
    apply on_client_inv in H as [(_ & _ & Hout)|(c & c' & Hi & Hf & Hw)].
    - discriminate.
    - destruct (step_authz_accept lhash _ _ _ _ _ Hf Herr) as (st & rec & Hst & Hrec & Hiss & _).
      exists st, c, rec. repeat split; auto.
      eapply history_states_issued; eauto. unfold db_get in Hrec. unfold has_key.
      destruct (assoc st (cl_db c)) as [[|x l]|]; try discriminate. reflexivity.
  Qed.
End World.

(* ---- corollaries that read the client configuration instead of the verify kwargs ---- *)
Section Service.
  Variable lhash : pystr -> pystr -> pystr.

  (* the registered signing algorithm - or, without one, the algorithm the client is configured to use - is enforced *)
  Theorem service_expected_alg c r now c' stored v a :
    step_authz lhash c r now = (c', Ok stored) -> has_key (PS "error") stored = false ->
    assoc (verified_name (PS "id_token")) stored = Some v ->
    eff_sigalg (cl_cfg c) = Some a -> a <> [] ->
    exists t, r_idt r = Some t /\ (t_alg t = a \/ t_alg t = PS "none").
  Proof.
    intros H Herr Hv Ha Hne.
    destruct (step_authz_accept lhash _ _ _ _ _ H Herr) as (st & rec & _ & _ & _ & _ & _ & _ & Hver).
    destruct (Hver v Hv) as (t & code & atok & vd & Ht & _ & Hvd & _).
    exists t. split; [exact Ht|].
    apply verify_id_token_stages in Hvd as (signed & Hp & Hsig & _).
    destruct signed.
    - left. destruct (Hsig eq_refl) as [_ Hs].
      apply sig_accepted_inv in Hs as (? & ? & ? & _ & _ & _ & _ & Hexp). apply Hexp; auto.
    - right. apply alg_policy_inv in Hp as [Hp0 _]. apply Hp0. reflexivity.
  Qed.
End Service.

Section WorldAccept.
  Variable lhash : pystr -> pystr -> pystr.

  (* an accepted authorization response: its state is a record of the very client it was delivered to, that
     record was created for this client's issuer, and iss / client_id response parameters are this client's *)
  Theorem world_authz_own w i r now w' stored :
    step lhash w (OAuthz i r now) = (w', Ok stored) -> has_key (PS "error") stored = false ->
    exists c st rec,
      assoc i w = Some c /\
      assoc (PS "state") stored = Some (VStr st) /\
      db_get (cl_db c) st = Ok rec /\
      assoc (PS "iss") rec = Some (VStr (eff_issuer (cl_cfg c))) /\
      (forall v, assoc (PS "iss") stored = Some v -> v = VStr (cf_issuer (cl_cfg c))) /\
      (cf_client_id (cl_cfg c) <> [] ->
       forall v, assoc (PS "client_id") stored = Some v -> v = VStr (cf_client_id (cl_cfg c))) /\
      w' = w_set w i (mkClient (cl_cfg c) (db_update (cl_db c) st stored) (cl_map c)).
  Proof.
    intros H Herr. cbn [step] in H.
    apply on_client_inv in H as [(_ & _ & Hout)|(c & c' & Hi & Hf & Hw)]; [discriminate|].
    destruct (step_authz_accept lhash _ _ _ _ _ Hf Herr) as (st & rec & Hst & Hrec & Hiss & Hip & Hcp & Hc' & _).
    exists c, st, rec. repeat split; auto. congruence.
  Qed.

  (* an accepted token response with an ID token: the token's nonce is bound, in the very client that asked,
     to the very state the tokens were requested for *)
  Theorem world_token_nonce w i st r now w' stored v :
    step lhash w (OToken i st r now) = (w', Ok stored) ->
    assoc (verified_name (PS "id_token")) stored = Some v ->
    exists vd n, v = VDict vd /\ assoc (PS "nonce") vd = Some (VStr n) /\ map_of w i n = Some st.
  Proof.
    intros H Hv. cbn [step] in H.
    apply on_client_inv in H as [(_ & _ & Hout)|(c & c' & Hi & Hf & Hw)]; [discriminate|].
    destruct (step_token_accept lhash _ _ _ _ _ _ Hf) as (rec & _ & _ & _ & Hver & _).
    destruct (Hver v Hv) as (t & vd & n & sub & _ & -> & _ & Hn & Hmap & _).
    exists vd, n. repeat split; auto. unfold map_of. rewrite Hi. exact Hmap.
  Qed.

End WorldAccept.

(* ================================================================================================
   back-channel responses (token response of a code exchange, refresh response, user info): the key under
   which they are recorded is the state the relying party made the REQUEST for - for every content of the
   response, in particular for every `state` / iss / client_id / nonce member it may carry (C09)
   ================================================================================================ *)
Section Backchannel.
  Variable lhash : pystr -> pystr -> pystr.

  Lemma db_get_assoc db k rec : db_get db k = Ok rec -> assoc k db = Some rec.
  Proof. unfold db_get. destruct (assoc k db) as [[|x r]|]; intro H; inversion H; reflexivity. Qed.

  (* a client step made for st: refused and nothing changed, or accepted and the record of st updated with what
     is handed back (m: the key map afterwards) *)
  Definition upd_at (c : client) (st : pystr) (c' : client) (out : res record) : Prop :=
    ((forall d, out <> Ok d) /\ c' = c) \/
    exists rec stored m, db_get (cl_db c) st = Ok rec /\ out = Ok stored /\
      c' = mkClient (cl_cfg c) (db_update (cl_db c) st stored) m.

  Lemma token_upd c st r now c' out : step_token lhash c st r now = (c', out) -> upd_at c st c' out.
  Proof.
    intro H. destruct out as [stored| |].
    - right. destruct (step_token_accept lhash _ _ _ _ _ _ H) as (rec & Hrec & Hcfg & Hdb & _).
      exists rec, stored, (cl_map c'). repeat split; auto. destruct c'; cbn in *; subst; reflexivity.
    - left. split; [intros d; discriminate|]. eapply step_token_reject; eauto. intros d; discriminate.
    - left. split; [intros d; discriminate|]. eapply step_token_reject; eauto. intros d; discriminate.
  Qed.
  Lemma refresh_upd c st r now c' out : step_refresh lhash c st r now = (c', out) -> upd_at c st c' out.
  Proof.
    intro H. destruct out as [stored| |].
    - right. destruct (step_refresh_accept lhash _ _ _ _ _ _ H) as (rec & rt & Hrec & _ & Hc' & _).
      exists rec, stored, (cl_map c). auto.
    - left. split; [intros d; discriminate|]. eapply step_refresh_reject; eauto. intros d; discriminate.
    - left. split; [intros d; discriminate|]. eapply step_refresh_reject; eauto. intros d; discriminate.
  Qed.
  Lemma userinfo_upd c st u c' out : step_userinfo c st u = (c', out) -> upd_at c st c' out.
  Proof.
    intro H. destruct out as [d| |].
    - right. destruct (step_userinfo_accept _ _ _ _ _ H) as (rec & Hrec & Hc' & _).
      exists rec, d, (cl_map c). auto.
    - left. split; [intros d; discriminate|]. eapply step_userinfo_reject; eauto. intros d; discriminate.
    - left. split; [intros d; discriminate|]. eapply step_userinfo_reject; eauto. intros d; discriminate.
  Qed.

  Definition world_upd (w : list (pystr * client)) (tgt : option pystr) (st : pystr)
             (w' : list (pystr * client)) (out : res record) : Prop :=
    ((forall d, out <> Ok d) /\ w' = w) \/
    exists i c rec stored m, tgt = Some i /\ assoc i w = Some c /\ db_get (cl_db c) st = Ok rec /\
      out = Ok stored /\ w' = w_set w i (mkClient (cl_cfg c) (db_update (cl_db c) st stored) m).

  Lemma on_client_upd w i f st w' out :
    on_client w i f = (w', out) -> (forall c c' o, f c = (c', o) -> upd_at c st c' o) ->
    world_upd w (Some i) st w' out.
  Proof.
    intros H Hf. apply on_client_inv in H as [(_ & -> & ->)|(c & c' & Hi & Hfc & ->)].
    - left. split; [intros d; discriminate|reflexivity].
    - destruct (Hf _ _ _ Hfc) as [(Hno & ->)|(rec & stored & m & Hrec & -> & ->)].
      + left. split; auto. apply w_set_same; auto.
      + right. exists i, c, rec, stored, m. auto.
  Qed.

  (* THE KEY OF A BACK-CHANNEL RESPONSE: whatever the response contains, the operation is refused and the
     world is unchanged, or it is accepted and exactly one thing happens to the state stores: the record of the
     state the request was made for, in the client the request was made by, is updated with what is handed back *)
  Theorem world_backchannel_key w o st w' out :
    backchannel_of o = Some st -> step lhash w o = (w', out) -> world_upd w (op_target w o) st w' out.
  Proof.
    intros Hb H.
    destruct o as [i s0 nonce req|i r now|i s0 r now|i s0 u|s0 r now|i s0 r now|s0 r now|s0 u];
      cbn [backchannel_of] in Hb; inversion Hb; subst s0; cbn [step op_target] in *.
    - eapply on_client_upd; [exact H|]. intros c0 c1 o0 Hc. eapply token_upd; exact Hc.
    - eapply on_client_upd; [exact H|]. intros c0 c1 o0 Hc. eapply userinfo_upd; exact Hc.
    - destruct (state2issuer w st) as [[| | |i| | |]|];
        try (left; inversion H; subst; split; [intros ?; discriminate|reflexivity]).
      eapply on_client_upd; [exact H|]. intros c0 c1 o0 Hc. eapply token_upd; exact Hc.
    - eapply on_client_upd; [exact H|]. intros c0 c1 o0 Hc. eapply refresh_upd; exact Hc.
    - destruct (state2issuer w st) as [[| | |i| | |]|];
        try (left; inversion H; subst; split; [intros ?; discriminate|reflexivity]).
      eapply on_client_upd; [exact H|]. intros c0 c1 o0 Hc. eapply refresh_upd; exact Hc.
    - destruct (state2issuer w st) as [[| | |i| | |]|];
        try (left; inversion H; subst; split; [intros ?; discriminate|reflexivity]).
      eapply on_client_upd; [exact H|]. intros c0 c1 o0 Hc. eapply userinfo_upd; exact Hc.
  Qed.

  (* ... and so: an accepted back-channel response is recorded under the state of the request, in the client
     that made the request; no other record of any client changes - whatever members the response carries *)
  Theorem world_backchannel_recorded w o st w' stored :
    backchannel_of o = Some st -> step lhash w o = (w', Ok stored) ->
    exists i rec, op_target w o = Some i /\ rec_of w i st = Some rec /\
      rec_of w' i st = Some (dict_update rec (keep_nonce rec stored)) /\
      (forall j s, j <> i \/ s <> st -> rec_of w' j s = rec_of w j s).
  Proof.
    intros Hb H.
    destruct (world_backchannel_key _ _ _ _ _ Hb H) as [(Hno & _)|(i & c & rec & st0 & m & Ht & Hi & Hrec & Ho & ->)].
    - exfalso. eapply Hno; reflexivity.
    - inversion Ho; subst st0. exists i, rec. split; auto. apply db_get_assoc in Hrec.
      split; [unfold rec_of; rewrite Hi; exact Hrec|].
      split.
      + unfold rec_of, w_set. rewrite assoc_aset_same. cbn [cl_db]. rewrite db_update_same, Hrec. reflexivity.
      + intros j s Hjs. unfold rec_of, w_set. destruct (str_eqb i j) eqn:E.
        * apply str_eqb_eq in E. subst j. rewrite assoc_aset_same, Hi. cbn [cl_db].
          apply db_update_other. destruct Hjs; congruence.
        * rewrite assoc_aset_other; auto. intro; subst. rewrite str_eqb_refl in E. discriminate.
  Qed.

  (* the record of the state a response NAMES (its `state` member), when that is not the state of the request,
     is untouched: accepted or refused, in every client *)
  Theorem world_backchannel_named_state_untouched w o st w' out s j :
    backchannel_of o = Some st -> step lhash w o = (w', out) ->
    has_entry (PS "state") (VStr s) (backchannel_members o) = true -> s <> st ->
    rec_of w' j s = rec_of w j s.
  Proof.
    intros Hb H _ Hne. eapply step_frame_db; eauto.
    destruct o; cbn [backchannel_of] in Hb; inversion Hb; subst; cbn [op_mentions];
      (destruct (str_eqb st s) eqn:E; [apply str_eqb_eq in E; congruence|reflexivity]).
  Qed.

  (* the nonce binding of a code exchange, whichever way the client was found *)
  Theorem world_routed_token_nonce w st r now w' stored v :
    step lhash w (ORoutedToken st r now) = (w', Ok stored) ->
    assoc (verified_name (PS "id_token")) stored = Some v ->
    exists i vd n, op_target w (ORoutedToken st r now) = Some i /\ v = VDict vd /\
      assoc (PS "nonce") vd = Some (VStr n) /\ map_of w i n = Some st.
  Proof.
    intros H Hv. cbn [step op_target] in *.
    destruct (state2issuer w st) as [[| | |i| | |]|]; try (inversion H; fail).
    apply on_client_inv in H as [(_ & _ & Hout)|(c & c' & Hi & Hf & Hw)]; [discriminate|].
    destruct (step_token_accept lhash _ _ _ _ _ _ Hf) as (rec & _ & _ & _ & Hver & _).
    destruct (Hver v Hv) as (t & vd & n & sub & _ & -> & _ & Hn & Hmap & _).
    exists i, vd, n. repeat split; auto. unfold map_of. rewrite Hi. exact Hmap.
  Qed.

  (* the ID Token of a refresh response is bound to the session that is refreshed: a nonce in it is bound, in the
     client that asked, to the very state the refresh was made for (so the ID Token of another pending or finished
     flow is refused, and by step_reject nothing changes); its subject is the subject of the ID Token the session
     already has *)
  Theorem world_refresh_idtoken_bound w o st w' stored v :
    refresh_of o = Some st -> step lhash w o = (w', Ok stored) ->
    assoc (verified_name (PS "id_token")) stored = Some v ->
    exists i vd rec, op_target w o = Some i /\ v = VDict vd /\ rec_of w i st = Some rec /\
      (forall n, assoc (PS "nonce") vd = Some (VStr n) -> map_of w i n = Some st) /\
      (forall before s, assoc (verified_name (PS "id_token")) rec = Some (VDict before) ->
                        assoc (PS "sub") before = Some (VStr s) -> assoc (PS "sub") vd = Some (VStr s)).
  Proof.
    intros Hr H Hv.
    assert (Hcl : forall i, on_client w i (fun c => step_refresh lhash c st
                     match o with ORefresh _ _ r _ | ORoutedRefresh _ r _ => r | _ => mkResp [] None end
                     match o with ORefresh _ _ _ n | ORoutedRefresh _ _ n => n | _ => 0%Z end) = (w', Ok stored) ->
              exists vd rec, v = VDict vd /\ rec_of w i st = Some rec /\
                (forall n, assoc (PS "nonce") vd = Some (VStr n) -> map_of w i n = Some st) /\
                (forall before s, assoc (verified_name (PS "id_token")) rec = Some (VDict before) ->
                   assoc (PS "sub") before = Some (VStr s) -> assoc (PS "sub") vd = Some (VStr s))).
    { intros i Hon. apply on_client_inv in Hon as [(_ & _ & Hout)|(c & c' & Hi & Hf & Hw)]; [discriminate|].
      destruct (step_refresh_accept lhash _ _ _ _ _ _ Hf) as (rec & rt & Hrec & _ & _ & Hver).
      destruct (Hver v Hv) as (t & vd & _ & -> & _ & Hn & Hs).
      exists vd, rec. split; [reflexivity|]. split; [unfold rec_of; rewrite Hi; apply db_get_assoc; exact Hrec|].
      split; [|exact Hs]. intros n En. unfold map_of. rewrite Hi. apply (Hn n En). }
    destruct o as [i s0 nonce req|i r now|i s0 r now|i s0 u|s0 r now|i s0 r now|s0 r now|s0 u];
      cbn [refresh_of] in Hr; inversion Hr; subst s0; cbn [step op_target] in *.
    - destruct (Hcl i H) as (vd & rec & ? & ? & ? & ?). exists i, vd, rec. auto.
    - destruct (state2issuer w st) as [[| | |i| | |]|]; try (inversion H; fail).
      destruct (Hcl i H) as (vd & rec & ? & ? & ? & ?). exists i, vd, rec. auto.
  Qed.
End Backchannel.

(* ================================================================================================
   the nonce clause of C08 over histories: after any sequence of operations in which the relying party
   draws fresh states and nonces, an ID Token accepted for state s - in an authorization response, a token
   response or a refresh response, on a client or through the RPHandler - carries the nonce the request of s
   was sent with.  Neither the sub -> state / sid -> state bindings that share the key map with the nonces,
   nor members of earlier responses, ever make another nonce acceptable.
   ================================================================================================ *)
Lemma dict_update_assoc_none (a b : list (pystr * pyval)) k : assoc k b = None -> assoc k (dict_update a b) = assoc k a.
Proof.
  unfold dict_update. revert a. induction b as [|[k' v] r IH]; intros a H; cbn [fold_left]; [reflexivity|].
  cbn [assoc] in H. destruct (str_eqb k k') eqn:E; [discriminate|].
  rewrite (IH _ H). cbn [fst snd]. apply assoc_aset_other. intro; subst. rewrite str_eqb_refl in E. discriminate.
Qed.

Lemma dict_update_assoc_only (a b : list (pystr * pyval)) k x :
  (forall v, In (k, v) b -> v = x) -> (has_key k b = true \/ assoc k a = Some x) -> assoc k (dict_update a b) = Some x.
Proof.
  unfold dict_update. revert a. induction b as [|[k' v] r IH]; intros a Hall Hk; cbn [fold_left].
  - destruct Hk as [Hk|Hk]; [discriminate|exact Hk].
  - apply IH; [intros v0 Hin; apply Hall; now right|].
    cbn [fst snd]. destruct (str_eqb k k') eqn:E.
    + apply str_eqb_eq in E. subst k'. right. rewrite (Hall v) by now left. apply assoc_aset_same.
    + destruct Hk as [Hk|Hk].
      * left. unfold has_key in *. cbn [assoc] in Hk. rewrite E in Hk. exact Hk.
      * right. rewrite assoc_aset_other; auto. intro; subst. rewrite str_eqb_refl in E. discriminate.
Qed.

Lemma drop_nonce_none info : assoc (PS "nonce") (drop_nonce info) = None.
Proof. unfold drop_nonce. apply (assoc_filter_drop (fun k => negb (str_eqb k (PS "nonce")))). now rewrite str_eqb_refl. Qed.

(* Current.update never replaces the nonce a record was created with *)
Lemma db_update_keeps_nonce db st0 info s rec n :
  assoc s db = Some rec -> assoc (PS "nonce") rec = Some (VStr n) ->
  exists rec', assoc s (db_update db st0 info) = Some rec' /\ assoc (PS "nonce") rec' = Some (VStr n).
Proof.
  intros Hs Hn. destruct (str_eqb s st0) eqn:E.
  - apply str_eqb_eq in E. subst st0. rewrite db_update_same, Hs. eexists. split; [reflexivity|].
    unfold keep_nonce. rewrite Hn. rewrite dict_update_assoc_none; [exact Hn|apply drop_nonce_none].
  - exists rec. split; [|exact Hn]. rewrite db_update_other; auto. intro; subst. rewrite str_eqb_refl in E. discriminate.
Qed.

Section NonceHistory.
  Variable lhash : pystr -> pystr -> pystr.

  (* the sessions of client i: each has its record, the record still names the nonce it was sent with, and that
     nonce is still bound to it *)
  Definition nonce_inv (w : list (pystr * client)) (i : pystr) (L : list (pystr * pystr)) : Prop :=
    forall st n, In (st, n) L ->
      (exists rec, rec_of w i st = Some rec /\ assoc (PS "nonce") rec = Some (VStr n)) /\
      map_of w i n = Some st /\ n <> [].

  Lemma nonce_inv_unique w i L st n n' : nonce_inv w i L -> In (st, n) L -> In (st, n') L -> n = n'.
  Proof.
    intros Hinv H1 H2. destruct (Hinv _ _ H1) as ((r1 & Hr1 & Hn1) & _). destruct (Hinv _ _ H2) as ((r2 & Hr2 & Hn2) & _).
    congruence.
  Qed.

  (* every client step leaves the record of every state in place, with the nonce it names *)
  Lemma upd_keeps_record_nonce (w : list (pystr * client)) i0 c st0 stored m i s rec n :
    assoc i0 w = Some c -> rec_of w i s = Some rec -> assoc (PS "nonce") rec = Some (VStr n) ->
    exists rec', rec_of (w_set w i0 (mkClient (cl_cfg c) (db_update (cl_db c) st0 stored) m)) i s = Some rec' /\
                 assoc (PS "nonce") rec' = Some (VStr n).
  Proof.
    intros Hi0 Hr Hn. unfold rec_of, w_set in *. destruct (str_eqb i0 i) eqn:E.
    - apply str_eqb_eq in E. subst i0. rewrite assoc_aset_same. rewrite Hi0 in Hr. cbn [cl_db].
      eapply db_update_keeps_nonce; eauto.
    - rewrite assoc_aset_other; [eauto|]. intro; subst. rewrite str_eqb_refl in E. discriminate.
  Qed.

  Lemma step_keeps_record_nonce w o w' out i s rec n :
    step lhash w o = (w', out) -> (forall j st nonce req, o <> OBegin j st nonce req) ->
    rec_of w i s = Some rec -> assoc (PS "nonce") rec = Some (VStr n) ->
    exists rec', rec_of w' i s = Some rec' /\ assoc (PS "nonce") rec' = Some (VStr n).
  Proof.
    intros H Hnb Hr Hn.
    destruct (backchannel_of o) as [st0|] eqn:Hb.
    - destruct (world_backchannel_key lhash _ _ _ _ _ Hb H) as [(_ & ->)|(i0 & c & rec0 & stored & m & _ & Hi0 & _ & _ & ->)]; [eauto|].
      eapply upd_keeps_record_nonce; eauto.
    - destruct o as [j st nonce req|i0 r now|? ? ? ?|? ? ?|? ? ?|? ? ? ?|? ? ?|? ?]; cbn [backchannel_of] in Hb; try discriminate.
      + exfalso. eapply Hnb; reflexivity.
      + cbn [step] in H. apply on_client_inv in H as [(_ & -> & _)|(c & c' & Hi0 & Hf & ->)]; [eauto|].
        apply step_authz_shape in Hf as [->|(st0 & rec0 & stored & _ & _ & _ & ->)].
        * rewrite w_set_same; eauto.
        * eapply upd_keeps_record_nonce; eauto.
  Qed.

  Lemma sent_by_app i a b : sent_by i (a ++ b) = (sent_by i a ++ sent_by i b)%list.
  Proof.
    induction a as [|o r IH]; cbn; [reflexivity|].
    destruct o; cbn; try exact IH. destruct (str_eqb i0 i); cbn; rewrite IH; reflexivity.
  Qed.

  (* one step of a history preserves the invariant *)
  Lemma step_nonce_inv w o w' out i L :
    nonce_inv w i L -> fresh_begin w o -> step lhash w o = (w', out) -> nonce_inv w' i (L ++ sent_by i [o]).
  Proof.
    intros Hinv Hfresh H.
    destruct o as [j st0 nonce req|i0 r now|i0 st0 r now|i0 st0 u|st0 r now|i0 st0 r now|st0 r now|st0 u].
    1: {
      cbn [step] in H. cbn [fresh_begin] in Hfresh. destruct Hfresh as (Hcl & Hfr & Hfm & Hne & Hhas & Honly).
      unfold has_key in Hcl. destruct (assoc j w) as [c|] eqn:Ej; [|discriminate]. clear Hcl.
      inversion H; subst w'. clear H. cbn [sent_by].
      intros st n Hin. apply in_app_or in Hin as [Hin|Hin].
      - destruct (Hinv _ _ Hin) as ((rec & Hr & Hn) & Hm & Hnn).
        unfold rec_of, map_of, w_set in *. destruct (str_eqb j i) eqn:E.
        + apply str_eqb_eq in E. subst j. rewrite assoc_aset_same. rewrite Ej in *. cbn [step_begin cl_db cl_map].
          assert (st0 <> st) by (intro; subst; congruence).
          assert (nonce <> n) by (intro; subst; congruence).
          rewrite !assoc_aset_other by auto. split; [eauto|]. split; auto.
        + rewrite assoc_aset_other by (intro; subst; rewrite str_eqb_refl in E; discriminate). split; [eauto|]. split; auto.
      - destruct (str_eqb j i) eqn:E; [|destruct Hin]. apply str_eqb_eq in E. subst j.
        destruct Hin as [Heq|[]]. inversion Heq; subst st n.
        unfold rec_of, map_of, w_set. rewrite assoc_aset_same. cbn [step_begin cl_db cl_map]. rewrite !assoc_aset_same.
        split; [|split; auto]. eexists. split; [reflexivity|].
        apply dict_update_assoc_only; [exact Honly|left; exact Hhas]. }
    all: cbn [sent_by]; rewrite app_nil_r; intros st n Hin; destruct (Hinv _ _ Hin) as ((rec & Hr & Hn) & Hm & Hnn);
      (split; [eapply step_keeps_record_nonce; eauto; intros; discriminate|]); (split; [|exact Hnn]);
      eapply step_keeps_nonce_binding; eauto.
  Qed.

  Lemma run_nonce_inv : forall ops w i L,
    nonce_inv w i L -> fresh_history lhash w ops -> nonce_inv (run lhash w ops) i (L ++ sent_by i ops).
  Proof.
    induction ops as [|o r IH]; intros w i L Hinv Hf.
    - cbn. rewrite app_nil_r. exact Hinv.
    - cbn [run]. cbn [fresh_history] in Hf. destruct Hf as [Hfo Hfr].
      destruct (step lhash w o) as [w1 out] eqn:E. cbn [fst] in *.
      change (o :: r) with ([o] ++ r)%list. rewrite sent_by_app, app_assoc.
      apply IH; [|exact Hfr]. eapply step_nonce_inv; eauto.
  Qed.

  Lemma init_nonce_inv cfgs i : nonce_inv (init_world cfgs) i [].
  Proof. intros st n []. Qed.

  Lemma history_nonce_inv cfgs ops i :
    fresh_history lhash (init_world cfgs) ops -> nonce_inv (run lhash (init_world cfgs) ops) i (sent_by i ops).
  Proof. intro Hf. apply (run_nonce_inv ops _ i [] (init_nonce_inv cfgs i) Hf). Qed.

  Lemma history_invariant cfgs ops i st n :
    fresh_history lhash (init_world cfgs) ops -> In (st, n) (sent_by i ops) ->
    (exists rec, rec_of (run lhash (init_world cfgs) ops) i st = Some rec /\ assoc (PS "nonce") rec = Some (VStr n)) /\
    map_of (run lhash (init_world cfgs) ops) i n = Some st /\ n <> [].
  Proof. intros Hf Hin. exact (history_nonce_inv cfgs ops i Hf st n Hin). Qed.

  Lemma issued_sent_by ops i st : In (i, st) (issued ops) -> exists n, In (st, n) (sent_by i ops).
  Proof.
    induction ops as [|o r IH]; cbn; [intros []|].
    destruct o as [j s nonce req| | | | | | |]; cbn; auto.
    intros [Heq|Hin].
    - inversion Heq; subst. rewrite str_eqb_refl. exists nonce. now left.
    - destruct (IH Hin) as (n & Hn). exists n. destruct (str_eqb j i); [right|]; exact Hn.
  Qed.

  (* what each service establishes about the verified ID Token it hands back, in terms of the RECORD of the
     session: a non-empty nonce named by the record is the nonce of the token (a refresh response may also carry
     an ID Token without nonce) *)
  Definition token_nonce_is (o : op) (vd : record) (n : pystr) : Prop :=
    (forall x, assoc (PS "nonce") vd = Some x -> x = VStr n) /\
    (refresh_of o = None -> assoc (PS "nonce") vd = Some (VStr n)).

  Lemma accepted_nonce_of_record w o w' stored i st vd :
    step lhash w o = (w', Ok stored) -> idtoken_op o = true -> has_key (PS "error") stored = false ->
    op_target w o = Some i -> accepted_for o stored st ->
    assoc (verified_name (PS "id_token")) stored = Some (VDict vd) ->
    exists rec, rec_of w i st = Some rec /\
      forall n, assoc (PS "nonce") rec = Some (VStr n) -> n <> [] -> token_nonce_is o vd n.
  Proof.
    intros H Hop Herr Ht Hfor Hv.
    assert (Htok : forall j s r now, on_client w j (fun c => step_token lhash c s r now) = (w', Ok stored) ->
              exists rec, rec_of w j s = Some rec /\
                forall n, assoc (PS "nonce") rec = Some (VStr n) -> n <> [] ->
                  (forall x, assoc (PS "nonce") vd = Some x -> x = VStr n) /\ assoc (PS "nonce") vd = Some (VStr n)).
    { intros j s r now Hon. apply on_client_inv in Hon as [(_ & _ & Hout)|(c & c' & Hj & Hf & _)]; [discriminate|].
      destruct (step_token_accept lhash _ _ _ _ _ _ Hf) as (rec & Hrec & _ & _ & Hver & _).
      destruct (Hver _ Hv) as (t & vd0 & n0 & sub & _ & Heq & _ & Hn0 & _ & _ & _ & _ & Hrn). inversion Heq; subst vd0.
      exists rec. split; [unfold rec_of; rewrite Hj; apply db_get_assoc; exact Hrec|].
      intros n Hn _. assert (n0 = n) by congruence. subst n0. split; [intros x Hx; congruence|exact Hn0]. }
    assert (Href : forall j s r now, on_client w j (fun c => step_refresh lhash c s r now) = (w', Ok stored) ->
              exists rec, rec_of w j s = Some rec /\
                forall n, assoc (PS "nonce") rec = Some (VStr n) -> n <> [] ->
                  forall x, assoc (PS "nonce") vd = Some x -> x = VStr n).
    { intros j s r now Hon. apply on_client_inv in Hon as [(_ & _ & Hout)|(c & c' & Hj & Hf & _)]; [discriminate|].
      pose proof Hf as Hf0.
      destruct (step_refresh_accept lhash _ _ _ _ _ _ Hf) as (rec & rt & Hrec & _ & _ & Hver).
      destruct (Hver _ Hv) as (t & vd0 & _ & Heq & _ & Hn0 & _). inversion Heq; subst vd0.
      exists rec. split; [unfold rec_of; rewrite Hj; apply db_get_assoc; exact Hrec|].
      intros n Hn _ x Hx.
      (* a nonce claim the model accepts in a refresh response is a string *)
      assert (Hstr : exists n0, x = VStr n0).
      { unfold step_refresh in Hf0. rewrite Hrec in Hf0.
        destruct (assoc (PS "refresh_token") rec) as [[| | |[|x0 s0]| | |]|]; try (pair_absurd Hf0).
        destruct (r_params r); [pair_absurd Hf0|].
        destruct (from_dict token_resp_params _ []) as [[|y d]| |]; try (pair_absurd Hf0).
        destruct (has_key (PS "error") (y :: d)); [pair_absurd Hf0|].
        destruct (token_response_verify lhash _ _ _ now) as [d1| |] eqn:Hvf; try (pair_absurd Hf0).
        destruct (refresh_bound c s rec d1) as [[]| |] eqn:Hb; try (pair_absurd Hf0).
        destruct (with_expires_at _ now) as [s0'| |] eqn:Ew; try (pair_absurd Hf0).
        inversion Hf0; subst s0'.
        assert (Hd1 : assoc (verified_name (PS "id_token")) d1 = Some (VDict vd))
          by (erewrite <- stored_assoc; eauto using key_not_expires_ver).
        unfold refresh_bound in Hb. rewrite Hd1 in Hb. apply bind_ok in Hb as ([] & _ & Hb).
        rewrite Hx in Hb. destruct x as [| | |n0| | |]; try discriminate. eauto. }
      destruct Hstr as (n0 & ->). destruct (Hn0 n0 Hx) as (_ & Hrn). congruence. }
    unfold token_nonce_is.
    destruct o as [j s nonce req|i0 r now|i0 s r now|i0 s u|s r now|i0 s r now|s r now|s u]; cbn [idtoken_op] in Hop; try discriminate;
      cbn [step op_target accepted_for backchannel_of refresh_of] in *.
    - (* authorization response *)
      inversion Ht; subst i0.
      apply on_client_inv in H as [(_ & _ & Hout)|(c & c' & Hi & Hf & _)]; [discriminate|].
      destruct (step_authz_accept lhash _ _ _ _ _ Hf Herr) as (st1 & rec & Hst1 & Hrec & _ & _ & _ & _ & Hver).
      assert (st1 = st) by congruence. subst st1.
      destruct (Hver _ Hv) as (t & code & atok & vd0 & _ & Heq & _ & Hnonce). inversion Heq; subst vd0.
      exists rec. split; [unfold rec_of; rewrite Hi; apply db_get_assoc; exact Hrec|].
      intros n Hn Hnn. pose proof (Hnonce n Hn Hnn) as Hvn. split; [intros x Hx; congruence|intros _; exact Hvn].
    - inversion Ht; subst i0. subst s. destruct (Htok _ _ _ _ H) as (rec & Hr & Hall). exists rec. split; [exact Hr|].
      intros n Hn Hnn. destruct (Hall n Hn Hnn). split; auto.
    - subst s. destruct (state2issuer w st) as [[| | |j| | |]|]; try discriminate. inversion Ht; subst j.
      destruct (Htok _ _ _ _ H) as (rec & Hr & Hall). exists rec. split; [exact Hr|].
      intros n Hn Hnn. destruct (Hall n Hn Hnn). split; auto.
    - inversion Ht; subst i0. subst s. destruct (Href _ _ _ _ H) as (rec & Hr & Hall). exists rec. split; [exact Hr|].
      intros n Hn Hnn. split; [apply (Hall n Hn Hnn)|discriminate].
    - subst s. destruct (state2issuer w st) as [[| | |j| | |]|]; try discriminate. inversion Ht; subst j.
      destruct (Href _ _ _ _ H) as (rec & Hr & Hall). exists rec. split; [exact Hr|].
      intros n Hn Hnn. split; [apply (Hall n Hn Hnn)|discriminate].
  Qed.

  (* THE NONCE CLAUSE OVER HISTORIES *)
  Theorem history_nonce_sent cfgs pre o w' stored i st vd :
    fresh_history lhash (init_world cfgs) pre ->
    step lhash (run lhash (init_world cfgs) pre) o = (w', Ok stored) ->
    idtoken_op o = true -> has_key (PS "error") stored = false ->
    op_target (run lhash (init_world cfgs) pre) o = Some i -> accepted_for o stored st ->
    assoc (verified_name (PS "id_token")) stored = Some (VDict vd) ->
    exists n, In (st, n) (sent_by i pre) /\ (forall n', In (st, n') (sent_by i pre) -> n' = n) /\
      (forall x, assoc (PS "nonce") vd = Some x -> x = VStr n) /\
      (refresh_of o = None -> assoc (PS "nonce") vd = Some (VStr n)).
  Proof.
    intros Hfresh H Hop Herr Ht Hfor Hv.
    pose proof (history_nonce_inv cfgs pre i Hfresh) as Hinv.
    destruct (accepted_nonce_of_record _ _ _ _ _ _ _ H Hop Herr Ht Hfor Hv) as (rec & Hr & Hall).
    assert (Hissued : In (i, st) (issued pre)).
    { unfold rec_of in Hr. destruct (assoc i (run lhash (init_world cfgs) pre)) as [c|] eqn:Ec; [|discriminate].
      eapply history_states_issued; eauto. unfold has_key. rewrite Hr. reflexivity. }
    destruct (issued_sent_by _ _ _ Hissued) as (n & Hin).
    destruct (Hinv _ _ Hin) as ((rec' & Hr' & Hn) & _ & Hnn).
    assert (rec' = rec) by congruence. subst rec'.
    exists n. split; [exact Hin|]. split.
    - intros n' Hin'. eapply nonce_inv_unique; eauto.
    - apply (Hall n Hn Hnn).
  Qed.
End NonceHistory.

(* ================================================================================================
   hybrid / implicit front-channel responses (response types "code id_token", "code token",
   "code id_token token", "id_token token", "id_token"): every member of an accepted response belongs
   to the flow its state names (C09).  The hash rules are those of Model/IdToken.v (C08).
   ================================================================================================ *)
Lemma key_not_expires_code : PS "code" <> PS "__expires_at". Proof. intro E; vm_compute in E; discriminate. Qed.
Lemma key_not_expires_atok : PS "access_token" <> PS "__expires_at". Proof. intro E; vm_compute in E; discriminate. Qed.
Lemma key_not_expires_idt : PS "id_token" <> PS "__expires_at". Proof. intro E; vm_compute in E; discriminate. Qed.

Section Hybrid.
  Variable lhash : pystr -> pystr -> pystr.

  (* an id_token parameter that reaches AuthorizationResponse.verify is verified (or the response refused) *)
  Lemma authz_response_verify_idt kw d idt now d1 s :
    authz_response_verify lhash kw d idt now = Ok d1 ->
    assoc (PS "id_token") d = Some (VStr s) ->
    exists v, assoc (verified_name (PS "id_token")) d1 = Some v.
  Proof.
    unfold authz_response_verify. intros H Hs.
    apply bind_ok in H as ([] & _ & H). apply bind_ok in H as ([] & _ & H).
    apply bind_ok in H as ([] & _ & H). apply bind_ok in H as ([] & _ & H).
    rewrite (strip_verified_keep d (PS "id_token") eq_refl), Hs in H.
    destruct idt as [t|]; try discriminate.
    apply bind_ok in H as (code & _ & H). apply bind_ok in H as (atok & _ & H).
    apply bind_ok in H as (vd & _ & H). inversion H; subst d1.
    rewrite assoc_aset_same. eauto.
  Qed.

  Lemma opt_param_some d k x o : opt_param d k = Ok o -> assoc k d = Some (VStr x) -> o = Some x.
  Proof. unfold opt_param. intros H E. rewrite E in H. inversion H; reflexivity. Qed.

  (* what an accepted authorization response establishes about its members: an id_token parameter is
     verified; the verified claims are the coerced payload of the delivered token; for a signed token the
     code / access_token that are STORED are the ones the token's c_hash / at_hash cover (both, independently) *)
  Theorem step_authz_members c r now c' stored :
    step_authz lhash c r now = (c', Ok stored) -> has_key (PS "error") stored = false ->
    exists d0, from_dict authz_resp_params (r_params r) [] = Ok d0 /\
      assoc (PS "state") stored = assoc (PS "state") d0 /\
      assoc (PS "code") stored = assoc (PS "code") d0 /\
      assoc (PS "access_token") stored = assoc (PS "access_token") d0 /\
      assoc (PS "id_token") stored = assoc (PS "id_token") d0 /\
      (forall s, assoc (PS "id_token") stored = Some (VStr s) ->
         exists v, assoc (verified_name (PS "id_token")) stored = Some v) /\
      (forall v, assoc (verified_name (PS "id_token")) stored = Some v ->
         exists t vd, r_idt r = Some t /\ v = VDict vd /\
           from_dict idtoken_params (t_claims t) [] = Ok vd /\
           (t_alg t <> PS "none" ->
              (forall x, assoc (PS "code") stored = Some (VStr x) ->
                 assoc (PS "c_hash") vd = Some (VStr (lhash (hash_bits (t_alg t)) x))) /\
              (forall x, assoc (PS "access_token") stored = Some (VStr x) ->
                 assoc (PS "at_hash") vd = Some (VStr (lhash (hash_bits (t_alg t)) x))))).
  Proof.
    unfold step_authz. intros H Hnoerr.
    destruct (parse_authz lhash c r now) as [d| |] eqn:Hp; try (pair_absurd H).
    destruct (has_key (PS "error") d) eqn:Eerr.
    { inversion H; subst. rewrite resp_to_dict_has_key in Hnoerr. congruence. }
    destruct (state_param d) as [st| |] eqn:Est; try (pair_absurd H).
    destruct (db_get (cl_db c) st) as [rec| |] eqn:Erec; try (pair_absurd H).
    destruct (negb _) eqn:Eiss; [pair_absurd H|].
    destruct (with_expires_at (resp_to_dict authz_resp_params d) now) as [st0| |] eqn:Ew; try (pair_absurd H).
    inversion H; subst c' st0. clear H.
    destruct (parse_authz_inv lhash _ _ _ _ Hp Eerr) as (d0 & Hf & Hv & _).
    destruct (authz_response_verify_inv lhash _ _ _ _ _ Hv) as (_ & _ & Hkeep & Hver).
    assert (Sstate : assoc (PS "state") stored = assoc (PS "state") d0).
    { rewrite <- (Hkeep (PS "state") eq_refl). eapply stored_assoc; eauto using key_not_expires_state. }
    assert (Scode : assoc (PS "code") stored = assoc (PS "code") d0).
    { rewrite <- (Hkeep (PS "code") eq_refl). eapply stored_assoc; eauto using key_not_expires_code. }
    assert (Sat : assoc (PS "access_token") stored = assoc (PS "access_token") d0).
    { rewrite <- (Hkeep (PS "access_token") eq_refl). eapply stored_assoc; eauto using key_not_expires_atok. }
    assert (Sidt : assoc (PS "id_token") stored = assoc (PS "id_token") d0).
    { rewrite <- (Hkeep (PS "id_token") eq_refl). eapply stored_assoc; eauto using key_not_expires_idt. }
    assert (Sver : assoc (verified_name (PS "id_token")) stored = assoc (verified_name (PS "id_token")) d)
      by (eapply stored_assoc; eauto using key_not_expires_ver).
    exists d0. split; [exact Hf|]. split; [exact Sstate|]. split; [exact Scode|]. split; [exact Sat|].
    split; [exact Sidt|]. split.
    - intros s Hs. rewrite Sidt in Hs. rewrite Sver.
      eapply authz_response_verify_idt; eauto.
    - intros v Hv'. rewrite Sver in Hv'.
      destruct (Hver v Hv') as (t & code & atok & vd & Ht & -> & Hcode & Hatok & Hvd).
      exists t, vd. split; [exact Ht|]. split; [reflexivity|].
      apply verify_id_token_stages in Hvd as (signed & Hpol & _ & Hfd & _ & _ & Hh & _).
      split; [exact Hfd|]. intro Hne.
      destruct signed.
      + apply hash_checks_inv in Hh as [Hc Ha]. split; intros x Hx.
        * apply Hc. rewrite Scode in Hx. eapply opt_param_some; eauto.
          rewrite strip_verified_keep by reflexivity. exact Hx.
        * apply Ha. rewrite Sat in Hx. eapply opt_param_some; eauto.
          rewrite strip_verified_keep by reflexivity. exact Hx.
      + apply alg_policy_inv in Hpol as [Hp0 _]. destruct (Hp0 eq_refl) as [E _]. contradiction.
  Qed.

  (* ---- responses recombined member by member ---- *)
  Lemma hybrid_params_nodup h : NoDup (List.map fst (hybrid_params h)).
  Proof.
    destruct h as [s [g|] [i|] [a|]]; cbn; repeat constructor; cbn; intuition discriminate.
  Qed.

  Lemma hybrid_assoc_state h : assoc (PS "state") (hybrid_params h) = Some (VStr (fl_state (hy_state h))).
  Proof. reflexivity. Qed.
  Lemma hybrid_assoc_code h g : hy_code h = Some g -> assoc (PS "code") (hybrid_params h) = Some (VStr (fl_code g)).
  Proof. destruct h as [s [g'|] [i|] [a|]]; cbn [hy_code]; intro E; inversion E; subst; reflexivity. Qed.
  Lemma hybrid_assoc_atok h g :
    hy_atok h = Some g -> assoc (PS "access_token") (hybrid_params h) = Some (VStr (fl_atok g)).
  Proof. destruct h as [s [g'|] [i|] [a|]]; cbn [hy_atok]; intro E; inversion E; subst; reflexivity. Qed.
  Lemma hybrid_assoc_idt h g : hy_idt h = Some g -> assoc (PS "id_token") (hybrid_params h) = Some (VStr (fl_jwt g)).
  Proof. destruct h as [s [g'|] [i|] [a|]]; cbn [hy_idt]; intro E; inversion E; subst; reflexivity. Qed.

  Lemma hybrid_d0 h d0 :
    from_dict authz_resp_params (hybrid_params h) [] = Ok d0 ->
    (forall x, assoc (PS "state") d0 = Some x -> x = VStr (fl_state (hy_state h))) /\
    (forall g, hy_code h = Some g -> fl_code g <> [] -> assoc (PS "code") d0 = Some (VStr (fl_code g))) /\
    (forall g, hy_atok h = Some g -> fl_atok g <> [] -> assoc (PS "access_token") d0 = Some (VStr (fl_atok g))) /\
    (forall g, hy_idt h = Some g -> fl_jwt g <> [] -> assoc (PS "id_token") d0 = Some (VStr (fl_jwt g))).
  Proof.
    intro H. pose proof (hybrid_params_nodup h) as Hnd.
    split; [|split; [|split]].
    - intros x Hx. pose proof (from_dict_assoc _ _ _ _ (PS "state") H Hnd) as P.
      rewrite hybrid_assoc_state in P. destruct (fl_state (hy_state h)) as [|c0 s0]; cbn -[PS assoc] in P.
      + rewrite Hx in P. discriminate.
      + rewrite Hx in P. inversion P; reflexivity.
    - intros g Hg Hne. pose proof (from_dict_assoc _ _ _ _ (PS "code") H Hnd) as P.
      rewrite (hybrid_assoc_code _ _ Hg) in P. destruct (fl_code g) as [|c0 s0]; [congruence|].
      cbn -[PS assoc] in P. exact P.
    - intros g Hg Hne. pose proof (from_dict_assoc _ _ _ _ (PS "access_token") H Hnd) as P.
      rewrite (hybrid_assoc_atok _ _ Hg) in P. destruct (fl_atok g) as [|c0 s0]; [congruence|].
      cbn -[PS assoc] in P. exact P.
    - intros g Hg Hne. pose proof (from_dict_assoc _ _ _ _ (PS "id_token") H Hnd) as P.
      rewrite (hybrid_assoc_idt _ _ Hg) in P. destruct (fl_jwt g) as [|c0 s0]; [congruence|].
      cbn -[PS assoc] in P. exact P.
  Qed.

  (* a string claim of the verified ID Token is stated, as that string, by the delivered token *)
  Lemma verified_claim_origin t vd k s ps :
    from_dict idtoken_params (t_claims t) [] = Ok vd -> assoc k vd = Some (VStr s) ->
    find_spec k idtoken_params = Some ps -> ps_type ps = CStr -> In (k, VStr s) (t_claims t).
  Proof.
    intros H Hd Hf Ht. destruct (from_dict_origin _ _ _ _ _ _ H Hd) as [Ha|(v0 & Hin & Hm)]; [discriminate|].
    rewrite Hf, Ht in Hm. apply coerce_cstr_vstr in Hm. subst v0. exact Hin.
  Qed.

  (* THE BINDING OF EVERY MEMBER.  Universe fs of flows whose artefacts are genuine and pairwise separate; a
     response recombined from them member by member, delivered to a client where the flow named by the state
     is pending with its own nonce.  If the response carries a signed ID Token and is accepted, then the ID
     Token, the code and the access token ALL are the artefacts of the flow the state names. *)
  Theorem hybrid_members_own fs c h now c' stored :
    separate_flows lhash fs -> (forall f, In f fs -> genuine_flow lhash f) -> hybrid_within fs h ->
    (forall rec, db_get (cl_db c) (fl_state (hy_state h)) = Ok rec ->
                 assoc (PS "nonce") rec = Some (VStr (fl_nonce (hy_state h)))) ->
    step_authz lhash c (hybrid_response h) now = (c', Ok stored) -> has_key (PS "error") stored = false ->
    forall fi, hy_idt h = Some fi -> t_alg (fl_idt fi) <> PS "none" ->
      fi = hy_state h /\
      (forall g, hy_code h = Some g -> g = hy_state h /\ assoc (PS "code") stored = Some (VStr (fl_code g))) /\
      (forall g, hy_atok h = Some g -> g = hy_state h /\ assoc (PS "access_token") stored = Some (VStr (fl_atok g))) /\
      c' = mkClient (cl_cfg c) (db_update (cl_db c) (fl_state (hy_state h)) stored) (cl_map c).
  Proof.
    intros Hsep Hgen (Hin_s & Hin_c & Hin_i & Hin_a) Hpending H Hnoerr fi Hfi Hsigned.
    destruct (step_authz_accept lhash _ _ _ _ _ H Hnoerr) as (st & rec & Hst & Hrec & _ & _ & _ & Hc' & Hver).
    destruct (step_authz_members _ _ _ _ _ H Hnoerr) as (d0 & Hf & Sstate & Scode & Sat & Sidt & Hpresent & Hmem).
    cbn [hybrid_response r_params] in Hf.
    destruct (hybrid_d0 _ _ Hf) as (Dstate & Dcode & Dat & Didt).
    (* the state of the response is the state of the flow it names *)
    rewrite Sstate in Hst. apply Dstate in Hst. inversion Hst; subst st. clear Hst.
    pose proof (Hin_i _ Hfi) as Hfi_in.
    destruct (Hgen _ Hfi_in) as (Gn & Gc & Ga & _ & _ & _ & Gj).
    destruct (Hgen _ Hin_s) as (_ & _ & _ & Gsn & _).
    (* the ID Token parameter is there, hence verified *)
    assert (Hv : exists v, assoc (verified_name (PS "id_token")) stored = Some v).
    { apply (Hpresent (fl_jwt fi)). rewrite Sidt. apply Didt; auto. }
    destruct Hv as (v & Hv).
    destruct (Hver v Hv) as (t & code & atok & vd & Ht & Ev & _ & Hnonce).
    destruct (Hmem v Hv) as (t' & vd' & Ht' & Ev' & Hfd & Hhash).
    rewrite Ht in Ht'. inversion Ht'; subst t'. rewrite Ev in Ev'. inversion Ev'; subst vd'. clear Ht' Ev'.
    cbn [hybrid_response r_idt] in Ht. rewrite Hfi in Ht. inversion Ht; subst t. clear Ht.
    (* nonce: the verified token states the nonce of the pending flow; it only states its own *)
    assert (Efi : fi = hy_state h).
    { specialize (Hnonce _ (Hpending _ Hrec) Gsn).
      pose proof (verified_claim_origin _ _ _ _ _ Hfd Hnonce eq_refl eq_refl) as Hin.
      apply Gn in Hin. inversion Hin as [En].
      apply (Hsep _ _ Hin_s Hfi_in) in En. congruence. }
    split; [exact Efi|].
    destruct (Hhash Hsigned) as [Hc Ha].
    split; [|split; [|exact Hc']]; intros g Hg.
    - pose proof (Hin_c _ Hg) as Hg_in. destruct (Hgen _ Hg_in) as (_ & _ & _ & _ & Gcode & _).
      assert (Hs : assoc (PS "code") stored = Some (VStr (fl_code g))) by (rewrite Scode; apply Dcode; auto).
      split; [|exact Hs].
      apply Hc in Hs. pose proof (verified_claim_origin _ _ _ _ _ Hfd Hs eq_refl eq_refl) as Hin.
      apply Gc in Hin. inversion Hin as [Eh].
      destruct (Hsep _ _ Hg_in Hfi_in) as (_ & Sc & _). rewrite (Sc _ Eh). exact Efi.
    - pose proof (Hin_a _ Hg) as Hg_in. destruct (Hgen _ Hg_in) as (_ & _ & _ & _ & _ & Gat & _).
      assert (Hs : assoc (PS "access_token") stored = Some (VStr (fl_atok g))) by (rewrite Sat; apply Dat; auto).
      split; [|exact Hs].
      apply Ha in Hs. pose proof (verified_claim_origin _ _ _ _ _ Hfd Hs eq_refl eq_refl) as Hin.
      apply Ga in Hin. inversion Hin as [Eh].
      destruct (Hsep _ _ Hg_in Hfi_in) as (_ & _ & Sa). rewrite (Sa _ Eh). exact Efi.
  Qed.

  (* the same for the client an RPHandler delivers the response to *)
  Theorem world_hybrid_members_own fs w i h now w' stored :
    separate_flows lhash fs -> (forall f, In f fs -> genuine_flow lhash f) -> hybrid_within fs h ->
    (forall c rec, assoc i w = Some c -> db_get (cl_db c) (fl_state (hy_state h)) = Ok rec ->
                   assoc (PS "nonce") rec = Some (VStr (fl_nonce (hy_state h)))) ->
    step lhash w (OAuthz i (hybrid_response h) now) = (w', Ok stored) -> has_key (PS "error") stored = false ->
    forall fi, hy_idt h = Some fi -> t_alg (fl_idt fi) <> PS "none" ->
      hybrid_own h = true /\
      (forall g, hy_code h = Some g -> assoc (PS "code") stored = Some (VStr (fl_code (hy_state h)))) /\
      (forall g, hy_atok h = Some g -> assoc (PS "access_token") stored = Some (VStr (fl_atok (hy_state h)))) /\
      exists c, assoc i w = Some c /\
        w' = w_set w i (mkClient (cl_cfg c) (db_update (cl_db c) (fl_state (hy_state h)) stored) (cl_map c)).
  Proof.
    intros Hsep Hgen Hwithin Hpending H Hnoerr fi Hfi Hsigned. cbn [step] in H.
    apply on_client_inv in H as [(_ & _ & Hout)|(c & c' & Hi & Hf & Hw)]; [discriminate|].
    destruct (hybrid_members_own fs c h now c' stored Hsep Hgen Hwithin (fun rec => Hpending c rec Hi) Hf Hnoerr
                fi Hfi Hsigned) as (Efi & Hc & Ha & Hc').
    split; [|split; [|split]].
    - unfold hybrid_own, member_own, same_flow. rewrite Hfi, Efi, str_eqb_refl.
      destruct (hy_code h) as [g|] eqn:Eg; [destruct (Hc g eq_refl) as [-> _]; rewrite str_eqb_refl|];
        (destruct (hy_atok h) as [g'|] eqn:Eg'; [destruct (Ha g' eq_refl) as [-> _]; rewrite str_eqb_refl|]); reflexivity.
    - intros g Hg. destruct (Hc g Hg) as [<- Hs]. exact Hs.
    - intros g Hg. destruct (Ha g Hg) as [<- Hs]. exact Hs.
    - exists c. split; [exact Hi|]. rewrite Hw, Hc'. reflexivity.
  Qed.
End Hybrid.

(* ================================================================================================
   values presented AS A STATE that are not states (C09): only a key of the RECORD store (cl_db) is a state.
   The binding map (cl_map: nonce / subject / session id / logout state -> state) is never consulted to
   recognise one, so a key of the map that is not a key of the record store - whatever it is bound to - is an
   unknown state everywhere: authorization responses, get_tokens / refresh / user info made for it, the look-ups
   of the RPHandler.
   ================================================================================================ *)
Section BoundKeys.
  Variable lhash : pystr -> pystr -> pystr.

  Lemma db_get_has_key db k rec : db_get db k = Ok rec -> has_key k db = true.
  Proof. intro H. apply db_get_assoc in H. unfold has_key. now rewrite H. Qed.
  Lemma db_get_no_key db k : has_key k db = false -> db_get db k = Err KeyError.
  Proof. intro H. apply has_key_false in H. unfold db_get. now rewrite H. Qed.

  (* an accepted authorization response: the state parameter, as delivered, is a key of the record store *)
  Lemma step_authz_accept_entry c r now c' stored :
    step_authz lhash c r now = (c', Ok stored) -> has_key (PS "error") stored = false ->
    exists st rec, db_get (cl_db c) st = Ok rec /\ has_entry (PS "state") (VStr st) (r_params r) = true /\
      assoc (PS "state") stored = Some (VStr st).
  Proof.
    intros H Eerr. pose proof H as H0. unfold step_authz in H0.
    destruct (parse_authz lhash c r now) as [d| |] eqn:Hp; try (pair_absurd H0).
    destruct (has_key (PS "error") d) eqn:E.
    { inversion H0; subst. rewrite resp_to_dict_has_key in Eerr. congruence. }
    destruct (parse_authz_inv lhash _ _ _ _ Hp E) as (d0 & Hf & Hv & _).
    destruct (authz_response_verify_inv lhash _ _ _ _ _ Hv) as (_ & _ & Hkeep & _).
    destruct (step_authz_accept lhash _ _ _ _ _ H Eerr) as (st & rec & Hst & Hrec & _).
    exists st, rec. split; [exact Hrec|]. split; [|exact Hst].
    destruct (state_param d) as [st1| |] eqn:Est; try (pair_absurd H0).
    destruct (db_get (cl_db c) st1) as [rec1| |]; try (pair_absurd H0).
    destruct (negb _); [pair_absurd H0|].
    destruct (with_expires_at (resp_to_dict authz_resp_params d) now) as [s0| |] eqn:Ew; try (pair_absurd H0).
    inversion H0; subst s0.
    assert (Hsd : assoc (PS "state") d = Some (VStr st)).
    { erewrite <- stored_assoc; eauto using key_not_expires_state. }
    rewrite (Hkeep (PS "state") eq_refl) in Hsd.
    eapply from_dict_cstr_entry; eauto; reflexivity.
  Qed.

  Lemma backchannel_mentions o st : backchannel_of o = Some st -> op_mentions o st = true.
  Proof. destruct o; cbn; intro H; inversion H; subst; apply str_eqb_refl. Qed.

  (* ACCEPTANCE REQUIRES A KEY OF THE RECORD STORE: whatever operation other than the start of a flow is accepted
     (handed back without an error member), the state it was accepted for - the state parameter of the response,
     the state argument of the request - is a key of cl_db of the client it was executed on *)
  Theorem world_accept_record_key w o w' stored :
    step lhash w o = (w', Ok stored) -> is_begin o = false -> has_key (PS "error") stored = false ->
    exists i c st, op_target w o = Some i /\ assoc i w = Some c /\ op_mentions o st = true /\
      accepted_for o stored st /\ has_key st (cl_db c) = true.
  Proof.
    intros H Hb Herr. destruct (backchannel_of o) as [st|] eqn:Hbc.
    - destruct (world_backchannel_key lhash _ _ _ _ _ Hbc H) as [(Hno & _)|(i & c & rec & st0 & m & Ht & Hi & Hrec & _)].
      + exfalso. eapply Hno; reflexivity.
      + exists i, c, st. split; [exact Ht|]. split; [exact Hi|]. split; [apply backchannel_mentions; exact Hbc|].
        split; [unfold accepted_for; rewrite Hbc; reflexivity|eapply db_get_has_key; eauto].
    - destruct o as [i st nonce req|i r now|i st r now|i st u|st r now|i st r now|st r now|st u];
        cbn [backchannel_of is_begin] in *; try discriminate.
      cbn [step] in H. apply on_client_inv in H as [(_ & _ & Hout)|(c & c' & Hi & Hf & _)]; [discriminate|].
      destruct (step_authz_accept_entry _ _ _ _ _ Hf Herr) as (st & rec & Hrec & Hent & Hst).
      exists i, c, st. split; [reflexivity|]. split; [exact Hi|]. split; [exact Hent|].
      split; [exact Hst|eapply db_get_has_key; eauto].
  Qed.

  (* one client: a key of its binding map that is not a key of its record store is an unknown state *)
  Theorem client_bound_key_not_a_state c k s :
    assoc k (cl_map c) = Some s -> has_key k (cl_db c) = false ->
    (forall r now c' out, step_authz lhash c r now = (c', out) ->
       (forall s', has_entry (PS "state") (VStr s') (r_params r) = true -> s' = k) ->
       c' = c /\ forall stored, out = Ok stored -> has_key (PS "error") stored = true) /\
    (forall r now, step_token lhash c k r now = (c, Err KeyError)) /\
    (forall r now, step_refresh lhash c k r now = (c, Err KeyError)) /\
    (forall u, step_userinfo c k u = (c, Err KeyError)).
  Proof.
    intros _ Hk. pose proof (db_get_no_key _ _ Hk) as Hg. split; [|split; [|split]].
    - intros r now c' out H Honly. split.
      + apply step_authz_shape in H as [->|(st & rec & stored & Hrec & Hent & _)]; [reflexivity|].
        rewrite (Honly _ Hent) in Hrec. congruence.
      + intros stored ->. destruct (has_key (PS "error") stored) eqn:E; [reflexivity|].
        destruct (step_authz_accept_entry _ _ _ _ _ H E) as (st & rec & Hrec & Hent & _).
        rewrite (Honly _ Hent) in Hrec. congruence.
    - intros r now. unfold step_token. rewrite Hg. reflexivity.
    - intros r now. unfold step_refresh. rewrite Hg. reflexivity.
    - intros u. unfold step_userinfo. rewrite Hg. reflexivity.
  Qed.

  (* histories: a value this relying party never issued as a state is refused wherever it is presented as one,
     and nothing changes (an authorization ERROR response is handed back as it is, without touching the stores) *)
  Theorem history_unissued_state_refused cfgs pre o w' out :
    is_begin o = false ->
    (forall s, op_mentions o s = true -> forall i, ~ In (i, s) (issued pre)) ->
    step lhash (run lhash (init_world cfgs) pre) o = (w', out) ->
    w' = run lhash (init_world cfgs) pre /\ (forall stored, out = Ok stored -> has_key (PS "error") stored = true).
  Proof.
    intros Hb Hun H. set (w := run lhash (init_world cfgs) pre) in *.
    assert (Hno : forall i c st, assoc i w = Some c -> op_mentions o st = true -> has_key st (cl_db c) = true -> False).
    { intros i c st Hi Hm Hk. apply (Hun st Hm i). exact (history_states_issued lhash cfgs pre i c st Hi Hk). }
    split.
    - destruct (backchannel_of o) as [st|] eqn:Hbc.
      + destruct (world_backchannel_key lhash _ _ _ _ _ Hbc H) as [(_ & ->)|(i & c & rec & st0 & m & _ & Hi & Hrec & _)];
          [reflexivity|].
        exfalso. eapply Hno; eauto using backchannel_mentions, db_get_has_key.
      + destruct o as [i st nonce req|i r now|i st r now|i st u|st r now|i st r now|st r now|st u];
          cbn [backchannel_of is_begin] in *; try discriminate.
        cbn [step] in H. apply on_client_inv in H as [(_ & -> & _)|(c & c' & Hi & Hf & ->)]; [reflexivity|].
        apply step_authz_shape in Hf as [->|(st & rec & stored & Hrec & Hent & _)]; [apply w_set_same; exact Hi|].
        exfalso. eapply Hno; eauto using db_get_has_key.
    - intros stored ->. destruct (has_key (PS "error") stored) eqn:E; [reflexivity|]. exfalso.
      destruct (world_accept_record_key _ _ _ _ H Hb E) as (i & c & st & _ & Hi & Hm & _ & Hk). eapply Hno; eauto.
  Qed.

  (* ... in particular a key of the binding map of ANY client - the nonce of this or another pending flow, a bound
     subject, a bound session id, the state of a logout request - that was never issued as a state.  (The
     hypothesis on the map is not used by the proof: what a value is bound to confers nothing.) *)
  Theorem history_bound_key_never_a_state cfgs pre j k s o w' out :
    map_of (run lhash (init_world cfgs) pre) j k = Some s ->
    (forall i, ~ In (i, k) (issued pre)) ->
    is_begin o = false -> (forall s', op_mentions o s' = true -> s' = k) ->
    step lhash (run lhash (init_world cfgs) pre) o = (w', out) ->
    w' = run lhash (init_world cfgs) pre /\ (forall stored, out = Ok stored -> has_key (PS "error") stored = true).
  Proof.
    intros _ Hk Hb Hm H. eapply history_unissued_state_refused; eauto.
    intros s0 Hs0. rewrite (Hm _ Hs0). exact Hk.
  Qed.

  (* ---- the look-ups of the RPHandler: state2issuer finds only keys of record stores ---- *)
  Lemma state2issuer_record_key w st v :
    state2issuer w st = Some v -> exists i c, In (i, c) w /\ has_key st (cl_db c) = true.
  Proof.
    induction w as [|[i c] r IH]; cbn [state2issuer]; [discriminate|].
    assert (Hrest : state2issuer r st = Some v -> exists i0 c0, In (i0, c0) ((i, c) :: r) /\ has_key st (cl_db c0) = true).
    { intro H. destruct (IH H) as (i0 & c0 & Hin & Hk). exists i0, c0. split; [now right|exact Hk]. }
    destruct (db_get (cl_db c) st) as [rec| |] eqn:E; auto.
    destruct (assoc (PS "iss") rec) as [v0|]; auto.
    destruct (py_truthy v0); auto.
    intros _. exists i, c. split; [now left|eapply db_get_has_key; eauto].
  Qed.

  Lemma aset_keys {V} k (v : V) d : has_key k d = true -> List.map fst (aset k v d) = List.map fst d.
  Proof.
    unfold has_key. induction d as [|[k' v'] r IH]; cbn; [discriminate|].
    destruct (str_eqb k k') eqn:E; cbn; [reflexivity|]. intro H. now rewrite IH.
  Qed.
  Lemma w_set_keys (w : list (pystr * client)) i c c' : assoc i w = Some c -> List.map fst (w_set w i c') = List.map fst w.
  Proof. intro H. apply aset_keys. unfold has_key. now rewrite H. Qed.

  Lemma step_keys w o : List.map fst (fst (step lhash w o)) = List.map fst w.
  Proof.
    assert (Hon : forall i f, List.map fst (fst (on_client w i f)) = List.map fst w).
    { intros i f. destruct (on_client w i f) as [w1 out] eqn:E.
      apply on_client_inv in E as [(_ & -> & _)|(c & c' & Hi & _ & ->)]; [reflexivity|].
      cbn [fst]. eapply w_set_keys; eauto. }
    destruct o as [i st nonce req|i r now|i st r now|i st u|st r now|i st r now|st r now|st u]; cbn [step]; auto.
    - destruct (assoc i w) as [c|] eqn:Ei; cbn [fst]; [eapply w_set_keys; eauto|reflexivity].
    - destruct (state2issuer w st) as [[| | |i| | |]|]; auto.
    - destruct (state2issuer w st) as [[| | |i| | |]|]; auto.
    - destruct (state2issuer w st) as [[| | |i| | |]|]; auto.
  Qed.
  Lemma run_keys : forall ops w, List.map fst (run lhash w ops) = List.map fst w.
  Proof. induction ops as [|o r IH]; intro w; cbn [run]; [reflexivity|]. now rewrite IH, step_keys. Qed.
  Lemma init_world_keys cfgs : List.map fst (init_world cfgs) = List.map fst cfgs.
  Proof. unfold init_world. rewrite List.map_map. reflexivity. Qed.

  Lemma in_assoc_nodup {V} (d : list (pystr * V)) k v : NoDup (List.map fst d) -> In (k, v) d -> assoc k d = Some v.
  Proof.
    induction d as [|[k' v'] r IH]; cbn; [tauto|]. intros Hnd [Hin|Hin].
    - inversion Hin; subst. now rewrite str_eqb_refl.
    - inversion Hnd; subst. destruct (str_eqb k k') eqn:E; [|auto].
      apply str_eqb_eq in E. subst k'. exfalso. apply H1. apply in_map_iff. exists (k, v). auto.
  Qed.

  (* after any history of an RPHandler (one client per issuer), a value never issued as a state resolves to no
     issuer - so get_client_from_session_key and every call routed through it raise KeyError - and to no session
     of any client *)
  Theorem history_lookup_unissued cfgs pre k :
    NoDup (List.map fst cfgs) -> (forall i, ~ In (i, k) (issued pre)) ->
    probe_out (run lhash (init_world cfgs) pre) (PIssuer k) = Ok [] /\
    forall i, probe_out (run lhash (init_world cfgs) pre) (PSession i k) = Err KeyError.
  Proof.
    intros Hnd Hun. set (w := run lhash (init_world cfgs) pre).
    assert (Hno : forall i c, assoc i w = Some c -> has_key k (cl_db c) = false).
    { intros i c Hi. destruct (has_key k (cl_db c)) eqn:E; [|reflexivity].
      exfalso. apply (Hun i). exact (history_states_issued lhash cfgs pre i c k Hi E). }
    split.
    - cbn [probe_out]. destruct (state2issuer w k) as [v|] eqn:E; [|reflexivity]. exfalso.
      destruct (state2issuer_record_key _ _ _ E) as (i & c & Hin & Hk).
      assert (Hi : assoc i w = Some c).
      { apply in_assoc_nodup; [|exact Hin]. unfold w. rewrite run_keys, init_world_keys. exact Hnd. }
      rewrite (Hno _ _ Hi) in Hk. discriminate.
    - intro i. cbn [probe_out]. destruct (assoc i w) as [c|] eqn:Hi; [|reflexivity].
      apply db_get_no_key. eapply Hno; eauto.
  Qed.
End BoundKeys.

(* ---- the hypotheses of hybrid_members_own are satisfiable: the two example flows ---- *)
From Verif Require Import Model.RpExamples.
Lemma ex_lhash_inj b x y : ex_lhash b x = ex_lhash b y -> x = y.
Proof.
  unfold ex_lhash. intro E. apply app_inv_head in E. apply app_inv_head in E. apply app_inv_head in E. exact E.
Qed.
Lemma ex_flows_separate_genuine :
  separate_flows ex_lhash [ex_flow_a; ex_flow_b] /\ (forall f, In f [ex_flow_a; ex_flow_b] -> genuine_flow ex_lhash f).
Proof.
  split.
  - intros f g Hf Hg.
    destruct Hf as [<-|[<-|[]]]; destruct Hg as [<-|[<-|[]]];
      (split; [|split]); try (intros; reflexivity);
      try (intro E; vm_compute in E; discriminate);
      intros b E; apply ex_lhash_inj in E; vm_compute in E; discriminate.
  - intros f [<-|[<-|[]]]; unfold genuine_flow, claim_only;
      (repeat split; try (intro E; vm_compute in E; discriminate));
      intros v Hin; cbn in Hin;
      repeat (destruct Hin as [Hin|Hin]; [inversion Hin; try reflexivity|]); try contradiction.
Qed.
