(* Proofs/RpState_proofs.v — lemmas about Model/RpState.v (properties C08 and C09). *)
From Coq Require Import String Lia.
From Verif Require Import Lib.Base Lib.PyStr Lib.RpTy Gen.RpTables Model.IdToken Model.RpState Proofs.IdToken_proofs.
Open Scope string_scope.

(* ---- association lists ---- *)
Lemma aset_same_id {V} k (v : V) d : assoc k d = Some v -> aset k v d = d.
Proof.
  induction d as [|[k' v'] r IH]; cbn; intro H; [discriminate|].
  destruct (str_eqb k k') eqn:E.
  - inversion H; subst. reflexivity.
  - rewrite IH; auto.
Qed.

Lemma assoc_filter_keep {V} (f : pystr -> bool) k (d : list (pystr * V)) :
  f k = true -> assoc k (filter (fun kv => f (fst kv)) d) = assoc k d.
Proof.
  intro Hf. induction d as [|[k' v] r IH]; cbn; [reflexivity|].
  destruct (f k') eqn:E; cbn.
  - destruct (str_eqb k k'); auto.
  - destruct (str_eqb k k') eqn:Ek; auto. apply str_eqb_eq in Ek. subst. congruence.
Qed.
Lemma assoc_filter_drop {V} (f : pystr -> bool) k (d : list (pystr * V)) :
  f k = false -> assoc k (filter (fun kv => f (fst kv)) d) = None.
Proof.
  intro Hf. induction d as [|[k' v] r IH]; cbn; [reflexivity|].
  destruct (f k') eqn:E; cbn; auto.
  destruct (str_eqb k k') eqn:Ek; auto. apply str_eqb_eq in Ek. subst. congruence.
Qed.

Lemma has_key_assoc {V} k (d : list (pystr * V)) : has_key k d = true <-> exists v, assoc k d = Some v.
Proof. unfold has_key. destruct (assoc k d); split; intro H; eauto; try discriminate. destruct H; discriminate. Qed.
Lemma has_key_false {V} k (d : list (pystr * V)) : has_key k d = false <-> assoc k d = None.
Proof. unfold has_key. destruct (assoc k d); split; intro H; auto; discriminate. Qed.

(* ---- Current ---- *)
Lemma db_update_other db st info s' : s' <> st -> assoc s' (db_update db st info) = assoc s' db.
Proof.
  intro Hne. unfold db_update. destruct (assoc st db); apply assoc_aset_other; congruence.
Qed.
Lemma db_update_same db st info :
  assoc st (db_update db st info) = Some (match assoc st db with Some cur => dict_update cur info | None => info end).
Proof. unfold db_update. destruct (assoc st db); apply assoc_aset_same. Qed.

(* ---- serialisation of a stored response keeps the parameters that matter ---- *)
Lemma resp_to_dict_assoc spec d k :
  (match find_spec k spec with Some ps => match ps_type ps with CSpList => false | _ => true end | None => true end) = true ->
  assoc k (resp_to_dict spec d) = assoc k d.
Proof.
  intro Hk. unfold resp_to_dict. induction d as [|[k' v] r IH]; cbn [List.map assoc]; [reflexivity|].
  destruct (str_eqb k k') eqn:E.
  - apply str_eqb_eq in E. subst k'. cbn [fst snd].
    destruct (find_spec k spec) as [ps|]; cbn [fst snd]; [|rewrite str_eqb_refl; reflexivity].
    destruct (ps_type ps); try discriminate; cbn [fst]; rewrite str_eqb_refl; reflexivity.
  - cbn [fst snd]. destruct (find_spec k' spec) as [ps|]; cbn [fst]; [|rewrite E; exact IH].
    destruct (ps_type ps), v; cbn [fst]; rewrite E; exact IH.
Qed.
Lemma resp_to_dict_has_key spec d k : has_key k (resp_to_dict spec d) = has_key k d.
Proof.
  unfold resp_to_dict, has_key. induction d as [|[k' v] r IH]; cbn [List.map assoc]; [reflexivity|].
  cbn [fst snd]. destruct (find_spec k' spec) as [ps|]; cbn [fst].
  - destruct (ps_type ps), v; cbn [fst]; destruct (str_eqb k k'); auto.
  - destruct (str_eqb k k'); auto.
Qed.

Lemma with_expires_at_assoc d now stored k :
  with_expires_at d now = Ok stored -> k <> PS "__expires_at" -> assoc k stored = assoc k d.
Proof.
  unfold with_expires_at. destruct (assoc (PS "expires_in") d) as [[| |e| | | |]|]; intros H Hne; inversion H; subst; auto.
  apply assoc_aset_other. congruence.
Qed.
Lemma with_expires_at_has_key d now stored k :
  with_expires_at d now = Ok stored -> k <> PS "__expires_at" -> has_key k stored = has_key k d.
Proof. intros H Hne. unfold has_key. erewrite with_expires_at_assoc; eauto. Qed.

(* ---- clear_verified_claims ---- *)
Lemma strip_verified_none d c : In c claims_with_verified -> assoc (verified_name c) (strip_verified d) = None.
Proof.
  intro Hin. unfold strip_verified.
  apply (assoc_filter_drop (fun k => negb (is_verified_name k))).
  apply negb_false_iff. unfold is_verified_name. apply existsb_exists. exists c. split; auto. apply str_eqb_refl.
Qed.
Lemma strip_verified_keep d k : is_verified_name k = false -> assoc k (strip_verified d) = assoc k d.
Proof.
  intro H. unfold strip_verified. apply (assoc_filter_keep (fun k => negb (is_verified_name k))). now rewrite H.
Qed.
Lemma id_token_is_listed : In (PS "id_token") claims_with_verified.
Proof. vm_compute. tauto. Qed.

Section WithHash.
  Variable lhash : pystr -> pystr -> pystr.

  (* ---- message-level response verification ---- *)
  Lemma authz_response_verify_inv kw d idt now d1 :
    authz_response_verify lhash kw d idt now = Ok d1 ->
    param_matches d (PS "client_id") (kw_client_id kw) = Ok tt /\
    param_matches d (PS "iss") (kw_iss kw) = Ok tt /\
    (forall k, is_verified_name k = false -> assoc k d1 = assoc k d) /\
    (forall v, assoc (verified_name (PS "id_token")) d1 = Some v ->
       exists t code atok vd, idt = Some t /\ v = VDict vd /\
         opt_param (strip_verified d) (PS "code") = Ok code /\
         opt_param (strip_verified d) (PS "access_token") = Ok atok /\
         verify_id_token lhash kw true code atok t now = Ok vd).
  Proof.
    unfold authz_response_verify. intro H.
    apply bind_ok in H as ([] & _ & H). apply bind_ok in H as ([] & _ & H).
    apply bind_ok in H as ([] & Hc & H). apply bind_ok in H as ([] & Hi & H).
    split; [exact Hc|]. split; [exact Hi|].
    destruct (assoc (PS "id_token") (strip_verified d)) as [[| | |s| | |]|] eqn:Eid; try discriminate.
    - destruct idt as [t|]; try discriminate.
      apply bind_ok in H as (code & Hcode & H). apply bind_ok in H as (atok & Hat & H).
      apply bind_ok in H as (vd & Hv & H). inversion H; subst d1. split.
      + intros k Hk. rewrite assoc_aset_other.
        * apply strip_verified_keep; exact Hk.
        * intro E. subst k. unfold is_verified_name in Hk.
          assert (existsb (fun c => str_eqb (verified_name (PS "id_token")) (verified_name c)) claims_with_verified = true).
          { apply existsb_exists. exists (PS "id_token"). split; [apply id_token_is_listed|apply str_eqb_refl]. }
          congruence.
      + intros v Hv'. rewrite assoc_aset_same in Hv'. inversion Hv'; subst v.
        exists t, code, atok, vd. repeat split; auto.
    - inversion H; subst d1. split.
      + intros k Hk. apply strip_verified_keep; exact Hk.
      + intros v Hv. rewrite strip_verified_none in Hv by apply id_token_is_listed. discriminate.
  Qed.

  Lemma token_response_verify_inv kw d idt now d1 :
    token_response_verify lhash kw d idt now = Ok d1 ->
    (forall k, is_verified_name k = false -> assoc k d1 = assoc k d) /\
    (forall v, assoc (verified_name (PS "id_token")) d1 = Some v ->
       exists t vd, idt = Some t /\ v = VDict vd /\ verify_id_token lhash kw false None None t now = Ok vd).
  Proof.
    unfold token_response_verify. intro H.
    apply bind_ok in H as ([] & _ & H). apply bind_ok in H as ([] & _ & H).
    destruct (assoc (PS "id_token") (strip_verified d)) as [[| | |s| | |]|] eqn:Eid; try discriminate.
    - destruct idt as [t|]; try discriminate.
      apply bind_ok in H as (vd & Hv & H). inversion H; subst d1. split.
      + intros k Hk. rewrite assoc_aset_other.
        * apply strip_verified_keep; exact Hk.
        * intro E. subst k. unfold is_verified_name in Hk.
          assert (existsb (fun c => str_eqb (verified_name (PS "id_token")) (verified_name c)) claims_with_verified = true).
          { apply existsb_exists. exists (PS "id_token"). split; [apply id_token_is_listed|apply str_eqb_refl]. }
          congruence.
      + intros v Hv'. rewrite assoc_aset_same in Hv'. inversion Hv'; subst v. exists t, vd. auto.
    - inversion H; subst d1. split.
      + intros k Hk. apply strip_verified_keep; exact Hk.
      + intros v Hv. rewrite strip_verified_none in Hv by apply id_token_is_listed. discriminate.
  Qed.

  (* ---- a refused operation changes nothing (C08: never stored; C09: rejected op changes nothing) ---- *)
  Lemma step_authz_reject c r now c' out :
    step_authz lhash c r now = (c', out) -> (forall d, out <> Ok d) -> c' = c.
  Proof.
    unfold step_authz. intros H Hno.
    destruct (parse_authz lhash c r now) as [d| |]; try (inversion H; reflexivity).
    destruct (has_key (PS "error") d); [inversion H; reflexivity|].
    destruct (state_param d) as [st| |]; try (inversion H; reflexivity).
    destruct (db_get (cl_db c) st) as [rec| |]; try (inversion H; reflexivity).
    destruct (negb _); [inversion H; reflexivity|].
    destruct (with_expires_at _ now) as [stored| |]; inversion H; subst; auto.
    exfalso. eapply Hno; reflexivity.
  Qed.

  Lemma step_token_reject c st r now c' out :
    step_token lhash c st r now = (c', out) -> (forall d, out <> Ok d) -> c' = c.
  Proof.
    unfold step_token. intros H Hno.
    destruct (db_get (cl_db c) st) as [rec| |]; try (inversion H; reflexivity).
    destruct (negb _); [inversion H; reflexivity|].
    destruct (r_params r); [inversion H; reflexivity|].
    destruct (from_dict token_resp_params _ []) as [[|x d]| |]; try (inversion H; reflexivity).
    destruct (has_key (PS "error") (x :: d)); [inversion H; reflexivity|].
    destruct (token_response_verify lhash _ _ _ now) as [d1| |]; try (inversion H; reflexivity).
    match type of H with (match ?b with _ => _ end) = _ => destruct b as [m| |] end; try (inversion H; reflexivity).
    destruct (with_expires_at _ now) as [stored| |]; inversion H; subst; auto.
    exfalso. eapply Hno; reflexivity.
  Qed.

  Lemma step_userinfo_reject c st u c' out :
    step_userinfo c st u = (c', out) -> (forall d, out <> Ok d) -> c' = c.
  Proof.
    unfold step_userinfo. intros H Hno.
    destruct (db_get (cl_db c) st) as [rec| |]; try (inversion H; reflexivity).
    destruct (negb _); [inversion H; reflexivity|].
    destruct u; [inversion H; reflexivity|].
    destruct (from_dict userinfo_params _ []) as [[|x d]| |]; try (inversion H; reflexivity).
    destruct (has_key (PS "error") (x :: d)); [inversion H; reflexivity|].
    destruct (check_required userinfo_params (x :: d)); try (inversion H; reflexivity).
    destruct (_ || _); [inversion H; reflexivity|].
    match type of H with (match ?b with _ => _ end) = _ => destruct b as [[|]| |] end; inversion H; subst; auto.
    exfalso. eapply Hno; reflexivity.
  Qed.
End WithHash.
