(* Proofs/ScopeFlows_proofs.v — exchange and client-credentials never widen scope. *)
From Coq Require Import String List Bool.
From Verif Require Import Lib.Base Lib.PyStr Model.ScopeFlows.
Import ListNotations.
Open Scope string_scope.

Lemma dedup_in x l : In x (dedup l) -> In x l.
Proof.
  induction l as [|y r IH]; cbn; auto. destruct (str_in y r); cbn; intros H; auto. destruct H; auto.
Qed.

(* whatever a token exchange grants was in the subject token's scope, is allowed for the requesting client, and —
   when the request named scopes — was asked for *)
Theorem exchange_never_widens subj req allowed wr sc x :
  exchange_scope subj req allowed wr = XOk sc -> In x sc ->
  In x subj /\ In x allowed /\ (forall r, req = Some r -> In x r).
Proof.
  unfold exchange_scope. destruct (wr && negb (str_in offline subj)); [discriminate|].
  set (base := match req with Some r => r | None => subj end).
  set (filtered := List.filter (fun y => str_in y allowed) (dedup (List.filter (fun y => str_in y subj) base))).
  destruct filtered as [|f0 fr] eqn:E; [discriminate|].
  destruct (wr && negb (str_in offline (f0 :: fr))); [discriminate|].
  intros H Hx. inversion H; subst sc. rewrite <- E in Hx. unfold filtered in Hx.
  apply filter_In in Hx as [Hx Ha]. apply dedup_in in Hx. apply filter_In in Hx as [Hb Hs].
  apply str_in_In in Ha, Hs. repeat split; auto. intros r ->. exact Hb.
Qed.
(* a refresh token is only obtained by exchange when the subject token carried offline_access and it survives the filter *)
Theorem exchange_refresh_needs_offline subj req allowed sc :
  exchange_scope subj req allowed true = XOk sc -> In offline subj /\ In offline sc.
Proof.
  unfold exchange_scope. cbn [andb]. destruct (str_in offline subj) eqn:Es; cbn [negb]; [|discriminate].
  match goal with |- context [match ?f with [] => _ | _ => _ end] => destruct f as [|f0 fr] eqn:E end; [discriminate|].
  destruct (str_in offline (f0 :: fr)) eqn:Eo; cbn [negb]; [|discriminate].
  intros H; inversion H; subst. split; now apply str_in_In.
Qed.
Theorem client_credentials_within_configured allowed x :
  In x (client_credentials_scope allowed) -> exists a, allowed = Some a /\ In x a.
Proof. destruct allowed as [a|]; cbn; [eauto|intros []]. Qed.

(* ---- the authorization endpoint with a resource parameter ---- *)
Lemma effective_in requested permitted x :
  In x (authz_effective requested permitted) -> In x requested /\ (forall p, permitted = Some p -> In x p).
Proof.
  unfold authz_effective. destruct permitted as [p|]; intros H.
  - apply dedup_in in H. apply filter_In in H as [H1 H2]. apply str_in_In in H2. split; auto. intros p' E; inversion E; subst; auto.
  - split; auto. intros p' E; discriminate E.
Qed.
(* whatever the authorization endpoint mints - grant, code, access token, ID Token - carries only scopes the request
   asked for, the client is allowed and (under a resource policy) the named resources permit *)
Theorem authz_artefacts_within_request requested allowed permitted rscopes x :
  let r := authz_decide requested allowed permitted rscopes in
  In x (a_grant r) \/ In x (a_code r) \/ In x (a_access r) \/ In x (a_idtoken r) ->
  In x requested /\ In x allowed /\ (forall p, permitted = Some p -> In x p).
Proof.
  cbn. intros H. assert (Hx : In x (List.filter (fun y => str_in y allowed) (authz_effective requested permitted)))
    by (destruct H as [H|[H|[H|H]]]; exact H).
  apply filter_In in Hx as [H1 H2]. apply str_in_In in H2. apply effective_in in H1 as [H1 H3]. auto.
Qed.
(* THE RESOURCE PARAMETER NEVER ADDS A SCOPE TO A TOKEN: a scope that only the named resources' registrations list
   (not the request) is in no artefact's scope *)
Theorem authz_resource_scopes_never_reach_tokens requested allowed permitted rscopes x :
  let r := authz_decide requested allowed permitted rscopes in
  In x rscopes -> ~ In x requested ->
  ~ In x (a_grant r) /\ ~ In x (a_code r) /\ ~ In x (a_access r) /\ ~ In x (a_idtoken r).
Proof.
  intros r _ Hn.
  assert (K : In x (a_grant r) \/ In x (a_code r) \/ In x (a_access r) \/ In x (a_idtoken r) -> False).
  { intros H. apply Hn. now apply (authz_artefacts_within_request requested allowed permitted rscopes x) in H as [H _]. }
  repeat split; intros H; apply K; auto.
Qed.
(* the response's statement: allowed for the client, and asked for OR listed by a named resource's registration *)
Theorem authz_response_within requested allowed permitted rscopes x :
  In x (a_response (authz_decide requested allowed permitted rscopes)) -> In x allowed /\ (In x requested \/ In x rscopes).
Proof.
  cbn. intros H. apply filter_In in H as [H1 H2]. apply str_in_In in H2. split; auto.
  apply dedup_in in H1. apply in_app_or in H1 as [H1|H1]; auto. left. now apply effective_in in H1 as [H1 _].
Qed.
(* without a resource parameter the statement is the artefacts' scope (as a set) *)
Lemma dedup_in_rev x l : In x l -> In x (dedup l).
Proof.
  induction l as [|y r IH]; cbn; auto. intros [->|H].
  - destruct (str_in x r) eqn:E; [apply IH; now apply str_in_In|now left].
  - destruct (str_in y r); [auto|right; auto].
Qed.
Theorem authz_response_is_token_scope_without_resource requested allowed permitted x :
  let r := authz_decide requested allowed permitted [] in
  In x (a_response r) <-> In x (a_access r).
Proof.
  cbn. rewrite app_nil_r. split; intros H; apply filter_In in H as [H1 H2]; apply filter_In; split; auto.
  - now apply dedup_in.
  - now apply dedup_in_rev.
Qed.

(* RECORDED FINDING authz-response-states-resource-scope, as a witness: the request asks for `profile` and names a
   resource whose registration lists `email`; the client is allowed both.  The response states email, no artefact has it. *)
Definition ex_req := [PS "profile"].
Definition ex_allowed := [PS "openid"; PS "profile"; PS "email"; PS "offline_access"].
Definition ex_rscopes := [PS "email"; PS "phone"].
Example authz_response_states_resource_scope_refuted :
  let r := authz_decide ex_req ex_allowed None ex_rscopes in
  a_response r = [PS "profile"; PS "email"] /\ a_access r = [PS "profile"] /\ a_code r = [PS "profile"] /\
  set_eqb (a_response r) (a_access r) = false.
Proof. vm_compute. auto. Qed.
(* RECORDED FINDING token-response-scope-under-resource-policy, as witnesses: the grant holds `profile`; a token request
   without scope parameter is answered with an empty scope statement, one with scope=[email] with the statement [email];
   the token carries the grant's scope either way. *)
Example token_response_scope_under_resource_policy_refuted :
  token_ri_statement [] ex_allowed = [] /\ token_ri_statement [PS "email"] ex_allowed = [PS "email"] /\
  token_ri_token [PS "profile"] = [PS "profile"] /\
  set_eqb (token_ri_statement [PS "email"] ex_allowed) (token_ri_token [PS "profile"]) = false.
Proof. vm_compute. auto. Qed.
(* what the statement can be at most: scopes of the token request that a named resource (or the client) permits *)
Theorem token_ri_statement_within treq permitted x :
  In x (token_ri_statement treq permitted) -> In x treq /\ In x permitted.
Proof. unfold token_ri_statement. intros H. apply dedup_in in H. apply filter_In in H as [H1 H2]. apply str_in_In in H2. auto. Qed.
