(* Proofs/ScopeFlows_proofs.v — exchange and client-credentials never widen scope. *)
From Coq Require Import String List Bool.
From Verif Require Import Lib.Base Lib.PyStr Model.ScopeFlows.
Import ListNotations.
Open Scope string_scope.

Lemma dedup_in x l : In x (dedup l) -> In x l.
Proof.
  induction l as [|y r IH]; cbn; auto. destruct (str_in y r); cbn; intros H; auto. destruct H; auto.
Qed.

(* whatever a token exchange grants was in the subject token's scope, is allowed for the requesting client, and —
   when the request named scopes — was asked for *)
Theorem exchange_never_widens subj req allowed wr sc x :
  exchange_scope subj req allowed wr = XOk sc -> In x sc ->
  In x subj /\ In x allowed /\ (forall r, req = Some r -> In x r).
Proof.
  unfold exchange_scope. destruct (wr && negb (str_in offline subj)); [discriminate|].
  set (base := match req with Some r => r | None => subj end).
  set (filtered := List.filter (fun y => str_in y allowed) (dedup (List.filter (fun y => str_in y subj) base))).
  destruct filtered as [|f0 fr] eqn:E; [discriminate|].
  destruct (wr && negb (str_in offline (f0 :: fr))); [discriminate|].
  intros H Hx. inversion H; subst sc. rewrite <- E in Hx. unfold filtered in Hx.
  apply filter_In in Hx as [Hx Ha]. apply dedup_in in Hx. apply filter_In in Hx as [Hb Hs].
  apply str_in_In in Ha, Hs. repeat split; auto. intros r ->. exact Hb.
Qed.
(* a refresh token is only obtained by exchange when the subject token carried offline_access and it survives the filter *)
Theorem exchange_refresh_needs_offline subj req allowed sc :
  exchange_scope subj req allowed true = XOk sc -> In offline subj /\ In offline sc.
Proof.
  unfold exchange_scope. cbn [andb]. destruct (str_in offline subj) eqn:Es; cbn [negb]; [|discriminate].
  match goal with |- context [match ?f with [] => _ | _ => _ end] => destruct f as [|f0 fr] eqn:E end; [discriminate|].
  destruct (str_in offline (f0 :: fr)) eqn:Eo; cbn [negb]; [|discriminate].
  intros H; inversion H; subst. split; now apply str_in_In.
Qed.
Theorem client_credentials_within_configured allowed x :
  In x (client_credentials_scope allowed) -> exists a, allowed = Some a /\ In x a.
Proof. destruct allowed as [a|]; cbn; [eauto|intros []]. Qed.
