(* Proofs/Session_gone.v — session_params.remove_inactive_token (the flag c_remove_inactive of Model/Session.v): what the
   sweeps of Grant.revoke_token and its depth-first walk leave alone.  Shared by the C02 / C03 / C05 proofs. *)
From Coq Require Import Lia ZArith List Bool.
From Verif Require Import Lib.Base Lib.PyStr Model.Session Proofs.Session_proofs.
Import ListNotations.
Open Scope Z_scope.
(* ------------------------------------------------------------------ remove_inactive_token: what the sweeps and the walk leave alone *)
Lemma grants_sweep_p c p s : grants (sweep_p c p s) = grants s.
Proof. unfold sweep_p. destruct (c_remove_inactive c); reflexivity. Qed.
Lemma grants_sweep c gi s : grants (sweep c gi s) = grants s.
Proof. apply grants_sweep_p. Qed.
Lemma grants_cascade c gi v s : grants (cascade c gi v s) = grants s.
Proof. unfold cascade. destruct (c_remove_inactive c); reflexivity. Qed.
Lemma parsed_sweep_p c p s : parsed (sweep_p c p s) = parsed s.
Proof. unfold sweep_p. destruct (c_remove_inactive c); reflexivity. Qed.
Lemma parsed_cascade c gi v s : parsed (cascade c gi v s) = parsed s.
Proof. unfold cascade. destruct (c_remove_inactive c); reflexivity. Qed.
Lemma now_sweep_p c p s : now (sweep_p c p s) = now s.
Proof. unfold sweep_p. destruct (c_remove_inactive c); reflexivity. Qed.
Lemma now_cascade c gi v s : now (cascade c gi v s) = now s.
Proof. unfold cascade. destruct (c_remove_inactive c); reflexivity. Qed.

(* a change of the token list that only sets `revoked` / `gone`: every other field of every token stays *)
Definition tok_same (t t' : token) : Prop :=
  t_grant t' = t_grant t /\ t_cls t' = t_cls t /\ t_based t' = t_based t /\ t_max t' = t_max t /\
  t_mints t' = t_mints t /\ t_exp t' = t_exp t /\ t_scope t' = t_scope t /\ t_used t' = t_used t /\
  (t_revoked t = true -> t_revoked t' = true) /\ (t_gone t = true -> t_gone t' = true).
Lemma tok_same_refl t : tok_same t t.
Proof. unfold tok_same; repeat split; auto. Qed.
Lemma tok_same_trans a b c : tok_same a b -> tok_same b c -> tok_same a c.
Proof. unfold tok_same; intros (A1&A2&A3&A4&A5&A6&A7&A8&A9&A10) (B1&B2&B3&B4&B5&B6&B7&B8&B9&B10); repeat split; try congruence; auto. Qed.
Lemma tok_same_revoke t : tok_same t (revoke_t t).
Proof. unfold tok_same, revoke_t; cbn; repeat split; auto. Qed.
Lemma tok_same_gone t : tok_same t (gone_t t).
Proof. unfold tok_same, gone_t; cbn; repeat split; auto. Qed.
Definition toks_same (a b : list token) : Prop := Forall2 tok_same a b.
Lemma toks_same_refl a : toks_same a a.
Proof. induction a; constructor; auto using tok_same_refl. Qed.
Lemma toks_same_trans a : forall b c, toks_same a b -> toks_same b c -> toks_same a c.
Proof.
  induction a as [|x r IH]; intros b c H1 H2; inversion H1; subst; inversion H2; subst; constructor; [eapply tok_same_trans; eauto|eapply IH; eauto].
Qed.
Lemma toks_same_map (f : token -> token) a : (forall t, tok_same t (f t)) -> toks_same a (List.map f a).
Proof. intros Hf. induction a; cbn; constructor; auto. Qed.
Lemma toks_same_upd (f : token -> token) id : (forall t, tok_same t (f t)) -> forall a, toks_same a (upd_nth id f a).
Proof.
  intros Hf. induction id as [|i IH]; intros [|x r]; cbn; try apply toks_same_refl.
  - constructor; [apply Hf|apply toks_same_refl].
  - constructor; [apply tok_same_refl|apply IH].
Qed.
Lemma toks_same_fold (f : list token -> nat -> list token) l :
  (forall ts id, toks_same ts (f ts id)) -> forall ts, toks_same ts (fold_left f l ts).
Proof.
  intros Hf. induction l as [|x r IH]; intros ts; cbn [fold_left]; [apply toks_same_refl|].
  eapply toks_same_trans; [apply Hf|apply IH].
Qed.
Lemma sweep_toks_same gi a : toks_same a (sweep_toks gi a).
Proof. apply toks_same_map. intros t. destruct (Nat.eqb (t_grant t) gi && t_revoked t); auto using tok_same_refl, tok_same_gone. Qed.
Lemma walk_same fuel : forall gi v ts, toks_same ts (walk fuel gi v ts).
Proof.
  induction fuel as [|f IH]; intros gi v ts; cbn [walk]; [apply toks_same_refl|].
  eapply toks_same_trans; [|apply sweep_toks_same]. apply toks_same_fold. intros ts' id.
  destruct (nth_error ts' id) as [t|]; [|apply toks_same_refl].
  destruct (based_is t v); [|apply toks_same_refl].
  eapply toks_same_trans; [apply toks_same_upd; apply tok_same_revoke|apply IH].
Qed.
Lemma toks_same_nth a b k t : toks_same a b -> nth_error a k = Some t -> exists t', nth_error b k = Some t' /\ tok_same t t'.
Proof. intros H. revert k. induction H as [|x y r r' Hxy Hr IH]; intros [|k] E; cbn in *; try discriminate; eauto. inversion E; subst; eauto. Qed.
Lemma toks_same_nth_rev a b k t' : toks_same a b -> nth_error b k = Some t' -> exists t, nth_error a k = Some t /\ tok_same t t'.
Proof. intros H. revert k. induction H as [|x y r r' Hxy Hr IH]; intros [|k] E; cbn in *; try discriminate; eauto. inversion E; subst; eauto. Qed.
(* every token predicate that setting `revoked` / `gone` cannot break survives such a change *)
Lemma toks_same_Forall (P : token -> Prop) a b :
  (forall t t', tok_same t t' -> P t -> P t') -> toks_same a b -> Forall P a -> Forall P b.
Proof. intros HP H. induction H; intros F; inversion F; subst; constructor; eauto. Qed.
Lemma sweep_p_same c p s : toks_same (toks s) (toks (sweep_p c p s)).
Proof.
  unfold sweep_p. destruct (c_remove_inactive c); [|apply toks_same_refl]. cbn.
  apply toks_same_map. intros t. destruct (p (t_grant t) && t_revoked t); auto using tok_same_refl, tok_same_gone.
Qed.
Lemma walk_derived_same gi v s : toks_same (toks s) (toks (walk_derived gi v s)).
Proof. apply walk_same. Qed.
Lemma revoke_derived_same gi v s : toks_same (toks s) (toks (revoke_derived gi v s)).
Proof. unfold revoke_derived, map_toks; cbn. apply toks_same_map. intros t. destruct (_ && _); auto using tok_same_refl, tok_same_revoke. Qed.
Lemma cascade_same c gi v s : toks_same (toks s) (toks (cascade c gi v s)).
Proof. unfold cascade. destruct (c_remove_inactive c); [apply walk_derived_same|apply revoke_derived_same]. Qed.

(* ------------------------------------------------------------------ what the walk certainly reaches: the listed children of v *)
Definition rev_at (k : nat) (ts : list token) : Prop := exists t, nth_error ts k = Some t /\ t_revoked t = true.
Lemma rev_at_same k a b : toks_same a b -> rev_at k a -> rev_at k b.
Proof. intros H (t&Ht&Hr). destruct (toks_same_nth _ _ _ _ H Ht) as (t'&Ht'&L). exists t'. split; auto. now apply L. Qed.

Lemma listed_from_in gi ts : forall i k t, nth_error ts k = Some t -> t_grant t = gi -> t_gone t = false -> In (i + k)%nat (listed_from i gi ts).
Proof.
  induction ts as [|x r IH]; intros i [|k] t H Hg Hn; cbn in H; try discriminate.
  - inversion H; subst x. cbn [listed_from]. rewrite Hg, Nat.eqb_refl, Hn. cbn. left. lia.
  - cbn [listed_from]. replace (i + S k)%nat with (S i + k)%nat by lia.
    destruct (Nat.eqb (t_grant x) gi && negb (t_gone x)); [right|]; eapply IH; eauto.
Qed.
Lemma listed_ids_in gi ts k t : nth_error ts k = Some t -> t_grant t = gi -> t_gone t = false -> In k (listed_ids gi ts).
Proof. intros. unfold listed_ids. change k with (0 + k)%nat. eapply listed_from_in; eauto. Qed.

Lemma fold_visit (F : list token -> nat -> list token) k ts0 :
  (forall ts id, toks_same ts (F ts id)) ->
  (forall ts, toks_same ts0 ts -> rev_at k (F ts k)) ->
  forall l, In k l -> forall ts, toks_same ts0 ts -> rev_at k (fold_left F l ts).
Proof.
  intros Hs Hk. induction l as [|x r IH]; intros Hin ts Hts; [contradiction|]. cbn [fold_left].
  destruct (Nat.eq_dec x k) as [->|N].
  - eapply rev_at_same; [apply toks_same_fold; exact Hs|]. now apply Hk.
  - destruct Hin as [E|Hin]; [contradiction|]. apply IH; auto. eapply toks_same_trans; [exact Hts|apply Hs].
Qed.

Lemma walk_children fuel gi v ts k tk :
  nth_error ts k = Some tk -> t_grant tk = gi -> t_gone tk = false -> t_based tk = Some v ->
  rev_at k (walk (S fuel) gi v ts).
Proof.
  intros Hk Hg Hn Hb. cbn [walk]. eapply rev_at_same; [apply sweep_toks_same|].
  set (F := fun ts' id => match nth_error ts' id with
                          | Some t => if based_is t v then walk fuel gi id (upd_nth id revoke_t ts') else ts'
                          | None => ts' end).
  apply (fold_visit F k ts).
  - intros ts' id. unfold F. destruct (nth_error ts' id) as [t|]; [|apply toks_same_refl].
    destruct (based_is t v); [|apply toks_same_refl].
    eapply toks_same_trans; [apply toks_same_upd; apply tok_same_revoke|apply walk_same].
  - intros ts' Hs. destruct (toks_same_nth _ _ _ _ Hs Hk) as (t'&Ht'&L). unfold F. rewrite Ht'.
    assert (Hb' : based_is t' v = true).
    { unfold based_is. destruct L as (_&_&L3&_). rewrite L3, Hb. apply Nat.eqb_refl. }
    rewrite Hb'. eapply rev_at_same; [apply walk_same|]. exists (revoke_t t'). split; [|reflexivity].
    rewrite nth_upd_same, Ht'. reflexivity.
  - eapply listed_ids_in; eauto.
  - apply toks_same_refl.
Qed.

(* ------------------------------------------------------------------ token predicates that every operation keeps *)
(* A predicate on tokens that survives a change of `used`, a revocation, leaving the grant's list once revoked (under a
   configuration with remove_inactive_token), and that every freshly minted token has, holds for every token of every
   state reached by any operation. *)
Section StepForall.
  Variable P : token -> Prop.
  Variable c : cfg.
  Hypothesis P_used : forall t d, P t -> P (add_used d t).
  Hypothesis P_rev : forall t, P t -> P (revoke_t t).
  Hypothesis P_gone : forall t, P t -> c_remove_inactive c = true -> t_revoked t = true -> P (gone_t t).
  Hypothesis P_new : forall t, t_gone t = false -> t_revoked t = false -> P t.

  Definition allP (s : st) : Prop := Forall P (toks s).

  Lemma Forall_upd_nth (f : token -> token) l i : Forall P l -> (forall x, P x -> P (f x)) -> Forall P (upd_nth i f l).
  Proof. intros H Hf. revert i. induction H as [|x r Hx Hr IH]; intros [|i]; cbn; auto. Qed.
  Lemma Forall_map_tok (f : token -> token) l : Forall P l -> (forall x, P x -> P (f x)) -> Forall P (List.map f l).
  Proof. intros H Hf. induction H; cbn; auto. Qed.

  Lemma allP_upd_used id d s : allP s -> allP (upd_tok id (add_used d) s).
  Proof. intros H. unfold allP, upd_tok; cbn. apply Forall_upd_nth; auto. Qed.
  Lemma allP_upd_revoke id s : allP s -> allP (upd_tok id revoke_t s).
  Proof. intros H. unfold allP, upd_tok; cbn. apply Forall_upd_nth; auto. Qed.
  Lemma allP_map_revoke (p : token -> bool) s : allP s -> allP (map_toks (fun t => if p t then revoke_t t else t) s).
  Proof. intros H. unfold allP, map_toks; cbn. apply Forall_map_tok; auto. intros x Hx. destruct (p x); auto. Qed.
  Lemma allP_same_toks s s' : toks s' = toks s -> allP s -> allP s'.
  Proof. unfold allP. now intros ->. Qed.
  Lemma allP_sweep_p p s : allP s -> allP (sweep_p c p s).
  Proof.
    intros H. unfold sweep_p. case_eq (c_remove_inactive c); intros E; [|exact H]. unfold allP, map_toks; cbn.
    apply Forall_map_tok; auto. intros x Hx. destruct (p (t_grant x)); cbn [andb]; auto. destruct (t_revoked x) eqn:Er; auto.
  Qed.
  Lemma allP_fold (F : list token -> nat -> list token) l :
    (forall ts id, Forall P ts -> Forall P (F ts id)) -> forall ts, Forall P ts -> Forall P (fold_left F l ts).
  Proof. intros HF. induction l as [|x r IH]; intros ts H; cbn [fold_left]; auto. Qed.
  Lemma allP_walk fuel : c_remove_inactive c = true -> forall gi v ts, Forall P ts -> Forall P (walk fuel gi v ts).
  Proof.
    intros E. induction fuel as [|f IH]; intros gi v ts H; cbn [walk]; auto.
    unfold sweep_toks. apply Forall_map_tok.
    - apply allP_fold; auto. intros ts' id H'. destruct (nth_error ts' id) as [t|]; auto.
      destruct (based_is t v); auto. apply IH. apply Forall_upd_nth; auto.
    - intros x Hx. destruct (Nat.eqb (t_grant x) gi); cbn [andb]; auto. destruct (t_revoked x) eqn:Er; auto.
  Qed.
  Lemma allP_cascade gi v s : allP s -> allP (cascade c gi v s).
  Proof.
    intros H. unfold cascade. case_eq (c_remove_inactive c); intros E.
    - unfold allP, walk_derived; cbn [toks]. now apply allP_walk.
    - unfold revoke_derived. now apply allP_map_revoke.
  Qed.
  Lemma allP_mint s gi cls based sc mx mints e s' id : mint s gi cls based sc mx mints e = Ok (s', id) -> allP s -> allP s'.
  Proof.
    intros Hm H. unfold mint in Hm. destruct (nth_error (grants s) gi) as [g|]; [|discriminate].
    destruct (grant_active (now s) g); cbn [negb] in Hm; [|discriminate].
    match type of Hm with context [bind ?x _] => destruct x as [[]| |]; cbn [bind] in Hm; try discriminate end.
    inversion Hm; subst; clear Hm. unfold allP; cbn [toks]. apply Forall_app. split.
    - destruct based as [b|]; [|exact H]. apply Forall_upd_nth; auto.
    - constructor; [|constructor]. apply P_new; reflexivity.
  Qed.
  Lemma allP_mint_if b s gi cls mx mints e s' o : mint_if b s gi cls mx mints e = Ok (s', o) -> allP s -> allP s'.
  Proof. intros H Hs. apply mint_if_ok in H as [(_&->&_)|(id&_&_&Hm)]; [exact Hs|eapply allP_mint; eauto]. Qed.

  Ltac allP_chain :=
    lazymatch goal with
    | H : allP ?s |- allP ?s => exact H
    | |- allP (upd_tok _ (add_used _) _) => apply allP_upd_used; allP_chain
    | |- allP (upd_tok _ revoke_t _) => apply allP_upd_revoke; allP_chain
    | |- allP ?x =>
        match goal with
        | H : mint ?y _ _ _ _ _ _ _ = Ok (x, _) |- _ => eapply (allP_mint _ _ _ _ _ _ _ _ _ _ H); allP_chain
        end
    end.

  Lemma allP_code_process s cl code redir kw : allP s -> allP (fst (do_code_process c s cl code redir kw)).
  Proof. intros H0. unfold do_code_process. cbv zeta. repeat dm; subst; cbn [fst]; allP_chain. Qed.
  Lemma allP_refresh_process s cl tok rsc kw : allP s -> allP (fst (do_refresh_process c s cl tok rsc kw)).
  Proof. intros H0. unfold do_refresh_process. cbv zeta. repeat dm; subst; cbn [fst]; allP_chain. Qed.

  Lemma allP_authorize_at s u cl sc rd v : allP s -> allP (fst (do_authorize_at c s u cl sc rd v)).
  Proof.
    intros H. unfold do_authorize_at.
    match goal with |- context [mint ?a ?b ?c0 ?d ?e ?f ?g ?h] => destruct (mint a b c0 d e f g h) as [[s2 id]| |] eqn:Hm end; cbn [fst];
      try exact H. eapply allP_mint; [exact Hm|]. exact H.
  Qed.
  Lemma allP_authorize_cookie s prev u cl sc rd fresh : allP s -> allP (fst (do_authorize_cookie c s prev u cl sc rd fresh)).
  Proof.
    intros H. unfold do_authorize_cookie. destruct (nth_error (grants s) prev) as [g|]; [|now apply allP_authorize_at].
    destruct (g_removed g || negb (str_eqb (g_client g) cl)); [now apply allP_authorize_at|].
    destruct (negb (grant_active (now s) g)); [exact H|].
    destruct (negb (now s <? g_valid_until g)); [exact H|].
    destruct (same_request g sc rd fresh); [|now apply allP_authorize_at].
    match goal with |- context [mint ?a ?b ?c0 ?d ?e ?f ?g ?h] => destruct (mint a b c0 d e f g h) as [[s2 id]| |] eqn:Hm end; cbn [fst];
      try exact H. eapply allP_mint; [exact Hm|]. exact H.
  Qed.
  Lemma allP_authorize_rt s u cl sc wc wt wi : allP s -> allP (fst (do_authorize_rt c s u cl sc wc wt wi)).
  Proof.
    intros H. unfold do_authorize_rt. cbv zeta.
    match goal with |- context [mint_if ?b (mkSt ?n ?g ?t ?p) ?gi ?cls ?mx ?mi ?e] =>
      assert (H1 : allP (mkSt n g t p)) by exact H end.
    repeat match goal with
           | |- context [mint_if ?b ?s0 ?gi ?cls ?mx ?mi ?e] =>
               let Hm := fresh "Hm" in destruct (mint_if b s0 gi cls mx mi e) as [[? ?]| |] eqn:Hm;
                 [eapply allP_mint_if in Hm; [|eassumption]|..]
           end; cbn [fst]; assumption.
  Qed.

  Theorem step_allP s o : allP s -> allP (fst (step c s o)).
  Proof.
    intros H. destruct o; cbn [step].
    - now apply allP_authorize_at.
    - unfold do_token_parse. repeat dm; cbn [fst]; try exact H.
      eapply allP_same_toks; [|apply allP_cascade; exact H]. reflexivity.
    - unfold do_refresh_parse. repeat dm; cbn [fst]; exact H.
    - unfold do_process. repeat dm; cbn [fst]; try exact H; [now apply allP_code_process|now apply allP_refresh_process].
    - unfold do_userinfo. repeat dm; cbn [fst]; exact H.
    - unfold do_introspect. repeat dm; cbn [fst]; exact H.
    - unfold do_revoke_ep. repeat dm; cbn [fst]; try exact H; now apply allP_upd_revoke.
    - assert (Hold : forall id0 rec0, allP (fst (do_api_revoke s id0 rec0))).
      { intros id0 rec0. unfold do_api_revoke. repeat dm; cbn [fst]; try exact H.
        + unfold revoke_derived. apply allP_map_revoke. now apply allP_upd_revoke.
        + now apply allP_upd_revoke. }
      unfold do_api_revoke_c. destruct (find_tok tok s) as [[g t]|]; [|apply Hold].
      destruct (negb (g_removed g) && t_gone t); cbn [fst]; [exact H|].
      destruct (negb (g_removed g) && recursive && c_remove_inactive c) eqn:E; [|apply Hold].
      apply andb_true_iff in E as [_ E]. cbn [fst].
      apply allP_sweep_p. unfold allP, walk_derived; cbn [toks]. apply allP_walk; [exact E|]. now apply allP_upd_revoke.
    - destruct (nth_error (grants s) gi) as [g|]; cbn [fst]; [|exact H]. destruct (g_removed g); cbn [fst]; [exact H|].
      apply allP_sweep_p. unfold revoke_grant_at. apply (allP_map_revoke (fun t => Nat.eqb (t_grant t) gi)). exact H.
    - destruct (nth_error (grants s) gi) as [g|]; cbn [fst]; [|exact H].
      destruct (existsb (live_branch g) (grants s)); cbn [fst]; [|exact H].
      apply allP_sweep_p. unfold allP, revoke_branch; cbn [toks]. apply Forall_map_tok; [exact H|].
      intros x Hx. destruct (in_branch g s (t_grant x)); auto.
    - destruct (nth_error (grants s) gi); cbn [fst]; exact H.
    - destruct (nth_error (grants s) gi) as [g|]; cbn [fst]; [|exact H].
      destruct (existsb (live_user g) (grants s)); cbn [fst]; [|exact H].
      apply allP_sweep_p. unfold allP, revoke_user; cbn [toks]. apply Forall_map_tok; [exact H|].
      intros x Hx. destruct (in_user g s (t_grant x)); auto.
    - exact H.
    - now apply allP_authorize_cookie.
    - now apply allP_authorize_rt.
  Qed.
  Theorem run_allP ops : forall s, allP s -> allP (fst (run c s ops)).
  Proof.
    induction ops as [|o r IH]; intros s H; cbn [run]; auto.
    pose proof (step_allP s o H) as H1. destruct (step c s o) as [s1 x]. cbn [fst] in H1.
    specialize (IH s1 H1). destruct (run c s1 r) as [s2 xs]. exact IH.
  Qed.
End StepForall.

(* In every reachable state: a token that left its grant's list is revoked, and the provider runs with
   remove_inactive_token (with the default configuration no token ever leaves a list). *)
Definition gone_ok (c : cfg) (t : token) : Prop := t_gone t = true -> c_remove_inactive c = true /\ t_revoked t = true.
Theorem reach_gone_ok c ops : Forall (gone_ok c) (toks (fst (run c init ops))).
Proof.
  apply (run_allP (gone_ok c) c); unfold gone_ok.
  - intros t d H. exact H.
  - intros t H Hg. cbn in *. destruct (H Hg). auto.
  - intros t H E Hr _. cbn. auto.
  - intros t Hg _ Hg'. congruence.
  - constructor.
Qed.
Corollary reach_gone_revoked c ops k t : tget k (fst (run c init ops)) = Some t -> t_gone t = true -> t_revoked t = true.
Proof.
  intros H Hg. pose proof (reach_gone_ok c ops) as F. rewrite Forall_forall in F.
  apply (F t (nth_error_In _ _ H)). exact Hg.
Qed.
Corollary reach_default_listed c ops k t : c_remove_inactive c = false -> tget k (fst (run c init ops)) = Some t -> t_gone t = false.
Proof.
  intros E H. pose proof (reach_gone_ok c ops) as F. rewrite Forall_forall in F.
  destruct (t_gone t) eqn:Eg; auto. destruct (F t (nth_error_In _ _ H) Eg) as [E' _]. congruence.
Qed.

(* ------------------------------------------------------------------ a code that left its grant's list is not exchanged *)
Lemma find_in_listed gi id ts t : find_in gi id ts = Some t -> t_gone t = false.
Proof.
  unfold find_in. destruct (nth_error ts id) as [t0|]; [|discriminate].
  destruct (Nat.eqb (t_grant t0) gi); cbn [andb]; [|discriminate]. destruct (t_gone t0) eqn:E; cbn [negb]; [discriminate|].
  intros H; inversion H; subst. exact E.
Qed.
Lemma code_process_success_listed c s cl code redir kw s' a r i sc :
  do_code_process c s cl code redir kw = (s', OTokens a r i sc) ->
  exists g t, find_tok code s = Some (g, t) /\ t_gone t = false.
Proof.
  unfold do_code_process. destruct (find_tok code s) as [[g t]|] eqn:Hf; [|discriminate].
  destruct (t_gone t) eqn:Eg; [|eauto].
  destruct (g_removed g); [discriminate|]. destruct (negb (str_eqb (g_client g) cl)); discriminate.
Qed.

(* ------------------------------------------------------------------ the sweep, token by token *)
Lemma sweep_p_other c p s k t : tget k s = Some t -> p (t_grant t) = false -> tget k (sweep_p c p s) = Some t.
Proof.
  intros H N. unfold sweep_p. destruct (c_remove_inactive c); [|exact H].
  unfold tget, map_toks in *; cbn. rewrite nth_error_map, H; cbn. now rewrite N.
Qed.
Lemma sweep_p_tget c p s k t : tget k s = Some t -> exists t', tget k (sweep_p c p s) = Some t' /\ tok_same t t'.
Proof. intros H. unfold tget in *. eapply toks_same_nth; [apply sweep_p_same|exact H]. Qed.
