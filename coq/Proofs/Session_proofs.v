(* Proofs/Session_proofs.v — invariants of the session model (Model/Session.v). *)
From Coq Require Import Lia ZArith List Bool.
From Verif Require Import Lib.Base Lib.PyStr Model.Session.
Import ListNotations.
Open Scope Z_scope.

(* ------------------------------------------------------------------ lists *)
Lemma nth_upd_same {A} (f : A -> A) l i : nth_error (upd_nth i f l) i = option_map f (nth_error l i).
Proof. revert i; induction l as [|x r IH]; intros [|i]; cbn; auto. Qed.
Lemma nth_upd_other {A} (f : A -> A) l i j : i <> j -> nth_error (upd_nth i f l) j = nth_error l j.
Proof. revert i j; induction l as [|x r IH]; intros [|i] [|j] H; cbn; auto; try congruence. Qed.
Lemma len_upd {A} (f : A -> A) l i : length (upd_nth i f l) = length l.
Proof. revert i; induction l as [|x r IH]; intros [|i]; cbn; auto. Qed.
Lemma nth_app_old {A} (l : list A) x j y : nth_error l j = Some y -> nth_error (l ++ [x]) j = Some y.
Proof. intros H. rewrite nth_error_app1; auto. apply nth_error_Some. congruence. Qed.

(* ------------------------------------------------------------------ token order *)
Definition tget (c : nat) (s : st) : option token := nth_error (toks s) c.

(* t' is t later in a history: nothing but `used` (which does not drop) and `revoked` (which is never cleared) differs *)
Definition tok_le (t t' : token) : Prop :=
  t_grant t' = t_grant t /\ t_cls t' = t_cls t /\ t_based t' = t_based t /\ t_max t' = t_max t /\
  t_mints t' = t_mints t /\ t_exp t' = t_exp t /\ t_scope t' = t_scope t /\
  t_used t <= t_used t' /\ (t_revoked t = true -> t_revoked t' = true).
Lemma tok_le_refl t : tok_le t t.
Proof. unfold tok_le; repeat split; auto; lia. Qed.
Lemma tok_le_trans a b c : tok_le a b -> tok_le b c -> tok_le a c.
Proof. unfold tok_le; intros (A1&A2&A3&A4&A5&A6&A7&A8&A9) (B1&B2&B3&B4&B5&B6&B7&B8&B9); repeat split; try congruence; auto; lia. Qed.
Lemma tok_le_revoke t : tok_le t (revoke_t t).
Proof. unfold tok_le, revoke_t; cbn; repeat split; auto; lia. Qed.
Lemma tok_le_used t d : 0 <= d -> tok_le t (add_used d t).
Proof. unfold tok_le, add_used; cbn; repeat split; auto; lia. Qed.
(* leaving the grant's list (remove_inactive_token) changes nothing else *)
Lemma tok_le_gone t : tok_le t (gone_t t).
Proof. unfold tok_le, gone_t; cbn; repeat split; auto; lia. Qed.

(* s' extends s: every token of s is still there, at the same position, only "later" *)
Definition ext (s s' : st) : Prop :=
  forall c t, tget c s = Some t -> exists t', tget c s' = Some t' /\ tok_le t t'.
Lemma ext_refl s : ext s s.
Proof. intros c t H; eauto using tok_le_refl. Qed.
Lemma ext_trans a b c : ext a b -> ext b c -> ext a c.
Proof. intros H1 H2 k t H. destruct (H1 _ _ H) as (t1&E1&L1). destruct (H2 _ _ E1) as (t2&E2&L2). eauto using tok_le_trans. Qed.

Lemma ext_map_revoke (p : token -> bool) s : ext s (map_toks (fun t => if p t then revoke_t t else t) s).
Proof.
  intros c t H. unfold tget, map_toks in *; cbn. rewrite nth_error_map, H; cbn.
  destruct (p t); eauto using tok_le_refl, tok_le_revoke.
Qed.
Lemma ext_upd_revoke id s : ext s (upd_tok id revoke_t s).
Proof.
  intros c t H. unfold tget, upd_tok in *; cbn. destruct (Nat.eq_dec id c) as [->|N].
  - rewrite nth_upd_same, H; cbn; eauto using tok_le_revoke.
  - rewrite nth_upd_other by auto. eauto using tok_le_refl.
Qed.
(* a pointwise change of the token list by steps that only move tokens forward *)
Lemma ext_map_le (f : token -> token) s : (forall t, tok_le t (f t)) -> ext s (map_toks f s).
Proof. intros Hf c t H. unfold tget, map_toks in *; cbn. rewrite nth_error_map, H; cbn. eauto. Qed.
Lemma ext_sweep_p c p s : ext s (sweep_p c p s).
Proof.
  unfold sweep_p. destruct (c_remove_inactive c); [|apply ext_refl].
  apply ext_map_le. intros t. destruct (p (t_grant t) && t_revoked t); auto using tok_le_refl, tok_le_gone.
Qed.
Lemma ext_sweep c gi s : ext s (sweep c gi s).
Proof. apply ext_sweep_p. Qed.

(* the token lists of the depth-first walk: same length, every position only moves forward *)
Definition toks_le (a b : list token) : Prop :=
  length a = length b /\ forall k t, nth_error a k = Some t -> exists t', nth_error b k = Some t' /\ tok_le t t'.
Lemma toks_le_refl a : toks_le a a.
Proof. split; auto. intros k t H. eauto using tok_le_refl. Qed.
Lemma toks_le_trans a b c : toks_le a b -> toks_le b c -> toks_le a c.
Proof.
  intros (L1&H1) (L2&H2). split; [congruence|]. intros k t H. destruct (H1 _ _ H) as (t1&E1&Le1).
  destruct (H2 _ _ E1) as (t2&E2&Le2). eauto using tok_le_trans.
Qed.
Lemma toks_le_map (f : token -> token) a : (forall t, tok_le t (f t)) -> toks_le a (List.map f a).
Proof. intros Hf. split; [now rewrite map_length|]. intros k t H. rewrite nth_error_map, H; cbn. eauto. Qed.
Lemma toks_le_upd_revoke id a : toks_le a (upd_nth id revoke_t a).
Proof.
  split; [now rewrite len_upd|]. intros k t H. destruct (Nat.eq_dec id k) as [->|N].
  - rewrite nth_upd_same, H; cbn; eauto using tok_le_revoke.
  - rewrite nth_upd_other by auto. eauto using tok_le_refl.
Qed.
Lemma toks_le_sweep gi a : toks_le a (sweep_toks gi a).
Proof. apply toks_le_map. intros t. destruct (Nat.eqb (t_grant t) gi && t_revoked t); auto using tok_le_refl, tok_le_gone. Qed.
Lemma toks_le_fold (f : list token -> nat -> list token) l :
  (forall ts id, toks_le ts (f ts id)) -> forall ts, toks_le ts (fold_left f l ts).
Proof.
  intros Hf. induction l as [|x r IH]; intros ts; cbn [fold_left]; [apply toks_le_refl|].
  eapply toks_le_trans; [apply Hf|apply IH].
Qed.
Lemma walk_le fuel : forall gi v ts, toks_le ts (walk fuel gi v ts).
Proof.
  induction fuel as [|f IH]; intros gi v ts; cbn [walk]; [apply toks_le_refl|].
  eapply toks_le_trans; [|apply toks_le_sweep]. apply toks_le_fold. intros ts' id.
  destruct (nth_error ts' id) as [t|]; [|apply toks_le_refl].
  destruct (based_is t v); [|apply toks_le_refl].
  eapply toks_le_trans; [apply toks_le_upd_revoke|apply IH].
Qed.
Lemma ext_walk_derived gi v s : ext s (walk_derived gi v s).
Proof. intros k t H. unfold tget, walk_derived in *; cbn. now apply (walk_le (S (length (toks s))) gi v (toks s)). Qed.

Lemma ext_same_toks s s' : toks s' = toks s -> ext s s'.
Proof. intros E c t H. unfold tget in *. rewrite E. eauto using tok_le_refl. Qed.

(* ------------------------------------------------------------------ usage accounting *)
Lemma add_used_0 t : add_used 0 t = t.
Proof. destruct t; unfold add_used; cbn. now rewrite Z.add_0_r. Qed.
Lemma add_used_add a b t : add_used b (add_used a t) = add_used (a + b) t.
Proof. unfold add_used; cbn. now rewrite Z.add_assoc. Qed.

(* token c in s' is token c of s with `used` moved by at least d (and possibly revoked) *)
Definition bump1 (c : nat) (s s' : st) (d : Z) : Prop :=
  forall t, tget c s = Some t -> exists t', tget c s' = Some t' /\ tok_le (add_used d t) t'.
Lemma tok_le_add d a b : tok_le a b -> tok_le (add_used d a) (add_used d b).
Proof. unfold tok_le, add_used; cbn. intros (A1&A2&A3&A4&A5&A6&A7&A8&A9); repeat split; auto; lia. Qed.
Lemma bump1_refl c s : bump1 c s s 0.
Proof. intros t H. exists t. split; auto. rewrite add_used_0. apply tok_le_refl. Qed.
Lemma bump1_trans c s1 s2 s3 d1 d2 : bump1 c s1 s2 d1 -> bump1 c s2 s3 d2 -> bump1 c s1 s3 (d1 + d2).
Proof.
  intros H1 H2 t H. destruct (H1 _ H) as (t1&E1&L1). destruct (H2 _ E1) as (t2&E2&L2). exists t2. split; auto.
  eapply tok_le_trans; [|exact L2]. rewrite <- add_used_add. now apply tok_le_add.
Qed.
Lemma bump1_upd_same c s d : bump1 c s (upd_tok c (add_used d) s) d.
Proof. intros t H. unfold tget, upd_tok in *; cbn. rewrite nth_upd_same, H. cbn. eauto using tok_le_refl. Qed.
Lemma bump1_upd_other c c' f s : c' <> c -> bump1 c s (upd_tok c' f s) 0.
Proof.
  intros N t H. unfold tget, upd_tok in *; cbn. rewrite nth_upd_other by auto. rewrite add_used_0. eauto using tok_le_refl.
Qed.
Lemma bump1_upd_revoke c c' s : bump1 c s (upd_tok c' revoke_t s) 0.
Proof.
  intros t H. rewrite add_used_0. destruct (ext_upd_revoke c' s c t H) as (t'&E&L). eauto.
Qed.
Lemma bump1_ext c s s' d t : bump1 c s s' d -> 0 <= d -> tget c s = Some t -> exists t', tget c s' = Some t' /\ tok_le t t'.
Proof.
  intros B D H. destruct (B _ H) as (t'&E&L). exists t'. split; auto.
  eapply tok_le_trans; [|exact L]. now apply tok_le_used.
Qed.

(* what a successful mint does *)
Lemma mint_ok s gi cls based sc mx mints e s' id :
  mint s gi cls based sc mx mints e = Ok (s', id) ->
  id = length (toks s) /\ now s' = now s /\ grants s' = grants s /\ parsed s' = parsed s /\
  (exists tn, toks s' = (match based with Some b => upd_nth b (add_used 1) (toks s) | None => toks s end) ++ [tn]
              /\ t_grant tn = gi /\ t_cls tn = cls /\ t_based tn = based /\ t_used tn = 0 /\ t_revoked tn = false) /\
  (exists g, nth_error (grants s) gi = Some g /\ grant_active (now s) g = true) /\
  (forall b, based = Some b -> exists bt, find_in gi b (toks s) = Some bt /\ supports_minting bt cls = true
                                          /\ tok_active (now s) bt = true).
Proof.
  unfold mint. destruct (nth_error (grants s) gi) as [g|] eqn:Eg; [|discriminate].
  destruct (grant_active (now s) g) eqn:Ea; cbn [negb]; [|discriminate].
  destruct based as [b|].
  - destruct (find_in gi b (toks s)) as [bt|] eqn:Eb; cbn [bind]; [|discriminate].
    destruct (supports_minting bt cls) eqn:Es; cbn [negb bind]; [|discriminate].
    destruct (tok_active (now s) bt) eqn:Et; cbn [negb bind]; [|discriminate].
    intros H; inversion H; subst; clear H. cbn. repeat split; eauto;
      try (eexists; repeat split; eauto; fail); try (intros b' E; inversion E; subst; eauto).
  - cbn [bind]. intros H; inversion H; subst; clear H. cbn. repeat split; eauto;
      try (eexists; repeat split; eauto; fail); try (intros b' E; discriminate).
Qed.

Lemma bump1_mint_based s gi cls b sc mx mints e s' id :
  mint s gi cls (Some b) sc mx mints e = Ok (s', id) -> bump1 b s s' 1.
Proof.
  intros H. apply mint_ok in H as (_&_&_&_&(tn&Et&_)&_&_). intros t Ht. unfold tget in *. rewrite Et.
  exists (add_used 1 t). split; [|apply tok_le_refl]. apply nth_app_old. now rewrite nth_upd_same, Ht.
Qed.
Lemma bump1_mint_other c s gi cls based sc mx mints e s' id :
  mint s gi cls based sc mx mints e = Ok (s', id) -> based <> Some c -> bump1 c s s' 0.
Proof.
  intros H N. apply mint_ok in H as (_&_&_&_&(tn&Et&_)&_&_). intros t Ht. unfold tget in *. rewrite Et.
  exists t. rewrite add_used_0. split; [|apply tok_le_refl].
  apply nth_app_old. destruct based as [b|]; auto.
  rewrite nth_upd_other; auto; intros ->; now apply N.
Qed.

(* ------------------------------------------------------------------ the token endpoint helpers *)
(* destruct the innermost scrutinee first *)
Ltac dm :=
  match goal with
  | |- context [match ?x with _ => _ end] =>
      lazymatch x with
      | context [match _ with _ => _ end] => fail
      | _ => destruct x eqn:?
      end
  end.

Ltac bump_chain :=
  lazymatch goal with
  | |- bump1 ?c ?s ?s _ => apply bump1_refl
  | |- bump1 ?c ?s (upd_tok ?c (add_used ?d) ?y) _ => eapply bump1_trans; [| apply bump1_upd_same]; bump_chain
  | |- bump1 ?c ?s (upd_tok ?c' revoke_t ?y) _ => eapply bump1_trans; [| apply bump1_upd_revoke]; bump_chain
  | |- bump1 ?c ?s (upd_tok ?c' _ ?y) _ => eapply bump1_trans; [| apply bump1_upd_other; congruence]; bump_chain
  | |- bump1 ?c ?s ?x _ =>
      match goal with
      | H : mint ?y _ _ (Some c) _ _ _ _ = Ok (x, _) |- _ =>
          eapply bump1_trans; [| eapply bump1_mint_based; exact H]; bump_chain
      | H : mint ?y _ _ _ _ _ _ _ = Ok (x, _) |- _ =>
          eapply bump1_trans; [| eapply bump1_mint_other; [exact H | congruence]]; bump_chain
      end
  end.

Ltac bump_done := cbn [fst]; eexists; split; cycle 1; [bump_chain | lia].

Lemma code_process_bump c s cl code redir kw k :
  exists d, 0 <= d /\ bump1 k s (fst (do_code_process c s cl code redir kw)) d.
Proof.
  unfold do_code_process. cbv zeta.
  destruct (Nat.eq_dec code k) as [<-|N]; repeat dm; subst; bump_done.
Qed.

Lemma refresh_process_bump c s cl tok rsc kw k :
  exists d, 0 <= d /\ bump1 k s (fst (do_refresh_process c s cl tok rsc kw)) d.
Proof.
  unfold do_refresh_process. cbv zeta.
  destruct (Nat.eq_dec tok k) as [<-|N]; repeat dm; subst; bump_done.
Qed.

Lemma bump_all_ext s s' : (forall k, exists d, 0 <= d /\ bump1 k s s' d) -> ext s s'.
Proof. intros H k t Ht. destruct (H k) as (d&D&B). eauto using bump1_ext. Qed.

Lemma process_ext c s idx kw : ext s (fst (do_process c s idx kw)).
Proof.
  unfold do_process. destruct (nth_error (parsed s) idx) as [[e|cl code redir|cl tok sc]|]; cbn [fst]; try apply ext_refl.
  - apply bump_all_ext. intros k. apply code_process_bump.
  - apply bump_all_ext. intros k. apply refresh_process_bump.
Qed.

Lemma find_tok_tget id s g t : find_tok id s = Some (g, t) -> tget id s = Some t /\ nth_error (grants s) (t_grant t) = Some g.
Proof.
  unfold find_tok, tget. destruct (nth_error (toks s) id) as [t0|]; [|discriminate].
  destruct (nth_error (grants s) (t_grant t0)) as [g0|] eqn:E; [|discriminate]. intros H; inversion H; subst. auto.
Qed.
Lemma find_in_tget gi id ts t : find_in gi id ts = Some t -> nth_error ts id = Some t /\ t_grant t = gi.
Proof.
  unfold find_in. destruct (nth_error ts id) as [t0|]; [|discriminate].
  destruct (Nat.eqb (t_grant t0) gi) eqn:E; cbn [andb]; [|discriminate]. destruct (t_gone t0); cbn [negb]; [discriminate|].
  intros H; inversion H; subst. apply Nat.eqb_eq in E. auto.
Qed.

(* a successful code exchange: what was true before, and what is true after *)
Lemma code_process_success c s cl code redir kw s' a r i sc :
  do_code_process c s cl code redir kw = (s', OTokens a r i sc) ->
  exists g t rd,
    find_tok code s = Some (g, t) /\ str_eqb (g_client g) cl = true /\
    redir = Some rd /\ str_eqb rd (g_redirect g) = true /\
    tok_active (now s) t = true /\ supports_minting t Access = true /\ grant_active (now s) g = true /\
    sc = g_scope g /\ a <> None /\
    exists d, 1 <= d /\ bump1 code s s' d.
Proof.
  unfold do_code_process. cbv zeta.
  repeat dm; subst; intros H; inversion H; subst; clear H;
    match goal with
    | Hm : mint ?s (t_grant ?t) Access (Some ?code) _ _ _ _ = Ok _, Hf : find_tok ?code ?s = Some (?g, ?t) |- _ =>
        pose proof Hm as Hm'; apply mint_ok in Hm' as (_&_&_&_&_&(g0&Hg0&Hga)&Hb);
        destruct (Hb _ eq_refl) as (bt&Hbt&Hsup&Hact);
        apply find_in_tget in Hbt as (Hbt&_);
        pose proof (find_tok_tget _ _ _ _ Hf) as (Ht&Hg);
        unfold tget in Ht; rewrite Ht in Hbt; inversion Hbt; subst bt;
        rewrite Hg in Hg0; inversion Hg0; subst g0
    end;
    (do 3 eexists; repeat split; eauto;
     [ apply negb_false_iff; assumption | apply negb_false_iff; assumption | discriminate
     | eexists; split; cycle 1; [bump_chain | lia] ]).
Qed.

(* ------------------------------------------------------------------ every step only moves tokens "forward" *)
Lemma ext_revoke_derived gi v s : ext s (revoke_derived gi v s).
Proof. unfold revoke_derived. apply (ext_map_revoke (fun t => Nat.eqb (t_grant t) gi && derived_from (S (length (toks s))) (toks s) t v)). Qed.
Lemma ext_cascade c gi v s : ext s (cascade c gi v s).
Proof. unfold cascade. destruct (c_remove_inactive c); [apply ext_walk_derived|apply ext_revoke_derived]. Qed.

Lemma mint_ext s gi cls based sc mx mints e s' id : mint s gi cls based sc mx mints e = Ok (s', id) -> ext s s'.
Proof.
  intros H. apply bump_all_ext. intros k. destruct based as [b|].
  - destruct (Nat.eq_dec b k) as [->|N].
    + exists 1. split; [lia|]. eapply bump1_mint_based; eauto.
    + exists 0. split; [lia|]. eapply bump1_mint_other; eauto. congruence.
  - exists 0. split; [lia|]. eapply bump1_mint_other; eauto. discriminate.
Qed.

Lemma authorize_at_ext c s u cl sc rd v : ext s (fst (do_authorize_at c s u cl sc rd v)).
Proof.
  unfold do_authorize_at.
  match goal with |- context [mint ?a ?b ?c0 ?d ?e ?f ?g ?h] => destruct (mint a b c0 d e f g h) as [[s2 id]| |] eqn:Hm end; cbn [fst].
  - eapply ext_trans; [|eapply mint_ext; exact Hm]. now apply ext_same_toks.
  - now apply ext_same_toks.
  - now apply ext_same_toks.
Qed.
(* an authorization request that comes with a session cookie: whichever way it goes, no token moves backwards *)
Lemma authorize_cookie_ext c s prev u cl sc rd fresh : ext s (fst (do_authorize_cookie c s prev u cl sc rd fresh)).
Proof.
  unfold do_authorize_cookie. destruct (nth_error (grants s) prev) as [g|]; [|apply authorize_at_ext].
  destruct (g_removed g || negb (str_eqb (g_client g) cl)); [apply authorize_at_ext|].
  destruct (negb (grant_active (now s) g)); [apply ext_refl|].
  destruct (negb (now s <? g_valid_until g)); [apply ext_refl|].
  destruct (same_request g sc rd fresh); [|apply authorize_at_ext].
  match goal with |- context [mint ?a ?b ?c0 ?d ?e ?f ?g ?h] => destruct (mint a b c0 d e f g h) as [[s2 id]| |] eqn:Hm end; cbn [fst].
  - eapply ext_trans; [|eapply mint_ext; exact Hm]. now apply ext_same_toks.
  - now apply ext_same_toks.
  - now apply ext_same_toks.
Qed.

(* the mints of an implicit / hybrid authorization response *)
Lemma mint_if_ok b s gi cls mx mints e s' o :
  mint_if b s gi cls mx mints e = Ok (s', o) ->
  (b = false /\ s' = s /\ o = None) \/ (exists id, b = true /\ o = Some id /\ mint s gi cls None None mx mints e = Ok (s', id)).
Proof.
  unfold mint_if. destruct b; [|intros H; inversion H; auto].
  destruct (mint s gi cls None None mx mints e) as [[s2 id]| |] eqn:Hm; intros H; inversion H; subst. right. eauto.
Qed.
Lemma mint_if_ext b s gi cls mx mints e s' o : mint_if b s gi cls mx mints e = Ok (s', o) -> ext s s'.
Proof.
  intros H. apply mint_if_ok in H as [(_&->&_)|(id&_&_&Hm)]; [apply ext_refl|eapply mint_ext; eauto].
Qed.
Lemma authorize_rt_ext c s u cl sc wc wt wi : ext s (fst (do_authorize_rt c s u cl sc wc wt wi)).
Proof.
  unfold do_authorize_rt. cbv zeta.
  repeat match goal with
         | |- context [mint_if ?b ?s0 ?gi ?cls ?mx ?mi ?e] =>
             let H := fresh "Hm" in destruct (mint_if b s0 gi cls mx mi e) as [[? ?]| |] eqn:H; [apply mint_if_ext in H|..]
         end; cbn [fst];
    repeat match goal with H : ext ?a ?b |- ext _ ?b => eapply ext_trans; [|exact H]; clear H end;
    now apply ext_same_toks.
Qed.

Lemma step_ext c s o : ext s (fst (step c s o)).
Proof.
  destruct o; cbn [step].
  - (* Authorize *) apply authorize_at_ext.
  - (* TokenParse *) unfold do_token_parse. repeat dm; cbn [fst]; try (now apply ext_same_toks).
    eapply ext_trans; [apply ext_cascade|]. now apply ext_same_toks.
  - (* RefreshParse *) unfold do_refresh_parse. repeat dm; cbn [fst]; now apply ext_same_toks.
  - apply process_ext.
  - unfold do_userinfo. repeat dm; cbn [fst]; apply ext_refl.
  - unfold do_introspect. repeat dm; cbn [fst]; apply ext_refl.
  - unfold do_revoke_ep. repeat dm; cbn [fst]; try apply ext_refl; apply ext_upd_revoke.
  - assert (Hold : forall id rec, ext s (fst (do_api_revoke s id rec))).
    { intros id0 rec0. unfold do_api_revoke. repeat dm; cbn [fst]; try apply ext_refl.
      + eapply ext_trans; [apply ext_upd_revoke|apply ext_revoke_derived].
      + apply ext_upd_revoke. }
    unfold do_api_revoke_c. repeat dm; cbn [fst]; try apply ext_refl; try apply Hold.
    eapply ext_trans; [apply ext_upd_revoke|]. eapply ext_trans; [apply ext_walk_derived|apply ext_sweep].
  - (* RevokeGrant *) destruct (nth_error (grants s) gi) as [g|]; cbn [fst]; [|apply ext_refl].
    destruct (g_removed g); cbn [fst]; [apply ext_refl|]. unfold revoke_grant_at.
    eapply ext_trans; [|apply ext_sweep].
    eapply ext_trans; [|apply (ext_map_revoke (fun t => Nat.eqb (t_grant t) gi))]. now apply ext_same_toks.
  - (* RevokeClient *) destruct (nth_error (grants s) gi) as [g|]; cbn [fst]; [|apply ext_refl].
    destruct (existsb (live_branch g) (grants s)); cbn [fst]; [|apply ext_refl].
    eapply ext_trans; [|apply ext_sweep_p]. unfold revoke_branch.
    intros k t H. unfold tget in *; cbn. rewrite nth_error_map, H; cbn.
    destruct (in_branch g s (t_grant t)); eauto using tok_le_refl, tok_le_revoke.
  - (* RemoveGrant *) destruct (nth_error (grants s) gi); cbn [fst]; [|apply ext_refl]. now apply ext_same_toks.
  - (* RevokeUser *) destruct (nth_error (grants s) gi) as [g|]; cbn [fst]; [|apply ext_refl].
    destruct (existsb (live_user g) (grants s)); cbn [fst]; [|apply ext_refl].
    eapply ext_trans; [|apply ext_sweep_p]. unfold revoke_user.
    intros k t H. unfold tget in *; cbn. rewrite nth_error_map, H; cbn.
    destruct (in_user g s (t_grant t)); eauto using tok_le_refl, tok_le_revoke.
  - now apply ext_same_toks.
  - (* AuthorizeCookie *) apply authorize_cookie_ext.
  - (* AuthorizeRT *) apply authorize_rt_ext.
Qed.

Lemma run_ext c ops : forall s, ext s (fst (run c s ops)).
Proof.
  induction ops as [|o r IH]; intros s; cbn [run]; [apply ext_refl|].
  destruct (step c s o) as [s1 x] eqn:E. specialize (IH s1). destruct (run c s1 r) as [s2 xs]. cbn [fst] in *.
  eapply ext_trans; [|exact IH]. pose proof (step_ext c s o) as H. now rewrite E in H.
Qed.

Definition scope_given (sc : option (list pystr)) : Prop := match sc with Some _ => True | None => False end.

(* the token a successful mint appends *)
Lemma mint_new s gi cls based sc mx mints e s' id :
  mint s gi cls based sc mx mints e = Ok (s', id) ->
  exists tn, tget id s' = Some tn /\ t_grant tn = gi /\ t_cls tn = cls /\ t_based tn = based /\ t_used tn = 0 /\
             t_revoked tn = false /\ t_max tn = (match cls with Code => Some 1 | _ => mx end) /\
             (scope_given sc -> Some (t_scope tn) = sc).
Proof.
  unfold mint. destruct (nth_error (grants s) gi) as [g|] eqn:Eg; [|discriminate].
  destruct (grant_active (now s) g) eqn:Ea; cbn [negb]; [|discriminate].
  match goal with |- context [bind ?x _] => destruct x as [[]| |]; cbn [bind]; try discriminate end.
  intros H; inversion H; subst; clear H. unfold tget; cbn.
  eexists. rewrite nth_error_app2; [|destruct based; rewrite ?len_upd; lia].
  replace (length (toks s) - length (match based with Some b => upd_nth b (add_used 1) (toks s) | None => toks s end))%nat with O
    by (destruct based; rewrite ?len_upd; lia).
  cbn. repeat split; auto. intros Hsc. destruct sc; [reflexivity|contradiction].
Qed.

(* the token a successful mint without based_on and without a scope argument appends: it carries the grant's scope *)
Lemma mint_root_new s gi cls mx mints e s' id :
  mint s gi cls None None mx mints e = Ok (s', id) ->
  exists tn g, tget id s' = Some tn /\ nth_error (grants s) gi = Some g /\ t_grant tn = gi /\ t_cls tn = cls /\
               t_based tn = None /\ t_scope tn = g_scope g.
Proof.
  unfold mint. destruct (nth_error (grants s) gi) as [g|] eqn:Eg; [|discriminate].
  destruct (grant_active (now s) g) eqn:Ea; cbn [negb]; [|discriminate]. cbn [bind].
  intros H; inversion H; subst; clear H. unfold tget; cbn.
  exists (mkTok gi cls None 0 (match cls with Code => Some 1 | _ => mx end)
                (match cls, mints with Code, None => Some [Access; Refresh; IdTok] | Refresh, None => Some [Access; Refresh] | _, m => m end)
                false (if e =? 0 then 0 else now s + e) (g_scope g) false), g.
  rewrite nth_error_app2 by lia. rewrite Nat.sub_diag. cbn. repeat split; auto.
Qed.
