(* Proofs/Src_refine.v — refinement lemmas between the functions TRANSLATED FROM THE CURRENT SOURCE on every run
   (coq/Gen/Src_*.v, emitted by harness/py2v.py) and the hand-written models the property theorems are about.
   A change of the source function changes the generated definition; if the behaviour changes, the corresponding
   lemma here no longer checks and every property whose Props file imports this file fails its build. *)
From Coq Require Import String ZArith List Bool Lia.
From Verif Require Import Lib.Base Lib.PyStr Lib.PyOps Model.Lv Model.Session Model.Sub.
From Verif Require Model.ClientAuthn.
From Verif Require Import Gen.Src_token Gen.Src_db Gen.Src_sub.
Import ListNotations.
Open Scope string_scope.
Open Scope Z_scope.

(* ------------------------------------------------------------------ session tokens *)
Definition cls_name (c : tcls) : pystr :=
  match c with Code => PS "authorization_code" | Access => PS "access_token" | Refresh => PS "refresh_token" | IdTok => PS "id_token" end.
(* the Python object a model token stands for (the attributes the translated methods read) *)
Definition inject_tok (t : token) : pyval :=
  VObj [ (PS "used", VInt (t_used t));
         (PS "usage_rules", VDict ((match t_max t with Some m => [(PS "max_usage", VInt m)] | None => [] end)
                                   ++ (match t_mints t with Some l => [(PS "supports_minting", VList (List.map (fun c => VStr (cls_name c)) l))] | None => [] end))%list);
         (PS "revoked", VBool (t_revoked t)); (PS "not_before", VInt 0); (PS "expires_at", VInt (t_exp t)) ].

(* Proof style: the translated function is unfolded completely, the finitely many shapes of the injected object are
   split, every integer comparison met on the way is split with its specification, and what remains are equations
   between closed booleans (reflexivity) or contradictory arithmetic (lia).  Nothing depends on the ORDER in which the
   source performs its tests, on nesting vs. `and`, or on local names: an equivalent rewrite of the method re-proves. *)
Ltac zstep :=
  match goal with
  | |- context [Z.gtb ?a ?b] => rewrite (Z.gtb_ltb a b)
  | |- context [Z.geb ?a ?b] => rewrite (Z.geb_leb a b)
  | |- context [Z.eqb ?a ?b] => destruct (Z.eqb_spec a b)
  | |- context [Z.ltb ?a ?b] => destruct (Z.ltb_spec a b)
  | |- context [Z.leb ?a ?b] => destruct (Z.leb_spec a b)
  end.
Ltac src_crunch :=
  repeat (cbn -[Z.eqb Z.gtb Z.ltb Z.leb Z.geb]; zstep); cbn -[Z.eqb Z.gtb Z.ltb Z.leb Z.geb];
  try reflexivity; try (exfalso; lia).

Lemma max_usage_reached_refines t clock :
  Item_max_usage_reached_src (inject_tok t) clock = Ok (VBool (max_reached t)).
Proof.
  unfold Item_max_usage_reached_src, inject_tok, max_reached. destruct (t_max t) as [m|]; destruct (t_mints t); src_crunch.
Qed.

(* Item.is_active(now) for an explicit non-zero `now` is exactly the model's tok_active *)
Theorem is_active_refines t now clock :
  now <> 0 -> Item_is_active_src (inject_tok t) (VInt now) (VInt clock) = Ok (VBool (tok_active now t)).
Proof.
  intros Hn. unfold Item_is_active_src, Item_max_usage_reached_src, inject_tok, tok_active, max_reached.
  destruct (t_max t) as [m|]; destruct (t_mints t); destruct (t_revoked t); src_crunch.
Qed.
(* with now = 0 the method reads the clock *)
Theorem is_active_refines_clock t clock :
  clock <> 0 -> Item_is_active_src (inject_tok t) (VInt 0) (VInt clock) = Ok (VBool (tok_active clock t)).
Proof.
  intros Hn. unfold Item_is_active_src, Item_max_usage_reached_src, inject_tok, tok_active, max_reached.
  destruct (t_max t) as [m|]; destruct (t_mints t); destruct (t_revoked t); src_crunch.
Qed.

Lemma cls_name_inj a b : pyval_eqb (VStr (cls_name a)) (VStr (cls_name b)) = tcls_eqb a b.
Proof. destruct a, b; vm_compute; reflexivity. Qed.
Lemma cls_in_names c l : existsb (pyval_eqb (VStr (cls_name c))) (List.map (fun x => VStr (cls_name x)) l) = cls_in c l.
Proof. induction l as [|x r IH]; cbn [existsb List.map cls_in]; auto. rewrite cls_name_inj. unfold cls_in in IH. now rewrite IH. Qed.

Theorem supports_minting_refines t c clock :
  SessionToken_supports_minting_src (inject_tok t) (VStr (cls_name c)) clock = Ok (VBool (supports_minting t c)).
Proof.
  unfold SessionToken_supports_minting_src, inject_tok, supports_minting.
  destruct (t_max t) as [m|]; destruct (t_mints t) as [l|]; cbn -[pyval_eqb existsb cls_name]; try reflexivity;
    now rewrite cls_in_names.
Qed.

(* is_expired(exp, when): used by JWTToken.info / IDToken.info *)
Theorem is_expired_refines exp when clock :
  is_expired_src (VInt exp) (VInt when) (VInt clock)
  = Ok (VBool (if exp <? 0 then false else (if when =? 0 then clock else when) >? exp)).
Proof. unfold is_expired_src. src_crunch. Qed.

(* ------------------------------------------------------------------ client secrets *)
Definition inject_client (c : ClientAuthn.client) : pyval :=
  VDict ((match ClientAuthn.c_secret c with Some s => [(PS "client_secret", VStr s)] | None => [] end)
         ++ (match ClientAuthn.c_expires c with Some e => [(PS "client_secret_expires_at", VInt e)] | None => [] end))%list.
Theorem valid_client_secret_refines c now :
  valid_client_secret_src (inject_client c) (VInt now) = Ok (VBool (ClientAuthn.valid_client_secret c now)).
Proof.
  unfold valid_client_secret_src, inject_client, ClientAuthn.valid_client_secret.
  destruct (ClientAuthn.c_secret c) as [s|]; destruct (ClientAuthn.c_expires c) as [e|]; src_crunch.
Qed.

(* ------------------------------------------------------------------ the session key *)
Lemma all_strs_map l : all_strs (List.map VStr l) = Some l.
Proof. induction l as [|x r IH]; cbn; auto. now rewrite IH. Qed.

Lemma ends_with_last_is s : ends_with [59%N] s = last_is semi s.
Proof.
  unfold ends_with, last_is, semi. cbn [List.rev app]. destruct (List.rev s) as [|c r]; cbn [starts_with]; auto.
  now rewrite andb_true_r, N.eqb_sym.
Qed.

Lemma contains_no_cc s : contains [59%N; 59%N] s = negb (no_cc semi semi s).
Proof.
  unfold semi. induction s as [|c r IH]; [reflexivity|]. cbn [contains no_cc]. destruct r as [|d r'].
  - cbn. now rewrite andb_false_r.
  - rewrite IH. cbn [starts_with]. rewrite andb_true_r. rewrite (N.eqb_sym 59 c), (N.eqb_sym 59 d).
    destruct ((c =? 59)%N && (d =? 59)%N); reflexivity.
Qed.

Lemma for_raise_forall (l : list pystr) (p : pystr -> bool) (test : pyval -> res pyval) :
  (forall s, test (VStr s) = Ok (VBool (p s))) ->
  py_for_raise (List.map VStr l) test ValueError = if forallb (fun s => negb (p s)) l then Ok tt else Err ValueError.
Proof.
  intros Ht. induction l as [|x r IH]; cbn [List.map py_for_raise forallb]; auto.
  rewrite Ht. cbn [bind py_truthy]. destruct (p x); cbn; auto.
Qed.

Lemma firstn_removelast {A} (l : list A) : firstn (length l - 1) l = removelast l.
Proof.
  induction l as [|x r IH]; [reflexivity|]. destruct r as [|y r']; [reflexivity|].
  replace (length (x :: y :: r') - 1)%nat with (S (length (y :: r') - 1))%nat by (cbn [length]; lia).
  cbn [firstn]. rewrite IH. reflexivity.
Qed.

Theorem branch_key_refines args clock :
  branch_key_src (VList (List.map VStr args)) clock
  = match branch_key args with Ok k => Ok (VStr k) | Err e => Err e | Unmodelled => Unmodelled end.
Proof.
  unfold branch_key_src, branch_key. cbn [bind py_slice_to py_iter py_getitem].
  assert (Hs : (if 0 <=? -1 then firstn (Z.to_nat (-1)) (List.map VStr args)
                else firstn (length (List.map VStr args) - Z.to_nat (- -1)) (List.map VStr args))
               = List.map VStr (removelast args)).
  { cbn. rewrite map_length. change (Pos.to_nat 1) with 1%nat. rewrite <- firstn_removelast, firstn_map. reflexivity. }
  cbn -[PS firstn Z.to_nat] in *. rewrite Hs.
  rewrite (for_raise_forall (removelast args) (last_is semi)).
  2:{ intros s. cbn -[ends_with]. now rewrite ends_with_last_is. }
  destruct (forallb (fun s => negb (last_is semi s)) (removelast args)); cbn [negb bind]; [|reflexivity].
  rewrite (for_raise_forall args (fun s => negb (no_cc semi semi s))).
  2:{ intros s. cbn -[contains]. now rewrite contains_no_cc. }
  assert (forallb (fun s => negb (negb (no_cc semi semi s))) args = forallb (no_cc semi semi) args) as ->
    by (clear; induction args as [|x r IH]; cbn [forallb]; [reflexivity|now rewrite negb_involutive, IH]).
  destruct (forallb (no_cc semi semi) args); cbn [negb bind]; [|reflexivity].
  unfold py_join. rewrite all_strs_map. reflexivity.
Qed.

(* ------------------------------------------------------------------ subject identifiers *)
Theorem public_id_refines H uid salt clock :
  public_id_src H (VStr uid) (VStr salt) clock = Ok (VStr (H (PS "sha256") (uid ++ salt)%list)).
Proof. unfold public_id_src. cbn. now rewrite app_nil_r. Qed.
Theorem pairwise_id_refines H uid sector salt clock :
  pairwise_id_src H (VStr uid) (VStr sector) (VStr salt) clock = Ok (VStr (H (PS "sha256") (uid ++ sector ++ salt)%list)).
Proof. unfold pairwise_id_src. cbn. now rewrite app_nil_r. Qed.
(* hence the model's sub_of is what the source functions compute *)
Corollary sub_of_is_source H uid salt sector clock :
  (exists d, sub_of (H (PS "sha256")) Public uid salt sector 0 = SHash d /\ public_id_src H (VStr uid) (VStr salt) clock = Ok (VStr d)) /\
  (exists d, sub_of (H (PS "sha256")) Pairwise uid salt sector 0 = SHash d /\ pairwise_id_src H (VStr uid) (VStr sector) (VStr salt) clock = Ok (VStr d)).
Proof. split; eexists; split; try reflexivity; [apply public_id_refines|apply pairwise_id_refines]. Qed.

(* ------------------------------------------------------------------ the session key, the other direction *)
(* Database.unpack_branch_key: key.split(DIVIDER) *)
Theorem unpack_branch_key_refines key clock :
  unpack_branch_key_src (VStr key) clock = Ok (VList (List.map VStr (unpack_branch_key key))).
Proof. reflexivity. Qed.

(* ------------------------------------------------------------------ length:value serialisation *)
Lemma str_of_Z_of_nat n : str_of_Z (Z.of_nat n) = str_of_nat n.
Proof. destruct n as [|n]; [reflexivity|]. cbn [Z.of_nat str_of_Z]. now rewrite SuccNat2Pos.id_succ. Qed.
Lemma join_empty l : join [] l = List.concat l.
Proof.
  induction l as [|x r IH]; [reflexivity|]. destruct r as [|y r']; [cbn; now rewrite app_nil_r|].
  change (join [] (x :: y :: r')) with (x ++ [] ++ join [] (y :: r'))%list. rewrite IH. reflexivity.
Qed.
(* util.lv_pack (variadic): the loop body is taken as it is found in the translation; by induction over the arguments the
   list it builds is the list of the model's pack1 of each argument, whatever the body's statement order *)
Theorem lv_pack_refines args clock :
  lv_pack_src (VList (List.map VStr args)) clock = Ok (VStr (lv_pack args)).
Proof.
  unfold lv_pack_src. cbn -[py_for List.map PS].
  match goal with |- context [py_for _ ?body (VList [])] =>
    assert (HL : forall l acc, py_for (List.map VStr l) body (VList (List.map VStr acc))
                               = Ok (inl (VList (List.map VStr (acc ++ List.map pack1 l)))))
  end.
  { clear. induction l as [|a r IH]; intros acc; [cbn; now rewrite app_nil_r|].
    cbn -[py_for List.map Z.of_nat]. cbn [List.map py_for]. cbn -[py_for List.map Z.of_nat].
    match goal with |- py_for _ _ (VList (_ ++ [VStr ?X])) = _ =>
      replace X with (pack1 a) by (unfold pack1; rewrite ?str_of_Z_of_nat, ?app_nil_r; reflexivity) end.
    change [VStr (pack1 a)] with (List.map VStr [pack1 a]). rewrite <- map_app, IH, <- app_assoc. reflexivity. }
  change (VList []) with (VList (List.map VStr [])). rewrite HL. cbn -[List.map].
  rewrite all_strs_map, join_empty. unfold lv_pack. now rewrite flat_map_concat_map.
Qed.
