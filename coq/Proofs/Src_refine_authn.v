(* Proofs/Src_refine_authn.v — idpyoidc.server.authn_event.AuthnEvent.is_valid AS IT READS IN /repo/src NOW
   (coq/Gen/Src_authn.v, emitted by harness/py2v.py on every run) is the comparison `t <? valid_until` Model/Session.v makes
   when a request arrives with the provider's session cookie (do_authorize_cookie: "the authentication is too old"),
   t = the `now` argument when given (non-zero) and the clock otherwise. *)
From Coq Require Import String ZArith List Bool Lia.
From Verif Require Import Lib.Base Lib.PyStr Lib.PyOps.
From Verif Require Import Gen.Src_authn.
Import ListNotations.
Open Scope string_scope.

Definition inject_authn_event (valid_until : Z) : pyval := VDict [(PS "valid_until", VInt valid_until)].
Definition is_valid_at (now clock : Z) : Z := if (now =? 0)%Z then clock else now.

Theorem authn_event_is_valid_refines vu now clock :
  AuthnEvent_is_valid_src (inject_authn_event vu) (VInt now) (VInt clock)
  = Ok (VBool (is_valid_at now clock <? vu)%Z).
Proof.
  unfold AuthnEvent_is_valid_src, inject_authn_event, is_valid_at. cbn [bind py_truthy py_not negb].
  destruct (now =? 0)%Z; cbn [negb bind py_truthy py_getitem assoc]; rewrite ?str_eqb_refl; cbn [bind py_cmp as_int];
    rewrite ?Z.gtb_ltb; reflexivity.
Qed.

(* what the model does with the answer: a request carrying the provider's session cookie of a session whose authentication
   event the SOURCE's is_valid() (no argument: the clock) calls stale mints nothing and changes nothing - the user is sent
   to the log-in page - whatever the request asks for *)
From Verif Require Import Model.Session.
Theorem stale_authentication_asks_login c s prev g u cl sc redir fresh :
  nth_error (grants s) prev = Some g -> g_removed g = false -> g_client g = cl ->
  AuthnEvent_is_valid_src (inject_authn_event (g_valid_until g)) (VInt 0) (VInt (now s)) = Ok (VBool false) ->
  do_authorize_cookie c s prev u cl sc redir fresh = (s, OLogin).
Proof.
  intros Hg Hr Hc Hv. rewrite authn_event_is_valid_refines in Hv. unfold is_valid_at in Hv. cbn [Z.eqb] in Hv.
  assert (Hlt : (now s <? g_valid_until g)%Z = false) by (injection Hv; auto).
  unfold do_authorize_cookie. rewrite Hg, Hr, Hc, str_eqb_refl. cbn [orb negb].
  destruct (grant_active (now s) g); cbn [negb]; [rewrite Hlt|]; reflexivity.
Qed.
