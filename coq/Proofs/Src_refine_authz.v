(* Proofs/Src_refine_authz.v — three small decision helpers AS THEY READ IN /repo/src NOW (coq/Gen/Src_authz.v,
   coq/Gen/Src_authn.v; the table tie is in Src_refine_fragtab.v, AuthnEvent.is_valid in Src_refine_authn.v; emitted by harness/py2v.py on every run) are the tests the hand-written models make:

   * idpyoidc.server.oauth2.authorization.is_localhost_uri  = Model/Uri.is_localhost (the loopback list of the native-client
     rule of C06: which hosts have their port ignored);
   * idpyoidc.server.endpoint.fragment_encoding             = `fragment_encoding` below: everything but the list ["code"]
     is fragment encoded by default - a law over EVERY response-type list, of which the regenerated probe table
     Gen/Supports.op_fragment_enc (what create_authn_response answered for the 7 configurable response types) is an instance
     (`fragment_enc_table_is_source`);
   * idpyoidc.server.authn_event.AuthnEvent.is_valid         = the comparison `t <? valid_until` Model/Session.v makes when a
     request arrives with the provider's session cookie (do_authorize_cookie), t = the `now` argument when given (non-zero)
     and the clock otherwise.

   A semantic change of one of these functions breaks its lemma on the next run; a harmless rewrite inside the translated
   subset still checks. *)
From Coq Require Import String ZArith List Bool Lia.
From Verif Require Import Lib.Base Lib.PyStr Lib.PyOps.
From Verif Require Model.Uri.
From Verif Require Import Gen.Src_authz.
Import ListNotations.
Open Scope string_scope.

(* ---------------------------------------------------------------- is_localhost_uri *)
(* the urllib result object as far as the function reads it: its `hostname` property (a str or None) *)
Definition inject_host (p : Uri.parsed) : pyval :=
  VObj [(PS "hostname", match Uri.hostname p with Some h => VStr h | None => VNone end)].

Lemma existsb_strs s l : existsb (pyval_eqb (VStr s)) (List.map VStr l) = str_in s l.
Proof. induction l as [|x r IH]; [reflexivity|]. cbn [existsb List.map str_in]. rewrite IH. reflexivity. Qed.
Lemma existsb_none l : existsb (pyval_eqb VNone) (List.map VStr l) = false.
Proof. induction l as [|x r IH]; [reflexivity|]. cbn [existsb List.map]. rewrite IH. reflexivity. Qed.

Theorem is_localhost_uri_refines p clock :
  is_localhost_uri_src (inject_host p) clock = Ok (VBool (Uri.is_localhost p)).
Proof.
  unfold is_localhost_uri_src, inject_host, Uri.is_localhost. cbn [bind py_getattr assoc].
  rewrite str_eqb_refl. cbn [bind py_in].
  change [VStr (PS "127.0.0.1"); VStr (PS "::1"); VStr (PS "0000:0000:0000:0000:0000:0000:0000:0001")]
    with (List.map VStr Uri.loopbacks).
  destruct (Uri.hostname p) as [h|]; [rewrite existsb_strs|rewrite existsb_none]; reflexivity.
Qed.

(* the loopback list is exactly the three literals of RFC 8252 section 7.3 as the library spells them: "localhost" is NOT in it *)
Lemma localhost_name_is_not_loopback p : Uri.hostname p = Some (PS "localhost") -> Uri.is_localhost p = false.
Proof. intros H. unfold Uri.is_localhost. rewrite H. reflexivity. Qed.

(* ---------------------------------------------------------------- fragment_encoding *)
Definition fragment_encoding (rt : list pystr) : bool :=
  match rt with [x] => negb (str_eqb x (PS "code")) | _ => true end.

Theorem fragment_encoding_refines rt clock :
  fragment_encoding_src (VList (List.map VStr rt)) clock = Ok (VBool (fragment_encoding rt)).
Proof.
  unfold fragment_encoding_src, fragment_encoding. cbn [bind py_eq py_ne py_not].
  destruct rt as [|x [|y r]]; cbn [List.map pyval_eqb py_truthy negb bind]; rewrite ?andb_true_r, ?andb_false_r;
    try reflexivity; destruct (str_eqb x (PS "code")); reflexivity.
Qed.

(* only the single word `code` is delivered in the query by default; every other list - several words, the empty list, one
   other word - goes into the fragment *)
Lemma fragment_encoding_false_iff rt : fragment_encoding rt = false <-> rt = [PS "code"].
Proof.
  unfold fragment_encoding. destruct rt as [|x [|y r]]; try (split; [discriminate|intros H; discriminate H]).
  rewrite negb_false_iff, str_eqb_eq. split; [intros ->; reflexivity|intros H; injection H; auto].
Qed.
