(* Proofs/Src_refine_claims.v — C07: the model's claims_match IS the source's claims_match.
   Gen/Src_claims.v is emitted by harness/py2v.py from the current idpyoidc.server.session.claims.claims_match on every
   run (the loop over claimspec.items() with continue / break becomes PyOps.py_for).  The proof takes the loop body as
   it finds it in the translation and shows, by induction over the specification's items, that from matched = False
   the loop ends with matched = spec_matches value items: nothing depends on the order of the tests in the body. *)
From Coq Require Import String ZArith List Bool Lia.
From Verif Require Import Lib.Base Lib.PyStr Lib.PyOps Proofs.Src_tac.
From Verif Require Import Model.Claims.
From Verif Require Gen.Src_claims.
Import ListNotations.
Open Scope string_scope.
Open Scope Z_scope.

(* a claim specification as the Python dict it stands for (insertion order kept) *)
Definition inject_item (i : spec_item) : pystr * pyval :=
  match i with
  | SEssential b => (PS "essential", b)
  | SValue v => (PS "value", v)
  | SValues vs => (PS "values", VList vs)
  | SOther k => (k, VNone)
  end.
Definition inject_spec (c : cspec) : pyval :=
  match c with None => VNone | Some s => VDict (List.map inject_item s) end.
(* SOther stands for a key that is none of the three the function looks at *)
Definition item_ok (i : spec_item) : bool :=
  match i with
  | SOther k => negb (str_eqb k (PS "value")) && negb (str_eqb k (PS "values")) && negb (str_eqb k (PS "essential"))
  | _ => true
  end.
Definition spec_ok (c : cspec) : bool := match c with None => true | Some s => forallb item_ok s end.

Lemma item_ok_other k : item_ok (SOther k) = true -> k <> PS "value" /\ k <> PS "values" /\ k <> PS "essential".
Proof.
  unfold item_ok. rewrite !andb_true_iff, !negb_true_iff, !str_eqb_neq. tauto.
Qed.


Definition keys_of (s : list spec_item) : pyval :=
  VList (List.map (fun kv : pystr * pyval => VStr (fst kv)) (List.map inject_item s)).
Lemma keys_essential_l s :
  forallb item_ok s = true -> pyval_eqb (keys_of s) (VList [VStr (PS "essential")]) = is_essential_only s.
Proof.
  intros H. destruct s as [|i [|j r]]; [reflexivity| |].
  - destruct i; try reflexivity. cbn [forallb] in H. rewrite andb_true_r in H.
    apply item_ok_other in H as (_ & _ & H). apply str_eqb_neq in H. cbn in *. now rewrite H.
  - destruct i; cbn; rewrite ?andb_false_r; reflexivity.
Qed.
Lemma keys_essential_r s :
  forallb item_ok s = true -> pyval_eqb (VList [VStr (PS "essential")]) (keys_of s) = is_essential_only s.
Proof.
  intros H. destruct s as [|i [|j r]]; [reflexivity| |].
  - destruct i; try reflexivity. cbn [forallb] in H. rewrite andb_true_r in H.
    apply item_ok_other in H as (_ & _ & H). apply str_eqb_neq in H. rewrite str_eqb_sym in H. cbn in *. now rewrite H.
  - destruct i; cbn; rewrite ?andb_false_r; reflexivity.
Qed.

Theorem claims_match_refines v c clock :
  spec_ok c = true ->
  Src_claims.claims_match_src v (inject_spec c) clock = Ok (VBool (claims_match (Some v) c)).
Proof.
  intros Hok. unfold Src_claims.claims_match_src.
  destruct c as [s|]; [|destruct v; reflexivity].
  cbn [inject_spec spec_ok] in *.
  cbn -[py_for List.map PS pyval_eqb].
  (* the loop: whatever the body looks like, from matched = False it ends with matched = spec_matches v s *)
  match goal with |- context [py_for _ ?body (VBool false)] =>
    assert (HL : forall s, forallb item_ok s = true ->
                 py_for (List.map (fun kv : pystr * pyval => VList [VStr (fst kv); snd kv]) (List.map inject_item s)) body (VBool false)
                 = Ok (inl (VBool (spec_matches v s))))
  end.
  { clear. induction s as [|i r IH]; [reflexivity|]. cbn [forallb List.map]. rewrite andb_true_iff. intros [Hi Hr].
    specialize (IH Hr). cbn [py_for].
    destruct i as [b|w|vs|k]; [| | |apply item_ok_other in Hi as (H1 & H2 & H3)];
      cbn in *; str_split; try congruence;
      repeat match goal with
             | |- context [pyval_eqb v ?w] => destruct (pyval_eqb v w)
             | |- context [existsb ?f ?l] => destruct (existsb f l)
             end; cbn; try reflexivity; try exact IH. }
  rewrite (HL s Hok). clear HL.
  destruct (spec_matches v s), v; cbn -[pyval_eqb List.map inject_item]; try reflexivity;
    fold (keys_of s); rewrite ?(keys_essential_l s Hok), ?(keys_essential_r s Hok);
    destruct (is_essential_only s); reflexivity.
Qed.
