(* Proofs/Src_refine_current.v — idpyoidc.client.current.Current.get (how every relying-party API that takes a state finds the
   session it names) AS IT READS IN /repo/src NOW (coq/Gen/Src_current.v, emitted by harness/py2v.py on every run) is the
   hand-written Model/RpState.db_get: the look-up reads `_db` and nothing else - whatever `_map` (the one namespace of bound
   nonces, subjects, session ids and logout states) holds - and an absent key as well as an EMPTY record is KeyError. *)
From Coq Require Import String ZArith List Bool.
From Verif Require Import Lib.Base Lib.PyStr Lib.PyOps Lib.RpTy.
From Verif Require Model.RpState.
From Verif Require Import Gen.Src_current.
Import ListNotations.
Open Scope string_scope.

Definition inject_db (db : list (pystr * list (pystr * pyval))) : pyval :=
  VDict (List.map (fun kv => (fst kv, VDict (snd kv))) db).
(* the Current object: its two attributes *)
Definition inject_current (db : list (pystr * list (pystr * pyval))) (map : pyval) : pyval :=
  VObj [(PS "_db", inject_db db); (PS "_map", map)].
Definition lift_rec (r : res (list (pystr * pyval))) : res pyval :=
  match r with Ok d => Ok (VDict d) | Err e => Err e | Unmodelled => Unmodelled end.

Lemma assoc_inject_db k db :
  assoc k (List.map (fun kv : pystr * list (pystr * pyval) => (fst kv, VDict (snd kv))) db)
  = match assoc k db with Some d => Some (VDict d) | None => None end.
Proof.
  induction db as [|[k' d] r IH]; [reflexivity|]. cbn [List.map assoc fst snd].
  destruct (str_eqb k k'); [reflexivity|exact IH].
Qed.

Theorem current_get_refines db map k clock :
  Current_get_src (inject_current db map) (VStr k) clock = lift_rec (RpState.db_get db k).
Proof.
  unfold Current_get_src, inject_current, inject_db, RpState.db_get. cbn [bind py_getattr assoc].
  rewrite str_eqb_refl. cbn [bind py_dict_get]. rewrite assoc_inject_db.
  destruct (assoc k db) as [[|x r]|]; reflexivity.
Qed.

(* what is bound in `_map` never decides a look-up *)
Corollary current_get_ignores_map db m1 m2 k clock :
  Current_get_src (inject_current db m1) (VStr k) clock = Current_get_src (inject_current db m2) (VStr k) clock.
Proof. rewrite !current_get_refines. reflexivity. Qed.

(* idpyoidc.message.oauth2.is_error_message (how the relying party's services tell an error response from an answer): the
   presence of a member called `error`, whatever its value and whatever else the message carries - the test
   `has_key (PS "error") d` of Model/RpState.v *)
Theorem is_error_message_refines d clock :
  is_error_message_src (VDict d) clock = Ok (VBool (has_key (PS "error") d)).
Proof. unfold is_error_message_src. cbn [bind py_in]. destruct (has_key (PS "error") d); reflexivity. Qed.
