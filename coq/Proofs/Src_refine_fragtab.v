(* Proofs/Src_refine_fragtab.v — the regenerated probe table Gen/Supports.op_fragment_enc (what the real
   create_authn_response answered, one request per configurable response type) agrees with the law proved of the
   translated source of idpyoidc.server.endpoint.fragment_encoding (Proofs/Src_refine_authz.v). *)
From Coq Require Import String ZArith List Bool.
From Verif Require Import Lib.Base Lib.PyStr Lib.PyOps.
From Verif Require Model.Interop Gen.Supports Proofs.Src_refine_authz.
Import ListNotations.

(* the regenerated probe table (the real create_authn_response, one request per configurable response type) is an instance *)
Theorem fragment_enc_table_is_source :
  forallb (fun rb => Bool.eqb (Src_refine_authz.fragment_encoding (Interop.words (fst rb))) (snd rb)) Supports.op_fragment_enc = true.
Proof. vm_compute. reflexivity. Qed.
