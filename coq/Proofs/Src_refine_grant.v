(* Proofs/Src_refine_grant.v — the look-ups among the tokens a grant has issued AS THEY READ IN /repo/src NOW (coq/Gen/Src_grant.v,
   emitted by harness/py2v.py on every run): `Grant.get_token(value)` and `find_token(issued, id)` return the FIRST issued token
   whose `value` / `id` attribute equals the argument and None when there is none - no other attribute of a token, and nothing
   about any later token, decides. *)
From Coq Require Import String ZArith List Bool Lia.
From Verif Require Import Lib.Base Lib.PyStr Lib.PyOps.
From Verif Require Import Gen.Src_grant.
Import ListNotations.
Open Scope string_scope.

(* a token object as far as these functions read it *)
Definition tok_obj (id value cls : pystr) (issued_at : Z) (rest : list (pystr * pyval)) : pyval :=
  VObj ((PS "id", VStr id) :: (PS "value", VStr value) :: (PS "token_class", VStr cls) :: (PS "issued_at", VInt issued_at) :: rest).
Record tok := { k_id : pystr; k_value : pystr; k_cls : pystr; k_iat : Z; k_rest : list (pystr * pyval) }.
Definition inject_tok (t : tok) : pyval := tok_obj (k_id t) (k_value t) (k_cls t) (k_iat t) (k_rest t).
Definition inject_grant (toks : list tok) (rest : list (pystr * pyval)) : pyval :=
  VObj ((PS "issued_token", VList (List.map inject_tok toks)) :: rest).
Definition opt_tok (o : option tok) : pyval := match o with Some t => inject_tok t | None => VNone end.

(* a loop whose body returns the element at the first hit and goes on otherwise *)
Lemma py_for_first (p : tok -> bool) (body : pyval -> pyval -> res loop_ctl) toks st :
  (forall t s, body (inject_tok t) s = Ok (if p t then LReturn (inject_tok t) else LNext s)) ->
  py_for (List.map inject_tok toks) body st
  = Ok (match List.find p toks with Some t => inr (inject_tok t) | None => inl st end).
Proof.
  intros Hb. induction toks as [|t r IH]; [reflexivity|].
  cbn [List.map py_for List.find]. rewrite Hb. destruct (p t); cbn [bind]; [reflexivity|exact IH].
Qed.

Theorem get_token_refines toks rest v clock :
  Grant_get_token_src (inject_grant toks rest) (VStr v) clock
  = Ok (opt_tok (List.find (fun t => str_eqb (k_value t) v) toks)).
Proof.
  unfold Grant_get_token_src, inject_grant. cbn [bind py_getattr assoc]. rewrite str_eqb_refl. cbn [bind py_iter].
  rewrite (py_for_first (fun t => str_eqb (k_value t) v)).
  - cbn [bind]. destruct (List.find _ toks); reflexivity.
  - intros t s. unfold inject_tok, tok_obj. cbn [bind py_getattr assoc].
    change (str_eqb (PS "value") (PS "id")) with false. change (str_eqb (PS "value") (PS "value")) with true.
    cbn [bind py_eq pyval_eqb py_truthy]. rewrite ?(str_eqb_sym v). destruct (str_eqb (k_value t) v); reflexivity.
Qed.

Theorem find_token_refines toks v clock :
  find_token_src (VList (List.map inject_tok toks)) (VStr v) clock
  = Ok (opt_tok (List.find (fun t => str_eqb (k_id t) v) toks)).
Proof.
  unfold find_token_src. cbn [bind py_iter].
  rewrite (py_for_first (fun t => str_eqb (k_id t) v)).
  - cbn [bind]. destruct (List.find _ toks); reflexivity.
  - intros t s. unfold inject_tok, tok_obj. cbn [bind py_getattr assoc]. rewrite str_eqb_refl.
    cbn [bind py_eq pyval_eqb py_truthy]. rewrite ?(str_eqb_sym v). destruct (str_eqb (k_id t) v); reflexivity.
Qed.

(* the answer has the value asked for, and no earlier token has it *)
Corollary get_token_sound toks rest v clock t :
  Grant_get_token_src (inject_grant toks rest) (VStr v) clock = Ok (inject_tok t) -> k_value t = v.
Proof.
  rewrite get_token_refines. destruct (List.find _ toks) as [t'|] eqn:E; cbn [opt_tok]; [|discriminate].
  intros H. apply find_some in E as [_ E]. apply str_eqb_eq in E.
  unfold inject_tok, tok_obj in H. injection H as _ Hv _ _ _. congruence.
Qed.
