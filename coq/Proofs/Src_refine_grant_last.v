(* Proofs/Src_refine_grant2.v — Grant.last_issued_token_of_type AS IT READS IN /repo/src NOW (coq/Gen/Src_grant_last.v, emitted by
   harness/py2v.py on every run; the logout code picks the ID Token whose session id goes into the logout token with it):
   among the issued tokens of the class asked for, the EARLIEST one carrying the maximal `issued_at`; None when the grant has
   issued none of that class. *)
From Coq Require Import String ZArith List Bool Lia.
From Verif Require Import Lib.Base Lib.PyStr Lib.PyOps.
From Verif Require Import Gen.Src_grant_last Proofs.Src_refine_grant.
Import ListNotations.
Open Scope string_scope.

Definition pick (cls : pystr) (res : option tok) (t : tok) : option tok :=
  if str_eqb (k_cls t) cls then
    match res with None => Some t | Some r => if (k_iat r <? k_iat t)%Z then Some t else Some r end
  else res.
Definition last_of (cls : pystr) (toks : list tok) : option tok := fold_left (pick cls) toks None.

Lemma py_for_fold (f : option tok -> tok -> option tok) (body : pyval -> pyval -> res loop_ctl) toks st :
  (forall t s, body (inject_tok t) (opt_tok s) = Ok (LNext (opt_tok (f s t)))) ->
  py_for (List.map inject_tok toks) body (opt_tok st) = Ok (inl (opt_tok (fold_left f toks st))).
Proof.
  intros Hb. revert st. induction toks as [|t r IH]; intros st; [reflexivity|].
  cbn [List.map py_for fold_left]. rewrite Hb. cbn [bind]. apply IH.
Qed.

Theorem last_issued_token_of_type_refines toks rest cls clock :
  Grant_last_issued_token_of_type_src (inject_grant toks rest) (VStr cls) clock = Ok (opt_tok (last_of cls toks)).
Proof.
  unfold Grant_last_issued_token_of_type_src, inject_grant, last_of. cbn [bind py_getattr assoc]. rewrite str_eqb_refl.
  cbn [bind py_iter]. change VNone with (opt_tok None).
  rewrite (py_for_fold (pick cls)); [reflexivity|].
  intros t s. unfold pick, inject_tok at 1, tok_obj. cbn [bind py_getattr assoc].
  change (str_eqb (PS "token_class") (PS "id")) with false. change (str_eqb (PS "token_class") (PS "value")) with false.
  change (str_eqb (PS "token_class") (PS "token_class")) with true.
  cbn [bind py_eq pyval_eqb py_truthy]. rewrite ?(str_eqb_sym cls).
  destruct (str_eqb (k_cls t) cls); [|reflexivity].
  destruct s as [r|]; cbn [opt_tok bind py_is_none py_truthy]; [|reflexivity].
  unfold inject_tok, tok_obj. cbn [bind py_getattr assoc].
  change (str_eqb (PS "issued_at") (PS "id")) with false. change (str_eqb (PS "issued_at") (PS "value")) with false.
  change (str_eqb (PS "issued_at") (PS "token_class")) with false. change (str_eqb (PS "issued_at") (PS "issued_at")) with true.
  cbn [bind py_cmp as_int py_truthy]. rewrite ?Z.gtb_ltb. destruct (k_iat r <? k_iat t)%Z; reflexivity.
Qed.

(* what the fold picks: of the class asked for, issued by this grant, and no token of the class is younger *)
Lemma pick_inv cls toks : forall st,
  (forall r, st = Some r -> k_cls r = cls) ->
  forall r, fold_left (pick cls) toks st = Some r ->
    k_cls r = cls /\ (In r toks \/ st = Some r)
    /\ (forall t, In t toks -> k_cls t = cls -> (k_iat t <= k_iat r)%Z)
    /\ (forall r0, st = Some r0 -> (k_iat r0 <= k_iat r)%Z).
Proof.
  induction toks as [|t l IH]; intros st Hst r H; cbn [fold_left] in H.
  - subst st. repeat split; auto; [intros ? []|intros r0 E; injection E as <-; lia].
  - assert (Hst' : forall r', pick cls st t = Some r' -> k_cls r' = cls).
    { unfold pick. intros r'. destruct (str_eqb (k_cls t) cls) eqn:E; [apply str_eqb_eq in E|auto].
      destruct st as [r0|]; [destruct (k_iat r0 <? k_iat t)%Z|]; intros E'; injection E' as <-; auto. }
    destruct (IH _ Hst' r H) as (Hc & Hin & Hmax & Hge). split; [exact Hc|]. split; [|split].
    + destruct Hin as [Hin|Hin]; [left; right; exact Hin|].
      unfold pick in Hin. destruct (str_eqb (k_cls t) cls); [|right; exact Hin].
      destruct st as [r0|]; [destruct (k_iat r0 <? k_iat t)%Z|]; injection Hin as <-; auto; left; left; reflexivity.
    + intros t' [<-|Ht'] Hcl; [|apply Hmax; assumption].
      unfold pick in Hge. rewrite (proj2 (str_eqb_eq _ _) Hcl) in Hge.
      destruct st as [r0|]; [destruct (k_iat r0 <? k_iat t)%Z eqn:G|].
      * apply (Hge t eq_refl).
      * specialize (Hge r0 eq_refl). lia.
      * apply (Hge t eq_refl).
    + intros r0 ->. unfold pick in Hge. destruct (str_eqb (k_cls t) cls); [|apply Hge; reflexivity].
      destruct (k_iat r0 <? k_iat t)%Z eqn:G; [specialize (Hge t eq_refl); lia|apply Hge; reflexivity].
Qed.

Theorem last_of_sound cls toks r :
  last_of cls toks = Some r ->
  k_cls r = cls /\ In r toks /\ (forall t, In t toks -> k_cls t = cls -> (k_iat t <= k_iat r)%Z).
Proof.
  intros H. destruct (pick_inv cls toks None (fun r0 E => ltac:(discriminate E)) r H) as (Hc & Hin & Hmax & _).
  repeat split; auto. destruct Hin as [Hin|Hin]; [exact Hin|discriminate Hin].
Qed.
Theorem last_of_none cls toks : last_of cls toks = None <-> (forall t, In t toks -> k_cls t <> cls).
Proof.
  unfold last_of. split.
  - intros H t Hin Hc. revert H.
    assert (G : forall l st, (st <> None \/ exists t, In t l /\ k_cls t = cls) -> fold_left (pick cls) l st <> None).
    { induction l as [|x l IH]; intros st Hor; cbn [fold_left].
      - destruct Hor as [Hs|(t' & Hi & _)]; [exact Hs|destruct Hi].
      - apply IH. destruct Hor as [Hs|(t' & Hi & Hc')].
        + left. unfold pick. destruct (str_eqb (k_cls x) cls); [|exact Hs].
          destruct st as [r0|]; [destruct (k_iat r0 <? k_iat x)%Z|]; discriminate.
        + destruct Hi as [<-|Hi]; [left|right; exists t'; auto].
          unfold pick. rewrite (proj2 (str_eqb_eq _ _) Hc'). destruct st as [r0|]; [destruct (k_iat r0 <? k_iat x)%Z|]; discriminate. }
    apply G. right. exists t. auto.
  - intros H. induction toks as [|x l IH]; [reflexivity|]. cbn [fold_left]. unfold pick at 2.
    destruct (str_eqb (k_cls x) cls) eqn:E; [apply str_eqb_eq in E; exfalso; apply (H x); [left; reflexivity|exact E]|].
    apply IH. intros t Hi. apply H. right. exact Hi.
Qed.
