(* Proofs/Src_refine_lv.v — idpyoidc.server.util.lv_unpack AS IT READS IN /repo/src NOW (coq/Gen/Src_lv.v, emitted by
   harness/py2v.py on every run: a `while txt:` loop on explicit fuel, `l, v = txt.split(":", 1)`, int(l), v[:n], v[n:])
   is the hand-written Model/Lv.lv_unpack that the theorems of C04 / C14 / C17 are about.
   Separate from Src_refine.v so that a change of lv_unpack breaks the properties that read it and no other. *)
From Coq Require Import String ZArith List Bool Lia Arith.
From Verif Require Import Lib.Base Lib.PyStr Lib.PyOps Model.Lv Proofs.Lv_proofs.
From Verif Require Import Gen.Src_lv.
Import ListNotations.
Open Scope string_scope.
Open Scope Z_scope.

Definition inj_strs (r : res (list pystr)) : res pyval :=
  match r with Ok l => Ok (VList (List.map VStr l)) | Err e => Err e | Unmodelled => Unmodelled end.

(* ------------------------------------------------------------------ facts about the hand-written loop: fuel *)
Lemma split1_c_length sep s l v : split1_c sep s = Some (l, v) -> (length l + length v + 1 = length s)%nat.
Proof.
  revert l v. induction s as [|c r IH]; intros l v; cbn [split1_c]; [discriminate|].
  destruct (N.eqb c sep).
  - intros H. injection H as <- <-. cbn. lia.
  - destruct (split1_c sep r) as [[a b]|]; [|discriminate]. intros H. injection H as <- <-.
    specialize (IH a b eq_refl). cbn [length]. lia.
Qed.
Lemma slice_from_length n v : (length (slice_from n v) <= length v)%nat.
Proof. unfold slice_from. destruct (0 <=? n); rewrite skipn_length; lia. Qed.
Lemma py_int_errors s e : py_int s = Err e -> e = ValueError.
Proof.
  unfold py_int.
  repeat match goal with
  | |- context [match ?x with _ => _ end] => destruct x
  | |- context [if ?x then _ else _] => destruct x
  end; intros H; try discriminate; now injection H.
Qed.

(* every iteration consumes at least the colon: more fuel than characters is never used up ... *)
Theorem unpack_loop_fuel_enough fuel txt : (length txt < fuel)%nat -> unpack_loop fuel txt <> Err OutOfFuel.
Proof.
  revert txt. induction fuel as [|f IH]; intros txt Hf; [lia|].
  destruct txt as [|c r]; [discriminate|]. cbn [unpack_loop].
  destruct (split1_c colon (c :: r)) as [[l v]|] eqn:Es; [|discriminate].
  apply split1_c_length in Es.
  destruct (py_int l) as [n|e|] eqn:Ei; cbn [bind]; [|apply py_int_errors in Ei; subst e; discriminate|discriminate].
  pose proof (slice_from_length n v) as Hl.
  specialize (IH (slice_from n v) ltac:(cbn [length] in *; lia)).
  destruct (unpack_loop f (slice_from n v)) as [x|e|]; cbn [bind]; try discriminate. congruence.
Qed.
(* ... and the answer does not depend on how much more there is *)
Theorem unpack_loop_fuel f1 f2 txt :
  (length txt < f1)%nat -> (length txt < f2)%nat -> unpack_loop f1 txt = unpack_loop f2 txt.
Proof.
  revert f2 txt. induction f1 as [|f1 IH]; intros f2 txt H1 H2; [lia|]. destruct f2 as [|f2]; [lia|].
  destruct txt as [|c r]; [reflexivity|]. cbn [unpack_loop].
  destruct (split1_c colon (c :: r)) as [[l v]|] eqn:Es; [|reflexivity].
  apply split1_c_length in Es. destruct (py_int l) as [n| |]; cbn [bind]; try reflexivity.
  pose proof (slice_from_length n v) as Hl.
  rewrite (IH f2 (slice_from n v)) by (cbn [length] in *; lia). reflexivity.
Qed.
Corollary lv_unpack_never_out_of_fuel txt : lv_unpack txt <> Err OutOfFuel.
Proof. apply unpack_loop_fuel_enough. lia. Qed.

(* ------------------------------------------------------------------ the fragment of int() *)
(* PyOps.py_int_of leaves a literal of more than int_max_str_digits characters Unmodelled (CPython's run-time
   configurable digit limit); the hand-written loop with exactly that restriction: *)
Definition py_int_lim (l : pystr) : res Z := if Nat.ltb int_max_str_digits (length l) then Unmodelled else py_int l.
Fixpoint unpack_loop_lim (fuel : nat) (txt : pystr) : res (list pystr) :=
  match txt with
  | [] => Ok []
  | _ => match fuel with
         | O => Err OutOfFuel
         | S f => match split1_c colon txt with
                  | None => Err ValueError
                  | Some (l, v) =>
                      n <- py_int_lim l ;;
                      r <- unpack_loop_lim f (slice_from n v) ;;
                      Ok (slice_to n v :: r)
                  end
         end
  end.
(* it is the hand-written loop wherever it is defined at all, and on every text of at most 4300 characters *)
Lemma unpack_loop_lim_partial fuel txt :
  unpack_loop_lim fuel txt = Unmodelled \/ unpack_loop_lim fuel txt = unpack_loop fuel txt.
Proof.
  revert txt. induction fuel as [|f IH]; intros txt; [right; destruct txt; reflexivity|].
  destruct txt as [|c r]; [now right|]. cbn [unpack_loop unpack_loop_lim].
  destruct (split1_c colon (c :: r)) as [[l v]|]; [|now right].
  unfold py_int_lim. destruct (Nat.ltb int_max_str_digits (length l)); [now left|].
  destruct (py_int l) as [n| |]; cbn [bind]; try now right.
  destruct (IH (slice_from n v)) as [-> | ->]; [now left|now right].
Qed.
Lemma unpack_loop_lim_short fuel txt :
  (length txt <= int_max_str_digits)%nat -> unpack_loop_lim fuel txt = unpack_loop fuel txt.
Proof.
  revert txt. induction fuel as [|f IH]; intros txt Hs; [destruct txt; reflexivity|].
  destruct txt as [|c r]; [reflexivity|]. cbn [unpack_loop unpack_loop_lim].
  destruct (split1_c colon (c :: r)) as [[l v]|] eqn:Es; [|reflexivity].
  apply split1_c_length in Es. unfold py_int_lim.
  assert (Nat.ltb int_max_str_digits (length l) = false) as -> by (apply Nat.ltb_ge; lia).
  destruct (py_int l) as [n| |]; cbn [bind]; try reflexivity.
  pose proof (slice_from_length n v). rewrite IH by lia. reflexivity.
Qed.

(* ------------------------------------------------------------------ the translated loop *)
(* The loop of the source, as found in the translation (test and body are taken from the goal, whatever they read),
   started on the accumulated list acc and the remaining text, ends where the restricted hand-written loop ends:
   same error, or the list acc ++ (what the loop decodes) and the empty text. *)
Theorem lv_unpack_src_is_loop fuel txt clock :
  lv_unpack_src fuel (VStr txt) clock = inj_strs (unpack_loop_lim fuel txt).
Proof.
  unfold lv_unpack_src. cbn -[py_while unpack_loop_lim].
  match goal with |- context [py_while fuel ?test ?body _] =>
    assert (HL : forall f t acc, py_while f test body [VList (List.map VStr acc); VStr t]
                 = match unpack_loop_lim f t with
                   | Ok r => Ok (inl [VList (List.map VStr (acc ++ r)); VStr []])
                   | Err e => Err e | Unmodelled => Unmodelled end)
  end.
  { clear. induction f as [|f IH]; intros t acc.
    - destruct t as [|c r]; cbn; [now rewrite app_nil_r|reflexivity].
    - destruct t as [|c r]; [cbn; now rewrite app_nil_r|].
      cbn [py_while nth bind py_truthy unpack_loop_lim]. cbn -[py_while split1_c py_int unpack_loop_lim slice_to slice_from Nat.ltb].
      change (split1_c 58 (c :: r)) with (split1_c colon (c :: r)).
      destruct (split1_c colon (c :: r)) as [[l v]|]; [|cbn; reflexivity].
      cbn -[py_while py_int unpack_loop_lim slice_to slice_from Nat.ltb]. unfold py_int_lim.
      destruct (Nat.ltb int_max_str_digits (length l)); [reflexivity|].
      destruct (py_int l) as [n| |]; cbn -[py_while unpack_loop_lim slice_to slice_from]; try reflexivity.
      change [VStr (slice_to n v)] with (List.map VStr [slice_to n v]). rewrite <- map_app, IH.
      destruct (unpack_loop_lim f (slice_from n v)) as [x| |]; cbn [bind]; try reflexivity.
      now rewrite <- app_assoc. }
  change (VList []) with (VList (List.map VStr [])). rewrite HL.
  destruct (unpack_loop_lim fuel txt); reflexivity.
Qed.

(* util.lv_unpack, for every text of at most 4300 characters and every fuel above its length, is the model's lv_unpack
   (whose own fuel is length + 1): same list, same ValueError (no colon / length prefix not an int literal), Unmodelled
   exactly on the model's Unmodelled (a non-ASCII, non-blank character in a length prefix); OutOfFuel never. *)
Theorem lv_unpack_refines fuel txt clock :
  (length txt < fuel)%nat -> (length txt <= int_max_str_digits)%nat ->
  lv_unpack_src fuel (VStr txt) clock = inj_strs (lv_unpack txt) /\ lv_unpack txt <> Err OutOfFuel.
Proof.
  intros Hf Hs. split; [|apply lv_unpack_never_out_of_fuel].
  rewrite lv_unpack_src_is_loop, unpack_loop_lim_short by exact Hs. unfold lv_unpack.
  rewrite (unpack_loop_fuel fuel (S (length txt))) by lia. reflexivity.
Qed.
(* longer texts: wherever the translation is inside the modelled fragment of int() it is the model's lv_unpack *)
Theorem lv_unpack_refines_partial fuel txt clock :
  (length txt < fuel)%nat ->
  lv_unpack_src fuel (VStr txt) clock = Unmodelled \/ lv_unpack_src fuel (VStr txt) clock = inj_strs (lv_unpack txt).
Proof.
  intros Hf. rewrite lv_unpack_src_is_loop. unfold lv_unpack.
  rewrite (unpack_loop_fuel (S (length txt)) fuel) by lia.
  destruct (unpack_loop_lim_partial fuel txt) as [-> | ->]; [now left|now right].
Qed.

(* texts of any length that lv_pack wrote (every honest token, cookie payload, session identifier): the translated
   function gives back the packed list.  The side condition (the decimal numeral of each item's length has at most 4300
   digits) holds for every string a Python process can hold. *)
Lemma unpack_lim_step f txt : txt <> [] ->
  unpack_loop_lim (S f) txt =
  match split1_c colon txt with
  | None => Err ValueError
  | Some (l, v) => n <- py_int_lim l ;; r <- unpack_loop_lim f (slice_from n v) ;; Ok (slice_to n v :: r)
  end.
Proof. destruct txt; [congruence|reflexivity]. Qed.
Lemma unpack_lim_pack l : forall fuel, (length l < fuel)%nat ->
  Forall (fun a => length (str_of_nat (length a)) <= int_max_str_digits)%nat l -> unpack_loop_lim fuel (lv_pack l) = Ok l.
Proof.
  induction l as [|a l IH]; intros fuel Hf Hd; [destruct fuel; reflexivity|].
  destruct fuel as [|f]; [cbn in Hf; lia|]. inversion Hd as [|? ? Ha Hl]; subst.
  rewrite pack_cons. rewrite unpack_lim_step.
  2:{ pose proof (str_of_nat_nonempty (length a)). destruct (str_of_nat (length a)); cbn; congruence. }
  rewrite split1_c_digits by (apply colon_not_digit, str_of_nat_digits).
  unfold py_int_lim. assert (Nat.ltb int_max_str_digits (length (str_of_nat (length a))) = false) as -> by (apply Nat.ltb_ge; lia).
  rewrite py_int_str_of_nat. cbn [bind].
  rewrite slice_from_app, slice_to_app. rewrite IH by (cbn in Hf; auto; lia). reflexivity.
Qed.
Theorem lv_unpack_src_roundtrip l fuel clock :
  (length (lv_pack l) < fuel)%nat ->
  Forall (fun a => length (str_of_nat (length a)) <= int_max_str_digits)%nat l ->
  lv_unpack_src fuel (VStr (lv_pack l)) clock = Ok (VList (List.map VStr l)) /\ lv_unpack (lv_pack l) = Ok l.
Proof.
  intros Hf Hd. split; [|apply lv_roundtrip]. rewrite lv_unpack_src_is_loop, unpack_lim_pack; auto.
  pose proof (pack_length l). lia.
Qed.
