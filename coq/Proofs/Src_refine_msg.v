(* Proofs/Src_refine_msg.v — the helper behind the rules over a SET of parameters, Message.has_none_or_one_of, and the
   Message.__contains__ it calls through `c in self`, AS THEY READ IN /repo/src NOW (coq/Gen/Src_msg.v, emitted by
   harness/py2v.py on every run), are the hand-written Model/MsgRules.msg_has_none_or_one_of (the latched-flag loop
   none_or_one_go over the presence list) that the C11 set-rule theorems are about. *)
From Coq Require Import String ZArith List Bool Lia.
From Verif Require Import Lib.Base Lib.PyStr Lib.PyOps Model.Msg Model.MsgRules.
From Verif Require Import Gen.Src_msg.
Import ListNotations.
Open Scope string_scope.
Open Scope Z_scope.

(* the Python object a model message stands for: the attribute the translated methods read is the parameter dict *)
Definition inject_msg (m : msg) : pyval := VObj [(PS "_dict", VDict m)].

(* Message.__contains__(item): item in self._dict *)
Theorem contains_refines m k clock :
  Message_contains_src (inject_msg m) (VStr k) clock = Ok (VBool (has_key k m)).
Proof. reflexivity. Qed.

(* Message.has_none_or_one_of(claims).  The loop body is taken from the translation as it is found; by induction over
   the claims, from any state of the flag, the loop either falls through (the model's loop says true) or returns False
   (the model's loop says false) - whatever the nesting / order of the tests in the source. *)
Theorem has_none_or_one_of_refines m claims clock :
  Message_has_none_or_one_of_src (inject_msg m) (VList (List.map VStr claims)) clock
  = Ok (VBool (msg_has_none_or_one_of claims m)).
Proof.
  unfold Message_has_none_or_one_of_src, msg_has_none_or_one_of, has_none_or_one_of.
  cbn -[py_for List.map Message_contains_src inject_msg presence none_or_one_go].
  match goal with |- context [py_for _ ?body (VBool false)] =>
    assert (HL : forall l found,
               (none_or_one_go found (presence l m) = true /\
                exists f, py_for (List.map VStr l) body (VBool found) = Ok (inl (VBool f)))
               \/ (none_or_one_go found (presence l m) = false /\
                   py_for (List.map VStr l) body (VBool found) = Ok (inr (VBool false))))
  end.
  { clear. induction l as [|c r IH]; intros found; [left; split; [reflexivity|now exists found]|].
    cbn [List.map py_for presence none_or_one_go]. rewrite contains_refines. fold (presence r m).
    destruct (has_key c m); destruct found; cbn [bind py_truthy]; try apply IH.
    right. split; reflexivity. }
  destruct (HL claims false) as [[-> [f ->]] | [-> ->]]; reflexivity.
Qed.
