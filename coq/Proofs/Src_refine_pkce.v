(* Proofs/Src_refine_pkce.v — C15: the PKCE comparison of the token leg IS the source function.
   Gen/Src_pkce.v is emitted by harness/py2v.py from the current
     idpyoidc.server.oauth2.add_on.pkce.verify_code_challenge
   on every run.  The table CC_METHOD the function calls through is an environment parameter of the translation; it is
   instantiated here with the regenerated table Gen/PkceTables.v (server_cc_methods: every entry of the real CC_METHOD
   classified behaviourally by gen_tables.py) and the abstract hash HB of Model/Pkce.v. *)
From Coq Require Import String ZArith List Bool Lia.
From Verif Require Import Lib.Base Lib.PyStr Lib.PyOps Proofs.Src_tac.
From Verif Require Lib.PkceTy Gen.PkceTables Model.Pkce Gen.Src_pkce.
Import ListNotations.
Open Scope string_scope.
Open Scope Z_scope.

Section PkceSrc.
  Variable HB : N -> pystr -> pystr.

  (* CC_METHOD[m](v) *)
  Definition cc_method_env (m v : pyval) : res pyval :=
    match m, v with
    | VStr m, VStr v =>
        match assoc m PkceTables.server_cc_methods with
        | None => Err KeyError
        | Some k => t <- Pkce.tr HB k v ;; Ok (VStr t)
        end
    | _, _ => Unmodelled
    end.

  Theorem verify_code_challenge_refines v c m clock :
    Src_pkce.verify_code_challenge_src cc_method_env (VStr v) (VStr c) (VStr m) clock
    = match assoc m PkceTables.server_cc_methods with
      | None => Err KeyError
      | Some k => t <- Pkce.tr HB k v ;; Ok (VBool (str_eqb t c))
      end.
  Proof.
    unfold Src_pkce.verify_code_challenge_src, cc_method_env. cbn [bind].
    destruct (assoc m PkceTables.server_cc_methods) as [k|]; [|reflexivity].
    destruct (Pkce.tr HB k v) as [t| |]; try reflexivity. str_crunch.
  Qed.

  (* the model's token leg (stored challenge c, recorded method m, presented non-empty verifier v) decides exactly
     as post_token_parse does with the value the source function returns: refuse "PKCE check failed" iff it is false *)
  Theorem token_leg_is_source c m v tccm clock :
    v <> [] ->
    Pkce.token_leg HB (Some c, m) (Some v) tccm
    = b <- Src_pkce.verify_code_challenge_src cc_method_env (VStr v) (VStr c) (VStr m) clock ;;
      if py_truthy b then Ok tt else Err (Refused 4).
  Proof.
    intros Hv. rewrite verify_code_challenge_refines. unfold Pkce.token_leg. cbn [fst snd].
    destruct v as [|x v]; [congruence|]. cbn [Pkce.norm].
    destruct (assoc m PkceTables.server_cc_methods) as [k|]; [|reflexivity].
    destruct (Pkce.tr HB k (x :: v)) as [t| |]; reflexivity.
  Qed.
End PkceSrc.
