(* Proofs/Src_refine_reg.v — C19: the model's pick_id IS the source's random_client_id.
   Gen/Src_reg.v is emitted by harness/py2v.py from the current idpyoidc.server.oidc.registration.random_client_id on
   every run.  Successive results of rndstr() are the explicit supply `draws`; the source's `while client_id in
   reserved` has no bound, its translation (PyOps.py_redraw) recurses on the supply exactly as pick_id does and both end
   in OutOfFuel when it is exhausted.  reserved = cdb.keys(). *)
From Coq Require Import String ZArith List Bool Lia.
From Verif Require Import Lib.Base Lib.PyStr Lib.PyOps Proofs.Src_tac.
From Verif Require Model.Registration Gen.Src_reg.
Import ListNotations.
Open Scope string_scope.
Open Scope Z_scope.

Definition strs (l : list pystr) : pyval := VList (List.map VStr l).
Definition res_str (r : res pystr) : res pyval :=
  match r with Ok k => Ok (VStr k) | Err e => Err e | Unmodelled => Unmodelled end.

Lemma existsb_keys {V} s (d : list (pystr * V)) :
  existsb (pyval_eqb (VStr s)) (List.map VStr (List.map fst d)) = has_key s d.
Proof.
  unfold has_key. induction d as [|[k v] r IH]; [reflexivity|]. cbn [List.map existsb fst assoc].
  change (pyval_eqb (VStr s) (VStr k)) with (str_eqb s k). destruct (str_eqb s k); [reflexivity|exact IH].
Qed.

(* the redraw loop, whatever its test looks like, as long as the test is "x in reserved" *)
Lemma redraw_pick (cdb : list (pystr * list (pystr * pyval))) (test : pyval -> res pyval) :
  (forall s, test (VStr s) = Ok (VBool (has_key s cdb))) ->
  forall ids x,
  (p <- py_redraw test (VStr x) (List.map VStr ids) ;; Ok (fst p)) = res_str (Registration.pick_id (x :: ids) cdb).
Proof.
  intros Ht. induction ids as [|i r IH]; intros x; cbn [List.map py_redraw Registration.pick_id]; rewrite Ht; cbn [bind py_truthy].
  - destruct (has_key x cdb); reflexivity.
  - destruct (has_key x cdb); [apply IH|reflexivity].
Qed.

Theorem random_client_id_refines ids cdb len clock :
  Src_reg.random_client_id_src (List.map VStr ids) len (strs (List.map fst cdb)) clock
  = res_str (Registration.pick_id ids cdb).
Proof.
  unfold Src_reg.random_client_id_src. destruct ids as [|x ids]; [reflexivity|].
  cbn [List.map py_draw bind fst snd].
  destruct cdb as [|kv cdb0]; [reflexivity|]. set (c := kv :: cdb0).
  assert (Hne : py_truthy (strs (List.map fst c)) = true) by reflexivity. unfold strs in *.
  cbn -[py_redraw List.map Registration.pick_id py_truthy]. rewrite Hne.
  apply (redraw_pick c). intros s. cbn [bind py_in]. now rewrite existsb_keys.
Qed.
