(* Proofs/Src_refine_scopes.v — C05: the scope filter of the model IS the source's Scopes.filter_scopes /
   Scopes.get_allowed_scopes.  Gen/Src_scopes.v is emitted by harness/py2v.py from the current idpyoidc.server.scopes
   on every run.  self.upstream_get("attribute", "cdb") is an environment function of the Scopes object: the injected
   object carries the client database it returns (PyOps.py_call_env). *)
From Coq Require Import String ZArith List Bool Lia.
From Verif Require Import Lib.Base Lib.PyStr Lib.PyOps Proofs.Src_tac.
From Verif Require Model.Session Gen.Src_scopes.
Import ListNotations.
Open Scope string_scope.
Open Scope Z_scope.

Definition strs (l : list pystr) : pyval := VList (List.map VStr l).

(* the client's registration as the cdb holds it: its id and, when configured, its allowed_scopes *)
Definition client_dict (cid : pystr) (al : option (list pystr)) : pyval :=
  VDict ((PS "client_id", VStr cid) :: match al with Some a => [(PS "allowed_scopes", strs a)] | None => [] end).
Definition inject_cdb (cdb : list (pystr * option (list pystr))) : list (pystr * pyval) :=
  List.map (fun kv => (fst kv, client_dict (fst kv) (snd kv))) cdb.
(* a Scopes instance: its own allowed_scopes (the keys of the provider's scope -> claims map) and the cdb it reaches
   through upstream_get("attribute", "cdb") *)
Definition inject_scopes (pa : list pystr) (cdb : list (pystr * option (list pystr))) : pyval :=
  VObj [ (PS "allowed_scopes", strs pa);
         (PS "upstream_get", VDict [(PS "attribute", VDict [(PS "cdb", VDict (inject_cdb cdb))])]) ].

Definition allowed_for (pa : list pystr) (cdb : list (pystr * option (list pystr))) (cid : pystr) : list pystr :=
  match cid with
  | [] => pa
  | _ => match assoc cid cdb with Some (Some a) => a | _ => pa end
  end.

Lemma assoc_inject_cdb cid cdb :
  assoc cid (inject_cdb cdb) = option_map (fun al => client_dict cid al) (assoc cid cdb).
Proof.
  induction cdb as [|[k al] r IH]; [reflexivity|]. cbn [inject_cdb List.map assoc fst snd].
  destruct (str_eqb cid k) eqn:E; [|exact IH]. apply str_eqb_eq in E. subst. reflexivity.
Qed.

Theorem get_allowed_scopes_refines pa cdb cid clock :
  Src_scopes.Scopes_get_allowed_scopes_src (inject_scopes pa cdb) (VStr cid) clock = Ok (strs (allowed_for pa cdb cid)).
Proof.
  unfold Src_scopes.Scopes_get_allowed_scopes_src, inject_scopes, allowed_for.
  destruct cid as [|x cid]; [reflexivity|].
  cbn -[inject_cdb]. rewrite !assoc_inject_cdb.
  destruct (assoc (x :: cid) cdb) as [[a|]|]; cbn; reflexivity.
Qed.
Theorem get_allowed_scopes_refines_none pa cdb clock :
  Src_scopes.Scopes_get_allowed_scopes_src (inject_scopes pa cdb) VNone clock = Ok (strs pa).
Proof. reflexivity. Qed.

Lemma existsb_strs s l : existsb (pyval_eqb (VStr s)) (List.map VStr l) = str_in s l.
Proof. induction l as [|x r IH]; [reflexivity|]. cbn [existsb List.map str_in]. rewrite IH. reflexivity. Qed.
Lemma listcomp_filter (p : pystr -> bool) (test elt : pyval -> res pyval) l :
  (forall s, test (VStr s) = Ok (VBool (p s))) -> (forall s, elt (VStr s) = Ok (VStr s)) ->
  py_listcomp (List.map VStr l) test elt = Ok (List.map VStr (List.filter p l)).
Proof.
  intros Ht He. induction l as [|x r IH]; [reflexivity|]. cbn [List.map py_listcomp List.filter].
  rewrite Ht. cbn [bind py_truthy]. destruct (p x); [rewrite He, IH; reflexivity|exact IH].
Qed.

(* for every configuration whose c_allowed is what the source's get_allowed_scopes answers, the model's filter_scopes
   is the source's Scopes.filter_scopes *)
Theorem filter_scopes_refines c pa cdb sc cl clock :
  (forall cl, Session.c_allowed c cl = allowed_for pa cdb cl) ->
  Src_scopes.Scopes_filter_scopes_src (inject_scopes pa cdb) (strs sc) (VStr cl) clock
  = Ok (strs (Session.filter_scopes c cl sc)).
Proof.
  intros Hc. unfold Src_scopes.Scopes_filter_scopes_src, Session.filter_scopes. rewrite Hc.
  cbn [bind]. rewrite get_allowed_scopes_refines. unfold strs. cbn [bind py_iter].
  rewrite (listcomp_filter (fun s => str_in s (allowed_for pa cdb cl))); [reflexivity| |reflexivity].
  intros s. cbn [bind py_in]. now rewrite existsb_strs.
Qed.
