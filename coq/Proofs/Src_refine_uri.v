(* Proofs/Src_refine_uri.v — idpyoidc.util.split_uri (how dynamic registration stores a redirect / post-logout URI: base
   + query dict) AS IT READS IN /repo/src NOW (coq/Gen/Src_uri.v, emitted by harness/py2v.py on every run) is the
   hand-written Model/RegUri.split_uri.  The three urllib.parse functions it calls are environment parameters of the
   translation; they are instantiated here with the hand-written urllib model of Model/RegUri.v (urlsplit, urlunsplit,
   parse_qs: validated against CPython on every run by harness/drv_C19.py), so what is proved is the GLUE: which parts
   are dropped (fragment, query), what is re-assembled, when the second component is None. *)
From Coq Require Import String ZArith List Bool.
From Verif Require Import Lib.Base Lib.PyStr Lib.PyOps Model.RegUri.
From Verif Require Import Gen.Src_uri.
Import ListNotations.
Open Scope string_scope.

Definition lift_pv {A} (r : res A) (f : A -> pyval) : res pyval :=
  match r with Ok a => Ok (f a) | Err e => Err e | Unmodelled => Unmodelled end.
(* urllib's SplitResult (a named tuple) as the object of its five fields, in field order *)
Definition inject_split (p : split_result) : pyval :=
  VObj [(PS "scheme", VStr (u_scheme p)); (PS "netloc", VStr (u_netloc p)); (PS "path", VStr (u_path p));
        (PS "query", VStr (u_query p)); (PS "fragment", VStr (u_fragment p))].
(* the dict parse_qs returns: name -> list of values, in first-occurrence order *)
Definition inject_qdict (d : qdict) : pyval := VDict (List.map (fun kv => (fst kv, VList (List.map VStr (snd kv)))) d).
Definition str_field (o : pyval) (k : pystr) : res pystr :=
  v <- py_getattr o k ;; match v with VStr s => Ok s | _ => Unmodelled end.
Definition env_urlsplit (v : pyval) : res pyval :=
  match v with VStr u => lift_pv (urlsplit u) inject_split | _ => Unmodelled end.
Definition env_urlunsplit (o : pyval) : res pyval :=
  s <- str_field o (PS "scheme") ;; n <- str_field o (PS "netloc") ;; p <- str_field o (PS "path") ;;
  q <- str_field o (PS "query") ;; f <- str_field o (PS "fragment") ;; Ok (VStr (urlunsplit s n p q f)).
Definition env_parse_qs (v : pyval) : res pyval :=
  match v with VStr q => lift_pv (parse_qs q) inject_qdict | _ => Unmodelled end.

Definition inject_split_uri (bq : pystr * option qdict) : pyval :=
  VList [VStr (fst bq); match snd bq with Some d => inject_qdict d | None => VNone end].

Theorem split_uri_refines uri clock :
  split_uri_src env_parse_qs env_urlsplit env_urlunsplit (VStr uri) clock = lift_pv (split_uri uri) inject_split_uri.
Proof.
  unfold split_uri_src, split_uri, env_urlsplit. cbn [bind].
  destruct (urlsplit uri) as [[s n p q f]| |]; cbn [lift_pv bind]; try reflexivity.
  destruct f as [|fc fr]; destruct q as [|qc qr]; cbn -[urlunsplit parse_qs]; try reflexivity;
    destruct (parse_qs (qc :: qr)); reflexivity.
Qed.
