(* Proofs/Src_tac.v — tactics shared by the per-group refinement files Proofs/Src_refine_<group>.v (translated source
   function = hand-written model function).  Same proof style as Proofs/Src_refine.v: unfold the translation completely,
   split the finitely many shapes of the injected arguments, split every comparison met on the way with its
   specification; what remains are equations between closed terms (reflexivity) or contradictory hypotheses (lia /
   congruence).  Nothing depends on the order of the tests in the source, on nesting vs. `and`, on `==` vs. `!=` with
   swapped branches, or on local names.
   The per-group files are separate from Src_refine.v on purpose: a source change in one group must break the check of
   the property that group belongs to, not the checks of every property that imports some refinement lemma. *)
From Coq Require Import String ZArith List Bool Lia.
From Verif Require Import Lib.Base Lib.PyStr Lib.PyOps.
Import ListNotations.
Open Scope Z_scope.

Ltac zstep :=
  match goal with
  | |- context [Z.gtb ?a ?b] => rewrite (Z.gtb_ltb a b)
  | |- context [Z.geb ?a ?b] => rewrite (Z.geb_leb a b)
  | |- context [Z.eqb ?a ?b] => destruct (Z.eqb_spec a b)
  | |- context [Z.ltb ?a ?b] => destruct (Z.ltb_spec a b)
  | |- context [Z.leb ?a ?b] => destruct (Z.leb_spec a b)
  end.
Ltac src_crunch :=
  repeat (cbn -[Z.eqb Z.gtb Z.ltb Z.leb Z.geb]; zstep); cbn -[Z.eqb Z.gtb Z.ltb Z.leb Z.geb];
  try reflexivity; try (exfalso; lia).

(* string comparisons: every str_eqb a b in the goal becomes a = b / a <> b *)
Ltac str_split :=
  repeat match goal with
  | |- context [str_eqb ?a ?b] =>
      let E := fresh "E" in destruct (str_eqb a b) eqn:E; [apply str_eqb_eq in E|apply str_eqb_neq in E]
  end.
Ltac str_crunch := cbn; str_split; cbn; try reflexivity; try congruence.
