(* Proofs/Sub_proofs.v — subject identifiers follow the subject type. *)
From Coq Require Import Lia List Bool NArith String.
Open Scope string_scope.
From Verif Require Import Lib.Base Lib.PyStr Model.Sub.
Import ListNotations.

Section SubProofs.
  Variable H : pystr -> pystr.
  Variable host_of : pystr -> pystr.
  Hypothesis H_inj : forall a b, H a = H b -> a = b.       (* SHA-256 idealised as collision free *)

  (* STABLE: the subject is a function of (type, user, salt, sector) only — two logins of the same user at
     the same client (same registration, same redirect_uri) give the same non-ephemeral subject *)
  Theorem stable r redirect uid salt n1 n2 :
    subtype_of r <> Ephemeral ->
    grant_sub H host_of r redirect uid salt n1 = grant_sub H host_of r redirect uid salt n2.
  Proof. unfold grant_sub, sub_of. destruct (subtype_of r); auto. congruence. Qed.

  (* PUBLIC: equal across clients, whatever their sectors *)
  Theorem public_across_clients r1 r2 rd1 rd2 uid salt n1 n2 :
    subtype_of r1 = Public -> subtype_of r2 = Public ->
    grant_sub H host_of r1 rd1 uid salt n1 = grant_sub H host_of r2 rd2 uid salt n2.
  Proof. unfold grant_sub. intros -> ->. reflexivity. Qed.

  (* PAIRWISE: for one user, equal exactly when the sectors are equal *)
  Theorem pairwise_iff_sector r1 r2 rd1 rd2 uid salt n1 n2 :
    subtype_of r1 = Pairwise -> subtype_of r2 = Pairwise ->
    (grant_sub H host_of r1 rd1 uid salt n1 = grant_sub H host_of r2 rd2 uid salt n2
     <-> host_of (sector_source r1 rd1) = host_of (sector_source r2 rd2)).
  Proof.
    unfold grant_sub. intros -> ->. cbn [sub_of]. split.
    - intros E. inversion E as [E1]. apply H_inj in E1. apply app_inv_head in E1. now apply app_inv_tail in E1.
    - intros ->. reflexivity.
  Qed.

  (* EPHEMERAL: a fresh value per grant *)
  Theorem ephemeral_distinct r1 r2 rd1 rd2 uid1 uid2 salt n1 n2 :
    subtype_of r1 = Ephemeral -> subtype_of r2 = Ephemeral -> n1 <> n2 ->
    grant_sub H host_of r1 rd1 uid1 salt n1 <> grant_sub H host_of r2 rd2 uid2 salt n2.
  Proof. unfold grant_sub. intros -> -> N E. inversion E. contradiction. Qed.

  (* different users never share a public subject *)
  Theorem public_distinct_users r1 r2 rd1 rd2 u1 u2 salt n1 n2 :
    subtype_of r1 = Public -> subtype_of r2 = Public -> u1 <> u2 ->
    grant_sub H host_of r1 rd1 u1 salt n1 <> grant_sub H host_of r2 rd2 u2 salt n2.
  Proof.
    unfold grant_sub. intros -> -> N E. inversion E as [E1]. apply H_inj in E1. apply app_inv_tail in E1. contradiction.
  Qed.
End SubProofs.

(* the registered subject type decides: the type comes from the client record and nothing else *)
Theorem subtype_from_registration r :
  subtype_of r = match r_subject_type r with
                 | None | Some [] => Public
                 | Some t => if str_eqb t (PS "public") then Public else if str_eqb t (PS "pairwise") then Pairwise
                             else if str_eqb t (PS "ephemeral") then Ephemeral else UnknownType
                 end.
Proof. unfold subtype_of, truthy. destruct (r_subject_type r) as [[|x l]|]; reflexivity. Qed.

(* OPAQUE: a hexdigest consists of hex digits only, so a user identifier containing any other character does
   not occur in it *)
Lemma hexchar_hex n : (n < 16)%N -> is_hex (hexchar n) = true.
Proof.
  intros Hn. unfold hexchar, is_hex. destruct (n <? 10)%N eqn:E.
  - apply N.ltb_lt in E. apply orb_true_iff. left. apply andb_true_iff. split; apply N.leb_le; lia.
  - apply N.ltb_ge in E. apply orb_true_iff. right. apply andb_true_iff. split; apply N.leb_le; lia.
Qed.
Lemma hex_all bs : Forall (fun b => (b < 256)%N) bs -> forallb is_hex (hex_of_bytes bs) = true.
Proof.
  induction 1 as [|b r Hb _ IH]; cbn [hex_of_bytes forallb]; auto.
  rewrite !hexchar_hex, IH; auto.
  - apply N.mod_lt. lia.
  - apply N.div_lt_upper_bound; lia.
Qed.
Lemma starts_with_hex p s : starts_with p s = true -> forallb is_hex s = true -> forallb is_hex p = true.
Proof.
  revert s. induction p as [|x p IH]; intros [|y s]; cbn; auto; try discriminate.
  intros Hs Hh. apply andb_true_iff in Hs as [E Hs]. apply andb_true_iff in Hh as [Hy Hh]. apply N.eqb_eq in E. subst y.
  rewrite Hy. cbn. eapply IH; eauto.
Qed.
Theorem opaque uid bs :
  Forall (fun b => (b < 256)%N) bs -> forallb is_hex uid = false -> contains uid (hex_of_bytes bs) = false.
Proof.
  intros Hb Hu. pose proof (hex_all bs Hb) as Hh. induction (hex_of_bytes bs) as [|c r IH]; cbn [contains].
  - destruct uid; [discriminate|reflexivity].
  - cbn [forallb] in Hh. apply andb_true_iff in Hh as [Hc Hr].
    destruct (starts_with uid (c :: r)) eqn:E.
    + exfalso. assert (forallb is_hex uid = true) by (eapply starts_with_hex; eauto; cbn; now rewrite Hc, Hr). congruence.
    + cbn. now apply IH.
Qed.

(* dynamically registered clients: the sector is the host of the sector_identifier_uri the client asked for *)
Lemma registered_sector_source t u rd : u <> [] -> sector_source (registered_record t (Some u)) rd = u.
Proof. intros N. unfold sector_source, registered_record. cbn. destruct u; [congruence|reflexivity]. Qed.
Lemma registered_subtype t s : subtype_of (registered_record t s) = subtype_of (mkCreg t None None).
Proof. reflexivity. Qed.
Theorem registered_pairwise_iff (H : pystr -> pystr) (host_of : pystr -> pystr) :
  (forall a b, H a = H b -> a = b) ->
  forall u1 u2 rd1 rd2 uid salt n1 n2, u1 <> [] -> u2 <> [] ->
  (grant_sub H host_of (registered_record (Some (PS "pairwise")) (Some u1)) rd1 uid salt n1
   = grant_sub H host_of (registered_record (Some (PS "pairwise")) (Some u2)) rd2 uid salt n2
   <-> host_of u1 = host_of u2).
Proof.
  intros Hinj u1 u2 rd1 rd2 uid salt n1 n2 N1 N2.
  rewrite (pairwise_iff_sector H host_of Hinj) by reflexivity.
  now rewrite !registered_sector_source.
Qed.
Theorem registered_pairwise_not_public (H : pystr -> pystr) (host_of : pystr -> pystr) :
  (forall a b, H a = H b -> a = b) ->
  forall u rd rd' r' uid salt n n', u <> [] -> host_of u <> [] -> subtype_of r' = Public ->
  grant_sub H host_of (registered_record (Some (PS "pairwise")) (Some u)) rd uid salt n <> grant_sub H host_of r' rd' uid salt n'.
Proof.
  intros Hinj u rd rd' r' uid salt n n' N Hh Hp E. unfold grant_sub in E. rewrite Hp in E.
  change (subtype_of (registered_record (Some (PS "pairwise")) (Some u))) with Pairwise in E. cbn [sub_of] in E.
  inversion E as [E']. apply Hinj in E'. rewrite registered_sector_source in E' by auto.
  apply app_inv_head in E'. destruct (host_of u) as [|c r]; [congruence|].
  apply (f_equal (@length BinNums.N)) in E'. rewrite app_length in E'. cbn in E'. lia.
Qed.
