(* Proofs/Sub_proofs.v — subject identifiers follow the subject type. *)
From Coq Require Import Lia List Bool NArith String.
Open Scope string_scope.
From Verif Require Import Lib.Base Lib.PyStr Model.Sub.
Import ListNotations.

Section SubProofs.
  Variable H : pystr -> pystr.
  Variable host_of : pystr -> pystr.
  Hypothesis H_inj : forall a b, H a = H b -> a = b.       (* SHA-256 idealised as collision free *)

  (* STABLE: the subject is a function of (type, user, salt, sector) only — two logins of the same user at
     the same client (same registration, same redirect_uri) give the same non-ephemeral subject *)
  Theorem stable r redirect uid salt n1 n2 :
    subtype_of r <> Ephemeral ->
    grant_sub H host_of r redirect uid salt n1 = grant_sub H host_of r redirect uid salt n2.
  Proof. unfold grant_sub, sub_of. destruct (subtype_of r); auto. congruence. Qed.

  (* PUBLIC: equal across clients, whatever their sectors *)
  Theorem public_across_clients r1 r2 rd1 rd2 uid salt n1 n2 :
    subtype_of r1 = Public -> subtype_of r2 = Public ->
    grant_sub H host_of r1 rd1 uid salt n1 = grant_sub H host_of r2 rd2 uid salt n2.
  Proof. unfold grant_sub. intros -> ->. reflexivity. Qed.

  (* PAIRWISE: for one user, equal exactly when the sectors are equal *)
  Theorem pairwise_iff_sector r1 r2 rd1 rd2 uid salt n1 n2 :
    subtype_of r1 = Pairwise -> subtype_of r2 = Pairwise ->
    (grant_sub H host_of r1 rd1 uid salt n1 = grant_sub H host_of r2 rd2 uid salt n2
     <-> host_of (sector_source r1 rd1) = host_of (sector_source r2 rd2)).
  Proof.
    unfold grant_sub. intros -> ->. cbn [sub_of]. split.
    - intros E. inversion E as [E1]. apply H_inj in E1. apply app_inv_head in E1. now apply app_inv_tail in E1.
    - intros ->. reflexivity.
  Qed.

  (* EPHEMERAL: a fresh value per grant *)
  Theorem ephemeral_distinct r1 r2 rd1 rd2 uid1 uid2 salt n1 n2 :
    subtype_of r1 = Ephemeral -> subtype_of r2 = Ephemeral -> n1 <> n2 ->
    grant_sub H host_of r1 rd1 uid1 salt n1 <> grant_sub H host_of r2 rd2 uid2 salt n2.
  Proof. unfold grant_sub. intros -> -> N E. inversion E. contradiction. Qed.

  (* different users never share a public subject *)
  Theorem public_distinct_users r1 r2 rd1 rd2 u1 u2 salt n1 n2 :
    subtype_of r1 = Public -> subtype_of r2 = Public -> u1 <> u2 ->
    grant_sub H host_of r1 rd1 u1 salt n1 <> grant_sub H host_of r2 rd2 u2 salt n2.
  Proof.
    unfold grant_sub. intros -> -> N E. inversion E as [E1]. apply H_inj in E1. apply app_inv_tail in E1. contradiction.
  Qed.
End SubProofs.

(* the registered subject type decides: the type comes from the client record and nothing else *)
Theorem subtype_from_registration r :
  subtype_of r = match r_subject_type r with
                 | None | Some [] => Public
                 | Some t => if str_eqb t (PS "public") then Public else if str_eqb t (PS "pairwise") then Pairwise
                             else if str_eqb t (PS "ephemeral") then Ephemeral else UnknownType
                 end.
Proof. unfold subtype_of, truthy. destruct (r_subject_type r) as [[|x l]|]; reflexivity. Qed.

(* OPAQUE: a hexdigest consists of hex digits only, so a user identifier containing any other character does
   not occur in it *)
Lemma hexchar_hex n : (n < 16)%N -> is_hex (hexchar n) = true.
Proof.
  intros Hn. unfold hexchar, is_hex. destruct (n <? 10)%N eqn:E.
  - apply N.ltb_lt in E. apply orb_true_iff. left. apply andb_true_iff. split; apply N.leb_le; lia.
  - apply N.ltb_ge in E. apply orb_true_iff. right. apply andb_true_iff. split; apply N.leb_le; lia.
Qed.
Lemma hex_all bs : Forall (fun b => (b < 256)%N) bs -> forallb is_hex (hex_of_bytes bs) = true.
Proof.
  induction 1 as [|b r Hb _ IH]; cbn [hex_of_bytes forallb]; auto.
  rewrite !hexchar_hex, IH; auto.
  - apply N.mod_lt. lia.
  - apply N.div_lt_upper_bound; lia.
Qed.
Lemma starts_with_hex p s : starts_with p s = true -> forallb is_hex s = true -> forallb is_hex p = true.
Proof.
  revert s. induction p as [|x p IH]; intros [|y s]; cbn; auto; try discriminate.
  intros Hs Hh. apply andb_true_iff in Hs as [E Hs]. apply andb_true_iff in Hh as [Hy Hh]. apply N.eqb_eq in E. subst y.
  rewrite Hy. cbn. eapply IH; eauto.
Qed.
Theorem opaque uid bs :
  Forall (fun b => (b < 256)%N) bs -> forallb is_hex uid = false -> contains uid (hex_of_bytes bs) = false.
Proof.
  intros Hb Hu. pose proof (hex_all bs Hb) as Hh. induction (hex_of_bytes bs) as [|c r IH]; cbn [contains].
  - destruct uid; [discriminate|reflexivity].
  - cbn [forallb] in Hh. apply andb_true_iff in Hh as [Hc Hr].
    destruct (starts_with uid (c :: r)) eqn:E.
    + exfalso. assert (forallb is_hex uid = true) by (eapply starts_with_hex; eauto; cbn; now rewrite Hc, Hr). congruence.
    + cbn. now apply IH.
Qed.

(* dynamically registered clients: the sector is the host of the sector_identifier_uri the client asked for *)
Lemma registered_sector_source t u rd : u <> [] -> sector_source (registered_record t (Some u)) rd = u.
Proof. intros N. unfold sector_source, registered_record. cbn. destruct u; [congruence|reflexivity]. Qed.
Lemma registered_subtype t s : subtype_of (registered_record t s) = subtype_of (mkCreg t None None).
Proof. reflexivity. Qed.
Theorem registered_pairwise_iff (H : pystr -> pystr) (host_of : pystr -> pystr) :
  (forall a b, H a = H b -> a = b) ->
  forall u1 u2 rd1 rd2 uid salt n1 n2, u1 <> [] -> u2 <> [] ->
  (grant_sub H host_of (registered_record (Some (PS "pairwise")) (Some u1)) rd1 uid salt n1
   = grant_sub H host_of (registered_record (Some (PS "pairwise")) (Some u2)) rd2 uid salt n2
   <-> host_of u1 = host_of u2).
Proof.
  intros Hinj u1 u2 rd1 rd2 uid salt n1 n2 N1 N2.
  rewrite (pairwise_iff_sector H host_of Hinj) by reflexivity.
  now rewrite !registered_sector_source.
Qed.
Theorem registered_pairwise_not_public (H : pystr -> pystr) (host_of : pystr -> pystr) :
  (forall a b, H a = H b -> a = b) ->
  forall u rd rd' r' uid salt n n', u <> [] -> host_of u <> [] -> subtype_of r' = Public ->
  grant_sub H host_of (registered_record (Some (PS "pairwise")) (Some u)) rd uid salt n <> grant_sub H host_of r' rd' uid salt n'.
Proof.
  intros Hinj u rd rd' r' uid salt n n' N Hh Hp E. unfold grant_sub in E. rewrite Hp in E.
  change (subtype_of (registered_record (Some (PS "pairwise")) (Some u))) with Pairwise in E. cbn [sub_of] in E.
  inversion E as [E']. apply Hinj in E'. rewrite registered_sector_source in E' by auto.
  apply app_inv_head in E'. destruct (host_of u) as [|c r]; [congruence|].
  apply (f_equal (@length BinNums.N)) in E'. rewrite app_length in E'. cbn in E'. lia.
Qed.

(* ==== configured subject minters (session_params.sub_func) ==== *)
From Coq Require Import Permutation.

(* the loop of do_sub_func gives every key the minter its own entry names *)
Lemma load_lookup conf : forall acc k,
  assoc k (load_sub_func conf acc) = match configured conf k with Some m => Some m | None => assoc k acc end.
Proof.
  induction conf as [|[k' e] r IH]; intros acc k; cbn [load_sub_func configured]; auto.
  destruct e as [m|]; rewrite IH; destruct (configured r k); auto.
  - destruct (str_eqb k k') eqn:E.
    + apply str_eqb_eq in E. subst k'. apply assoc_aset_same.
    + apply assoc_aset_other. apply str_eqb_neq in E. congruence.
  - destruct (str_eqb k k'); reflexivity.
Qed.
Lemma fill_default_lookup k0 m tbl k :
  assoc k (fill_default k0 m tbl) = match assoc k tbl with Some x => Some x | None => if str_eqb k k0 then Some m else None end.
Proof.
  unfold fill_default, has_key. destruct (assoc k0 tbl) eqn:A.
  - destruct (assoc k tbl) eqn:B; auto. destruct (str_eqb k k0) eqn:E; auto. apply str_eqb_eq in E. congruence.
  - destruct (str_eqb k k0) eqn:E.
    + apply str_eqb_eq in E. subst k0. rewrite assoc_aset_same, A. reflexivity.
    + rewrite assoc_aset_other by (apply str_eqb_neq in E; congruence). destruct (assoc k tbl); reflexivity.
Qed.
(* THE TABLE: after start-up, key k is served by the minter configured for k, else by the built-in one of that name *)
Theorem table_lookup conf k :
  assoc k (minter_table conf) = match configured conf k with Some m => Some m | None => default_minter k end.
Proof.
  unfold minter_table. rewrite !fill_default_lookup, load_lookup. cbn [assoc].
  destruct (configured conf k); [reflexivity|]. unfold default_minter.
  destruct (str_eqb k (PS "public")); [reflexivity|]. destruct (str_eqb k (PS "pairwise")); reflexivity.
Qed.

Lemma default_is_sub_of (H : pystr -> pystr) r uid salt sector n :
  match default_minter (type_key_of r) with Some m => mint H m uid salt sector n | None => SKeyError end
  = sub_of H (subtype_of r) uid salt sector n.
Proof.
  unfold type_key_of, subtype_of, default_minter. destruct (truthy (r_subject_type r)) as [t|]; [|reflexivity].
  destruct (str_eqb t (PS "public")); [reflexivity|]. destruct (str_eqb t (PS "pairwise")); [reflexivity|].
  destruct (str_eqb t (PS "ephemeral")); reflexivity.
Qed.

Section SubConfProofs.
  Variable H : pystr -> pystr.
  Variable host_of : pystr -> pystr.

  (* a client whose registered subject type has a configured minter gets exactly what that minter produces *)
  Theorem configured_serves conf r rd uid salt n m :
    configured conf (type_key_of r) = Some m ->
    grant_sub_conf H host_of conf r rd uid salt n = mint H m uid salt (host_of (sector_source r rd)) n.
  Proof. intros C. unfold grant_sub_conf, table_sub. now rewrite table_lookup, C. Qed.

  (* ... and the built-in behaviour (grant_sub, about which the theorems above speak) when none is configured for its type *)
  Theorem unconfigured_default conf r rd uid salt n :
    configured conf (type_key_of r) = None ->
    grant_sub_conf H host_of conf r rd uid salt n = grant_sub H host_of r rd uid salt n.
  Proof. intros C. unfold grant_sub_conf, table_sub, grant_sub. rewrite table_lookup, C. apply default_is_sub_of. Qed.
  Corollary nothing_configured r rd uid salt n :
    grant_sub_conf H host_of [] r rd uid salt n = grant_sub H host_of r rd uid salt n.
  Proof. now apply unconfigured_default. Qed.

  (* entries for other subject types are irrelevant *)
  Theorem only_own_entry_matters conf conf' r rd uid salt n :
    configured conf (type_key_of r) = configured conf' (type_key_of r) ->
    grant_sub_conf H host_of conf r rd uid salt n = grant_sub_conf H host_of conf' r rd uid salt n.
  Proof. intros C. unfold grant_sub_conf, table_sub. now rewrite !table_lookup, C. Qed.
End SubConfProofs.

(* the order in which the configuration lists the subject types is irrelevant *)
Lemma configured_in conf k m : NoDup (map fst conf) -> (configured conf k = Some m <-> In (k, EMinter m) conf).
Proof.
  revert m. induction conf as [|[k' e] r IH]; cbn [configured map fst In]; intros m ND.
  - split; [discriminate|tauto].
  - inversion ND as [|? ? Hn ND']; subst. assert (IH' := fun m => IH m ND'). clear IH. rename IH' into IH. split.
    + destruct (configured r k) as [m0|] eqn:C.
      * intros E. inversion E; subst. right. now apply IH.
      * destruct (str_eqb k k') eqn:E; [|discriminate]. apply str_eqb_eq in E. subst k'.
        destruct e; [|discriminate]. intros E. inversion E; subst. now left.
    + intros [E|I].
      * inversion E; subst. destruct (configured r k) as [m0|] eqn:C.
        -- exfalso. apply Hn. assert (In (k, EMinter m0) r) as I by now apply IH.
           apply (in_map fst) in I. exact I.
        -- now rewrite str_eqb_refl.
      * apply IH in I. now rewrite I.
Qed.
Theorem configured_order_independent conf conf' k :
  NoDup (map fst conf) -> Permutation conf conf' -> configured conf k = configured conf' k.
Proof.
  intros ND P.
  assert (ND' : NoDup (map fst conf')) by (eapply Permutation_NoDup; [apply Permutation_map; exact P|exact ND]).
  destruct (configured conf k) as [m|] eqn:A; destruct (configured conf' k) as [m'|] eqn:B; auto.
  - apply (configured_in _ _ _ ND) in A. apply (Permutation_in _ P) in A. apply (configured_in _ _ _ ND') in A. congruence.
  - apply (configured_in _ _ _ ND) in A. apply (Permutation_in _ P) in A. apply (configured_in _ _ _ ND') in A. congruence.
  - apply (configured_in _ _ _ ND') in B. apply (Permutation_in _ (Permutation_sym P)) in B. apply (configured_in _ _ _ ND) in B. congruence.
Qed.
Theorem order_independent (H : pystr -> pystr) (host_of : pystr -> pystr) conf conf' r rd uid salt n :
  NoDup (map fst conf) -> Permutation conf conf' ->
  grant_sub_conf H host_of conf r rd uid salt n = grant_sub_conf H host_of conf' r rd uid salt n.
Proof. intros ND P. apply only_own_entry_matters. now apply configured_order_independent. Qed.

(* THE TYPE RULES UNDER A CONFIGURATION: a minter for "public" that does not look at the sector (PublicID, public_id, ...) gives
   one sub across clients; a minter for "pairwise" that hashes the sector (PairWiseID, pairwise_id, ...) separates exactly
   the sectors; a hashing minter separates users; only a fresh-value minter makes the sub depend on the grant *)
Section SubConfRules.
  Variable H : pystr -> pystr.
  Variable host_of : pystr -> pystr.
  Hypothesis H_inj : forall a b, H a = H b -> a = b.

  Theorem conf_public_across_clients conf p own r1 r2 rd1 rd2 uid salt n1 n2 :
    configured conf (PS "public") = Some (MHash p false own) ->
    type_key_of r1 = PS "public" -> type_key_of r2 = PS "public" ->
    grant_sub_conf H host_of conf r1 rd1 uid salt n1 = grant_sub_conf H host_of conf r2 rd2 uid salt n2.
  Proof.
    intros C K1 K2. rewrite (configured_serves H host_of conf r1 rd1 uid salt n1 (MHash p false own)) by now rewrite K1.
    rewrite (configured_serves H host_of conf r2 rd2 uid salt n2 (MHash p false own)) by now rewrite K2. reflexivity.
  Qed.

  Theorem conf_pairwise_iff_sector conf p own r1 r2 rd1 rd2 uid salt n1 n2 :
    configured conf (PS "pairwise") = Some (MHash p true own) ->
    type_key_of r1 = PS "pairwise" -> type_key_of r2 = PS "pairwise" ->
    (grant_sub_conf H host_of conf r1 rd1 uid salt n1 = grant_sub_conf H host_of conf r2 rd2 uid salt n2
     <-> host_of (sector_source r1 rd1) = host_of (sector_source r2 rd2)).
  Proof.
    intros C K1 K2. rewrite (configured_serves H host_of conf r1 rd1 uid salt n1 (MHash p true own)) by now rewrite K1.
    rewrite (configured_serves H host_of conf r2 rd2 uid salt n2 (MHash p true own)) by now rewrite K2.
    cbn [mint]. split.
    - intros E. inversion E as [E1]. apply H_inj in E1. apply app_inv_head in E1. apply app_inv_head in E1. now apply app_inv_tail in E1.
    - intros ->. reflexivity.
  Qed.

  Theorem conf_distinct_users conf p us own r rd u1 u2 salt n1 n2 :
    configured conf (type_key_of r) = Some (MHash p us own) -> u1 <> u2 ->
    grant_sub_conf H host_of conf r rd u1 salt n1 <> grant_sub_conf H host_of conf r rd u2 salt n2.
  Proof.
    intros C N. rewrite !(configured_serves H host_of conf r rd _ salt _ (MHash p us own)) by assumption.
    cbn [mint]. intros E. inversion E as [E1]. apply H_inj in E1. apply app_inv_head in E1. now apply app_inv_tail in E1.
  Qed.

  Theorem conf_stable conf r rd uid salt n1 n2 :
    assoc (type_key_of r) (minter_table conf) <> Some MFresh ->
    grant_sub_conf H host_of conf r rd uid salt n1 = grant_sub_conf H host_of conf r rd uid salt n2.
  Proof.
    unfold grant_sub_conf, table_sub. destruct (assoc (type_key_of r) (minter_table conf)) as [[p us own| ]|]; auto. congruence.
  Qed.
End SubConfRules.

(* the documented configuration {public: PublicID(s1), pairwise: PairWiseID(s2)}, whichever entry is listed first *)
Lemma documented_configuration s1 s2 :
  let c1 := [(PS "public", EMinter (cls_PublicID s1)); (PS "pairwise", EMinter (cls_PairWiseID s2))] in
  let c2 := [(PS "pairwise", EMinter (cls_PairWiseID s2)); (PS "public", EMinter (cls_PublicID s1))] in
  forall c, c = c1 \/ c = c2 ->
  configured c (PS "public") = Some (cls_PublicID s1) /\ configured c (PS "pairwise") = Some (cls_PairWiseID s2) /\
  configured c (PS "ephemeral") = None.
Proof. intros c1 c2 c [->| ->]; repeat split; reflexivity. Qed.

(* ==== the salt file over the life of a deployment: what the creating instance writes is what every later instance reads ==== *)
Lemma read_text_no_cr s : ~ In 13%N s -> read_text s = s.
Proof.
  induction s as [|c r IH]; intros Hn; cbn [read_text]; auto.
  destruct (c =? 13)%N eqn:E.
  - apply N.eqb_eq in E. subst c. exfalso. apply Hn. now left.
  - rewrite IH; auto. intros I. apply Hn. now right.
Qed.
(* ROUND TRIP of the salt file *)
Theorem salt_file_round_trip s : ~ In 13%N s -> read_text (write_text s) = s.
Proof. exact (read_text_no_cr s). Qed.

(* the files of b extend those of a: whatever exists in a exists unchanged in b *)
Definition fs_le (a b : fsys) : Prop := forall f st, assoc f a = Some st -> assoc f b = Some st.
Lemma fs_le_refl a : fs_le a a.
Proof. intros f st E. exact E. Qed.
Lemma fs_le_trans a b c : fs_le a b -> fs_le b c -> fs_le a c.
Proof. intros A B f st E. apply B, A, E. Qed.
Lemma fs_le_create f st fs : assoc f fs = None -> fs_le fs (aset f st fs).
Proof.
  intros A f' st' E. rewrite assoc_aset_other; auto. intros ->. congruence.
Qed.

(* one source: an instance only adds files, and once it has run, every instance that finds (at least) the files it left
   gets the same salt - whatever its own random draw - and leaves the files alone *)
Lemma salt_of_settles src fs rnd s fs1 :
  src <> SrcNone -> ~ In 13%N rnd ->
  salt_of src fs rnd = InitOk s fs1 ->
  fs_le fs fs1 /\ forall fs2 rnd', fs_le fs1 fs2 -> salt_of src fs2 rnd' = InitOk s fs2.
Proof.
  intros Hs Hr. destruct src as [x|f|]; cbn [salt_of]; [| |congruence].
  - intros E. inversion E; subst. split; [apply fs_le_refl|reflexivity].
  - destruct (assoc f fs) as [[raw|]|] eqn:A; intros E; [injection E as <- <- |discriminate|injection E as <- <-].
    + split; [apply fs_le_refl|]. intros fs2 rnd' L. now rewrite (L _ _ A).
    + split; [now apply fs_le_create|]. intros fs2 rnd' L.
      rewrite (L f (FFile (write_text rnd))) by apply assoc_aset_same.
      now rewrite salt_file_round_trip.
Qed.
(* CREATE THEN READ: the instance that finds no file and every instance after it work with the same salt *)
Theorem create_then_read f fs rnd rnd' :
  assoc f fs = None -> ~ In 13%N rnd ->
  exists fs1, salt_of (SrcFile f) fs rnd = InitOk rnd fs1 /\ salt_of (SrcFile f) fs1 rnd' = InitOk rnd fs1.
Proof.
  intros A Hr. exists (aset f (FFile (write_text rnd)) fs). cbn [salt_of]. rewrite A. split; [reflexivity|].
  rewrite assoc_aset_same. now rewrite salt_file_round_trip.
Qed.

Lemma persistent_class k pw salt fn r : persistent ((k, DClass pw salt fn) :: r) = true -> source_of salt fn <> SrcNone /\ persistent r = true.
Proof. cbn [persistent]. destruct (source_of salt fn); intros E; (split; [congruence|exact E]) || discriminate. Qed.

(* start-up of a whole configuration *)
Lemma start_up_settles d : forall i rnd fs conf fs',
  persistent d = true -> (forall n, ~ In 13%N (rnd n)) ->
  start_up d i rnd fs = Some (conf, fs') ->
  fs_le fs fs' /\ forall fs2 j rnd', fs_le fs' fs2 -> start_up d j rnd' fs2 = Some (conf, fs2).
Proof.
  induction d as [|[k e] r IH]; intros i rnd fs conf fs' P Hr; cbn [start_up].
  - intros E. inversion E; subst. split; [apply fs_le_refl|reflexivity].
  - destruct e as [pw salt fn|e].
    + apply persistent_class in P as [Hs P].
      destruct (salt_of (source_of salt fn) fs (rnd i)) as [s fs1|] eqn:Hso; [|discriminate].
      destruct (start_up r (S i) rnd fs1) as [[c fsr]|] eqn:R; [|discriminate].
      intros E. inversion E; subst; clear E.
      destruct (salt_of_settles _ _ _ _ _ Hs (Hr i) Hso) as [L1 K1].
      destruct (IH _ _ _ _ _ P Hr R) as [L2 K2].
      split; [eapply fs_le_trans; eauto|].
      intros fs2 j rnd' L. rewrite (K1 fs2 (rnd' j)) by (eapply fs_le_trans; eauto).
      now rewrite (K2 fs2 (S j) rnd' L).
    + cbn [persistent] in P.
      destruct (start_up r (S i) rnd fs) as [[c fsr]|] eqn:R; [|discriminate].
      intros E. inversion E; subst; clear E.
      destruct (IH _ _ _ _ _ P Hr R) as [L2 K2]. split; [exact L2|].
      intros fs2 j rnd' L. now rewrite (K2 fs2 (S j) rnd' L).
Qed.

(* SAME CONFIGURATION => SAME MINTERS ON EVERY INSTANCE: when an instance has started from a configuration whose class
   entries all name a lasting salt (given, or a file - existing or not), every later instance built from the same
   configuration, finding the files the first one left (and possibly more), has the very same table configuration and
   leaves the files as they are; so this holds for the third, fourth, ... instance as well *)
Theorem restart_same_configuration d rnd fs conf fs' :
  persistent d = true -> (forall n, ~ In 13%N (rnd n)) ->
  start_up d 0 rnd fs = Some (conf, fs') ->
  forall fs2 rnd', fs_le fs' fs2 -> start_up d 0 rnd' fs2 = Some (conf, fs2).
Proof. intros P Hr E fs2 rnd' L. now apply (proj2 (start_up_settles d 0 rnd fs conf fs' P Hr E)). Qed.

(* ... hence the same subs for the same user at the same client on the creating and on every reading instance *)
Theorem restart_same_subs (H : pystr -> pystr) (host_of : pystr -> pystr) d rnd fs conf fs' :
  persistent d = true -> (forall n, ~ In 13%N (rnd n)) ->
  start_up d 0 rnd fs = Some (conf, fs') ->
  forall fs2 rnd', fs_le fs' fs2 ->
  exists conf2, start_up d 0 rnd' fs2 = Some (conf2, fs2) /\
    forall r rd uid salt n, grant_sub_conf H host_of conf2 r rd uid salt n = grant_sub_conf H host_of conf r rd uid salt n.
Proof.
  intros P Hr E fs2 rnd' L. exists conf. split; [now apply (restart_same_configuration d rnd fs conf fs')|reflexivity].
Qed.

(* a salt file that exists is read the same way by every instance, whatever it contains (trailing newline, CRLF, blanks, nothing) *)
Theorem existing_file_same_salt f raw fs fs2 rnd rnd' :
  assoc f fs = Some (FFile raw) -> fs_le fs fs2 ->
  salt_of (SrcFile f) fs rnd = InitOk (read_text raw) fs /\ salt_of (SrcFile f) fs2 rnd' = InitOk (read_text raw) fs2.
Proof. intros A L. cbn [salt_of]. now rewrite (L _ _ A), A. Qed.

(* ==== THE REQUEST IS NO INPUT OF THE SUB ====
   grant_sub_rq / grant_sub_conf_rq take the assembled authorization request (redirect_uri + every other member, extension
   parameters included) as an explicit argument.  No member of the request enters the sub: it is the registration's sub - with
   the sector host the registration yields (a registered sector_id / sector_identifier_uri, or - for a client that registered
   none - the redirect_uri, which the endpoint has matched against the registered ones), the EMPTY sector when it yields none. *)
Lemma sector_source_registered r rd rd' : has_sector r = true -> sector_source r rd = sector_source r rd'.
Proof.
  unfold has_sector, sector_source. destruct (truthy (r_sector_id r)); [reflexivity|].
  destruct (truthy (r_sector_uri r)); [reflexivity|discriminate].
Qed.

Section SubRqProofs.
  Variable H : pystr -> pystr.
  Variable host_of : pystr -> pystr.

  (* the sub a request gets is the sub of the registration *)
  Theorem request_sub_is_registration_sub r rq uid salt n :
    grant_sub_rq H host_of r rq uid salt n = grant_sub H host_of r (rq_redirect rq) uid salt n.
  Proof. reflexivity. Qed.
  Theorem request_sub_conf_is_registration_sub conf r rq uid salt n :
    grant_sub_conf_rq H host_of conf r rq uid salt n = grant_sub_conf H host_of conf r (rq_redirect rq) uid salt n.
  Proof. reflexivity. Qed.
  Corollary plain_request_sub conf r rd uid salt n :
    grant_sub_conf_rq H host_of conf r (plain_request rd) uid salt n = grant_sub_conf H host_of conf r rd uid salt n.
  Proof. reflexivity. Qed.

  (* IRRELEVANCE, whatever is configured: two requests whose redirect_uris lead to the same sector host *)
  Theorem request_irrelevant_same_host conf r rq rq' uid salt n :
    host_of (sector_source r (rq_redirect rq)) = host_of (sector_source r (rq_redirect rq')) ->
    grant_sub_conf_rq H host_of conf r rq uid salt n = grant_sub_conf_rq H host_of conf r rq' uid salt n.
  Proof. intros E. unfold grant_sub_conf_rq, grant_sector, subject_sector. now rewrite E. Qed.
  (* ... in particular every content of the other members *)
  Corollary request_members_irrelevant conf r rd ms ms' uid salt n :
    grant_sub_conf_rq H host_of conf r (mkAreq rd ms) uid salt n = grant_sub_conf_rq H host_of conf r (mkAreq rd ms') uid salt n.
  Proof. now apply request_irrelevant_same_host. Qed.
  (* ... and for a client that registered a sector of its own (with or without a host), every request at all *)
  Theorem request_irrelevant_registered_sector conf r uid salt n :
    has_sector r = true ->
    forall rq rq', grant_sub_conf_rq H host_of conf r rq uid salt n = grant_sub_conf_rq H host_of conf r rq' uid salt n.
  Proof.
    intros S rq rq'. apply request_irrelevant_same_host.
    now rewrite (sector_source_registered r _ (rq_redirect rq') S).
  Qed.
  (* the built-in minters are the configuration that names nothing *)
  Lemma nothing_configured_rq r rq uid salt n :
    grant_sub_conf_rq H host_of [] r rq uid salt n = grant_sub_rq H host_of r rq uid salt n.
  Proof.
    unfold grant_sub_conf_rq, grant_sub_rq, table_sub. rewrite table_lookup. cbn [configured]. apply default_is_sub_of.
  Qed.
  Theorem request_irrelevant_builtin r uid salt n :
    has_sector r = true ->
    forall rq rq', grant_sub_rq H host_of r rq uid salt n = grant_sub_rq H host_of r rq' uid salt n.
  Proof.
    intros S rq rq'. rewrite <- !nothing_configured_rq. now apply request_irrelevant_registered_sector.
  Qed.

  (* minters that do not look at the sector (public; a fresh value): also across redirect hosts *)
  Theorem request_irrelevant_public r uid salt n : subtype_of r = Public ->
    forall rq rq', grant_sub_rq H host_of r rq uid salt n = grant_sub_rq H host_of r rq' uid salt n.
  Proof. intros T rq rq'. unfold grant_sub_rq. rewrite T. reflexivity. Qed.
  Theorem request_irrelevant_ephemeral r uid salt n : subtype_of r = Ephemeral ->
    forall rq rq', grant_sub_rq H host_of r rq uid salt n = grant_sub_rq H host_of r rq' uid salt n.
  Proof. intros T rq rq'. unfold grant_sub_rq. rewrite T. reflexivity. Qed.
  Theorem request_irrelevant_sector_blind conf r uid salt n m :
    assoc (type_key_of r) (minter_table conf) = Some m ->
    (match m with MHash _ us _ => us = false | MFresh => True end) ->
    forall rq rq', grant_sub_conf_rq H host_of conf r rq uid salt n = grant_sub_conf_rq H host_of conf r rq' uid salt n.
  Proof.
    intros A B rq rq'. unfold grant_sub_conf_rq, table_sub. rewrite A. destruct m as [p us own|]; [|reflexivity].
    subst us. reflexivity.
  Qed.

  (* NO REQUEST MOVES A CLIENT INTO ANOTHER SECTOR: pairwise subs of two requests - whatever they carry - agree exactly when the
     sector hosts of the two REGISTRATIONS agree *)
  Hypothesis H_inj : forall a b, H a = H b -> a = b.
  Theorem request_pairwise_iff_registered_sector r1 r2 rq1 rq2 uid salt n1 n2 :
    subtype_of r1 = Pairwise -> subtype_of r2 = Pairwise ->
    (grant_sub_rq H host_of r1 rq1 uid salt n1 = grant_sub_rq H host_of r2 rq2 uid salt n2
     <-> subject_sector host_of r1 rq1 = subject_sector host_of r2 rq2).
  Proof.
    intros T1 T2. rewrite !request_sub_is_registration_sub. now apply pairwise_iff_sector.
  Qed.
End SubRqProofs.
