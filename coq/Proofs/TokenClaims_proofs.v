(* Proofs/TokenClaims_proofs.v — the claims of a JWT-formatted token name the session its embedded session id resolves to *)
From Coq Require Import String List Bool.
From Verif Require Import Lib.Base Lib.PyStr Lib.Crypto Model.Lv Model.TokenFmt Proofs.TokenFmt_proofs Model.TokenClaims.
Import ListNotations.
Open Scope string_scope.

Lemma strs_eqb_refl (l : list pystr) : list_eqb str_eqb l l = true.
Proof. induction l as [|a l IH]; cbn; [reflexivity|]. now rewrite str_eqb_refl, IH. Qed.

(* on every minting path the client the payload names is the client of the branch the grant hangs in *)
Lemma payload_client_of_path p c : payload_client (grant_of p) = Some c -> c = g_client (grant_of p).
Proof. destruct p; cbn; intros H; now inversion H. Qed.

Theorem claims_name_session p t :
  (forall c, c_client (payload_arguments (grant_of p) t) = Some c -> c = g_client (grant_of p)) /\
  (forall s, c_sub (payload_arguments (grant_of p) t) = Some s -> s = g_sub (grant_of p)) /\
  c_scope (payload_arguments (grant_of p) t) = t_scope t.
Proof.
  split; [|split].
  - cbn. apply payload_client_of_path.
  - cbn. destruct (payload_client (grant_of p)); intros s H; now inversion H.
  - reflexivity.
Qed.

Theorem claims_agree_with_introspection p t :
  claims_agree (payload_arguments (grant_of p) t) (introspection_of (grant_of p) t) = true.
Proof.
  unfold claims_agree. cbn [c_client c_sub c_scope c_aud payload_arguments introspection_of i_client i_sub i_scope i_aud].
  assert (opt_is (g_client (grant_of p)) (payload_client (grant_of p)) = true) as ->.
  { destruct (payload_client (grant_of p)) as [c|] eqn:E; cbn; [|reflexivity].
    apply payload_client_of_path in E. subst. apply str_eqb_refl. }
  assert (opt_is (g_sub (grant_of p)) (match payload_client (grant_of p) with Some _ => Some (g_sub (grant_of p)) | None => None end) = true) as ->.
  { destruct (payload_client (grant_of p)); cbn; [apply str_eqb_refl|reflexivity]. }
  rewrite strs_eqb_refl. cbn [andb].
  destruct p; cbn [grant_of g_kind g_resources].
  - destruct (nonempty _) as [a|]; cbn; [apply strs_eqb_refl|reflexivity].
  - reflexivity.
  - destruct (nonempty _) as [a|]; cbn; [apply strs_eqb_refl|reflexivity].
Qed.

(* an exchange session is a session of the SAME user and subject for the client that asked for the exchange, whatever
   the chain of exchanges before *)
Theorem exchange_session_party o b :
  g_user (grant_of (PExchange o b)) = g_user (grant_of o) /\ g_sub (grant_of (PExchange o b)) = g_sub (grant_of o) /\
  g_client (grant_of (PExchange o b)) = b.
Proof. cbn. auto. Qed.

(* the accepted string: whatever slot resolves the provider's part of a JWT-formatted token to a session on record,
   the claims signed with it name the client and the subject of THAT session, and state its scope *)
Theorem accepted_jwt_names_resolved_session cfg expired (db : list (pystr * gpath)) s c nonce rnd sid exp p t p' :
  assoc sid db = Some p ->
  slot_session cfg expired db s (j_tok (mint_jwt cfg c nonce rnd sid exp p t)) = Some p' ->
  let cl := j_claims (mint_jwt cfg c nonce rnd sid exp p t) in
  (forall x, c_client cl = Some x -> x = g_client (grant_of p')) /\
  (forall x, c_sub cl = Some x -> x = g_sub (grant_of p')) /\
  claims_agree cl (introspection_of (grant_of p') t) = true.
Proof.
  intros Hdb H. cbn [j_tok mint_jwt] in H. apply slot_session_minted in H. rewrite Hdb in H. inversion H; subst p'.
  cbn [j_claims mint_jwt]. destruct (claims_name_session p t) as (A & B & _).
  split; [exact A|split; [exact B|apply claims_agree_with_introspection]].
Qed.

(* the refuted reading: naming the client of the authorization request the grant carries misnames every token minted on
   an exchange grant - the provider resolves it to the client that asked for the exchange, the claims name the client
   the subject token belonged to *)
Theorem carried_request_misnames :
  let p := PExchange (PAuthz (PS "diana") (PS "client_1") (PS "sub-d")) (PS "client_2") in
  let t := mkTok [PS "openid"] [] in
  c_client (payload_arguments_carried (grant_of p) t) = Some (PS "client_1") /\
  g_client (grant_of p) = PS "client_2" /\
  claims_agree (payload_arguments_carried (grant_of p) t) (introspection_of (grant_of p) t) = false /\
  c_client (payload_arguments (grant_of p) t) = Some (PS "client_2").
Proof. cbn. repeat split; reflexivity. Qed.
