(* Proofs/TokenFmt_proofs.v — tokens are unforgeable, class-separated and bound to their session. *)
From Coq Require Import String List Bool Arith.
From Verif Require Import Lib.Base Lib.PyStr Lib.Crypto Model.Lv Proofs.Lv_proofs Model.TokenFmt.
Import ListNotations.
Open Scope string_scope.

(* a token minted by the handler of class c resolves, with that handler, to exactly its session id *)
Theorem opaque_resolves k nonce rnd c sid exp :
  opaque_info k c (opaque_token k nonce rnd c sid exp) = TOk (Some sid).
Proof.
  unfold opaque_info, opaque_token, opaque_plain. cbn [adec]. rewrite Nat.eqb_refl. rewrite lv_roundtrip.
  unfold class_ok. rewrite str_eqb_refl. reflexivity.
Qed.

(* class names and their one-letter aliases are pairwise different *)
Lemma class_ok_iff h c : class_ok h (tk_name c) = tk_eqb h c.
Proof. destruct h, c; vm_compute; reflexivity. Qed.

(* CLASS SEPARATION, also when all handlers share one key: what decides is the class field inside the
   authenticated plaintext *)
Theorem opaque_class_separation k nonce rnd h c sid exp :
  h <> c -> opaque_info k h (opaque_token k nonce rnd c sid exp) = TErr EWrongClass.
Proof.
  intros N. unfold opaque_info, opaque_token, opaque_plain. cbn [adec]. rewrite Nat.eqb_refl. rewrite lv_roundtrip.
  rewrite class_ok_iff. destruct h, c; try reflexivity; contradiction.
Qed.

(* KEY SEPARATION: a token of another handler instance (another key) does not decrypt *)
Theorem opaque_key_separation k k' nonce rnd h c sid exp :
  k <> k' -> opaque_info k h (opaque_token k' nonce rnd c sid exp) = TErr EUnknownToken.
Proof.
  intros N. unfold opaque_info, opaque_token. cbn [adec]. apply Nat.eqb_neq in N. now rewrite N.
Qed.

(* BOUND TO THE SESSION: two minted tokens with the same value were minted for the same class and session *)
Theorem opaque_token_injective k n1 n2 r1 r2 c1 c2 s1 s2 e1 e2 :
  opaque_token k n1 r1 c1 s1 e1 = opaque_token k n2 r2 c2 s2 e2 -> c1 = c2 /\ s1 = s2 /\ r1 = r2 /\ e1 = e2.
Proof.
  unfold opaque_token, opaque_plain. intros H. injection H as Hn Hp.
  change (lv_pack [r1; tk_name c1; s1; e1] = lv_pack [r2; tk_name c2; s2; e2]) in Hp. apply lv_pack_injective in Hp.
  inversion Hp as [[Hr Hc Hs He]]. repeat split; auto. destruct c1, c2; vm_compute in Hc; try reflexivity; discriminate.
Qed.

(* what info returns is what is inside: for ANY accepted term, the session id is the third field of the plaintext *)
Theorem opaque_info_reads k h t sid :
  opaque_info k h t = TOk (Some sid) ->
  exists nonce plain id c rest, t = AEnc k nonce (Atom plain) /\ lv_unpack plain = Ok (id :: c :: sid :: rest) /\ class_ok h c = true.
Proof.
  unfold opaque_info. destruct t as [| | | |k' nonce m| |]; cbn [adec]; try discriminate.
  destruct (Nat.eqb k k') eqn:E; [|discriminate]. apply Nat.eqb_eq in E. subst k'.
  destruct m as [plain| | | | | |]; try discriminate.
  destruct (lv_unpack plain) as [[|id [|c rest]]| |] eqn:El; try discriminate.
  destruct (class_ok h c) eqn:Ec; [|discriminate]. destruct rest as [|s rest]; [discriminate|].
  intros H. inversion H; subst. exists nonce, plain, id, c, rest. auto.
Qed.

(* ---- unforgeability (Dolev-Yao) ---- *)
Section Unforgeable.
  Variable K : term -> Prop.             (* everything the provider ever published *)
  Variable k0 : nat.                     (* the key of the handler *)
  Hypothesis secret : forall t, K t -> ~ sub (Key k0) t.
  (* what the provider publishes under k0 are tokens it minted: plaintexts lv_pack [rnd; class; sid; exp] *)
  Variable minted : pystr -> pystr -> Prop.      (* class name, session id *)
  Hypothesis published_are_minted :
    forall t0 nonce m, K t0 -> sub (AEnc k0 nonce m) t0 ->
      exists rnd c sid exp, m = Atom (opaque_plain rnd c sid exp) /\ minted c sid.

  (* any string an adversary can build that the handler accepts is a token the provider minted, unmodified,
     for that handler's class, and resolves to the session it was minted for *)
  Theorem opaque_unforgeable h t sid :
    derivable K t -> opaque_info k0 h t = TOk (Some sid) ->
    exists c, class_ok h c = true /\ minted c sid /\ exists t0, K t0 /\ sub t t0.
  Proof.
    intros Hd Hi. apply opaque_info_reads in Hi as (nonce&plain&id&c&rest&->&Hl&Hc).
    destruct (aenc_genuine K k0 secret nonce (Atom plain) Hd) as (t0&Ht0&Hs).
    destruct (published_are_minted _ _ _ Ht0 Hs) as (rnd&c'&sid'&exp&Hm&Hmint).
    inversion Hm as [Hp]. unfold opaque_plain in Hp. rewrite Hp in Hl. rewrite lv_roundtrip in Hl.
    inversion Hl; subst. exists c. repeat split; auto. exists t0. auto.
  Qed.
End Unforgeable.

(* ---- JWT tokens ---- *)
Theorem jwt_resolves k h sid exp expired :
  expired exp = false -> jwt_info k h expired (jwt_token k (Some (tk_name h)) (Some sid) exp) = TOk (Some sid).
Proof. intros E. unfold jwt_info, jwt_token, jwt_payload. cbn [sig_verify]. rewrite Nat.eqb_refl. unfold class_ok. rewrite str_eqb_refl. cbn. now rewrite E. Qed.
Theorem jwt_class_separation k h c sid exp expired :
  h <> c -> jwt_info k h expired (jwt_token k (Some (tk_name c)) sid exp) = TErr EWrongClass.
Proof.
  intros N. unfold jwt_info, jwt_token, jwt_payload. cbn [sig_verify]. rewrite Nat.eqb_refl. rewrite class_ok_iff.
  destruct h, c; try reflexivity; contradiction.
Qed.
(* an ID Token (no token_class claim) never passes as an access token, even under the same signing key *)
Theorem id_token_is_no_access_token k h sid exp expired :
  jwt_info k h expired (jwt_token k None sid exp) = TErr EWrongClass.
Proof. unfold jwt_info, jwt_token, jwt_payload. cbn [sig_verify]. rewrite Nat.eqb_refl. reflexivity. Qed.
Theorem jwt_expired_refused k h sid exp expired :
  expired exp = true -> jwt_info k h expired (jwt_token k (Some (tk_name h)) sid exp) = TErr ETooOld.
Proof. intros E. unfold jwt_info, jwt_token, jwt_payload. cbn [sig_verify]. rewrite Nat.eqb_refl. unfold class_ok. rewrite str_eqb_refl. cbn. now rewrite E. Qed.
Theorem jwt_foreign_key_refused k k' h c sid exp expired :
  k <> k' -> jwt_info k h expired (jwt_token k' c sid exp) = TErr EUnknownToken.
Proof. intros N. unfold jwt_info, jwt_token. cbn [sig_verify]. apply Nat.eqb_neq in N. now rewrite N. Qed.

Section JwtUnforgeable.
  Variable K : term -> Prop.
  Variable k0 : nat.
  Hypothesis secret : forall t, K t -> ~ sub (Key k0) t.
  Theorem jwt_unforgeable h expired t sid :
    derivable K t -> jwt_info k0 h expired t = TOk sid -> exists t0, K t0 /\ sub t t0.
  Proof.
    intros Hd Hi. unfold jwt_info in Hi. destruct t as [| | | | | |k m]; cbn [sig_verify] in Hi; try discriminate.
    destruct (Nat.eqb k0 k) eqn:E; [|discriminate]. apply Nat.eqb_eq in E. subst k.
    apply (sig_genuine K k0 secret m Hd).
  Qed.
End JwtUnforgeable.

(* ---- SLOTS: which minted values resolve where ---- *)
Lemma tk_eq_dec (a b : tk) : {a = b} + {a <> b}.
Proof. decide equality. Qed.

(* a class handler of the provider resolves, among everything the provider mints (ID Tokens included, whatever
   keys the handlers share), only the tokens of its own class - and those to the session they were minted for *)
Lemma handler_info_minted cfg expired h m nonce rnd sid exp x :
  handler_info cfg expired h (mint cfg m nonce rnd sid exp) = TOk x -> m = MTok h /\ x = Some sid.
Proof.
  unfold handler_info, mint. destruct m as [c|].
  - destruct (tk_eq_dec h c) as [->|N].
    + destruct (h_of cfg c) as [k|k].
      * rewrite opaque_resolves. intros H; inversion H; auto.
      * unfold jwt_info, jwt_token, jwt_payload. cbn [sig_verify]. rewrite Nat.eqb_refl. unfold class_ok. rewrite str_eqb_refl.
        cbn. destruct (expired exp); intros H; inversion H; auto.
    + destruct (h_of cfg h) as [k|k], (h_of cfg c) as [k'|k'].
      * destruct (Nat.eq_dec k k') as [->|Nk].
        -- rewrite opaque_class_separation by exact N. discriminate.
        -- rewrite opaque_key_separation by exact Nk. discriminate.
      * unfold opaque_info, jwt_token. cbn [adec]. discriminate.
      * unfold jwt_info, opaque_token. cbn [sig_verify]. discriminate.
      * destruct (Nat.eq_dec k k') as [->|Nk].
        -- rewrite jwt_class_separation by exact N. discriminate.
        -- rewrite jwt_foreign_key_refused by exact Nk. discriminate.
  - destruct (h_of cfg h) as [k|k].
    + unfold opaque_info, jwt_token. cbn [adec]. discriminate.
    + destruct (Nat.eq_dec k (h_idt cfg)) as [->|Nk].
      * rewrite id_token_is_no_access_token. discriminate.
      * rewrite jwt_foreign_key_refused by exact Nk. discriminate.
Qed.

Lemma handler_info_own cfg expired c nonce rnd sid exp :
  expired exp = false -> handler_info cfg expired c (mint cfg (MTok c) nonce rnd sid exp) = TOk (Some sid).
Proof.
  intros E. unfold handler_info, mint. destruct (h_of cfg c) as [k|k].
  - apply opaque_resolves.
  - now apply jwt_resolves.
Qed.

(* every slot that asks one class handler is class-separated *)
Theorem slot_class_separation cfg expired s h m nonce rnd sid exp x :
  slot_handler s = Some h -> slot_resolve cfg expired s (mint cfg m nonce rnd sid exp) = TOk x -> m = MTok h /\ x = Some sid.
Proof. unfold slot_resolve. intros ->. apply handler_info_minted. Qed.

(* THE BEARER CLIENT CREDENTIAL: of everything the provider mints, only an access token resolves there *)
Theorem bearer_only_access cfg expired m nonce rnd sid exp x :
  slot_resolve cfg expired SBearer (mint cfg m nonce rnd sid exp) = TOk x -> m = MTok KAccess /\ x = Some sid.
Proof. now apply slot_class_separation. Qed.

Theorem bearer_access_resolves cfg expired nonce rnd sid exp :
  expired exp = false -> slot_resolve cfg expired SBearer (mint cfg (MTok KAccess) nonce rnd sid exp) = TOk (Some sid).
Proof. intros E. unfold slot_resolve. cbn [slot_handler]. now apply handler_info_own. Qed.

(* ... and it authenticates the client of the session it was minted for, nobody else *)
Theorem bearer_client_is_session_client cfg expired db m nonce rnd sid exp client :
  slot_client cfg expired db SBearer (mint cfg m nonce rnd sid exp) = Some client ->
  m = MTok KAccess /\ assoc sid db = Some client.
Proof.
  unfold slot_client. destruct (slot_resolve cfg expired SBearer (mint cfg m nonce rnd sid exp)) as [x|e] eqn:E; [|discriminate].
  apply bearer_only_access in E as [-> ->]. auto.
Qed.

Theorem bearer_access_authenticates cfg expired db nonce rnd sid exp :
  expired exp = false -> slot_client cfg expired db SBearer (mint cfg (MTok KAccess) nonce rnd sid exp) = assoc sid db.
Proof. intros E. unfold slot_client. now rewrite bearer_access_resolves. Qed.

(* the class-agnostic lookup (the `token` parameter of introspection / revocation) resolves every class: it must
   not be what a class slot asks *)
Lemma not_ok_other cfg expired h c nonce rnd sid exp :
  h <> c -> is_ok (handler_info cfg expired h (mint cfg (MTok c) nonce rnd sid exp)) = false.
Proof.
  intros N. destruct (handler_info cfg expired h (mint cfg (MTok c) nonce rnd sid exp)) as [x|e] eqn:E; [|reflexivity].
  apply handler_info_minted in E as [E _]. inversion E. congruence.
Qed.
Theorem generic_resolves_every_class cfg expired c nonce rnd sid exp :
  expired exp = false -> slot_resolve cfg expired SGeneric (mint cfg (MTok c) nonce rnd sid exp) = TOk (Some sid).
Proof.
  intros E. unfold slot_resolve. cbn [slot_handler]. unfold generic_info.
  destruct c.
  - rewrite (handler_info_own cfg expired KCode) by exact E. reflexivity.
  - rewrite (not_ok_other cfg expired KCode KAccess) by discriminate.
    rewrite (handler_info_own cfg expired KAccess) by exact E. reflexivity.
  - rewrite (not_ok_other cfg expired KCode KRefresh) by discriminate.
    rewrite (not_ok_other cfg expired KAccess KRefresh) by discriminate.
    rewrite (handler_info_own cfg expired KRefresh) by exact E. reflexivity.
Qed.

(* an adversary's string at the bearer slot (opaque access handler): accepted only if minted with an access class *)
Theorem bearer_unforgeable (K : term -> Prop) (k0 : nat) (minted : pystr -> pystr -> Prop) cfg expired t sid :
  (forall t, K t -> ~ sub (Key k0) t) ->
  (forall t0 nonce m, K t0 -> sub (AEnc k0 nonce m) t0 ->
      exists rnd c sid exp, m = Atom (opaque_plain rnd c sid exp) /\ minted c sid) ->
  h_access cfg = HOpaque k0 ->
  derivable K t -> slot_resolve cfg expired SBearer t = TOk (Some sid) ->
  exists c, class_ok KAccess c = true /\ minted c sid /\ exists t0, K t0 /\ sub t t0.
Proof.
  intros Hs Hp Hc Hd. unfold slot_resolve, handler_info. cbn [slot_handler h_of]. rewrite Hc.
  now apply (opaque_unforgeable K k0 Hs minted Hp).
Qed.
Theorem bearer_unforgeable_jwt (K : term -> Prop) (k0 : nat) cfg expired t sid :
  (forall t, K t -> ~ sub (Key k0) t) ->
  h_access cfg = HJwt k0 ->
  derivable K t -> slot_resolve cfg expired SBearer t = TOk sid -> exists t0, K t0 /\ sub t t0.
Proof.
  intros Hs Hc Hd. unfold slot_resolve, handler_info. cbn [slot_handler h_of]. rewrite Hc.
  now apply (jwt_unforgeable K k0 Hs).
Qed.

(* were the bearer slot served by the class-agnostic lookup: a refresh token, a code, an ID Token authenticate *)
Example bearer_by_generic_lookup_refuted :
  let cfg := mkHconf (HOpaque 0) (HOpaque 0) (HOpaque 0) 50 in
  let db := [(PS "sid", PS "client_1")] in
  let nx := fun _ : pystr => false in
  slot_client cfg nx db SGeneric (mint cfg (MTok KRefresh) (PS "n") (PS "r") (PS "sid") (PS "99")) = Some (PS "client_1") /\
  slot_client cfg nx db SGeneric (mint cfg (MTok KCode) (PS "n") (PS "r") (PS "sid") (PS "99")) = Some (PS "client_1") /\
  slot_client cfg nx db SGeneric (mint cfg MIdToken (PS "n") (PS "r") (PS "sid") (PS "99")) = Some (PS "client_1") /\
  slot_client cfg nx db SBearer (mint cfg (MTok KRefresh) (PS "n") (PS "r") (PS "sid") (PS "99")) = None /\
  slot_client cfg nx db SBearer (mint cfg (MTok KCode) (PS "n") (PS "r") (PS "sid") (PS "99")) = None /\
  slot_client cfg nx db SBearer (mint cfg MIdToken (PS "n") (PS "r") (PS "sid") (PS "99")) = None /\
  slot_client cfg nx db SBearer (mint cfg (MTok KAccess) (PS "n") (PS "r") (PS "sid") (PS "99")) = Some (PS "client_1").
Proof. vm_compute. repeat split; reflexivity. Qed.

(* ================================================================== REQUESTS IN FLIGHT (Model/TokenFmt.v tendpoint ...)
   Whatever the interleaving of the calls that belong to different requests, an endpoint whose outputs do not
   depend on the state it carries between calls answers every request as if it were alone; the model endpoint is
   such an endpoint; the session its answer stands for is the one the presented token was minted for. *)
Open Scope list_scope.
Lemma ttget_ttdel i j t : ttget i (ttdel j t) = if Nat.eqb i j then None else ttget i t.
Proof.
  induction t as [|[k s] t IH]; cbn.
  - now destruct (Nat.eqb i j).
  - destruct (Nat.eqb j k) eqn:Ejk.
    + rewrite IH. destruct (Nat.eqb i j) eqn:Eij; [reflexivity|].
      apply Nat.eqb_eq in Ejk. subst k. now rewrite Eij.
    + cbn. destruct (Nat.eqb i k) eqn:Eik.
      * destruct (Nat.eqb i j) eqn:Eij; [|reflexivity].
        apply Nat.eqb_eq in Eij, Eik. subst. now rewrite Nat.eqb_refl in Ejk.
      * exact IH.
Qed.
Lemma ttget_ttset i j s t : ttget i (ttset j s t) = if Nat.eqb i j then Some s else ttget i t.
Proof. unfold ttset. cbn. destruct (Nat.eqb i j) eqn:E; [reflexivity|]. rewrite ttget_ttdel. now rewrite E. Qed.

Section TIndependent.
  Variable S : Type.
  Variable E : tendpoint S.
  Hypothesis Hparse : forall s s' r, snd (te_parse E s r) = snd (te_parse E s' r).
  Hypothesis Hprocess : forall s s' r, snd (te_process E s r) = snd (te_process E s' r).
  Hypothesis Hrespond : forall s s' r a, snd (te_respond E s r a) = snd (te_respond E s' r a).

  Definition tproc0 (r : treq) : tanswer := snd (te_process E (te_init E) r).
  Lemma town_answer_ok r s : snd (te_parse E (te_init E) r) = true ->
    snd (te_respond E s r (tproc0 r)) = town_answer E r.
  Proof.
    intros Hp. unfold town_answer. destruct (te_parse E (te_init E) r) as [s1 ok] eqn:Ep. cbn in Hp. subst ok.
    destruct (te_process E s1 r) as [s2 a] eqn:Epr.
    assert (a = tproc0 r) as -> by (unfold tproc0; rewrite (Hprocess (te_init E) s1 r), Epr; reflexivity).
    apply Hrespond.
  Qed.
  Lemma town_answer_refused r : snd (te_parse E (te_init E) r) = false -> town_answer E r = TRefused.
  Proof. intros Hp. unfold town_answer. destruct (te_parse E (te_init E) r) as [s1 ok]. cbn in Hp. now subst ok. Qed.

  Definition tslot_ok (reqs : list treq) (i : nat) (sl : tslot) : Prop :=
    exists r, nth_error reqs i = Some r /\ snd (te_parse E (te_init E) r) = true /\
      (sl = TsParsed \/ sl = TsAnswer (tproc0 r)).
  Definition ttable_ok (reqs : list treq) (t : ttable) : Prop := forall i sl, ttget i t = Some sl -> tslot_ok reqs i sl.
  Definition tout_ok (reqs : list treq) (out : list (nat * tanswer)) : Prop :=
    forall i a, In (i, a) out -> exists r, nth_error reqs i = Some r /\ a = town_answer E r.

  Lemma ttable_ok_set reqs t i sl : ttable_ok reqs t -> tslot_ok reqs i sl -> ttable_ok reqs (ttset i sl t).
  Proof.
    intros Ht Hs j sl' Hj. rewrite ttget_ttset in Hj. destruct (Nat.eqb j i) eqn:Eji.
    - apply Nat.eqb_eq in Eji. subst j. now inversion Hj; subst.
    - now apply Ht.
  Qed.
  Lemma ttable_ok_del reqs t i : ttable_ok reqs t -> ttable_ok reqs (ttdel i t).
  Proof. intros Ht j sl Hj. rewrite ttget_ttdel in Hj. destruct (Nat.eqb j i); [discriminate|]. now apply Ht. Qed.

  Lemma tstep_ok reqs s t ev s' t' out :
    ttable_ok reqs t -> tstep E reqs (s, t) ev = ((s', t'), out) -> ttable_ok reqs t' /\ tout_ok reqs out.
  Proof.
    intros Ht Hs. assert (Hnil : tout_ok reqs []) by (intros ? ? []).
    destruct ev as [i|i|i]; cbn in Hs.
    - destruct (nth_error reqs i) as [r|] eqn:Er; [|inversion Hs; subst; now split].
      destruct (te_parse E s r) as [s1 ok] eqn:Ep.
      assert (Hd : snd (te_parse E (te_init E) r) = ok) by (rewrite (Hparse (te_init E) s r), Ep; reflexivity).
      destruct ok; inversion Hs; subst; clear Hs.
      + split; [|exact Hnil]. apply ttable_ok_set; [exact Ht|]. exists r. auto.
      + split; [now apply ttable_ok_del|]. intros j a [Hj|[]]. inversion Hj; subst. exists r. split; [exact Er|].
        symmetry. now apply town_answer_refused.
    - destruct (nth_error reqs i) as [r|] eqn:Er; [|inversion Hs; subst; now split].
      destruct (ttget i t) as [[|a]|] eqn:Eg; try (inversion Hs; subst; now split).
      destruct (te_process E s r) as [s1 a] eqn:Epr. inversion Hs; subst; clear Hs.
      split; [|exact Hnil]. apply ttable_ok_set; [exact Ht|].
      destruct (Ht _ _ Eg) as (r' & Er' & Hp & _). rewrite Er in Er'. inversion Er'; subst r'.
      exists r. repeat split; auto. right. f_equal. unfold tproc0. rewrite (Hprocess (te_init E) s r), Epr. reflexivity.
    - destruct (nth_error reqs i) as [r|] eqn:Er; [|inversion Hs; subst; now split].
      destruct (ttget i t) as [[|a]|] eqn:Eg; try (inversion Hs; subst; now split).
      destruct (te_respond E s r a) as [s1 b] eqn:Ere. inversion Hs; subst; clear Hs.
      split; [now apply ttable_ok_del|]. intros j c [Hj|[]]. inversion Hj; subst.
      destruct (Ht _ _ Eg) as (r' & Er' & Hp & [Hsl|Hsl]); [discriminate|]. rewrite Er in Er'. inversion Er'; subst r'.
      inversion Hsl; subst a. exists r. split; [exact Er|].
      rewrite <- (town_answer_ok r s Hp). now rewrite Ere.
  Qed.

  Lemma trun_from_ok reqs sched : forall s t, ttable_ok reqs t -> tout_ok reqs (trun_from E reqs (s, t) sched).
  Proof.
    induction sched as [|ev rest IH]; intros s t Ht; cbn [trun_from].
    - intros ? ? [].
    - destruct (tstep E reqs (s, t) ev) as [[s' t'] out] eqn:Es.
      destruct (tstep_ok _ _ _ _ _ _ _ Ht Es) as [Ht' Ho].
      intros i a Hin. apply in_app_or in Hin as [Hin|Hin]; [now apply Ho|]. exact (IH s' t' Ht' i a Hin).
  Qed.

  Theorem tflight_independent reqs sched i a :
    In (i, a) (run_tflight E reqs sched) -> exists r, nth_error reqs i = Some r /\ a = town_answer E r.
  Proof. unfold run_tflight. apply trun_from_ok. intros j sl Hj. discriminate. Qed.
End TIndependent.

(* ------------------------------------------------------------------ the model endpoint *)
Theorem tmodel_keeps_nothing P (s s' : unit) r a :
  te_parse (tep_model P) s r = te_parse (tep_model P) s' r /\ te_process (tep_model P) s r = te_process (tep_model P) s' r
  /\ te_respond (tep_model P) s r a = te_respond (tep_model P) s' r a.
Proof. now destruct s, s'. Qed.

Lemma town_answer_model P r : town_answer (tep_model P) r = tanswer1 P r.
Proof. unfold town_answer, tanswer1. cbn. now destruct (tparse P r). Qed.

(* for every interleaving, the answer handed out for request i is the answer of request i alone: a function of
   the value request i presents (and of the provider), of no other request *)
Theorem tflight_model P reqs sched i a :
  In (i, a) (run_tflight (tep_model P) reqs sched) -> exists r, nth_error reqs i = Some r /\ a = tanswer1 P r.
Proof.
  intros H. apply (tflight_independent unit (tep_model P)) in H.
  - destruct H as (r & Hr & Ha). exists r. now rewrite <- town_answer_model.
  - reflexivity.
  - reflexivity.
  - reflexivity.
Qed.
(* ... in particular the other requests of the flight can be exchanged for any others *)
Theorem tflight_others_irrelevant P reqs reqs' sched sched' i r a a' :
  nth_error reqs i = Some r -> nth_error reqs' i = Some r ->
  In (i, a) (run_tflight (tep_model P) reqs sched) -> In (i, a') (run_tflight (tep_model P) reqs' sched') -> a = a'.
Proof.
  intros Hr Hr' H H'. apply tflight_model in H as (r1 & E1 & ->). apply tflight_model in H' as (r2 & E2 & ->).
  congruence.
Qed.

(* ------------------------------------------------------------------ every request does get its answer *)
Definition tevent_id (ev : tevent) : nat := match ev with TvParse i | TvProcess i | TvRespond i => i end.
Definition tabout (i : nat) (l : list tevent) : bool := existsb (fun ev => Nat.eqb (tevent_id ev) i) l.
Fixpoint texec {S} (E : tendpoint S) (reqs : list treq) (st : S * ttable) (sched : list tevent) : S * ttable :=
  match sched with [] => st | ev :: r => texec E reqs (fst (tstep E reqs st ev)) r end.
Lemma trun_from_app {S} (E : tendpoint S) reqs a : forall st b,
  trun_from E reqs st (a ++ b) = trun_from E reqs st a ++ trun_from E reqs (texec E reqs st a) b.
Proof.
  induction a as [|ev a IH]; intros st b; cbn [app trun_from texec]; [reflexivity|].
  destruct (tstep E reqs st ev) as [st' out]. cbn [fst]. now rewrite IH, app_assoc.
Qed.
Lemma tstep_other P reqs st ev i : tevent_id ev <> i ->
  ttget i (snd (fst (tstep (tep_model P) reqs st ev))) = ttget i (snd st).
Proof.
  intros Hne. destruct st as [s t].
  assert (Hset : forall sl, ttget i (ttset (tevent_id ev) sl t) = ttget i t).
  { intros sl. rewrite ttget_ttset. destruct (Nat.eqb i (tevent_id ev)) eqn:E; [|reflexivity].
    apply Nat.eqb_eq in E. now destruct Hne. }
  assert (Hdel : ttget i (ttdel (tevent_id ev) t) = ttget i t).
  { rewrite ttget_ttdel. destruct (Nat.eqb i (tevent_id ev)) eqn:E; [|reflexivity].
    apply Nat.eqb_eq in E. now destruct Hne. }
  destruct ev as [j|j|j]; cbn in *.
  - destruct (nth_error reqs j) as [r0|]; [|reflexivity]. destruct (tparse P r0); cbn; auto.
  - destruct (nth_error reqs j) as [r0|]; [|reflexivity]. destruct (ttget j t) as [[|a]|]; cbn; auto.
  - destruct (nth_error reqs j) as [r0|]; [|reflexivity]. destruct (ttget j t) as [[|a]|]; cbn; auto.
Qed.
Lemma texec_other P reqs l i : tabout i l = false -> forall st,
  ttget i (snd (texec (tep_model P) reqs st l)) = ttget i (snd st).
Proof.
  induction l as [|ev l IH]; intros Ha st; cbn; [reflexivity|].
  cbn in Ha. apply Bool.orb_false_iff in Ha as [He Hl]. rewrite (IH Hl).
  apply tstep_other. intros E. subst i. now rewrite Nat.eqb_refl in He.
Qed.
Lemma tst_eta (st : unit * ttable) : st = (tt, snd st).
Proof. now destruct st as [[] t]. Qed.

Theorem tflight_answers P reqs i r a b c d :
  nth_error reqs i = Some r -> tabout i b = false -> tabout i c = false ->
  In (i, tanswer1 P r)
     (run_tflight (tep_model P) reqs (a ++ TvParse i :: b ++ TvProcess i :: c ++ TvRespond i :: d)).
Proof.
  intros Hr Hb Hc. unfold run_tflight. rewrite trun_from_app. apply in_or_app. right.
  set (st0 := texec (tep_model P) reqs _ a). rewrite (tst_eta st0). cbn [trun_from tstep]. rewrite Hr.
  cbn [tep_model te_parse]. unfold tanswer1. destruct (tparse P r) eqn:Ep; [|now left].
  cbn [app]. rewrite trun_from_app. apply in_or_app. right.
  set (st1 := texec (tep_model P) reqs _ b).
  assert (H1 : ttget i (snd st1) = Some TsParsed).
  { unfold st1. rewrite (texec_other P reqs b i Hb). cbn [snd]. rewrite ttget_ttset. now rewrite Nat.eqb_refl. }
  rewrite (tst_eta st1). cbn [trun_from tstep]. rewrite Hr, H1. cbn [tep_model te_process].
  cbn [app]. rewrite trun_from_app. apply in_or_app. right.
  set (st2 := texec (tep_model P) reqs _ c).
  assert (H2 : ttget i (snd st2) = Some (TsAnswer (tprocess P r))).
  { unfold st2. rewrite (texec_other P reqs c i Hc). cbn [snd]. rewrite ttget_ttset. now rewrite Nat.eqb_refl. }
  rewrite (tst_eta st2). cbn [trun_from tstep]. rewrite Hr, H2. cbn [tep_model te_respond]. now left.
Qed.

(* ------------------------------------------------------------------ whose session the answer is *)
(* the ID Token handler resolves what the provider minted to the session it was minted for *)
Lemma idt_info_minted cfg expired m nonce rnd sid exp x :
  idt_info (h_idt cfg) expired (mint cfg m nonce rnd sid exp) = TOk x -> x = Some sid.
Proof.
  unfold idt_info, mint. destruct m as [c|].
  - destruct (h_of cfg c) as [k|k].
    + unfold opaque_token. cbn [sig_verify]. discriminate.
    + unfold jwt_token, jwt_payload. cbn [sig_verify]. destruct (Nat.eqb (h_idt cfg) k); [|discriminate].
      destruct (expired exp); intros H; inversion H; reflexivity.
  - unfold jwt_token, jwt_payload. cbn [sig_verify]. rewrite Nat.eqb_refl.
    destruct (expired exp); intros H; inversion H; reflexivity.
Qed.
Lemma generic_info_minted cfg expired m nonce rnd sid exp x :
  generic_info cfg expired (mint cfg m nonce rnd sid exp) = TOk x -> x = Some sid.
Proof.
  unfold generic_info. set (t := mint cfg m nonce rnd sid exp).
  destruct (handler_info cfg expired KCode t) as [y|e] eqn:E1; cbn [is_ok].
  { intros H. inversion H; subst. now apply handler_info_minted in E1 as [_ ->]. }
  destruct (handler_info cfg expired KAccess t) as [y|e2] eqn:E2; cbn [is_ok].
  { intros H. inversion H; subst. now apply handler_info_minted in E2 as [_ ->]. }
  destruct (handler_info cfg expired KRefresh t) as [y|e3] eqn:E3; cbn [is_ok].
  { intros H. inversion H; subst. now apply handler_info_minted in E3 as [_ ->]. }
  destruct (idt_info (h_idt cfg) expired t) as [y|e4] eqn:E4; cbn [is_ok]; [|discriminate].
  intros H. inversion H; subst. now apply idt_info_minted in E4.
Qed.
(* at every slot, what the provider minted resolves - if it resolves - to the session it was minted for *)
Theorem slot_resolve_minted cfg expired s m nonce rnd sid exp x :
  slot_resolve cfg expired s (mint cfg m nonce rnd sid exp) = TOk x -> x = Some sid.
Proof.
  unfold slot_resolve. destruct (slot_handler s) as [h|].
  - intros H. now apply handler_info_minted in H as [_ ->].
  - apply generic_info_minted.
Qed.
Theorem slot_session_minted {A} cfg expired (db : list (pystr * A)) s m nonce rnd sid exp v :
  slot_session cfg expired db s (mint cfg m nonce rnd sid exp) = Some v -> assoc sid db = Some v.
Proof.
  unfold slot_session. destruct (slot_resolve cfg expired s (mint cfg m nonce rnd sid exp)) as [x|e] eqn:E; [|discriminate].
  apply slot_resolve_minted in E. subst x. auto.
Qed.

(* the answer to a request that presents a value this provider minted for session sid: the session on record for
   sid; at a class slot the value is of that class; the token and revocation endpoints serve the session's own client;
   introspection answers whom the audience rule admits *)
Theorem tanswer1_minted P r m nonce rnd sid exp s :
  r_tok r = mint (p_cfg P) m nonce rnd sid exp -> tanswer1 P r = TSession s ->
  assoc sid (p_db P) = Some s /\
  (forall h, slot_handler (ep_slot (r_ep r)) = Some h -> m = MTok h) /\
  (r_ep r <> EpUserinfo -> r_ep r <> EpIntrospect -> s_client s = r_by r) /\
  (r_ep r = EpIntrospect -> may_ask P s (r_tok r) (r_by r) = true).
Proof.
  intros Ht. unfold tanswer1. destruct (tparse P r); [|discriminate]. unfold tprocess. rewrite Ht.
  destruct (slot_session (p_cfg P) (p_expired P) (p_db P) (ep_slot (r_ep r)) (mint (p_cfg P) m nonce rnd sid exp)) as [s0|] eqn:E;
    [|discriminate].
  assert (Hdb := slot_session_minted _ _ _ _ _ _ _ _ _ _ E).
  assert (Hcls : forall h, slot_handler (ep_slot (r_ep r)) = Some h -> m = MTok h).
  { intros h Hh. unfold slot_session in E.
    destruct (slot_resolve (p_cfg P) (p_expired P) (ep_slot (r_ep r)) (mint (p_cfg P) m nonce rnd sid exp)) as [x|e] eqn:E2; [|discriminate].
    now apply (slot_class_separation _ _ _ h) in E2 as [-> _]. }
  destruct (r_ep r) eqn:Eep.
  - intros H. inversion H; subst. repeat split; auto; congruence.
  - destruct (may_ask P s0 (mint (p_cfg P) m nonce rnd sid exp) (r_by r)) eqn:Ec; cbn [andb]; [|discriminate].
    destruct (ep_class_ok P r); [|discriminate]. intros H. inversion H; subst. repeat split; auto; congruence.
  - destruct (str_eqb (s_client s0) (r_by r)) eqn:Ec; cbn [andb]; [|discriminate].
    destruct (ep_class_ok P r); [|discriminate]. intros H. inversion H; subst. apply str_eqb_eq in Ec. repeat split; auto; congruence.
  - destruct (str_eqb (s_client s0) (r_by r)) eqn:Ec; cbn [andb]; [|discriminate].
    destruct (ep_class_ok P r); [|discriminate]. intros H. inversion H; subst. apply str_eqb_eq in Ec. repeat split; auto; congruence.
  - destruct (str_eqb (s_client s0) (r_by r)) eqn:Ec; cbn [andb]; [|discriminate].
    destruct (ep_class_ok P r); [|discriminate]. intros H. inversion H; subst. apply str_eqb_eq in Ec. repeat split; auto; congruence.
Qed.

(* together: whatever else is in flight, a session handed out for request i is the one on record for the session id
   the token of request i was minted for *)
Theorem tflight_bound_to_session P reqs sched i s :
  In (i, TSession s) (run_tflight (tep_model P) reqs sched) ->
  exists r, nth_error reqs i = Some r /\ tanswer1 P r = TSession s /\
    forall m nonce rnd sid exp, r_tok r = mint (p_cfg P) m nonce rnd sid exp ->
      assoc sid (p_db P) = Some s /\ (forall h, slot_handler (ep_slot (r_ep r)) = Some h -> m = MTok h) /\
      (r_ep r <> EpUserinfo -> r_ep r <> EpIntrospect -> s_client s = r_by r) /\
      (r_ep r = EpIntrospect -> may_ask P s (r_tok r) (r_by r) = true).
Proof.
  intros H. apply tflight_model in H as (r & Hr & Ha). symmetry in Ha. exists r. split; [exact Hr|]. split; [exact Ha|].
  intros m nonce rnd sid exp Ht. exact (tanswer1_minted P r m nonce rnd sid exp s Ht Ha).
Qed.

(* ------------------------------------------------------------------ the asker of an introspection *)
(* a provider whose audience rule is the default everywhere: enforced for everybody, no audience on record but the
   session's own client.  There the only asker that is answered is the client the token was minted for. *)
Definition aud_closed (P : prov) : Prop := p_enforce_default P = true /\ p_enforce P = [] /\ p_aud P = [].
Lemma may_ask_closed P s t asker : aud_closed P -> may_ask P s t asker = true -> s_client s = asker.
Proof.
  intros (Hd & He & Ha). unfold may_ask, enforced, tok_aud. rewrite He, Hd, Ha. cbn [assoc negb orb aud_lookup].
  destruct (generic_class (p_cfg P) (p_expired P) t) as [[c|]|]; cbn [existsb orb]; try discriminate.
  destruct (str_eqb asker (s_client s)) eqn:E; [|discriminate]. apply str_eqb_eq in E. now subst.
Qed.
Theorem tflight_bound_to_session_closed P reqs sched i s :
  aud_closed P ->
  In (i, TSession s) (run_tflight (tep_model P) reqs sched) ->
  exists r, nth_error reqs i = Some r /\ tanswer1 P r = TSession s /\
    forall m nonce rnd sid exp, r_tok r = mint (p_cfg P) m nonce rnd sid exp ->
      assoc sid (p_db P) = Some s /\ (forall h, slot_handler (ep_slot (r_ep r)) = Some h -> m = MTok h) /\
      (r_ep r <> EpUserinfo -> s_client s = r_by r).
Proof.
  intros Hc H. apply tflight_bound_to_session in H as (r & Hr & Ha & Hm). exists r. split; [exact Hr|]. split; [exact Ha|].
  intros m nonce rnd sid exp Ht. destruct (Hm m nonce rnd sid exp Ht) as (H1 & H2 & H3 & H4). split; [exact H1|]. split; [exact H2|].
  intros Hu. destruct (r_ep r) eqn:Eep; try (apply H3; congruence).
  apply (may_ask_closed P s (r_tok r)); [exact Hc|]. apply H4. reflexivity.
Qed.

(* THE ASKER ONLY GATES.  The answer to an introspection request is the asker-free view of the value, or a refusal:
   r_by occurs in the audience test and nowhere else. *)
Theorem introspect_gate P t asker :
  tanswer1 P (mkTreq EpIntrospect t asker) =
  match tintrospect_view P t with
  | Some s => if may_ask P s t asker then TSession s else TRefused
  | None => TRefused
  end.
Proof.
  unfold tanswer1, tparse, tprocess, tintrospect_view. cbn [r_ep r_tok r_by ep_slot].
  destruct (slot_session (p_cfg P) (p_expired P) (p_db P) SGeneric t) as [s|]; [|reflexivity].
  unfold ep_class_ok. cbn [r_ep r_tok].
  destruct (match generic_class (p_cfg P) (p_expired P) t with Some (MTok KAccess) | Some (MTok KRefresh) => true | _ => false end);
    destruct (may_ask P s t asker); reflexivity.
Qed.
(* whoever asks and is answered gets the same session ... *)
Theorem introspect_asker_independent P t a1 a2 s1 s2 :
  tanswer1 P (mkTreq EpIntrospect t a1) = TSession s1 -> tanswer1 P (mkTreq EpIntrospect t a2) = TSession s2 -> s1 = s2.
Proof.
  rewrite !introspect_gate. destruct (tintrospect_view P t) as [s|]; [|discriminate].
  destruct (may_ask P s t a1); [|discriminate]. destruct (may_ask P s t a2); [|discriminate]. congruence.
Qed.
(* ... which is the one the owner of the token is told, and the one on record for the session id it was minted for *)
Theorem introspect_equals_owner P m nonce rnd sid exp asker s :
  tanswer1 P (mkTreq EpIntrospect (mint (p_cfg P) m nonce rnd sid exp) asker) = TSession s ->
  assoc sid (p_db P) = Some s /\
  forall owner, may_ask P s (mint (p_cfg P) m nonce rnd sid exp) owner = true ->
    tanswer1 P (mkTreq EpIntrospect (mint (p_cfg P) m nonce rnd sid exp) owner) = TSession s.
Proof.
  intros H. split.
  - exact (proj1 (tanswer1_minted P (mkTreq EpIntrospect (mint (p_cfg P) m nonce rnd sid exp) asker) m nonce rnd sid exp s eq_refl H)).
  - intros owner Ho. rewrite introspect_gate in *. destruct (tintrospect_view P _) as [s0|]; [|discriminate].
    destruct (may_ask P s0 _ asker); [|discriminate]. inversion H; subst. now rewrite Ho.
Qed.
(* the session's own client is in the default audience: with nothing on record for the token, its owner is answered *)
Theorem introspect_owner_default P t s :
  tintrospect_view P t = Some s -> (forall c, aud_lookup (s_id s) c (p_aud P) = None) ->
  tanswer1 P (mkTreq EpIntrospect t (s_client s)) = TSession s.
Proof.
  intros Hv Ha. rewrite introspect_gate, Hv. unfold may_ask, tok_aud.
  unfold tintrospect_view in Hv. destruct (slot_session _ _ _ SGeneric t) as [s0|]; [|discriminate].
  unfold ep_class_ok in Hv. cbn [r_ep r_tok] in Hv.
  destruct (generic_class (p_cfg P) (p_expired P) t) as [[c|]|]; try discriminate.
  rewrite Ha. cbn [existsb]. rewrite str_eqb_refl. now rewrite Bool.orb_true_r.
Qed.

(* an access token in flight at userinfo is answered with its own session *)
Theorem tanswer1_userinfo_access P nonce rnd sid exp by_ :
  p_expired P exp = false ->
  tanswer1 P (mkTreq EpUserinfo (mint (p_cfg P) (MTok KAccess) nonce rnd sid exp) by_) =
  match assoc sid (p_db P) with Some s => TSession s | None => TRefused end.
Proof.
  intros E. unfold tanswer1, tparse, tprocess, slot_session. cbn [r_ep r_tok ep_slot].
  rewrite bearer_access_resolves by exact E.
  unfold slot_resolve. cbn [slot_handler]. rewrite handler_info_own by exact E.
  destruct (assoc sid (p_db P)); reflexivity.
Qed.

(* NON-VACUITY / the refuted variant: an endpoint object that remembers what parse_request resolved and lets the
   next process_request use it.  Alone every request is answered correctly; with parse 0, parse 1, process 0 the
   request that presents the token of session 0 is answered with session 1. *)
Definition ex_cfg : hconf := mkHconf (HOpaque 0) (HOpaque 0) (HOpaque 0) 50.
Definition ex_prov : prov :=
  mkProv ex_cfg (fun _ => false)
    [(PS "sid-0", mkSess 0 (PS "diana") (PS "client_1")); (PS "sid-1", mkSess 1 (PS "babs") (PS "client_2"))]
    true [] [].
Definition ex_req (sid : pystr) : treq := mkTreq EpUserinfo (mint ex_cfg (MTok KAccess) (PS "n") (PS "r") sid (PS "99")) (PS "").
Example remembering_endpoint_refuted :
  let reqs := [ex_req (PS "sid-0"); ex_req (PS "sid-1")] in
  let s0 := mkSess 0 (PS "diana") (PS "client_1") in
  let s1 := mkSess 1 (PS "babs") (PS "client_2") in
  town_answer (tep_remember ex_prov) (ex_req (PS "sid-0")) = TSession s0 /\
  town_answer (tep_remember ex_prov) (ex_req (PS "sid-1")) = TSession s1 /\
  run_tflight (tep_remember ex_prov) reqs [TvParse 0; TvProcess 0; TvRespond 0; TvParse 1; TvProcess 1; TvRespond 1]
    = [(0%nat, TSession s0); (1%nat, TSession s1)] /\
  run_tflight (tep_remember ex_prov) reqs [TvParse 0; TvParse 1; TvProcess 0; TvRespond 0; TvProcess 1; TvRespond 1]
    = [(0%nat, TSession s1); (1%nat, TSession s1)] /\
  run_tflight (tep_model ex_prov) reqs [TvParse 0; TvParse 1; TvProcess 0; TvRespond 0; TvProcess 1; TvRespond 1]
    = [(0%nat, TSession s0); (1%nat, TSession s1)].
Proof. vm_compute. repeat split; reflexivity. Qed.

(* NON-VACUITY / the refuted variant of the asker dimension: a resource server registered with the audience
   restriction off, and one listed in the audience of the token of session 1, ask about the tokens of two sessions.
   The model answers them with the sessions the tokens were minted for - the very answers their owners get; an
   application that is neither is refused; an introspection that names the asker as the token's client answers the
   owner correctly and everybody else with a session that does not exist. *)
Definition ex_prov_rs : prov :=
  mkProv ex_cfg (fun _ => false)
    [(PS "sid-0", mkSess 0 (PS "diana") (PS "client_1")); (PS "sid-1", mkSess 1 (PS "babs") (PS "client_2"))]
    true [(PS "rs_open", false)] [(1%nat, 1%nat, [PS "client_2"; PS "rs_aud"])].
Definition ex_ireq (sid asker : pystr) : treq := mkTreq EpIntrospect (mint ex_cfg (MTok KAccess) (PS "n") (PS "r") sid (PS "99")) asker.
Definition tanswer1_asker_named (P : prov) (r : treq) : tanswer := if tparse P r then tprocess_asker_named P r else TRefused.
Example asker_named_refuted :
  let s0 := mkSess 0 (PS "diana") (PS "client_1") in
  let s1 := mkSess 1 (PS "babs") (PS "client_2") in
  tanswer1 ex_prov_rs (ex_ireq (PS "sid-0") (PS "client_1")) = TSession s0 /\
  tanswer1 ex_prov_rs (ex_ireq (PS "sid-0") (PS "rs_open")) = TSession s0 /\
  tanswer1 ex_prov_rs (ex_ireq (PS "sid-1") (PS "rs_open")) = TSession s1 /\
  tanswer1 ex_prov_rs (ex_ireq (PS "sid-1") (PS "rs_aud")) = TSession s1 /\
  tanswer1 ex_prov_rs (ex_ireq (PS "sid-0") (PS "rs_aud")) = TRefused /\
  tanswer1 ex_prov_rs (ex_ireq (PS "sid-0") (PS "client_2")) = TRefused /\
  tanswer1_asker_named ex_prov_rs (ex_ireq (PS "sid-0") (PS "client_1")) = TSession s0 /\
  tanswer1_asker_named ex_prov_rs (ex_ireq (PS "sid-0") (PS "rs_open")) = TSession (mkSess 0 (PS "diana") (PS "rs_open")) /\
  tanswer1_asker_named ex_prov_rs (ex_ireq (PS "sid-1") (PS "rs_aud")) = TSession (mkSess 1 (PS "babs") (PS "rs_aud")).
Proof. vm_compute. repeat split; reflexivity. Qed.

(* ================================================================== WHERE THE HANDLER KEYS COME FROM (Model/TokenFmt.v ksrc ...)
   Provider instances whose keys the library generates are built from a supply of draws.  THE FRESHNESS ASSUMPTION is
   the hypothesis draws_distinct: two different draws never yield the same key material.  That the real library draws
   anew for every handler of every instance it builds - which is what makes this hypothesis a statement about the code
   - is checked on every run by harness/drv_C04.py (chk_ifresh on key material read off really built instances). *)
Definition draws_distinct (sup : nat -> nat) : Prop := forall d d', d <> d' -> sup d <> sup d'.
Definition all_gen (s : ispec) : Prop :=
  is_code s = HsOpaque KsGen /\ is_access s = HsOpaque KsGen /\ is_refresh s = HsOpaque KsGen /\ is_sm s = KsGen.
Definition hs_given (s : hsrc) : Prop := (exists k, s = HsOpaque (KsGiven k)) \/ (exists k, s = HsJwt k).
Definition all_given (s : ispec) : Prop :=
  hs_given (is_code s) /\ hs_given (is_access s) /\ hs_given (is_refresh s) /\ exists k, is_sm s = KsGiven k.
(* k is one of the symmetric keys of the instance: of a class handler or of the session manager *)
Definition inst_key (i : inst) (k : nat) : Prop := In (Some k) (ikeys i).
Definition kdraws (s : ksrc) : nat := match s with KsGen => 1 | KsGiven _ => 0 end.
Definition hdraws (s : hsrc) : nat := match s with HsOpaque ks => kdraws ks | HsJwt _ => 0 end.
Definition idraws (s : ispec) : nat := (hdraws (is_code s) + hdraws (is_access s) + hdraws (is_refresh s) + kdraws (is_sm s))%nat.
Fixpoint inext (l : list istep) (n : nat) : nat :=
  match l with
  | [] => n
  | IInst s :: r => inext r (n + idraws s)
  | IOther m :: r => inext r (n + m)
  end.

Lemma handler_key_is_inst_key i c k : h_of (in_cfg i) c = HOpaque k -> inst_key i k.
Proof.
  unfold inst_key, ikeys. destruct c; cbn [h_of]; intros ->; cbn [hkey In]; auto.
Qed.

Section IFresh.
  Variable sup : nat -> nat.

  Lemma ktake_snd s n : snd (ktake sup s n) = (n + kdraws s)%nat.
  Proof. destruct s; cbn; lia. Qed.
  Lemma htake_snd s n : snd (htake sup s n) = (n + hdraws s)%nat.
  Proof. destruct s as [ks|k]; cbn [htake snd hdraws]; [apply ktake_snd|lia]. Qed.
  Lemma iconstruct_snd s n : snd (iconstruct sup s n) = (n + idraws s)%nat.
  Proof.
    unfold iconstruct, idraws.
    pose proof (htake_snd (is_code s) n) as H1. destruct (htake sup (is_code s) n) as [hc n1]. cbn [snd] in H1.
    pose proof (htake_snd (is_access s) n1) as H2. destruct (htake sup (is_access s) n1) as [ha n2]. cbn [snd] in H2.
    pose proof (htake_snd (is_refresh s) n2) as H3. destruct (htake sup (is_refresh s) n2) as [hr n3]. cbn [snd] in H3.
    pose proof (ktake_snd (is_sm s) n3) as H4. destruct (ktake sup (is_sm s) n3) as [km n4]. cbn [snd] in H4.
    cbn [snd]. lia.
  Qed.

  (* an instance all of whose keys are generated: four consecutive draws *)
  Lemma iconstruct_all_gen s n : all_gen s ->
    iconstruct sup s n =
    (mk_inst (mkHconf (HOpaque (sup n)) (HOpaque (sup (S n))) (HOpaque (sup (S (S n)))) (is_idt s)) (sup (S (S (S n)))),
     S (S (S (S n)))).
  Proof. destruct s as [c a r i m]. unfold all_gen. cbn. intros (-> & -> & -> & ->). reflexivity. Qed.

  (* every key of such an instance is one of the draws made during its construction *)
  Lemma iconstruct_keys s n k :
    all_gen s -> inst_key (fst (iconstruct sup s n)) k -> exists d, (n <= d < snd (iconstruct sup s n))%nat /\ k = sup d.
  Proof.
    intros G. rewrite (iconstruct_all_gen s n G). unfold inst_key, ikeys. cbn.
    intros [E|[E|[E|[E|[]]]]]; inversion E; subst.
    - exists n. split; [lia|reflexivity].
    - exists (S n). split; [lia|reflexivity].
    - exists (S (S n)). split; [lia|reflexivity].
    - exists (S (S (S n))). split; [lia|reflexivity].
  Qed.

  (* two instances with generated keys, the second built after the first (anything may draw in between): under the
     freshness hypothesis they share no key - no class handler key, no session manager key *)
  Lemma generated_disjoint s1 s2 n n2 :
    draws_distinct sup -> all_gen s1 -> all_gen s2 -> (snd (iconstruct sup s1 n) <= n2)%nat ->
    forall k, inst_key (fst (iconstruct sup s1 n)) k -> inst_key (fst (iconstruct sup s2 n2)) k -> False.
  Proof.
    intros Hf G1 G2 Hle k K1 K2.
    apply (iconstruct_keys s1 n k G1) in K1 as (d1 & R1 & E1).
    apply (iconstruct_keys s2 n2 k G2) in K2 as (d2 & R2 & E2).
    apply (Hf d1 d2); [lia|congruence].
  Qed.
  (* ... and the class handlers of ONE such instance have a key each *)
  Lemma generated_slots_distinct s n c c' k k' :
    draws_distinct sup -> all_gen s -> c <> c' ->
    h_of (in_cfg (fst (iconstruct sup s n))) c = HOpaque k -> h_of (in_cfg (fst (iconstruct sup s n))) c' = HOpaque k' -> k <> k'.
  Proof.
    intros Hf G N. rewrite (iconstruct_all_gen s n G). cbn [fst in_cfg].
    destruct c, c'; try contradiction; cbn [h_of h_code h_access h_refresh]; intros E1 E2; inversion E1; inversion E2; subst;
      apply Hf; lia.
  Qed.

  (* histories *)
  Lemma ibuild_all_app l1 l2 n : ibuild_all sup (l1 ++ l2) n = ibuild_all sup l1 n ++ ibuild_all sup l2 (inext l1 n).
  Proof.
    revert n; induction l1 as [|[s|m] r IH]; intro n; cbn [app ibuild_all inext]; [reflexivity| |apply IH].
    pose proof (iconstruct_snd s n) as Hs. destruct (iconstruct sup s n) as [h n']. cbn [snd] in Hs. subst n'.
    now rewrite IH.
  Qed.
  Lemma ibuild_all_cons s r n :
    ibuild_all sup (IInst s :: r) n = fst (iconstruct sup s n) :: ibuild_all sup r (n + idraws s).
  Proof.
    cbn [ibuild_all]. pose proof (iconstruct_snd s n) as Hs. destruct (iconstruct sup s n) as [h n']. cbn [snd fst] in *. now subst.
  Qed.
  Lemma inext_le l n : (n <= inext l n)%nat.
  Proof. revert n; induction l as [|[s|m] r IH]; intro n; cbn [inext]; [lia| |]; (etransitivity; [|apply IH]); lia. Qed.

  (* any two instances of one history whose keys are all generated share no key *)
  Lemma ihistory_independent pre s1 mid s2 post n :
    draws_distinct sup -> all_gen s1 -> all_gen s2 ->
    let n1 := inext pre n in
    let n2 := inext mid (n1 + idraws s1) in
    let i1 := fst (iconstruct sup s1 n1) in
    let i2 := fst (iconstruct sup s2 n2) in
    ibuild_all sup (pre ++ IInst s1 :: mid ++ IInst s2 :: post) n
      = ibuild_all sup pre n ++ i1 :: ibuild_all sup mid (n1 + idraws s1) ++ i2 :: ibuild_all sup post (n2 + idraws s2)
    /\ forall k, inst_key i1 k -> inst_key i2 k -> False.
  Proof.
    intros Hf G1 G2 n1 n2 i1 i2. split.
    - rewrite ibuild_all_app, ibuild_all_cons, ibuild_all_app, ibuild_all_cons. reflexivity.
    - apply generated_disjoint; auto. rewrite iconstruct_snd. apply inext_le.
  Qed.

  (* positive control: instances built from the same given keys are the same instance, whenever they are built *)
  Lemma ktake_given k n : ktake sup (KsGiven k) n = (k, n).
  Proof. reflexivity. Qed.
  Lemma htake_given s n n' : hs_given s -> htake sup s n = (fst (htake sup s n'), n).
  Proof. intros [(k & ->)|(k & ->)]; reflexivity. Qed.
  Lemma given_same s n n' : all_given s -> fst (iconstruct sup s n) = fst (iconstruct sup s n').
  Proof.
    destruct s as [c a r i m]. unfold all_given. cbn [is_code is_access is_refresh is_sm].
    intros ([(k1 & ->)|(k1 & ->)] & [(k2 & ->)|(k2 & ->)] & [(k3 & ->)|(k3 & ->)] & (k4 & ->)); reflexivity.
  Qed.
End IFresh.

(* a value encrypted under a key that is none of the instance's opaque handler keys is refused at EVERY slot - the
   class slots, the bearer credential, the class-agnostic lookup -, whatever its plaintext *)
Lemma foreign_key_handler cfg expired h k nonce m :
  (forall c k', h_of cfg c = HOpaque k' -> k' <> k) -> handler_info cfg expired h (AEnc k nonce m) = TErr EUnknownToken.
Proof.
  intros H. unfold handler_info. destruct (h_of cfg h) as [k'|k'] eqn:E.
  - unfold opaque_info. cbn [adec]. specialize (H h k' E). apply Nat.eqb_neq in H. now rewrite H.
  - reflexivity.
Qed.
Theorem foreign_key_every_slot cfg expired s k nonce m :
  (forall c k', h_of cfg c = HOpaque k' -> k' <> k) -> slot_resolve cfg expired s (AEnc k nonce m) = TErr EUnknownToken.
Proof.
  intros H. unfold slot_resolve. destruct (slot_handler s) as [h|]; [now apply foreign_key_handler|].
  unfold generic_info. rewrite !foreign_key_handler by exact H. reflexivity.
Qed.

Lemma mint_opaque cfg c k nonce rnd sid exp :
  h_of cfg c = HOpaque k -> mint cfg (MTok c) nonce rnd sid exp = AEnc k nonce (Atom (opaque_plain rnd (tk_name c) sid exp)).
Proof. unfold mint. now intros ->. Qed.
Lemma all_gen_opaque sup s n c : all_gen s -> exists k, h_of (in_cfg (fst (iconstruct sup s n))) c = HOpaque k.
Proof. intros G. rewrite (iconstruct_all_gen sup s n G). destruct c; cbn; eauto. Qed.

(* THE THEOREM OF THIS SECTION: independently built instances whose keys the library generated refuse each other's
   tokens - codes, access tokens, refresh tokens - in every slot *)
Theorem independent_instances_refuse sup s1 s2 n n2 :
  draws_distinct sup -> all_gen s1 -> all_gen s2 -> (snd (iconstruct sup s1 n) <= n2)%nat ->
  let A := in_cfg (fst (iconstruct sup s1 n)) in let B := in_cfg (fst (iconstruct sup s2 n2)) in
  forall expired s c nonce rnd sid exp,
    slot_resolve A expired s (mint B (MTok c) nonce rnd sid exp) = TErr EUnknownToken /\
    slot_resolve B expired s (mint A (MTok c) nonce rnd sid exp) = TErr EUnknownToken.
Proof.
  intros Hf G1 G2 Hle A B expired s c nonce rnd sid exp.
  pose proof (generated_disjoint sup s1 s2 n n2 Hf G1 G2 Hle) as D.
  destruct (all_gen_opaque sup s1 n c G1) as (ka & Ea). destruct (all_gen_opaque sup s2 n2 c G2) as (kb & Eb).
  split.
  - unfold B. rewrite (mint_opaque _ c kb) by exact Eb. apply foreign_key_every_slot.
    intros c' k' E ->. apply (D kb); eapply handler_key_is_inst_key; eauto.
  - unfold A. rewrite (mint_opaque _ c ka) by exact Ea. apply foreign_key_every_slot.
    intros c' k' E ->. apply (D ka); eapply handler_key_is_inst_key; eauto.
Qed.

(* ... and a genuine token of one of them, its plaintext encrypted anew under ANY key of the other (a class handler's
   or the session manager's), is refused by the instance that minted it, in every slot *)
Theorem reencrypted_refused sup s1 s2 n n2 :
  draws_distinct sup -> all_gen s1 -> all_gen s2 -> (snd (iconstruct sup s1 n) <= n2)%nat ->
  let IA := fst (iconstruct sup s1 n) in let IB := fst (iconstruct sup s2 n2) in
  forall expired s c nonce nonce' rnd sid exp k,
    (inst_key IB k -> slot_resolve (in_cfg IA) expired s (reencrypt k nonce' (mint (in_cfg IA) (MTok c) nonce rnd sid exp)) = TErr EUnknownToken) /\
    (inst_key IA k -> slot_resolve (in_cfg IB) expired s (reencrypt k nonce' (mint (in_cfg IB) (MTok c) nonce rnd sid exp)) = TErr EUnknownToken).
Proof.
  intros Hf G1 G2 Hle IA IB expired s c nonce nonce' rnd sid exp k.
  pose proof (generated_disjoint sup s1 s2 n n2 Hf G1 G2 Hle) as D.
  destruct (all_gen_opaque sup s1 n c G1) as (ka & Ea). destruct (all_gen_opaque sup s2 n2 c G2) as (kb & Eb).
  split; intros Hk.
  - unfold IA. rewrite (mint_opaque _ c ka) by exact Ea. cbn [reencrypt]. apply foreign_key_every_slot.
    intros c' k' E ->. apply (D k); [eapply handler_key_is_inst_key; eauto|exact Hk].
  - unfold IB. rewrite (mint_opaque _ c kb) by exact Eb. cbn [reencrypt]. apply foreign_key_every_slot.
    intros c' k' E ->. apply (D k); [exact Hk|eapply handler_key_is_inst_key; eauto].
Qed.

(* UNFORGEABLE AGAINST THE OTHER INSTANCE (from opaque_unforgeable): the operator of instance B knows every key of B.
   With everything A published (K: the handler key k0 of A never in it, under k0 only minted tokens) AND all keys of B
   in the adversary's hands, whatever can be built and A's handler accepts is a token A minted, unmodified. *)
Theorem other_instance_cannot_forge sup s1 s2 n n2 (K : term -> Prop) (minted : pystr -> pystr -> Prop) :
  draws_distinct sup -> all_gen s1 -> all_gen s2 ->
  (snd (iconstruct sup s1 n) <= n2 \/ snd (iconstruct sup s2 n2) <= n)%nat ->
  let A := fst (iconstruct sup s1 n) in let B := fst (iconstruct sup s2 n2) in
  forall h k0, h_of (in_cfg A) h = HOpaque k0 ->
  (forall t, K t -> ~ sub (Key k0) t) ->
  (forall t0 nonce m, K t0 -> sub (AEnc k0 nonce m) t0 ->
      exists rnd c sid exp, m = Atom (opaque_plain rnd c sid exp) /\ minted c sid) ->
  forall expired t sid,
    derivable (fun x => K x \/ exists k, inst_key B k /\ x = Key k) t ->
    handler_info (in_cfg A) expired h t = TOk (Some sid) ->
    exists c, class_ok h c = true /\ minted c sid /\ exists t0, K t0 /\ sub t t0.
Proof.
  intros Hf G1 G2 Hord A B h k0 Eh Hsec Hpub expired t sid Hd Hi.
  assert (D : forall k, inst_key A k -> inst_key B k -> False).
  { destruct Hord as [Hle|Hle].
    - exact (generated_disjoint sup s1 s2 n n2 Hf G1 G2 Hle).
    - intros k Ka Kb. exact (generated_disjoint sup s2 s1 n2 n Hf G2 G1 Hle k Kb Ka). }
  assert (Ka : inst_key A k0) by (eapply handler_key_is_inst_key; eauto).
  unfold handler_info in Hi. rewrite Eh in Hi.
  set (K' := fun x => K x \/ exists k, inst_key B k /\ x = Key k) in *.
  assert (Hsec' : forall x, K' x -> ~ sub (Key k0) x).
  { intros x [Hx|(k & Kb & ->)]; [now apply Hsec|]. intros Hs. inversion Hs; subst. eapply D; eauto. }
  assert (Hpub' : forall t0 nonce m, K' t0 -> sub (AEnc k0 nonce m) t0 ->
             exists rnd c sid exp, m = Atom (opaque_plain rnd c sid exp) /\ minted c sid).
  { intros t0 nonce m [Hx|(k & Kb & ->)] Hs; [now apply (Hpub t0 nonce m)|]. inversion Hs. }
  destruct (opaque_unforgeable K' k0 Hsec' minted Hpub' h t sid Hd Hi) as (c & Hc & Hm & t0 & [Ht0|(k & Kb & ->)] & Hs).
  - exists c. repeat split; auto. exists t0. auto.
  - exfalso. inversion Hs; subst. cbn in Hi. discriminate.
Qed.

(* positive control: instances the deployment gave the same keys accept each other's tokens *)
Theorem given_instances_accept sup s n n' expired c nonce rnd sid exp :
  all_given s -> expired exp = false ->
  handler_info (in_cfg (fst (iconstruct sup s n'))) expired c (mint (in_cfg (fst (iconstruct sup s n))) (MTok c) nonce rnd sid exp) = TOk (Some sid).
Proof. intros G E. rewrite (given_same sup s n n' G). now apply handler_info_own. Qed.

(* non-vacuity: a history with two all-generated instances, something else drawing in between, and two instances
   given key 5 everywhere; the supply of distinct draws sup0; and the NECESSITY of the hypothesis: under a supply
   that hands out the same key material again (a key made up once per process instead of once per handler) the
   second instance resolves the first one's access token *)
Definition sGen : ispec := mk_ispec (HsOpaque KsGen) (HsOpaque KsGen) (HsOpaque KsGen) 50 KsGen.
Definition sG5 : ispec := mk_ispec (HsOpaque (KsGiven 5)) (HsOpaque (KsGiven 5)) (HsOpaque (KsGiven 5)) 50 (KsGiven 6).
Lemma sup0_distinct : draws_distinct sup0.
Proof. intros d d' N. unfold sup0. lia. Qed.
Definition stale (_ : nat) : nat := 7%nat.
Example key_sources_nonvacuous :
  draws_distinct sup0 /\ all_gen sGen /\ all_given sG5 /\
  map ikeys (ibuild_all sup0 [IInst sGen; IOther 3; IInst sGen; IInst sG5; IInst sG5] 0)
    = [[Some 1000; Some 1001; Some 1002; Some 1003]; [Some 1007; Some 1008; Some 1009; Some 1010];
       [Some 5; Some 5; Some 5; Some 6]; [Some 5; Some 5; Some 5; Some 6]]%nat /\
  chk_icross ([IInst sGen; IOther 3; IInst sGen], 0, 1, 1, None, 2, false, false)%nat = true /\
  chk_icross ([IInst sGen; IOther 3; IInst sGen], 0, 0, 1, Some (1, 1), 2, true, false)%nat = true /\
  chk_icross ([IInst sGen; IOther 3; IInst sGen], 0, 0, 1, None, 2, true, true)%nat = true /\
  chk_icross ([IInst sG5; IInst sG5], 0, 1, 1, None, 2, false, true)%nat = true /\
  ~ draws_distinct stale /\
  let A := in_cfg (fst (iconstruct stale sGen 0)) in let B := in_cfg (fst (iconstruct stale sGen 4)) in
  slot_resolve B (fun _ => false) SUserinfo (mint A (MTok KAccess) (PS "n") (PS "r") (PS "sid") (PS "99")) = TOk (Some (PS "sid")).
Proof.
  split; [exact sup0_distinct|]. split; [repeat split|].
  split; [unfold all_given, hs_given; cbn; repeat (split; [left; eexists; reflexivity|]); eexists; reflexivity|].
  split; [vm_compute; reflexivity|]. split; [vm_compute; reflexivity|]. split; [vm_compute; reflexivity|].
  split; [vm_compute; reflexivity|]. split; [vm_compute; reflexivity|].
  split; [intro H; exact (H 0 1 ltac:(discriminate) eq_refl)%nat|]. vm_compute. reflexivity.
Qed.

(* the grouped checker of the driver is the pointwise one at all eight places *)
Lemma igroup_model_pointwise steps i j m re obs :
  igroup_model (steps, i, j, m, re, obs) = map (fun p => icross_model (steps, i, j, m, re, fst p, snd p, false)) igroup_slots.
Proof. reflexivity. Qed.
