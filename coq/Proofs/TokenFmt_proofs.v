(* Proofs/TokenFmt_proofs.v — tokens are unforgeable, class-separated and bound to their session. *)
From Coq Require Import String List Bool Arith.
From Verif Require Import Lib.Base Lib.PyStr Lib.Crypto Model.Lv Proofs.Lv_proofs Model.TokenFmt.
Import ListNotations.
Open Scope string_scope.

(* a token minted by the handler of class c resolves, with that handler, to exactly its session id *)
Theorem opaque_resolves k nonce rnd c sid exp :
  opaque_info k c (opaque_token k nonce rnd c sid exp) = TOk (Some sid).
Proof.
  unfold opaque_info, opaque_token, opaque_plain. cbn [adec]. rewrite Nat.eqb_refl. rewrite lv_roundtrip.
  unfold class_ok. rewrite str_eqb_refl. reflexivity.
Qed.

(* class names and their one-letter aliases are pairwise different *)
Lemma class_ok_iff h c : class_ok h (tk_name c) = tk_eqb h c.
Proof. destruct h, c; vm_compute; reflexivity. Qed.

(* CLASS SEPARATION, also when all handlers share one key: what decides is the class field inside the
   authenticated plaintext *)
Theorem opaque_class_separation k nonce rnd h c sid exp :
  h <> c -> opaque_info k h (opaque_token k nonce rnd c sid exp) = TErr EWrongClass.
Proof.
  intros N. unfold opaque_info, opaque_token, opaque_plain. cbn [adec]. rewrite Nat.eqb_refl. rewrite lv_roundtrip.
  rewrite class_ok_iff. destruct h, c; try reflexivity; contradiction.
Qed.

(* KEY SEPARATION: a token of another handler instance (another key) does not decrypt *)
Theorem opaque_key_separation k k' nonce rnd h c sid exp :
  k <> k' -> opaque_info k h (opaque_token k' nonce rnd c sid exp) = TErr EUnknownToken.
Proof.
  intros N. unfold opaque_info, opaque_token. cbn [adec]. apply Nat.eqb_neq in N. now rewrite N.
Qed.

(* BOUND TO THE SESSION: two minted tokens with the same value were minted for the same class and session *)
Theorem opaque_token_injective k n1 n2 r1 r2 c1 c2 s1 s2 e1 e2 :
  opaque_token k n1 r1 c1 s1 e1 = opaque_token k n2 r2 c2 s2 e2 -> c1 = c2 /\ s1 = s2 /\ r1 = r2 /\ e1 = e2.
Proof.
  unfold opaque_token, opaque_plain. intros H. injection H as Hn Hp.
  change (lv_pack [r1; tk_name c1; s1; e1] = lv_pack [r2; tk_name c2; s2; e2]) in Hp. apply lv_pack_injective in Hp.
  inversion Hp as [[Hr Hc Hs He]]. repeat split; auto. destruct c1, c2; vm_compute in Hc; try reflexivity; discriminate.
Qed.

(* what info returns is what is inside: for ANY accepted term, the session id is the third field of the plaintext *)
Theorem opaque_info_reads k h t sid :
  opaque_info k h t = TOk (Some sid) ->
  exists nonce plain id c rest, t = AEnc k nonce (Atom plain) /\ lv_unpack plain = Ok (id :: c :: sid :: rest) /\ class_ok h c = true.
Proof.
  unfold opaque_info. destruct t as [| | | |k' nonce m| |]; cbn [adec]; try discriminate.
  destruct (Nat.eqb k k') eqn:E; [|discriminate]. apply Nat.eqb_eq in E. subst k'.
  destruct m as [plain| | | | | |]; try discriminate.
  destruct (lv_unpack plain) as [[|id [|c rest]]| |] eqn:El; try discriminate.
  destruct (class_ok h c) eqn:Ec; [|discriminate]. destruct rest as [|s rest]; [discriminate|].
  intros H. inversion H; subst. exists nonce, plain, id, c, rest. auto.
Qed.

(* ---- unforgeability (Dolev-Yao) ---- *)
Section Unforgeable.
  Variable K : term -> Prop.             (* everything the provider ever published *)
  Variable k0 : nat.                     (* the key of the handler *)
  Hypothesis secret : forall t, K t -> ~ sub (Key k0) t.
  (* what the provider publishes under k0 are tokens it minted: plaintexts lv_pack [rnd; class; sid; exp] *)
  Variable minted : pystr -> pystr -> Prop.      (* class name, session id *)
  Hypothesis published_are_minted :
    forall t0 nonce m, K t0 -> sub (AEnc k0 nonce m) t0 ->
      exists rnd c sid exp, m = Atom (opaque_plain rnd c sid exp) /\ minted c sid.

  (* any string an adversary can build that the handler accepts is a token the provider minted, unmodified,
     for that handler's class, and resolves to the session it was minted for *)
  Theorem opaque_unforgeable h t sid :
    derivable K t -> opaque_info k0 h t = TOk (Some sid) ->
    exists c, class_ok h c = true /\ minted c sid /\ exists t0, K t0 /\ sub t t0.
  Proof.
    intros Hd Hi. apply opaque_info_reads in Hi as (nonce&plain&id&c&rest&->&Hl&Hc).
    destruct (aenc_genuine K k0 secret nonce (Atom plain) Hd) as (t0&Ht0&Hs).
    destruct (published_are_minted _ _ _ Ht0 Hs) as (rnd&c'&sid'&exp&Hm&Hmint).
    inversion Hm as [Hp]. unfold opaque_plain in Hp. rewrite Hp in Hl. rewrite lv_roundtrip in Hl.
    inversion Hl; subst. exists c. repeat split; auto. exists t0. auto.
  Qed.
End Unforgeable.

(* ---- JWT tokens ---- *)
Theorem jwt_resolves k h sid exp expired :
  expired exp = false -> jwt_info k h expired (jwt_token k (Some (tk_name h)) (Some sid) exp) = TOk (Some sid).
Proof. intros E. unfold jwt_info, jwt_token, jwt_payload. cbn [sig_verify]. rewrite Nat.eqb_refl. unfold class_ok. rewrite str_eqb_refl. cbn. now rewrite E. Qed.
Theorem jwt_class_separation k h c sid exp expired :
  h <> c -> jwt_info k h expired (jwt_token k (Some (tk_name c)) sid exp) = TErr EWrongClass.
Proof.
  intros N. unfold jwt_info, jwt_token, jwt_payload. cbn [sig_verify]. rewrite Nat.eqb_refl. rewrite class_ok_iff.
  destruct h, c; try reflexivity; contradiction.
Qed.
(* an ID Token (no token_class claim) never passes as an access token, even under the same signing key *)
Theorem id_token_is_no_access_token k h sid exp expired :
  jwt_info k h expired (jwt_token k None sid exp) = TErr EWrongClass.
Proof. unfold jwt_info, jwt_token, jwt_payload. cbn [sig_verify]. rewrite Nat.eqb_refl. reflexivity. Qed.
Theorem jwt_expired_refused k h sid exp expired :
  expired exp = true -> jwt_info k h expired (jwt_token k (Some (tk_name h)) sid exp) = TErr ETooOld.
Proof. intros E. unfold jwt_info, jwt_token, jwt_payload. cbn [sig_verify]. rewrite Nat.eqb_refl. unfold class_ok. rewrite str_eqb_refl. cbn. now rewrite E. Qed.
Theorem jwt_foreign_key_refused k k' h c sid exp expired :
  k <> k' -> jwt_info k h expired (jwt_token k' c sid exp) = TErr EUnknownToken.
Proof. intros N. unfold jwt_info, jwt_token. cbn [sig_verify]. apply Nat.eqb_neq in N. now rewrite N. Qed.

Section JwtUnforgeable.
  Variable K : term -> Prop.
  Variable k0 : nat.
  Hypothesis secret : forall t, K t -> ~ sub (Key k0) t.
  Theorem jwt_unforgeable h expired t sid :
    derivable K t -> jwt_info k0 h expired t = TOk sid -> exists t0, K t0 /\ sub t t0.
  Proof.
    intros Hd Hi. unfold jwt_info in Hi. destruct t as [| | | | | |k m]; cbn [sig_verify] in Hi; try discriminate.
    destruct (Nat.eqb k0 k) eqn:E; [|discriminate]. apply Nat.eqb_eq in E. subst k.
    apply (sig_genuine K k0 secret m Hd).
  Qed.
End JwtUnforgeable.

(* ---- SLOTS: which minted values resolve where ---- *)
Lemma tk_eq_dec (a b : tk) : {a = b} + {a <> b}.
Proof. decide equality. Qed.

(* a class handler of the provider resolves, among everything the provider mints (ID Tokens included, whatever
   keys the handlers share), only the tokens of its own class - and those to the session they were minted for *)
Lemma handler_info_minted cfg expired h m nonce rnd sid exp x :
  handler_info cfg expired h (mint cfg m nonce rnd sid exp) = TOk x -> m = MTok h /\ x = Some sid.
Proof.
  unfold handler_info, mint. destruct m as [c|].
  - destruct (tk_eq_dec h c) as [->|N].
    + destruct (h_of cfg c) as [k|k].
      * rewrite opaque_resolves. intros H; inversion H; auto.
      * unfold jwt_info, jwt_token, jwt_payload. cbn [sig_verify]. rewrite Nat.eqb_refl. unfold class_ok. rewrite str_eqb_refl.
        cbn. destruct (expired exp); intros H; inversion H; auto.
    + destruct (h_of cfg h) as [k|k], (h_of cfg c) as [k'|k'].
      * destruct (Nat.eq_dec k k') as [->|Nk].
        -- rewrite opaque_class_separation by exact N. discriminate.
        -- rewrite opaque_key_separation by exact Nk. discriminate.
      * unfold opaque_info, jwt_token. cbn [adec]. discriminate.
      * unfold jwt_info, opaque_token. cbn [sig_verify]. discriminate.
      * destruct (Nat.eq_dec k k') as [->|Nk].
        -- rewrite jwt_class_separation by exact N. discriminate.
        -- rewrite jwt_foreign_key_refused by exact Nk. discriminate.
  - destruct (h_of cfg h) as [k|k].
    + unfold opaque_info, jwt_token. cbn [adec]. discriminate.
    + destruct (Nat.eq_dec k (h_idt cfg)) as [->|Nk].
      * rewrite id_token_is_no_access_token. discriminate.
      * rewrite jwt_foreign_key_refused by exact Nk. discriminate.
Qed.

Lemma handler_info_own cfg expired c nonce rnd sid exp :
  expired exp = false -> handler_info cfg expired c (mint cfg (MTok c) nonce rnd sid exp) = TOk (Some sid).
Proof.
  intros E. unfold handler_info, mint. destruct (h_of cfg c) as [k|k].
  - apply opaque_resolves.
  - now apply jwt_resolves.
Qed.

(* every slot that asks one class handler is class-separated *)
Theorem slot_class_separation cfg expired s h m nonce rnd sid exp x :
  slot_handler s = Some h -> slot_resolve cfg expired s (mint cfg m nonce rnd sid exp) = TOk x -> m = MTok h /\ x = Some sid.
Proof. unfold slot_resolve. intros ->. apply handler_info_minted. Qed.

(* THE BEARER CLIENT CREDENTIAL: of everything the provider mints, only an access token resolves there *)
Theorem bearer_only_access cfg expired m nonce rnd sid exp x :
  slot_resolve cfg expired SBearer (mint cfg m nonce rnd sid exp) = TOk x -> m = MTok KAccess /\ x = Some sid.
Proof. now apply slot_class_separation. Qed.

Theorem bearer_access_resolves cfg expired nonce rnd sid exp :
  expired exp = false -> slot_resolve cfg expired SBearer (mint cfg (MTok KAccess) nonce rnd sid exp) = TOk (Some sid).
Proof. intros E. unfold slot_resolve. cbn [slot_handler]. now apply handler_info_own. Qed.

(* ... and it authenticates the client of the session it was minted for, nobody else *)
Theorem bearer_client_is_session_client cfg expired db m nonce rnd sid exp client :
  slot_client cfg expired db SBearer (mint cfg m nonce rnd sid exp) = Some client ->
  m = MTok KAccess /\ assoc sid db = Some client.
Proof.
  unfold slot_client. destruct (slot_resolve cfg expired SBearer (mint cfg m nonce rnd sid exp)) as [x|e] eqn:E; [|discriminate].
  apply bearer_only_access in E as [-> ->]. auto.
Qed.

Theorem bearer_access_authenticates cfg expired db nonce rnd sid exp :
  expired exp = false -> slot_client cfg expired db SBearer (mint cfg (MTok KAccess) nonce rnd sid exp) = assoc sid db.
Proof. intros E. unfold slot_client. now rewrite bearer_access_resolves. Qed.

(* the class-agnostic lookup (the `token` parameter of introspection / revocation) resolves every class: it must
   not be what a class slot asks *)
Lemma not_ok_other cfg expired h c nonce rnd sid exp :
  h <> c -> is_ok (handler_info cfg expired h (mint cfg (MTok c) nonce rnd sid exp)) = false.
Proof.
  intros N. destruct (handler_info cfg expired h (mint cfg (MTok c) nonce rnd sid exp)) as [x|e] eqn:E; [|reflexivity].
  apply handler_info_minted in E as [E _]. inversion E. congruence.
Qed.
Theorem generic_resolves_every_class cfg expired c nonce rnd sid exp :
  expired exp = false -> slot_resolve cfg expired SGeneric (mint cfg (MTok c) nonce rnd sid exp) = TOk (Some sid).
Proof.
  intros E. unfold slot_resolve. cbn [slot_handler]. unfold generic_info.
  destruct c.
  - rewrite (handler_info_own cfg expired KCode) by exact E. reflexivity.
  - rewrite (not_ok_other cfg expired KCode KAccess) by discriminate.
    rewrite (handler_info_own cfg expired KAccess) by exact E. reflexivity.
  - rewrite (not_ok_other cfg expired KCode KRefresh) by discriminate.
    rewrite (not_ok_other cfg expired KAccess KRefresh) by discriminate.
    rewrite (handler_info_own cfg expired KRefresh) by exact E. reflexivity.
Qed.

(* an adversary's string at the bearer slot (opaque access handler): accepted only if minted with an access class *)
Theorem bearer_unforgeable (K : term -> Prop) (k0 : nat) (minted : pystr -> pystr -> Prop) cfg expired t sid :
  (forall t, K t -> ~ sub (Key k0) t) ->
  (forall t0 nonce m, K t0 -> sub (AEnc k0 nonce m) t0 ->
      exists rnd c sid exp, m = Atom (opaque_plain rnd c sid exp) /\ minted c sid) ->
  h_access cfg = HOpaque k0 ->
  derivable K t -> slot_resolve cfg expired SBearer t = TOk (Some sid) ->
  exists c, class_ok KAccess c = true /\ minted c sid /\ exists t0, K t0 /\ sub t t0.
Proof.
  intros Hs Hp Hc Hd. unfold slot_resolve, handler_info. cbn [slot_handler h_of]. rewrite Hc.
  now apply (opaque_unforgeable K k0 Hs minted Hp).
Qed.
Theorem bearer_unforgeable_jwt (K : term -> Prop) (k0 : nat) cfg expired t sid :
  (forall t, K t -> ~ sub (Key k0) t) ->
  h_access cfg = HJwt k0 ->
  derivable K t -> slot_resolve cfg expired SBearer t = TOk sid -> exists t0, K t0 /\ sub t t0.
Proof.
  intros Hs Hc Hd. unfold slot_resolve, handler_info. cbn [slot_handler h_of]. rewrite Hc.
  now apply (jwt_unforgeable K k0 Hs).
Qed.

(* were the bearer slot served by the class-agnostic lookup: a refresh token, a code, an ID Token authenticate *)
Example bearer_by_generic_lookup_refuted :
  let cfg := mkHconf (HOpaque 0) (HOpaque 0) (HOpaque 0) 50 in
  let db := [(PS "sid", PS "client_1")] in
  let nx := fun _ : pystr => false in
  slot_client cfg nx db SGeneric (mint cfg (MTok KRefresh) (PS "n") (PS "r") (PS "sid") (PS "99")) = Some (PS "client_1") /\
  slot_client cfg nx db SGeneric (mint cfg (MTok KCode) (PS "n") (PS "r") (PS "sid") (PS "99")) = Some (PS "client_1") /\
  slot_client cfg nx db SGeneric (mint cfg MIdToken (PS "n") (PS "r") (PS "sid") (PS "99")) = Some (PS "client_1") /\
  slot_client cfg nx db SBearer (mint cfg (MTok KRefresh) (PS "n") (PS "r") (PS "sid") (PS "99")) = None /\
  slot_client cfg nx db SBearer (mint cfg (MTok KCode) (PS "n") (PS "r") (PS "sid") (PS "99")) = None /\
  slot_client cfg nx db SBearer (mint cfg MIdToken (PS "n") (PS "r") (PS "sid") (PS "99")) = None /\
  slot_client cfg nx db SBearer (mint cfg (MTok KAccess) (PS "n") (PS "r") (PS "sid") (PS "99")) = Some (PS "client_1").
Proof. vm_compute. repeat split; reflexivity. Qed.
