(* Proofs/Uri_proofs.v — what verify_uri (Model/Uri.v) accepts, what it refuses, and what the
   authorization endpoint does with the verdict. *)
From Coq Require Import String.
From Verif Require Import Lib.Base Lib.PyStr Lib.Urlenc Model.Uri.
Open Scope N_scope.

(* ------------------------------------------------------------------ monad plumbing *)
Lemma bind_ok {A B} (r : res A) (f : A -> res B) b :
  (x <- r ;; f x) = Ok b -> exists a, r = Ok a /\ f a = Ok b.
Proof. destruct r; cbn; intros H; try discriminate. eauto. Qed.

Lemma mapM_in_inv {A B} (f : A -> res B) l l' b :
  mapM f l = Ok l' -> In b l' -> exists a, In a l /\ f a = Ok b.
Proof.
  revert l'. induction l as [|a l IH]; intros l' H Hin; cbn in H.
  - inversion H; subst. destruct Hin.
  - apply bind_ok in H as [b0 [Hb H]]. apply bind_ok in H as [t [Ht H]]. inversion H; subst.
    destruct Hin as [<-|Hin].
    + exists a. split; [now left|exact Hb].
    + destruct (IH t Ht Hin) as [a2 [Ha2 Hf]]. exists a2. split; [now right|exact Hf].
Qed.

Lemma mapM_in {A B} (f : A -> res B) l l' a b :
  mapM f l = Ok l' -> In a l -> f a = Ok b -> In b l'.
Proof.
  revert l'. induction l as [|a0 l IH]; intros l' H Hin Hf; [destruct Hin|]. cbn in H.
  apply bind_ok in H as [b0 [Hb H]]. apply bind_ok in H as [t [Ht H]]. inversion H; subst.
  destruct Hin as [->|Hin].
  - left. congruence.
  - right. eapply IH; eauto.
Qed.

(* ------------------------------------------------------------------ the compared tuple *)
Lemma key_eqb_eq a b : key_eqb a b = true ->
  scheme a = scheme b /\ netloc a = netloc b /\ path a = path b /\ params a = params b /\ fragment a = fragment b.
Proof.
  unfold key_eqb. intros H. repeat (apply andb_true_iff in H as [H ?]).
  repeat split; now apply str_eqb_eq.
Qed.
Lemma key_eqb_refl a : key_eqb a a = true.
Proof. unfold key_eqb. now rewrite !str_eqb_refl. Qed.

(* Python dict equality, as far as the theorem needs it: same number of keys and every entry of
   the request's query is an entry of the registered one *)
Lemma list_str_eqb_eq x y : list_eqb str_eqb x y = true <-> x = y.
Proof. apply list_eqb_eq. apply str_eqb_eq. Qed.
Lemma qd_eqb_spec a b : qd_eqb a b = true ->
  length a = length b /\ forall k v, In (k, v) a -> assoc k b = Some v.
Proof.
  unfold qd_eqb. intros H. apply andb_true_iff in H as [Hl Hf]. split; [now apply Nat.eqb_eq|].
  intros k v Hin. rewrite forallb_forall in Hf. specialize (Hf _ Hin). cbn in Hf.
  destruct (assoc k b) as [v'|]; [|discriminate]. apply list_str_eqb_eq in Hf. now subst.
Qed.
Lemma qd_eqb_nil : qd_eqb [] [] = true. Proof. reflexivity. Qed.

(* ------------------------------------------------------------------ native clients: only the netloc may change, and
   only by dropping the port of an http loopback literal *)
Lemma remove_port_spec p p' : remove_port p = Ok p' ->
  p' = p \/ (exists z, port p = Ok (Some z) /\ z <> 0%Z /\ p' = set_netloc p (before_last 58 (netloc p))).
Proof.
  unfold remove_port. intros H. apply bind_ok in H as [po [Hp H]].
  destruct po as [z|]; [|inversion H; auto].
  destruct ((z =? 0)%Z || negb (nonempty (netloc p))) eqn:E; inversion H; subst; [auto|].
  right. exists z. apply orb_false_iff in E as [E _]. apply Z.eqb_neq in E. auto.
Qed.

Theorem norm_native_spec p p' : norm_native p = Ok p' ->
  scheme p' = scheme p /\ path p' = path p /\ params p' = params p /\ query p' = query p /\ fragment p' = fragment p /\
  (netloc p' = netloc p \/
   (is_http p = true /\ is_localhost p = true /\
    exists z, port p = Ok (Some z) /\ z <> 0%Z /\ netloc p' = before_last 58 (netloc p))).
Proof.
  unfold norm_native. intros H.
  destruct (is_http p && is_localhost p) eqn:E.
  - apply andb_true_iff in E as [E1 E2].
    apply remove_port_spec in H as [->|[z [Hz [Hnz ->]]]].
    + repeat split; auto.
    + cbn. repeat split; auto. right. repeat split; auto. exists z. auto.
  - inversion H; subst. repeat split; auto.
Qed.

(* hostname, port (and userinfo) are functions of the netloc alone *)
Lemma hostname_netloc p q : netloc p = netloc q -> hostname p = hostname q.
Proof. unfold hostname. now intros ->. Qed.
Lemma port_netloc p q : netloc p = netloc q -> port p = port q.
Proof. unfold port. now intros ->. Qed.

(* ------------------------------------------------------------------ basic checks *)
Lemma basic_checks_ok p : basic_checks p = Ok tt ->
  fragment p = [] /\ hostname p <> None /\ (path p = [] \/ starts_with [47] (path p) = true) /\ exists po, port p = Ok po.
Proof.
  unfold basic_checks. intros H.
  destruct (fragment p) as [|c f] eqn:Ef; [|discriminate]. cbn [nonempty] in H.
  destruct (hostname p) as [h|] eqn:Eh; [|discriminate].
  destruct (nonempty (path p) && negb (starts_with [47] (path p))) eqn:Ep; [discriminate|].
  destruct (port p) as [po| |] eqn:Epo; try discriminate.
  repeat split; try congruence; eauto.
  destruct (path p) as [|x t]; [now left|]. right. cbn [nonempty andb] in Ep.
  apply negb_false_iff in Ep. exact Ep.
Qed.

(* ------------------------------------------------------------------ soundness of the matcher *)
Theorem verify_uri_sound regs native oidc u :
  verify_uri regs native oidc u = Ok tt ->
  exists d p r rp,
    unquote u = Ok d /\ urlparse d = Ok p /\ In r regs /\ parse_reg r = Ok rp /\
    fragment p = [] /\ hostname p <> None /\ (exists po, port p = Ok po) /\
    (path p = [] \/ starts_with [47] (path p) = true) /\
    scheme p = scheme (fst rp) /\ path p = path (fst rp) /\ params p = params (fst rp) /\ fragment (fst rp) = [] /\
    (exists qd, parse_qs true (query p) = Ok qd /\ qd_eqb qd (snd rp) = true) /\
    (if native
     then exists p' r', norm_native p = Ok p' /\ norm_native (fst rp) = Ok r' /\ netloc p' = netloc r'
     else netloc p = netloc (fst rp)) /\
    dirty d = false /\ has_c 35 d = false.
Proof.
  intros H. unfold verify_uri in H.
  apply bind_ok in H as [d [Hd H]].
  destruct (dirty d) eqn:Edirty; [discriminate|].
  apply bind_ok in H as [p [Hp H]].
  destruct (has_c 35 d) eqn:Ehash; [discriminate|].
  apply bind_ok in H as [[] [Hb H]].
  destruct regs as [|r0 regs0]; [discriminate|]. set (regs := r0 :: regs0) in *.
  apply bind_ok in H as [rs [Hrs H]]. apply bind_ok in H as [p' [Hp' H]].
  apply bind_ok in H as [rs' [Hrs' H]]. apply bind_ok in H as [qd [Hqd H]].
  destruct (existsb (match1 p' qd) rs') eqn:Ex; [|discriminate].
  apply existsb_exists in Ex as [r' [Hin' Hm]]. unfold match1 in Hm.
  apply andb_true_iff in Hm as [Hk Hq]. apply key_eqb_eq in Hk as (K1 & K2 & K3 & K4 & K5).
  apply basic_checks_ok in Hb as (B1 & B2 & B3 & B4).
  destruct native.
  - destruct (mapM_in_inv _ _ _ _ Hrs' Hin') as [rp [Hinrp Hn]].
    destruct (mapM_in_inv _ _ _ _ Hrs Hinrp) as [r [Hinr Hpr]].
    unfold norm_reg in Hn. apply bind_ok in Hn as [x [Hx Hn]]. inversion Hn; subst r'. cbn [fst snd] in *.
    destruct (norm_native_spec _ _ Hp') as (S1 & S2 & S3 & S4 & S5 & _).
    destruct (norm_native_spec _ _ Hx) as (T1 & T2 & T3 & T4 & T5 & _).
    exists d, p, r, rp. repeat split; auto; try congruence.
    + exists qd. split; [congruence|exact Hq].
    + exists p', x. auto.
  - inversion Hp'; subst p'. inversion Hrs'; subst rs'.
    destruct (mapM_in_inv _ _ _ _ Hrs Hin') as [r [Hinr Hpr]].
    exists d, p, r, r'. repeat split; auto; try congruence.
    exists qd. auto.
Qed.

(* web clients: every component, including user information, host and port, is that of a registered URI *)
Corollary verify_uri_sound_web regs oidc u :
  verify_uri regs false oidc u = Ok tt ->
  exists d p r rp,
    unquote u = Ok d /\ urlparse d = Ok p /\ In r regs /\ parse_reg r = Ok rp /\
    fragment p = [] /\ scheme p = scheme (fst rp) /\ netloc p = netloc (fst rp) /\
    hostname p = hostname (fst rp) /\ port p = port (fst rp) /\
    path p = path (fst rp) /\ params p = params (fst rp) /\
    (exists qd, parse_qs true (query p) = Ok qd /\ qd_eqb qd (snd rp) = true).
Proof.
  intros H. destruct (verify_uri_sound _ _ _ _ H) as (d & p & r & rp & H1 & H2 & H3 & H4 & H5 & H6 & H7 & H8 & H9 & H10 & H11 & H12 & H13 & H14 & H15 & H16).
  exists d, p, r, rp. repeat split; auto using hostname_netloc, port_netloc.
Qed.

(* control characters, surrounding white space, a fragment delimiter, a missing host, a relative path or a
   bad port can never be accepted *)
Theorem verify_uri_refuses_dirty regs native oidc u d :
  unquote u = Ok d -> dirty d = true -> verify_uri regs native oidc u = Err uri_error.
Proof. intros Hd H. unfold verify_uri. rewrite Hd. cbn [bind]. now rewrite H. Qed.

Theorem verify_uri_refuses regs native oidc u d p :
  unquote u = Ok d -> dirty d = false -> urlparse d = Ok p ->
  (has_c 35 d = true \/ fragment p <> [] \/ hostname p = None
   \/ (path p <> [] /\ starts_with [47] (path p) = false) \/ port p = Err ValueError) ->
  verify_uri regs native oidc u = Err uri_error.
Proof.
  intros Hd Hdirty Hp H. unfold verify_uri. rewrite Hd. cbn [bind]. rewrite Hdirty, Hp. cbn [bind].
  destruct (has_c 35 d) eqn:Eh; [reflexivity|].
  destruct H as [H|H]; [discriminate|].
  assert (E : basic_checks p = Err uri_error).
  { unfold basic_checks. destruct (fragment p) as [|c f] eqn:Ef; [|reflexivity]. cbn [nonempty].
    destruct (hostname p) as [h|] eqn:Eh2; [|reflexivity].
    destruct H as [H|[H|[[H1 H2]|H]]]; try congruence.
    - rewrite H2. destruct (path p); [congruence|reflexivity].
    - destruct (nonempty (path p) && negb (starts_with [47] (path p))); [reflexivity|]. now rewrite H. }
  now rewrite E.
Qed.

(* a client without registered URIs is always refused, for every endpoint type *)
Theorem verify_uri_nothing_registered native oidc u : verify_uri [] native oidc u <> Ok tt.
Proof.
  unfold verify_uri. destruct (unquote u); cbn; try discriminate.
  destruct (dirty a); [discriminate|].
  destruct (urlparse a); cbn; try discriminate.
  destruct (has_c 35 a); [discriminate|].
  destruct (basic_checks a0); cbn; discriminate.
Qed.

(* ------------------------------------------------------------------ completeness: a registered URI itself is accepted *)
Definition plain (s : pystr) : bool := is_ascii s && no_c 37 s.
Lemma unquote_raw_plain s : no_c 37 s = true -> unquote_raw s = s.
Proof.
  induction s as [|c s IH]; [reflexivity|]. unfold no_c. cbn [forallb]. intros H.
  apply andb_true_iff in H as [Hc Hs]. apply negb_true_iff in Hc. cbn [unquote_raw]. rewrite Hc.
  f_equal. now apply IH.
Qed.
Lemma unquote_plain s : plain s = true -> unquote s = Ok s.
Proof.
  unfold plain, unquote. intros H. apply andb_true_iff in H as [Ha Hp].
  rewrite Ha. cbn [negb]. rewrite (unquote_raw_plain s Hp). now rewrite Ha.
Qed.

(* all registered entries must be parseable, otherwise the real function raises before matching *)
Definition regs_ok (regs : list reg) (native : bool) : Prop :=
  exists rs, mapM parse_reg regs = Ok rs /\ (native = true -> exists rs', mapM norm_reg rs = Ok rs').

Theorem verify_uri_complete regs native oidc b p :
  In (RPair b None) regs -> regs_ok regs native ->
  plain b = true -> dirty b = false -> has_c 35 b = false ->
  urlparse b = Ok p -> basic_checks p = Ok tt -> query p = [] ->
  verify_uri regs native oidc b = Ok tt.
Proof.
  intros Hin [rs [Hrs Hnat]] Hpl Hdirty Hhash Hp Hb Hq.
  unfold verify_uri. rewrite (unquote_plain b Hpl). cbn [bind]. rewrite Hdirty, Hp. cbn [bind].
  rewrite Hhash, Hb. cbn [bind].
  destruct regs as [|r0 regs0]; [destruct Hin|]. set (regs := r0 :: regs0) in *.
  rewrite Hrs. cbn [bind].
  assert (Hpr : parse_reg (RPair b None) = Ok (p, [])) by (cbn; now rewrite Hp).
  pose proof (mapM_in _ _ _ _ _ Hrs Hin Hpr) as Hinrs.
  destruct native.
  - destruct (Hnat eq_refl) as [rs' Hrs'].
    assert (Hn : exists p', norm_native p = Ok p').
    { unfold norm_native. destruct (is_http p && is_localhost p); [|eauto].
      unfold remove_port. apply basic_checks_ok in Hb as (_ & _ & _ & [po Hpo]). rewrite Hpo. cbn [bind].
      destruct po as [z|]; [|eauto]. destruct ((z =? 0)%Z || negb (nonempty (netloc p))); eauto. }
    destruct Hn as [p' Hp']. rewrite Hp'. cbn [bind]. rewrite Hrs'. cbn [bind].
    destruct (norm_native_spec _ _ Hp') as (_ & _ & _ & S4 & _). rewrite S4, Hq. cbn.
    assert (Hnr : norm_reg (p, []) = Ok (p', [])) by (unfold norm_reg; cbn [fst snd]; now rewrite Hp').
    pose proof (mapM_in _ _ _ _ _ Hrs' Hinrs Hnr) as Hin'.
    assert (existsb (match1 p' []) rs' = true) as ->; [|reflexivity].
    apply existsb_exists. exists (p', []). split; [exact Hin'|]. unfold match1. cbn [fst snd].
    now rewrite key_eqb_refl.
  - cbn [bind]. rewrite Hq. cbn.
    assert (existsb (match1 p []) rs = true) as ->; [|reflexivity].
    apply existsb_exists. exists (p, []). split; [exact Hinrs|]. unfold match1. cbn [fst snd].
    now rewrite key_eqb_refl.
Qed.

(* ------------------------------------------------------------------ the endpoint's decision *)
Theorem decide_redirectable regs native oidc ru v :
  decide regs native oidc ru = Redirectable v ->
  match ru with
  | Some u => v = u /\ verify_uri regs native oidc u = Ok tt
  | None => exists b q, regs = [RPair b q] /\ join_query b q = Ok v
  end.
Proof.
  unfold decide. destruct (get_uri regs native oidc ru) as [u0|e|] eqn:E; try discriminate.
  - intros H. inversion H; subst u0. unfold get_uri in E. destruct ru as [u|].
    + apply bind_ok in E as [[] [Hv E]]. inversion E; subst. auto.
    + destruct regs as [|[s|b q] [|r2 rest]]; try discriminate. eauto.
  - destruct e; try discriminate. destruct tag as [|t]; try discriminate.
    do 3 (destruct t as [t|t|]; try discriminate).
Qed.

Theorem decide_error_is_direct regs native oidc u :
  verify_uri regs native oidc u <> Ok tt ->
  forall v, decide regs native oidc (Some u) <> Redirectable v.
Proof.
  intros Hv v H. apply decide_redirectable in H as [_ H]. contradiction.
Qed.

(* a mismatch (RedirectURIError) or a missing parameter is answered with an error message, never with a redirect *)
Theorem decide_mismatch_direct regs native oidc u :
  verify_uri regs native oidc u = Err redirect_error -> decide regs native oidc (Some u) = DirectError.
Proof. intros H. unfold decide, get_uri. now rewrite H. Qed.
Theorem decide_uri_error_raised regs native oidc u :
  verify_uri regs native oidc u = Err uri_error -> decide regs native oidc (Some u) = Raised uri_error.
Proof. intros H. unfold decide, get_uri. now rewrite H. Qed.

(* ------------------------------------------------------------------ the parsed components are the pieces of the text *)
(* For a string urlsplit does not have to repair (ASCII, no leading control character or space, no TAB / CR / LF)
   nothing is lost: the string is the concatenation of its components and the delimiters. *)
Definition clean (d : pystr) : bool :=
  is_ascii d && match d with c :: _ => negb (c <=? 32) | [] => true end
  && forallb (fun c => negb ((c =? 9) || (c =? 10) || (c =? 13))) d.

Lemma split1_c_eq sep s a b : split1_c sep s = Some (a, b) -> s = a ++ sep :: b.
Proof.
  revert a b. induction s as [|c r IH]; intros a b H; cbn in H; [discriminate|].
  destruct (c =? sep) eqn:E.
  - inversion H; subst. apply N.eqb_eq in E. now subst.
  - destruct (split1_c sep r) as [[a' b']|]; [|discriminate]. inversion H; subst. cbn. f_equal. now apply IH.
Qed.
Lemma rsplit1_c_eq sep s a b : rsplit1_c sep s = Some (a, b) -> s = a ++ sep :: b.
Proof.
  unfold rsplit1_c. destruct (split1_c sep (List.rev s)) as [[x y]|] eqn:E; [|discriminate].
  intros H. inversion H; subst. apply split1_c_eq in E.
  apply (f_equal (@List.rev N)) in E. rewrite rev_involutive in E. rewrite E.
  rewrite rev_app_distr. cbn. now rewrite <- app_assoc.
Qed.
Lemma span_netloc_eq s a b : span_netloc s = (a, b) -> s = a ++ b.
Proof.
  revert a b. induction s as [|c r IH]; intros a b H; cbn in H.
  - now inversion H.
  - destruct ((c =? 47) || (c =? 63) || (c =? 35)); [now inversion H|].
    destruct (span_netloc r) as [a' b'] eqn:E. inversion H; subst. cbn. f_equal. now apply IH.
Qed.
Lemma filter_id {A} (f : A -> bool) l : forallb f l = true -> filter f l = l.
Proof.
  induction l as [|x l IH]; [reflexivity|]. cbn. intros H. apply andb_true_iff in H as [Hx Hl].
  rewrite Hx. f_equal. now apply IH.
Qed.
Lemma clean_untouched d : clean d = true -> remove_unsafe (lstrip_c0 d) = d /\ is_ascii d = true.
Proof.
  unfold clean. intros H. apply andb_true_iff in H as [H H3]. apply andb_true_iff in H as [H1 H2].
  split; [|exact H1].
  assert (L : lstrip_c0 d = d).
  { destruct d as [|c r]; [reflexivity|]. cbn. apply negb_true_iff in H2. now rewrite H2. }
  rewrite L. unfold remove_unsafe. now apply filter_id.
Qed.

Lemma double_slash_cases (rest : pystr) (A : Type) (f : pystr -> A) (dflt : A) :
  (exists r, rest = 47 :: 47 :: r /\ (match rest with 47 :: 47 :: r => f r | _ => dflt end) = f r)
  \/ (match rest with 47 :: 47 :: r => f r | _ => dflt end) = dflt.
Proof.
  destruct rest as [|c1 t]; [right; reflexivity|].
  destruct (N.eq_dec c1 47) as [->|N1].
  2: { right. destruct c1 as [|q]; [reflexivity|].
       do 6 (destruct q as [q|q|]; try reflexivity). congruence. }
  destruct t as [|c2 r]; [right; reflexivity|].
  destruct (N.eq_dec c2 47) as [->|N2]; [left; eauto|].
  right. destruct c2 as [|q]; [reflexivity|].
  do 6 (destruct q as [q|q|]; try reflexivity). congruence.
Qed.

Theorem urlsplit_pieces d p : clean d = true -> urlsplit d = Ok p ->
  exists S rest rest2 rest3,
    ((scheme p = [] /\ rest = d) \/ (scheme p = lower S /\ d = S ++ 58 :: rest)) /\
    ((netloc p = [] /\ rest2 = rest) \/ rest = 47 :: 47 :: netloc p ++ rest2) /\
    ((fragment p = [] /\ rest3 = rest2) \/ rest2 = rest3 ++ 35 :: fragment p) /\
    ((query p = [] /\ path p = rest3) \/ rest3 = path p ++ 63 :: query p) /\
    params p = [].
Proof.
  intros Hc H. destruct (clean_untouched d Hc) as [Hu Ha].
  unfold urlsplit in H. rewrite Ha, Hu in H. cbn [negb] in H.
  destruct (split_scheme d) as [sch rest] eqn:Es.
  destruct (match rest with 47 :: 47 :: r => span_netloc r | _ => ([], rest) end) as [nl rest2] eqn:En.
  apply bind_ok in H as [[] [_ H]].
  destruct (match split1_c 35 rest2 with Some (a, b) => (a, b) | None => (rest2, []) end) as [rest3 frag] eqn:Ef.
  destruct (match split1_c 63 rest3 with Some (a, b) => (a, b) | None => (rest3, []) end) as [pth qry] eqn:Eq.
  inversion H; subst p. cbn [scheme netloc path params query fragment].
  assert (Hs : (sch = [] /\ rest = d) \/ exists S, sch = lower S /\ d = S ++ 58 :: rest).
  { unfold split_scheme in Es. destruct (split1_c 58 d) as [[a b]|] eqn:E1.
    - destruct a as [|c a].
      + inversion Es; auto.
      + destruct (is_alpha c && forallb scheme_char (c :: a)); inversion Es; subst; auto.
        right. exists (c :: a). split; [reflexivity|]. now apply split1_c_eq.
    - inversion Es; auto. }
  assert (Hn : (nl = [] /\ rest2 = rest) \/ rest = 47 :: 47 :: nl ++ rest2).
  { destruct (double_slash_cases rest _ span_netloc ([], rest)) as [[r [Hr E]]|E].
    - right. assert (E2 : span_netloc r = (nl, rest2)) by (rewrite <- En; symmetry; exact E).
      apply span_netloc_eq in E2. now rewrite Hr, E2.
    - left. assert (E2 : (nl, rest2) = ([], rest)) by (rewrite <- En; exact E). inversion E2; auto. }
  assert (Hf : (frag = [] /\ rest3 = rest2) \/ rest2 = rest3 ++ 35 :: frag).
  { destruct (split1_c 35 rest2) as [[a b]|] eqn:E1; inversion Ef; subst; auto. right. now apply split1_c_eq. }
  assert (Hq : (qry = [] /\ pth = rest3) \/ rest3 = pth ++ 63 :: qry).
  { destruct (split1_c 63 rest3) as [[a b]|] eqn:E1; inversion Eq; subst; auto. right. now apply split1_c_eq. }
  destruct Hs as [[-> ->]|[S [-> ->]]].
  - exists [], d, rest2, rest3. repeat split; auto.
  - exists S, rest, rest2, rest3. repeat split; auto.
Qed.

Theorem urlparse_pieces d p : clean d = true -> urlparse d = Ok p ->
  exists ps, urlsplit d = Ok ps /\ scheme p = scheme ps /\ netloc p = netloc ps /\ query p = query ps /\
             fragment p = fragment ps /\
             ((params p = [] /\ path p = path ps) \/ path ps = path p ++ 59 :: params p).
Proof.
  intros Hc H. unfold urlparse in H. apply bind_ok in H as [ps [Hps H]].
  exists ps. split; [exact Hps|].
  destruct (urlsplit_pieces d ps Hc Hps) as (_ & _ & _ & _ & _ & _ & _ & _ & Hpar).
  destruct (str_in (scheme ps) uses_params && has_c 59 (path ps)).
  - destruct (splitparams (path ps)) as [u prm] eqn:E. inversion H; subst p. cbn.
    repeat split; auto. unfold splitparams in E.
    destruct (rsplit1_c 47 (path ps)) as [[pre seg]|] eqn:E1.
    + apply rsplit1_c_eq in E1. destruct (split1_c 59 seg) as [[a b]|] eqn:E2.
      * inversion E; subst. apply split1_c_eq in E2. right. rewrite E1, E2. now rewrite <- app_assoc.
      * inversion E; subst. left. auto.
    + destruct (split1_c 59 (path ps)) as [[a b]|] eqn:E2.
      * inversion E; subst. right. now apply split1_c_eq.
      * inversion E; subst. left; auto.
  - inversion H; subst p. repeat split; auto.
Qed.

(* ------------------------------------------------------------------ dropping the port drops only the port *)
Lemma no_c_app2 sep a b : no_c sep (a ++ b) = no_c sep a && no_c sep b.
Proof. unfold no_c. apply forallb_app. Qed.
Lemma no_c_cons2 sep c s : no_c sep (c :: s) = negb (c =? sep) && no_c sep s.
Proof. reflexivity. Qed.
Lemma no_c_rev sep s : no_c sep (List.rev s) = no_c sep s.
Proof.
  induction s as [|c r IH]; [reflexivity|]. cbn [List.rev]. rewrite no_c_app2, IH, no_c_cons2.
  cbn. rewrite andb_true_r. apply andb_comm.
Qed.
Lemma split1_c_none sep s : no_c sep s = true -> split1_c sep s = None.
Proof.
  induction s as [|c r IH]; [reflexivity|]. rewrite no_c_cons2. intros H. apply andb_true_iff in H as [Hc Hr].
  apply negb_true_iff in Hc. cbn. rewrite Hc. now rewrite IH.
Qed.
Lemma split1_c_some_no sep s a b : split1_c sep s = Some (a, b) -> no_c sep a = true.
Proof.
  revert a b. induction s as [|c r IH]; intros a b H; cbn in H; [discriminate|].
  destruct (c =? sep) eqn:E; [inversion H; reflexivity|].
  destruct (split1_c sep r) as [[a' b']|] eqn:E2; [|discriminate]. inversion H; subst.
  rewrite no_c_cons2, E. cbn. eapply IH. reflexivity.
Qed.
Lemma rsplit1_c_app sep a b : no_c sep b = true -> rsplit1_c sep (a ++ sep :: b) = Some (a, b).
Proof.
  intros H. unfold rsplit1_c. rewrite rev_app_distr. cbn [List.rev]. rewrite <- app_assoc. cbn [app].
  rewrite (split1_c_digits sep (List.rev b) (List.rev a)) by (fold (no_c sep (List.rev b)); now rewrite no_c_rev).
  now rewrite !rev_involutive.
Qed.
Lemma rsplit1_c_none sep s : no_c sep s = true -> rsplit1_c sep s = None.
Proof. intros H. unfold rsplit1_c. rewrite split1_c_none; [reflexivity|now rewrite no_c_rev]. Qed.
Lemma rsplit1_c_some_no sep s a b : rsplit1_c sep s = Some (a, b) -> no_c sep b = true.
Proof.
  unfold rsplit1_c. destruct (split1_c sep (List.rev s)) as [[x y]|] eqn:E; [|discriminate].
  intros H. inversion H; subst. apply split1_c_some_no in E. now rewrite no_c_rev.
Qed.
Lemma digits_no sep s : forallb is_digit s = true -> is_digit sep = false -> no_c sep s = true.
Proof.
  intros H Hs. unfold no_c. rewrite forallb_forall in H. apply forallb_forall. intros x Hx.
  apply negb_true_iff. apply N.eqb_neq. intros ->. specialize (H _ Hx). congruence.
Qed.

Lemma split1_c_none_no sep s : split1_c sep s = None -> no_c sep s = true.
Proof.
  induction s as [|c r IH]; [reflexivity|]. cbn [split1_c]. destruct (c =? sep) eqn:E; [discriminate|].
  destruct (split1_c sep r) as [[? ?]|]; [discriminate|]. intros _. rewrite no_c_cons2, E. cbn [negb andb]. now apply IH.
Qed.
Lemma rsplit1_c_none_no sep s : rsplit1_c sep s = None -> no_c sep s = true.
Proof.
  unfold rsplit1_c. destruct (split1_c sep (List.rev s)) as [[x y]|] eqn:E; [discriminate|].
  intros _. rewrite <- no_c_rev. now apply split1_c_none_no.
Qed.

(* the host part: dropping ":digits" from the text behind the last at-sign keeps the host text *)
Lemma hostinfo_hi_drop_port hi :
  snd (hostinfo_hi hi) <> [] -> forallb is_digit (snd (hostinfo_hi hi)) = true ->
  exists keep, hi = keep ++ 58 :: snd (hostinfo_hi hi) /\ hostinfo_hi keep = (fst (hostinfo_hi hi), []).
Proof.
  intros Hne Hd. unfold hostinfo_hi in *.
  destruct (split1_c 91 hi) as [[x bracketed]|] eqn:Eb.
  - cbn [fst snd] in *. unfold after_first, before_first in *.
    pose proof (split1_c_some_no _ _ _ _ Eb) as Hx. pose proof (split1_c_eq _ _ _ _ Eb) as Ehi.
    destruct (split1_c 93 bracketed) as [[host after]|] eqn:Ec; [|cbn in Hne; congruence].
    pose proof (split1_c_some_no _ _ _ _ Ec) as Hhost. pose proof (split1_c_eq _ _ _ _ Ec) as Ebr.
    destruct (split1_c 58 after) as [[junk pt]|] eqn:Ed; [|cbn in Hne; congruence].
    pose proof (split1_c_some_no _ _ _ _ Ed) as Hjunk. pose proof (split1_c_eq _ _ _ _ Ed) as Eaf.
    exists (x ++ 91 :: host ++ 93 :: junk). split.
    + rewrite Ehi, Ebr, Eaf. rewrite <- !app_assoc. cbn [app]. rewrite <- !app_assoc. reflexivity.
    + rewrite (split1_c_digits 91 x (host ++ 93 :: junk) Hx).
      rewrite (split1_c_digits 93 host junk Hhost).
      rewrite (split1_c_none 58 junk Hjunk). reflexivity.
  - cbn [fst snd] in *. unfold after_first, before_first in *.
    destruct (split1_c 58 hi) as [[h pt]|] eqn:Ed; [|cbn in Hne; congruence].
    pose proof (split1_c_some_no _ _ _ _ Ed) as Hh. pose proof (split1_c_eq _ _ _ _ Ed) as Ehi.
    exists h. split; [exact Ehi|].
    assert (Hb : no_c 91 h = true).
    { apply split1_c_none_no in Eb. rewrite Ehi, no_c_app2 in Eb. now apply andb_true_iff in Eb as [? _]. }
    rewrite (split1_c_none 91 h Hb), (split1_c_none 58 h Hh). reflexivity.
Qed.

(* the text in front of the last at-sign *)
Definition userinfo_text (nl : pystr) : option pystr :=
  match rsplit1_c 64 nl with Some (a, _) => Some a | None => None end.

Theorem drop_port_keeps_host nl :
  snd (hostinfo nl) <> [] -> forallb is_digit (snd (hostinfo nl)) = true ->
  hostinfo (before_last 58 nl) = (fst (hostinfo nl), []) /\ userinfo_text (before_last 58 nl) = userinfo_text nl.
Proof.
  unfold hostinfo, after_last, userinfo_text. intros Hne Hd.
  destruct (rsplit1_c 64 nl) as [[ui hi]|] eqn:E.
  - pose proof (rsplit1_c_some_no _ _ _ _ E) as Hhi. apply rsplit1_c_eq in E.
    destruct (hostinfo_hi_drop_port hi Hne Hd) as [keep [Ehi Hk]].
    set (pt := snd (hostinfo_hi hi)) in *.
    assert (Hpc : no_c 58 pt = true) by (apply digits_no; auto).
    assert (Hkeep : no_c 64 keep = true).
    { rewrite Ehi, no_c_app2 in Hhi. now apply andb_true_iff in Hhi as [? _]. }
    assert (Ebl : before_last 58 nl = ui ++ 64 :: keep).
    { unfold before_last. rewrite E, Ehi.
      replace (ui ++ 64 :: keep ++ 58 :: pt) with ((ui ++ 64 :: keep) ++ 58 :: pt) by (rewrite <- app_assoc; reflexivity).
      now rewrite rsplit1_c_app. }
    rewrite Ebl, (rsplit1_c_app 64 ui keep Hkeep). split; [exact Hk|reflexivity].
  - pose proof (rsplit1_c_none_no _ _ E) as Hnl.
    destruct (hostinfo_hi_drop_port nl Hne Hd) as [keep [Enl Hk]].
    set (pt := snd (hostinfo_hi nl)) in *.
    assert (Hpc : no_c 58 pt = true) by (apply digits_no; auto).
    assert (Hkeep : no_c 64 keep = true).
    { rewrite Enl, no_c_app2 in Hnl. now apply andb_true_iff in Hnl as [? _]. }
    assert (Ebl : before_last 58 nl = keep).
    { unfold before_last. rewrite Enl at 1. now rewrite rsplit1_c_app. }
    rewrite Ebl, (rsplit1_c_none 64 keep Hkeep). split; [exact Hk|reflexivity].
Qed.

(* consequence for the parsed URI: normalising a native loopback URI keeps host name and user information *)
Theorem norm_native_keeps_host p p' : norm_native p = Ok p' ->
  hostname p' = hostname p /\ userinfo_text (netloc p') = userinfo_text (netloc p).
Proof.
  intros H. destruct (norm_native_spec _ _ H) as (_ & _ & _ & _ & _ & [Hn|(_ & _ & z & Hz & Hnz & Hn)]).
  - split; [now apply hostname_netloc|now rewrite Hn].
  - unfold port in Hz.
    destruct (snd (hostinfo (netloc p))) as [|c t] eqn:Ept; [discriminate|].
    destruct (forallb is_digit (c :: t)) eqn:Ed; [|discriminate].
    assert (Hne : snd (hostinfo (netloc p)) <> []) by (rewrite Ept; discriminate).
    rewrite <- Ept in Ed.
    destruct (drop_port_keeps_host (netloc p) Hne Ed) as [Hh Hu].
    split; [|now rewrite Hn].
    unfold hostname. rewrite Hn, Hh. reflexivity.
Qed.

(* native clients: host name and user information are the registered ones; only the port may differ, and
   only as described by norm_native_spec *)
Corollary verify_uri_sound_native regs oidc u :
  verify_uri regs true oidc u = Ok tt ->
  exists d p r rp,
    unquote u = Ok d /\ urlparse d = Ok p /\ In r regs /\ parse_reg r = Ok rp /\
    fragment p = [] /\ scheme p = scheme (fst rp) /\
    hostname p = hostname (fst rp) /\ userinfo_text (netloc p) = userinfo_text (netloc (fst rp)) /\
    path p = path (fst rp) /\ params p = params (fst rp) /\
    (exists qd, parse_qs true (query p) = Ok qd /\ qd_eqb qd (snd rp) = true).
Proof.
  intros H. destruct (verify_uri_sound _ _ _ _ H) as (d & p & r & rp & H1 & H2 & H3 & H4 & H5 & H6 & H7 & H8 & H9 & H10 & H11 & H12 & H13 & H14 & H15 & H16).
  destruct H14 as (p' & r' & Hp' & Hr' & Hn).
  destruct (norm_native_keeps_host _ _ Hp') as [A1 A2]. destruct (norm_native_keeps_host _ _ Hr') as [B1 B2].
  exists d, p, r, rp. repeat split; auto.
  - rewrite <- A1, <- B1. now apply hostname_netloc.
  - rewrite <- A2, <- B2. now rewrite Hn.
Qed.

(* ------------------------------------------------------------------ accepted URIs need no repair and carry no fragment delimiter *)
Lemma unquote_ok_ascii u d : unquote u = Ok d -> is_ascii d = true /\ d = unquote_raw u.
Proof.
  unfold unquote. destruct (is_ascii u); cbn [negb]; [|discriminate].
  destruct (is_ascii (unquote_raw u)) eqn:E; [|discriminate]. intros H. inversion H; subst. auto.
Qed.

Lemma dirty_false_clean d : is_ascii d = true -> dirty d = false -> clean d = true.
Proof.
  unfold dirty, clean. intros Ha H. apply orb_false_iff in H as [H H3]. apply orb_false_iff in H as [H1 H2].
  rewrite Ha. cbn [andb]. apply andb_true_iff. split.
  - destruct d as [|c r]; [reflexivity|]. cbn [existsb] in H1. apply orb_false_iff in H1 as [H1 _].
    apply orb_false_iff in H1 as [H1 _]. apply negb_true_iff. apply N.leb_gt.
    apply N.ltb_ge in H1. apply N.eqb_neq in H2. lia.
  - apply forallb_forall. intros c Hc. apply negb_true_iff.
    assert (Hx : (c <? 32) || (c =? 127) = false).
    { destruct ((c <? 32) || (c =? 127)) eqn:E; [|reflexivity].
      assert (existsb (fun c0 => (c0 <? 32) || (c0 =? 127)) d = true) by (apply existsb_exists; eauto). congruence. }
    apply orb_false_iff in Hx as [Hx _]. apply N.ltb_ge in Hx.
    repeat (apply orb_false_iff; split); apply N.eqb_neq; lia.
Qed.

(* unquote keeps every fragment delimiter of the raw text *)
Lemma unquote_raw_keeps_hash_len n : forall s, (length s <= n)%nat -> has_c 35 s = true -> has_c 35 (unquote_raw s) = true.
Proof.
  induction n as [|n IH]; intros s Hl H.
  - destruct s; [discriminate|cbn in Hl; lia].
  - destruct s as [|c t]; [discriminate|]. cbn [length] in Hl.
    unfold has_c in *. cbn [existsb] in H. cbn [unquote_raw].
    destruct (c =? 37) eqn:E37.
    + assert (c =? 35 = false) as Ec by (apply N.eqb_eq in E37; subst; reflexivity).
      rewrite Ec in H. cbn [orb] in H.
      destruct t as [|h [|l r]].
      * discriminate.
      * cbn [existsb]. apply orb_true_iff. right. apply IH; [cbn [length] in *; lia|exact H].
      * destruct (hexval h) as [a|] eqn:Eh; [destruct (hexval l) as [b0|] eqn:El|].
        -- (* a decoded byte: h and l are hex digits, so the delimiter is further right *)
           cbn [existsb] in H.
           assert (h =? 35 = false) as Hh.
           { destruct (h =? 35) eqn:X; [|reflexivity]. apply N.eqb_eq in X; subst. discriminate. }
           assert (l =? 35 = false) as Hl2.
           { destruct (l =? 35) eqn:X; [|reflexivity]. apply N.eqb_eq in X; subst. discriminate. }
           rewrite Hh, Hl2 in H. cbn [orb] in H. cbn [existsb]. apply orb_true_iff. right.
           apply IH; [cbn [length] in Hl; lia|exact H].
        -- cbn [existsb]. apply orb_true_iff. right. apply IH; [cbn [length] in *; lia|exact H].
        -- cbn [existsb]. apply orb_true_iff. right. apply IH; [cbn [length] in *; lia|exact H].
    + cbn [existsb]. apply orb_true_iff in H as [H|H]; [now rewrite H|].
      apply orb_true_iff. right. apply IH; [lia|exact H].
Qed.
Lemma unquote_raw_keeps_hash s : has_c 35 s = true -> has_c 35 (unquote_raw s) = true.
Proof. apply (unquote_raw_keeps_hash_len (length s)). lia. Qed.

Theorem verify_uri_accepted_clean regs native oidc u :
  verify_uri regs native oidc u = Ok tt ->
  exists d, unquote u = Ok d /\ clean d = true /\ has_c 35 d = false /\ has_c 35 u = false.
Proof.
  intros H. destruct (verify_uri_sound _ _ _ _ H) as (d & p & r & rp & H1 & H2 & H3 & H4 & H5 & H6 & H7 & H8 & H9 & H10 & H11 & H12 & H13 & H14 & H15 & H16).
  exists d. destruct (unquote_ok_ascii _ _ H1) as [Ha Hd].
  repeat split; auto using dirty_false_clean.
  destruct (has_c 35 u) eqn:E; [|reflexivity].
  apply unquote_raw_keeps_hash in E. rewrite <- Hd in E. congruence.
Qed.

(* ------------------------------------------------------------------ the one remaining gap: empty path parameters *)
Lemma last_is_app_one a s : last_is a (s ++ [a]) = true.
Proof. unfold last_is. rewrite rev_app_distr. cbn. apply N.eqb_refl. Qed.

(* if neither the request path nor the registered path (as split off by urlsplit) ends in a semicolon, equal
   (path, params) pairs mean equal path texts *)
Theorem path_exact_partial d b p rp ps rps :
  clean d = true -> clean b = true ->
  urlparse d = Ok p -> urlparse b = Ok rp -> urlsplit d = Ok ps -> urlsplit b = Ok rps ->
  path p = path rp -> params p = params rp ->
  last_is 59 (path ps) = false -> last_is 59 (path rps) = false ->
  path ps = path rps.
Proof.
  intros Cd Cb Hp Hrp Hps Hrps Epath Eparams Ld Lb.
  destruct (urlparse_pieces d p Cd Hp) as (ps' & Hps' & _ & _ & _ & _ & Hd).
  destruct (urlparse_pieces b rp Cb Hrp) as (rps' & Hrps' & _ & _ & _ & _ & Hb).
  assert (ps' = ps) by congruence. assert (rps' = rps) by congruence. subst ps' rps'.
  destruct Hd as [[Pd1 Pd2]|Pd]; destruct Hb as [[Pb1 Pb2]|Pb].
  - congruence.
  - (* registered split, request not: registered params are empty, so its path text ends in a semicolon *)
    exfalso. rewrite <- Eparams, Pd1 in Pb. rewrite Pb in Lb. now rewrite last_is_app_one in Lb.
  - exfalso. rewrite Eparams, Pb1 in Pd. rewrite Pd in Ld. now rewrite last_is_app_one in Ld.
  - rewrite Pd, Pb. congruence.
Qed.
