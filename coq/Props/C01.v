(* Props/C01.v — property C01: client authentication is sound at every protected endpoint.
   Only statements, each closed by `exact <lemma>`, with Print Assumptions, plus non-vacuity Examples.

   Vocabulary (Model/ClientAuthn.v, Proofs/ClientAuthn_proofs.v):
     client_authentication cx ep rq now jdb = (result, jdb')   Endpoint.client_authentication -> verify_client
     parse_request ...                                          what Endpoint/UserInfo.parse_request hands on
     credential_ok cx ep rq now jdb jdb' X m                    the property's disjunction, per method m:
        basic/post   the presented secret equals cdb[X].client_secret
        *_jwt        client_assertion is a JWT with iss = X whose signature verifies under a key of that type the
                     key jar holds for X and the kid header selects (the keys carrying that kid; without kid the
                     single key of that type) (HS: and the first symmetric key of X the kid selects is X's CURRENT
                     client_secret, whatever superseded secrets the key jar still holds; or the MAC was
                     made with one of the provider's OWN symmetric keys), aud meets the endpoint's targets,
                     now < exp + 15 s, nbf <= now - 15 s, and its jti was not in the replay cache before and is after
        request_param  the same for the request object, WITHOUT any audience condition (see the refuted lemma)
        bearer_*     the endpoint's token lookup resolves the token to X (property C04's subject)
   Remarks (not violations of the text, visible in the model): an assertion without exp never expires; one
   without jti is replayable until exp; expiry has cryptojwt's 15 s skew; the secret-expiry test
   (valid_client_secret) is applied to every method, also the JWT and bearer ones. *)
From Coq Require Import String.
From Verif Require Import Lib.Base Lib.PyStr Lib.Crypto Model.ClientAuthn Proofs.ClientAuthn_proofs.
Local Open Scope string_scope.
Local Open Scope list_scope.

(* (1) Soundness: whoever is accepted as client X through an authenticating method presented a credential of
   X; the method is in the endpoint's list (all registered methods when it has none) and is allowed by X's
   registration (endpoint-specific list, else general list, else unrestricted); X's secret is unexpired. *)
Theorem C01_sound : forall cx ep rq now jdb jdb' ai X,
  client_authentication cx ep rq now jdb = (Ok (Some ai), jdb') ->
  ai_client ai = Some X ->
  authenticating (ai_method ai) = true ->
  In (ai_method ai) (effective_methods ep)
  /\ (exists c, assoc X (cx_cdb cx) = Some c /\ valid_client_secret c now = true
        /\ forall l, client_allowed_methods c ep = Some l -> In (ai_method ai) l)
  /\ credential_ok cx ep rq now jdb jdb' X (ai_method ai).
Proof. exact sound. Qed.
Print Assumptions C01_sound.

(* client_secret_jwt, literally: if the provider has no symmetric keys of its own, the MAC key IS X's secret - the
   one the client database holds NOW, whatever other symmetric keys (superseded secrets) are filed under X in the
   key jar.  For a JWS header without kid unconditionally (the statement of the kid-less model, unchanged); for a
   header with a kid provided no two symmetric keys of X carry the same kid (kids are thumbprints). *)
Theorem C01_hs_signed_with_secret : forall cx ep rq now jdb jdb' X c s,
  credential_ok cx ep rq now jdb jdb' X MSecretJwt ->
  filter (vkey_is AlgHS) (kj_own (cx_kj cx)) = [] ->
  assoc X (cx_cdb cx) = Some c -> c_secret c = Some s -> s <> [] ->
  exists j, r_assertion rq = Some (Jwt j) /\ j_alg j = AlgHS
    /\ (kid_given (j_kid j) = None \/ oct_kids_distinct (cx_kj cx) X -> j_key j = KSym s).
Proof. exact hs_signed_with_secret. Qed.
Print Assumptions C01_hs_signed_with_secret.

(* (1b) The credential HISTORY of a client.  What the key jar holds under an id is a matter of history (a deployer
   files a new secret NEXT TO the old one: keyjar.add_symmetric only appends); the client database holds the
   current record.  In ANY state (any client database, any key jar), a request accepted as X through
   client_secret_basic / client_secret_post / client_secret_jwt was made with the secret X's record holds now
   (made_with_secret: the Basic pair is (X, s); the body carries client_id X and client_secret s; the assertion is
   an HS JWT whose MAC key is s). *)
Theorem C01_current_secret_only : forall cx ep rq now jdb jdb' ai X c s,
  client_authentication cx ep rq now jdb = (Ok (Some ai), jdb') ->
  ai_client ai = Some X ->
  assoc X (cx_cdb cx) = Some c -> c_secret c = Some s -> s <> [] ->
  filter (vkey_is AlgHS) (kj_own (cx_kj cx)) = [] ->
  made_with_secret cx rq X s (ai_method ai).
Proof. exact current_secret_only. Qed.
Print Assumptions C01_current_secret_only.

(* The operations on the credentials (Model: cred_op): CReg an ACCEPTED registration - for a new id and for an id
   that is or was in use alike - replaces the record and everything the key jar held under the id; CRefused a
   refused one (no effect); CDel deletion from the client database; CFile / CSet what a deployer does by hand
   (file further keys under an id, store another record).
   After an accepted (re-)registration r of X = rg_id r on top of ANY earlier state cx0 (e.g. one whose key jar
   holds X's earlier secret and keys) and any history h about OTHER clients, the material in force for X is
   exactly what r brought: its record, the keys of its jwks and its secret. *)
Theorem C01_registration_in_force : forall cx0 r h, untouched (rg_id r) h = true ->
  assoc (rg_id r) (cx_cdb (cred_run (register cx0 r) h)) = Some (rg_client r)
  /\ assoc (rg_id r) (kj_iss (cx_kj (cred_run (register cx0 r) h))) = Some (in_force r).
Proof. exact registration_in_force. Qed.
Print Assumptions C01_registration_in_force.

(* after a refused registration the material in force is exactly what was in force before *)
Theorem C01_refused_registration_no_effect : forall cx r h, cred_run cx (CRefused r :: h) = cred_run cx h.
Proof. exact refused_registration_no_effect. Qed.
Print Assumptions C01_refused_registration_no_effect.

(* rotation: only the secret s2 of the last registration authenticates X through the secret-based methods ... *)
Theorem C01_rotation_sound : forall cx0 r h ep rq now jdb jdb' ai s2,
  untouched (rg_id r) h = true ->
  c_secret (rg_client r) = Some s2 -> s2 <> [] ->
  filter (vkey_is AlgHS) (kj_own (cx_kj cx0)) = [] ->
  client_authentication (cred_run (register cx0 r) h) ep rq now jdb = (Ok (Some ai), jdb') ->
  ai_client ai = Some (rg_id r) ->
  made_with_secret (cred_run (register cx0 r) h) rq (rg_id r) s2 (ai_method ai).
Proof. exact rotation_sound. Qed.
Print Assumptions C01_rotation_sound.

(* ... and the signature of an accepted assertion / request object verifies under a key the last registration
   brought (a key of its jwks, its secret) or - HMAC - one of the provider's own symmetric keys: key material of
   an earlier registration of X (a replaced jwks key, a superseded secret) never authenticates X again *)
Theorem C01_rotation_keys : forall cx0 r h ep rq now jdb jdb' ai j,
  untouched (rg_id r) h = true ->
  client_authentication (cred_run (register cx0 r) h) ep rq now jdb = (Ok (Some ai), jdb') ->
  ai_client ai = Some (rg_id r) ->
  used_jwt rq (ai_method ai) = Some j ->
  exists v, key_verifies (j_alg j) (j_key j) v = true
    /\ (In v (in_force r) \/ (j_alg j = AlgHS /\ In v (kj_own (cx_kj cx0)))).
Proof. exact rotation_keys. Qed.
Print Assumptions C01_rotation_keys.

(* a deployer who files a new secret NEXT TO the old one (keyjar.add_symmetric appends) and stores the new record:
   the key jar holds both (so the signature of an assertion MACed with the old secret under its kid does verify);
   C01_current_secret_only says it is refused all the same *)
Theorem C01_filed_keys_accumulate : forall cx i ks kids l,
  assoc i (kj_iss (cx_kj cx)) = Some l ->
  assoc i (kj_iss (cx_kj (file_keys cx i ks kids))) = Some (l ++ ks).
Proof. exact filed_keys_accumulate. Qed.
Print Assumptions C01_filed_keys_accumulate.

(* an operation about one client leaves every other client's record and keys (and the provider's own keys) alone *)
Theorem C01_credentials_isolated : forall cx o i, op_client o <> i ->
  assoc i (cx_cdb (cred_step cx o)) = assoc i (cx_cdb cx)
  /\ assoc i (kj_iss (cx_kj (cred_step cx o))) = assoc i (kj_iss (cx_kj cx))
  /\ kj_own (cx_kj (cred_step cx o)) = kj_own (cx_kj cx).
Proof. exact credentials_isolated. Qed.
Print Assumptions C01_credentials_isolated.

(* The full statement "every accepted JWT credential is addressed to this endpoint or the issuer" is FALSE of
   the faithful model when request_param is among the endpoint's methods: RequestParam._verify checks no
   audience (known finding key=request_param-aud).  credential_ok therefore has no audience clause for
   MRequestParam; the audience clause is proved with the explicit guard "method <> request_param", and the
   unguarded statement is refuted by a witness: *)
Theorem C01_audience_partial : forall cx ep rq now jdb jdb' ai X j,
  client_authentication cx ep rq now jdb = (Ok (Some ai), jdb') ->
  ai_client ai = Some X ->
  used_jwt rq (ai_method ai) = Some j ->
  ai_method ai <> MRequestParam ->
  aud_ok ep j.
Proof. exact audience_partial. Qed.
Print Assumptions C01_audience_partial.

Definition wit_cdb : list (pystr * client) :=
  [(PS "c1", {| c_secret := Some (PS "s1"); c_expires := None; c_methods := None; c_ep_methods := [] |});
   (PS "c2", {| c_secret := Some (PS "s2"); c_expires := Some 0%Z; c_methods := None; c_ep_methods := [] |});
   (PS "c3", {| c_secret := None; c_expires := None; c_methods := None; c_ep_methods := [] |})].
Definition wit_kj : keyjar :=
  {| kj_iss := [(PS "c1", [VOct (PS "s1")]); (PS "c2", [VOct (PS "s2"); VRsa 1; VEc 1])]; kj_own := [VRsa 0; VEc 0];
     kj_kid := [(VOct (PS "s1"), PS "kid-s1"); (VOct (PS "s2"), PS "kid-s2"); (VRsa 1, PS "kid-r1"); (VEc 1, PS "kid-e1");
                (VRsa 0, PS "kid-r0"); (VEc 0, PS "kid-e0")] |}.
Definition wit_cx : actx :=
  {| cx_cdb := wit_cdb; cx_kj := wit_kj; cx_tok := tok_table [(PS "T1", TokClient (PS "c1"))] |}.
Definition wit_ep (ms : list meth) : endpoint :=
  {| ep_name := PS "token_endpoint"; ep_methods := ms; ep_targets := [PS "https://op/token"];
     ep_lookup := true; ep_userinfo := false |}.
Definition no_cred : request :=
  {| r_hdr := HAbsent; r_client_id := None; r_client_secret := None; r_access_token := None;
     r_assertion := None; r_request := None; r_authflag := false |}.
Definition wit_jwt (a : alg) (k : skey) (iss : pystr) (aud : option (list pystr)) (jti : option pystr) : jwt :=
  {| j_alg := a; j_key := k; j_kid := None; j_iss := Some iss; j_sub := Some iss; j_azp := None; j_cid := None; j_aud := aud;
     j_exp := Some 1300%Z; j_nbf := None; j_iat := None; j_jti := jti |}.

Theorem C01_request_param_audience_refuted :
  exists cx ep rq now jdb jdb' ai j,
    client_authentication cx ep rq now jdb = (Ok (Some ai), jdb')
    /\ ai_client ai = Some (PS "c2") /\ authenticating (ai_method ai) = true
    /\ used_jwt rq (ai_method ai) = Some j /\ ~ aud_ok ep j.
Proof.
  exists wit_cx, (wit_ep [MPost; MRequestParam]),
    {| r_hdr := HAbsent; r_client_id := None; r_client_secret := None; r_access_token := None;
       r_assertion := None;
       r_request := Some (Jwt (wit_jwt AlgRS (KRsa 1) (PS "c2") (Some [PS "https://elsewhere/"]) (Some (PS "j1"))));
       r_authflag := false |}, 1000%Z, [], [PS "c2:j1"].
  eexists. eexists. split; [vm_compute; reflexivity|]. split; [reflexivity|]. split; [reflexivity|].
  split; [reflexivity|].
  intros [aud [a [Ha [Hin Ht]]]]. vm_compute in Ha. inversion Ha; subst.
  destruct Hin as [<-|[]]. destruct Ht as [Ht|[]]. vm_compute in Ht. discriminate.
Qed.
Print Assumptions C01_request_param_audience_refuted.

(* (2) What parse_request hands on: a request is passed on as *authenticated* client X only if an
   authenticating method accepted X (full statement; since /repo commit 12d8b53 Endpoint.parse_request deletes
   an "authenticated" parameter that the request body brought along - r_authflag is without effect). *)
Theorem C01_flag_sound : forall cx ep rq now jdb jdb' X rc,
  parse_request cx ep rq now jdb = (Ok (PGeneric (Some X) rc true), jdb') ->
  exists ai, client_authentication cx ep rq now jdb = (Ok (Some ai), jdb')
    /\ ai_client ai = Some X /\ authenticating (ai_method ai) = true.
Proof. exact flag_sound. Qed.
Print Assumptions C01_flag_sound.

(* (2b) The identity a request is PROCESSED under.  PGeneric c rc a: c is the client id handed to
   verify_request / do_post_parse_request, rc is the client_id parameter the parsed request itself carries -
   the one the token helpers, revocation, introspection and PAR read.  Whatever client_id the body brought
   along (another registered client, an unregistered one, none), rc = c; and a request handed on as
   authenticated carries exactly the client X whose credential (credential_ok) was verified. *)
Theorem C01_request_identity : forall cx ep rq now jdb jdb' c rc a,
  parse_request cx ep rq now jdb = (Ok (PGeneric c rc a), jdb') -> rc = c.
Proof. exact request_identity. Qed.
Print Assumptions C01_request_identity.

Theorem C01_processed_as_proved : forall cx ep rq now jdb jdb' c rc,
  parse_request cx ep rq now jdb = (Ok (PGeneric c rc true), jdb') ->
  exists ai X, client_authentication cx ep rq now jdb = (Ok (Some ai), jdb')
    /\ ai_client ai = Some X /\ c = Some X /\ rc = Some X
    /\ authenticating (ai_method ai) = true
    /\ credential_ok cx ep rq now jdb jdb' X (ai_method ai).
Proof. exact processed_as_proved. Qed.
Print Assumptions C01_processed_as_proved.

(* (2c) The claims INSIDE a signed assertion / request object.  A signed JWT is a record with the key that made
   the signature (j_key, the signer), iss, and the further claims that can name a client: sub, azp, client_id
   (j_sub, j_azp, j_cid).  The identity a request accepted through a JWT method is processed under (the client id
   handed on AND the client_id the parsed request carries) is the JWT's iss, and the signature verifies under
   the key registered for that very issuer (signed_by_client: the signer is iss) - for EVERY value of sub, azp
   and client_id claim; a claim naming another client never becomes the identity; and no answer of
   client_authentication / parse_request (identity, refusal, replay cache) depends on those claims at all. *)
Theorem C01_assertion_identity : forall cx ep rq now jdb jdb' c rc ai j,
  parse_request cx ep rq now jdb = (Ok (PGeneric c rc true), jdb') ->
  client_authentication cx ep rq now jdb = (Ok (Some ai), jdb') ->
  used_jwt rq (ai_method ai) = Some j ->
  c = j_iss j /\ rc = j_iss j /\ exists X, j_iss j = Some X /\ signed_by_client cx X j.
Proof. exact assertion_identity. Qed.
Print Assumptions C01_assertion_identity.

Theorem C01_subject_never_identity : forall cx ep rq now jdb jdb' c rc ai j B,
  parse_request cx ep rq now jdb = (Ok (PGeneric c rc true), jdb') ->
  client_authentication cx ep rq now jdb = (Ok (Some ai), jdb') ->
  used_jwt rq (ai_method ai) = Some j ->
  (j_sub j = Some B \/ j_azp j = Some B \/ j_cid j = Some B) -> j_iss j <> Some B ->
  rc <> Some B /\ c <> Some B.
Proof. exact subject_never_identity. Qed.
Print Assumptions C01_subject_never_identity.

Theorem C01_inner_claims_irrelevant : forall cx ep s a c rq now jdb,
  client_authentication cx ep (rq_with_inner s a c rq) now jdb = client_authentication cx ep rq now jdb
  /\ parse_request cx ep (rq_with_inner s a c rq) now jdb = parse_request cx ep rq now jdb.
Proof. exact inner_claims_irrelevant. Qed.
Print Assumptions C01_inner_claims_irrelevant.

(* userinfo hands a request on only for a bearer token that its lookup resolves to that client; the request's
   own client_id is that client *)
Theorem C01_userinfo_sound : forall cx ep rq now jdb jdb' X rc t,
  parse_request cx ep rq now jdb = (Ok (PUserinfo (Some X) rc t), jdb') ->
  exists ai, client_authentication cx ep rq now jdb = (Ok (Some ai), jdb')
    /\ rc = Some X
    /\ ai_client ai = Some X /\ ai_token ai = Some t
    /\ (ai_method ai = MBearerHeader \/ ai_method ai = MBearerBody)
    /\ credential_ok cx ep rq now jdb jdb' X (ai_method ai).
Proof. exact userinfo_sound. Qed.
Print Assumptions C01_userinfo_sound.

(* (3) Replay: over ANY history of requests (any endpoints, configurations, clocks) threading one replay
   cache, an assertion / request object with a given (iss, jti) - in fact a given cache key "iss:jti" - is
   accepted at most once, and never if the key was in the cache to begin with. *)
Theorem C01_replay : forall k h jdb, (count_accepted k h jdb <= 1)%nat.
Proof. exact replay. Qed.
Print Assumptions C01_replay.

Theorem C01_replay_seen : forall k h jdb, In k jdb -> count_accepted k h jdb = O.
Proof. exact replay_seen. Qed.
Print Assumptions C01_replay_seen.

(* (4) A refused request yields no auth_info (by the type of the result), parse_request hands nothing on
   (it raises the same exception, or - userinfo - answers the invalid_token error message), and the only
   state of the model that may have changed is the replay cache, which only grew. *)
Theorem C01_refusal_no_effect : forall cx ep rq now jdb e jdb',
  client_authentication cx ep rq now jdb = (Err e, jdb') ->
  (exists burnt, jdb' = jdb ++ burnt)
  /\ snd (parse_request cx ep rq now jdb) = jdb'
  /\ (fst (parse_request cx ep rq now jdb) = Err e
      \/ (ep_userinfo ep = true /\ fst (parse_request cx ep rq now jdb) = Ok PUserinfoError)).
Proof. exact refusal_no_effect. Qed.
Print Assumptions C01_refusal_no_effect.

Theorem C01_cache_only_grows : forall cx ep rq now jdb r jdb',
  client_authentication cx ep rq now jdb = (r, jdb') -> exists burnt, jdb' = jdb ++ burnt.
Proof. exact client_authentication_extends. Qed.
Print Assumptions C01_cache_only_grows.

Theorem C01_total : forall cx ep rq now jdb, fst (client_authentication cx ep rq now jdb) <> Unmodelled.
Proof. exact always_modelled. Qed.
Print Assumptions C01_total.

(* (5) Unforgeability (symbolic, Dolev-Yao, Lib/Crypto.v).  K = everything ever published, sk = which Crypto
   key a piece of key material is.  If X's client secret, the keys registered for X and the provider's own
   keys never occur in anything published, then every request the adversary can derive and that is accepted
   as X through a secret-/signature-based method carries a signed JWT with iss = X that occurs inside
   something that was published: at best a replay (bounded by C01_replay) - never a Basic/POST secret. *)
Theorem C01_unforgeable : forall (K : term -> Prop) (sk : skey -> nat) cx ep rq now jdb jdb' ai X,
  client_authentication cx ep rq now jdb = (Ok (Some ai), jdb') ->
  ai_client ai = Some X ->
  meth_in (ai_method ai) [MBasic; MPost; MSecretJwt; MPrivateJwt; MRequestParam] = true ->
  (forall c s, assoc X (cx_cdb cx) = Some c -> c_secret c = Some s -> never_published K sk (KSym s)) ->
  (forall l v, assoc X (kj_iss (cx_kj cx)) = Some l -> In v l -> never_published K sk (vkey_skey v)) ->
  (forall v, In v (kj_own (cx_kj cx)) -> never_published K sk (vkey_skey v)) ->
  derivable K (req_term sk rq) ->
  exists j, used_jwt rq (ai_method ai) = Some j /\ j_iss j = Some X
            /\ exists t0, K t0 /\ sub (jwt_term sk j) t0.
Proof. exact unforgeable. Qed.
Print Assumptions C01_unforgeable.

(* ------------------------------------------------------------------ non-vacuity *)
Definition rq_basic := {| r_hdr := HBasicText (PS "c1:s1"); r_client_id := None; r_client_secret := None;
  r_access_token := None; r_assertion := None; r_request := None; r_authflag := false |}.
Definition rq_post := {| r_hdr := HAbsent; r_client_id := Some (PS "c2"); r_client_secret := Some (PS "s2");
  r_access_token := None; r_assertion := None; r_request := None; r_authflag := false |}.
Definition rq_assert (j : jwt) := {| r_hdr := HAbsent; r_client_id := None; r_client_secret := None;
  r_access_token := None; r_assertion := Some (Jwt j); r_request := None; r_authflag := false |}.
Definition rq_bearer := {| r_hdr := HBearer (PS "T1"); r_client_id := None; r_client_secret := None;
  r_access_token := None; r_assertion := None; r_request := None; r_authflag := false |}.
Definition all4 := [MPost; MBasic; MSecretJwt; MPrivateJwt; MBearerHeader].
Definition hs1 := wit_jwt AlgHS (KSym (PS "s1")) (PS "c1") (Some [PS "https://op/token"]) (Some (PS "j7")).
Definition es2 := wit_jwt AlgES (KEc 1) (PS "c2") (Some [PS "https://op/token"]) None.
Definition accepted_as (r : res (option auth_info) * jti_db) (X : pystr) (m : meth) : bool :=
  match fst r with
  | Ok (Some ai) => option_eqb str_eqb (ai_client ai) (Some X) && meth_eqb (ai_method ai) m
  | _ => false
  end.

(* three clients, one accepting run per method; and the corresponding single faults are refused *)
Example C01_nonvacuous_accepting :
  accepted_as (client_authentication wit_cx (wit_ep all4) rq_basic 1000 []) (PS "c1") MBasic = true
  /\ accepted_as (client_authentication wit_cx (wit_ep all4) rq_post 1000 []) (PS "c2") MPost = true
  /\ accepted_as (client_authentication wit_cx (wit_ep all4) (rq_assert hs1) 1000 []) (PS "c1") MSecretJwt = true
  /\ accepted_as (client_authentication wit_cx (wit_ep all4) (rq_assert es2) 1000 []) (PS "c2") MPrivateJwt = true
  /\ accepted_as (client_authentication wit_cx (wit_ep all4) rq_bearer 1000 []) (PS "c1") MBearerHeader = true.
Proof. vm_compute. repeat split. Qed.

Example C01_nonvacuous_refusing :
  (* replayed jti; expired; wrong audience; signed with another client's secret; expired client secret *)
  fst (client_authentication wit_cx (wit_ep all4) (rq_assert hs1) 1000 [PS "c1:j7"]) = Err InvalidToken
  /\ fst (client_authentication wit_cx (wit_ep all4) (rq_assert hs1) 1315 []) = Err UnAuthorizedClient
  /\ fst (client_authentication wit_cx (wit_ep all4)
            (rq_assert (wit_jwt AlgHS (KSym (PS "s1")) (PS "c1") (Some [PS "https://op/other"]) None)) 1000 [])
     = Err InvalidToken
  /\ fst (client_authentication wit_cx (wit_ep all4)
            (rq_assert (wit_jwt AlgHS (KSym (PS "s2")) (PS "c1") (Some [PS "https://op/token"]) None)) 1000 [])
     = Err ClientAuthenticationError
  /\ fst (client_authentication
            {| cx_cdb := [(PS "c1", {| c_secret := Some (PS "s1"); c_expires := Some 999%Z; c_methods := None;
                                        c_ep_methods := [] |})];
               cx_kj := wit_kj; cx_tok := fun _ => TokOther |} (wit_ep all4) rq_basic 1000 [])
     = Err InvalidClient.
Proof. vm_compute. repeat split. Qed.

(* the former smuggling input: public method, body carries authenticated=true: handed on, but NOT authenticated *)
Example C01_smuggled_flag_ignored :
  parse_request wit_cx (wit_ep [MPost; MPublic])
    {| r_hdr := HAbsent; r_client_id := Some (PS "c1"); r_client_secret := None; r_access_token := None;
       r_assertion := None; r_request := None; r_authflag := true |} 1000 []
  = (Ok (PGeneric (Some (PS "c1")) (Some (PS "c1")) false), []).
Proof. vm_compute. reflexivity. Qed.

(* credential and body disagree: c1's Basic secret / c1's assertion / c1's bearer token, body client_id = c2
   (registered) or "nobody" (not registered): processed as c1, authenticated *)
Definition with_body_id (rq : request) (c : pystr) : request :=
  {| r_hdr := r_hdr rq; r_client_id := Some c; r_client_secret := r_client_secret rq;
     r_access_token := r_access_token rq; r_assertion := r_assertion rq; r_request := r_request rq;
     r_authflag := r_authflag rq |}.
Example C01_nonvacuous_identity :
  fst (parse_request wit_cx (wit_ep all4) (with_body_id rq_basic (PS "c2")) 1000 [])
    = Ok (PGeneric (Some (PS "c1")) (Some (PS "c1")) true)
  /\ fst (parse_request wit_cx (wit_ep all4) (with_body_id (rq_assert hs1) (PS "c2")) 1000 [])
    = Ok (PGeneric (Some (PS "c1")) (Some (PS "c1")) true)
  /\ fst (parse_request wit_cx (wit_ep all4) (with_body_id rq_bearer (PS "nobody")) 1000 [])
    = Ok (PGeneric (Some (PS "c1")) (Some (PS "c1")) true)
  /\ fst (parse_request wit_cx (wit_ep all4) (with_body_id (rq_assert es2) (PS "c1")) 1000 [])
    = Ok (PGeneric (Some (PS "c2")) (Some (PS "c2")) true).
Proof. vm_compute. repeat split. Qed.

(* c1 signs (own secret), iss = c1, but sub / azp / client_id claim name c2, body client_id c2 / absent: processed
   as c1; the same with sub absent; without iss (sub = c1 or c2) nothing is accepted; iss = c2 MACed with c1's
   secret is refused *)
Definition hs1_inner (s a c : option pystr) := jwt_with_inner s a c hs1.
Definition hs1_no_iss (s : option pystr) : jwt :=
  {| j_alg := AlgHS; j_key := KSym (PS "s1"); j_kid := None; j_iss := None; j_sub := s; j_azp := None; j_cid := None;
     j_aud := Some [PS "https://op/token"]; j_exp := Some 1300%Z; j_nbf := None; j_iat := None; j_jti := Some (PS "j8") |}.
Example C01_nonvacuous_inner_claims :
  fst (parse_request wit_cx (wit_ep all4) (with_body_id (rq_assert (hs1_inner (Some (PS "c2")) None None)) (PS "c2")) 1000 [])
    = Ok (PGeneric (Some (PS "c1")) (Some (PS "c1")) true)
  /\ fst (parse_request wit_cx (wit_ep all4) (rq_assert (hs1_inner (Some (PS "c2")) (Some (PS "c2")) (Some (PS "c2")))) 1000 [])
    = Ok (PGeneric (Some (PS "c1")) (Some (PS "c1")) true)
  /\ fst (parse_request wit_cx (wit_ep all4) (rq_assert (hs1_inner None None None)) 1000 [])
    = Ok (PGeneric (Some (PS "c1")) (Some (PS "c1")) true)
  /\ fst (parse_request wit_cx (wit_ep all4) (rq_assert (hs1_no_iss (Some (PS "c1")))) 1000 []) = Err UnAuthorizedClient
  /\ fst (parse_request wit_cx (wit_ep all4) (with_body_id (rq_assert (hs1_no_iss (Some (PS "c2")))) (PS "c2")) 1000 [])
    = Err UnAuthorizedClient
  /\ fst (parse_request wit_cx (wit_ep all4)
            (rq_assert (jwt_with_inner (Some (PS "c1")) None None
                          (wit_jwt AlgHS (KSym (PS "s1")) (PS "c2") (Some [PS "https://op/token"]) None))) 1000 [])
    = Err ClientAuthenticationError.
Proof. vm_compute. repeat split. Qed.

(* rotation by hand: the deployer files the new secret s1b of c1 next to s1 and stores the new record.  The key jar
   then holds s1 AND s1b for c1.  An assertion MACed with s1 (kid of s1: the signature verifies!) is refused, so
   is one MACed with s1 that names the kid of s1b (bad signature), so are kid-less ones (two symmetric keys: none
   is selected); MACed with s1b under its kid it is accepted; Basic with s1 is refused, POST with s1b accepted; c2
   is served as before; and the kid header selects among the keys also before any rotation. *)
Definition with_kid_hdr (k : pystr) (j : jwt) : jwt :=
  {| j_alg := j_alg j; j_key := j_key j; j_kid := Some k; j_iss := j_iss j; j_sub := j_sub j; j_azp := j_azp j;
     j_cid := j_cid j; j_aud := j_aud j; j_exp := j_exp j; j_nbf := j_nbf j; j_iat := j_iat j; j_jti := j_jti j |}.
Definition c1_new : client := {| c_secret := Some (PS "s1b"); c_expires := None; c_methods := None; c_ep_methods := [] |}.
Definition rot_cx : actx :=
  cred_run wit_cx [CFile (PS "c1") [VOct (PS "s1b")] [(VOct (PS "s1b"), PS "kid-s1b")]; CSet (PS "c1") c1_new].
Definition hs_of (sec : string) := wit_jwt AlgHS (KSym (PS sec)) (PS "c1") (Some [PS "https://op/token"]) (Some (PS "j9")).
Definition post_c1 (sec : string) : request :=
  {| r_hdr := HAbsent; r_client_id := Some (PS "c1"); r_client_secret := Some (PS sec);
     r_access_token := None; r_assertion := None; r_request := None; r_authflag := false |}.
Example C01_nonvacuous_rotation_by_hand :
  assoc (PS "c1") (kj_iss (cx_kj rot_cx)) = Some [VOct (PS "s1"); VOct (PS "s1b")]
  /\ fst (client_authentication rot_cx (wit_ep all4) (rq_assert (with_kid_hdr (PS "kid-s1") (hs_of "s1"))) 1000 [])
     = Err UnAuthorizedClient
  /\ fst (client_authentication rot_cx (wit_ep all4) (rq_assert (with_kid_hdr (PS "kid-s1b") (hs_of "s1"))) 1000 [])
     = Err ClientAuthenticationError
  /\ fst (client_authentication rot_cx (wit_ep all4) (rq_assert (hs_of "s1")) 1000 []) = Err UnAuthorizedClient
  /\ fst (client_authentication rot_cx (wit_ep all4) (rq_assert (hs_of "s1b")) 1000 []) = Err UnAuthorizedClient
  /\ accepted_as (client_authentication rot_cx (wit_ep all4) (rq_assert (with_kid_hdr (PS "kid-s1b") (hs_of "s1b"))) 1000 [])
       (PS "c1") MSecretJwt = true
  /\ fst (client_authentication rot_cx (wit_ep all4) rq_basic 1000 []) = Err ClientAuthenticationError
  /\ accepted_as (client_authentication rot_cx (wit_ep all4) (post_c1 "s1b") 1000 []) (PS "c1") MPost = true
  /\ accepted_as (client_authentication rot_cx (wit_ep all4) rq_post 1000 []) (PS "c2") MPost = true
  /\ accepted_as (client_authentication rot_cx (wit_ep all4) (rq_assert (with_kid_hdr (PS "kid-e1") es2)) 1000 []) (PS "c2") MPrivateJwt = true
  /\ accepted_as (client_authentication wit_cx (wit_ep all4) (rq_assert (with_kid_hdr (PS "kid-s1") (hs_of "s1"))) 1000 [])
       (PS "c1") MSecretJwt = true
  /\ fst (client_authentication wit_cx (wit_ep all4) (rq_assert (with_kid_hdr (PS "kid-s2") (hs_of "s1"))) 1000 [])
     = Err UnAuthorizedClient
  /\ oct_kids_distinct (cx_kj rot_cx) (PS "c1").
Proof.
  repeat (split; [vm_compute; reflexivity|]).
  intros l v v' Hl Hv Hv' _ _ Hk. vm_compute in Hl. inversion Hl; subst l.
  destruct Hv as [<-|[<-|[]]]; destruct Hv' as [<-|[<-|[]]]; try reflexivity; vm_compute in Hk; discriminate.
Qed.

(* rotation by registration: c2 (secret s2, keys RSA 1 / EC 1) registers anew under its id with the key RSA 2 and
   gets the secret s2b: the key jar holds exactly RSA 2 and s2b for c2.  Assertions signed with the replaced RSA 1 /
   EC 1 or MACed with s2 are refused (whatever kid they name), Basic / POST with s2 are refused; RSA 2 and s2b
   authenticate; c1 is served as before.  A refused registration changes nothing. *)
Definition rereg_c2 : registration :=
  {| rg_id := PS "c2";
     rg_client := {| c_secret := Some (PS "s2b"); c_expires := Some 0%Z; c_methods := None; c_ep_methods := [] |};
     rg_keys := [VRsa 2]; rg_kids := [(VRsa 2, PS "kid-r2"); (VOct (PS "s2b"), PS "kid-s2b")] |}.
Definition reg_cx : actx := cred_run wit_cx [CReg rereg_c2].
Definition jw2 (a : alg) (k : skey) := wit_jwt a k (PS "c2") (Some [PS "https://op/token"]) (Some (PS "j5")).
Example C01_nonvacuous_rotation_by_registration :
  assoc (PS "c2") (kj_iss (cx_kj reg_cx)) = Some [VRsa 2; VOct (PS "s2b")]
  /\ fst (client_authentication reg_cx (wit_ep all4) (rq_assert (with_kid_hdr (PS "kid-r1") (jw2 AlgRS (KRsa 1)))) 1000 [])
     = Err UnAuthorizedClient
  /\ fst (client_authentication reg_cx (wit_ep all4) (rq_assert (jw2 AlgRS (KRsa 1))) 1000 []) = Err ClientAuthenticationError
  /\ fst (client_authentication reg_cx (wit_ep all4) (rq_assert (with_kid_hdr (PS "kid-r2") (jw2 AlgRS (KRsa 1)))) 1000 [])
     = Err ClientAuthenticationError
  /\ fst (client_authentication reg_cx (wit_ep all4) (rq_assert es2) 1000 []) = Err UnAuthorizedClient
  /\ fst (client_authentication reg_cx (wit_ep all4) (rq_assert (with_kid_hdr (PS "kid-s2") (jw2 AlgHS (KSym (PS "s2"))))) 1000 [])
     = Err UnAuthorizedClient
  /\ fst (client_authentication reg_cx (wit_ep all4) rq_post 1000 []) = Err ClientAuthenticationError
  /\ accepted_as (client_authentication reg_cx (wit_ep all4) (rq_assert (with_kid_hdr (PS "kid-r2") (jw2 AlgRS (KRsa 2)))) 1000 [])
       (PS "c2") MPrivateJwt = true
  /\ accepted_as (client_authentication reg_cx (wit_ep all4) (rq_assert (jw2 AlgRS (KRsa 2))) 1000 []) (PS "c2") MPrivateJwt = true
  /\ accepted_as (client_authentication reg_cx (wit_ep all4) (rq_assert (jw2 AlgHS (KSym (PS "s2b")))) 1000 []) (PS "c2") MSecretJwt = true
  /\ accepted_as (client_authentication reg_cx (wit_ep all4) rq_basic 1000 []) (PS "c1") MBasic = true
  /\ cred_run wit_cx [CRefused rereg_c2] = wit_cx.
Proof. repeat (split; [vm_compute; reflexivity|]). reflexivity. Qed.

(* RECORDED FINDING key=request_param-superseded-secret: the statement of C01_current_secret_only does NOT extend to
   method request_param.  RequestParam._verify has no counterpart of client_secret_jwt's "the first symmetric key
   the kid selects is the client's secret" test: in the by-hand rotation state above (key jar of c1: s1 and s1b,
   record: s1b, kids distinct, no symmetric keys of the provider's own) a request OBJECT MACed with the superseded
   s1 under the kid of s1 authenticates c1. *)
Theorem C01_request_param_superseded_secret_refuted :
  exists cx ep rq now jdb jdb' ai j c s,
    client_authentication cx ep rq now jdb = (Ok (Some ai), jdb')
    /\ ai_client ai = Some (PS "c1") /\ ai_method ai = MRequestParam /\ authenticating (ai_method ai) = true
    /\ used_jwt rq (ai_method ai) = Some j /\ j_alg j = AlgHS
    /\ assoc (PS "c1") (cx_cdb cx) = Some c /\ c_secret c = Some s /\ s <> []
    /\ filter (vkey_is AlgHS) (kj_own (cx_kj cx)) = [] /\ oct_kids_distinct (cx_kj cx) (PS "c1")
    /\ j_key j <> KSym s.
Proof.
  exists rot_cx, (wit_ep [MPost; MRequestParam]),
    {| r_hdr := HAbsent; r_client_id := None; r_client_secret := None; r_access_token := None; r_assertion := None;
       r_request := Some (Jwt (with_kid_hdr (PS "kid-s1") (hs_of "s1"))); r_authflag := false |}, 1000%Z, [], [PS "c1:j9"].
  eexists. eexists. exists c1_new, (PS "s1b").
  split; [vm_compute; reflexivity|].
  repeat (split; [reflexivity|]).
  split; [discriminate|]. split; [reflexivity|].
  split; [exact (proj2 (proj2 (proj2 (proj2 (proj2 (proj2 (proj2 (proj2 (proj2 (proj2 (proj2 (proj2
            C01_nonvacuous_rotation_by_hand))))))))))))|].
  vm_compute. discriminate.
Qed.
Print Assumptions C01_request_param_superseded_secret_refuted.

(* a history in which the same assertion is presented three times is accepted exactly once *)
Example C01_nonvacuous_replay :
  let s := {| s_cx := wit_cx; s_ep := wit_ep all4; s_rq := rq_assert hs1; s_now := 1000%Z |} in
  count_accepted (PS "c1:j7") [s; {| s_cx := wit_cx; s_ep := wit_ep all4; s_rq := rq_post; s_now := 1001%Z |}; s; s] [] = 1%nat.
Proof. vm_compute. reflexivity. Qed.

(* the hypotheses of C01_unforgeable are satisfiable together with an accepting run: the client published one
   assertion, the adversary replays it (and nothing else about c1's key is public) *)
Definition sk0 (k : skey) : nat := match k with KSym s => 2 * length s | KRsa n => 2 * n + 1 | KEc n => 2 * n + 101 end.
Definition K0 (t : term) : Prop := t = jwt_term sk0 hs1.
Example C01_nonvacuous_unforgeable :
  (forall k, never_published K0 sk0 k)
  /\ derivable K0 (req_term sk0 (rq_assert hs1))
  /\ accepted_as (client_authentication wit_cx (wit_ep all4) (rq_assert hs1) 1000 []) (PS "c1") MSecretJwt = true.
Proof.
  split; [|split].
  - intros k t Ht Hs. unfold K0 in Ht. subst t. vm_compute in Hs.
    repeat match goal with H : sub _ _ |- _ => inversion H; subst; clear H end.
  - unfold req_term. cbn. repeat apply d_pair; try apply d_atom. apply d_init. reflexivity.
  - vm_compute. reflexivity.
Qed.

(* ------------------------------------------------------------------ delivery forms: encrypted wrappers *)
(* A provider that owns a decryption key is handed client assertions / request objects inside compact JWEs, which
   anybody can make with the published key.  [open_assertion] is JWT.unpack's treatment of the wrapper: a wrapper one
   of its keys decrypts, typed cty=JWT, around a JWS is that JWS (signature checked as ever); a wrapper around bare JSON
   claims yields claims NO signature check has seen; everything else yields no claims at all.
   The method classes as they are written ([verify_method_w]: JWSAuthnMethod._verify / RequestParam._verify on the
   delivered object) are the method classes on the bare token [seen] puts in the wrapper's place ... *)
Theorem C01_wrapper_methods : forall cx ep q now jdb m,
  verify_method_w cx ep q now jdb m = verify_method cx ep (deliver q) now jdb m.
Proof. exact verify_method_w_deliver. Qed.
Print Assumptions C01_wrapper_methods.

(* ... unsigned content - whatever does not open to a JWS - makes all three JWS-based methods give up, without an
   effect on the replay cache, in every state of the provider ... *)
Theorem C01_unsigned_content_refused : forall cx ep now w jdb,
  (forall t, open_assertion w <> OSigned t) ->
  jws_verify_w cx ep now MSecretJwt true w jdb = (VSkip, jdb)
  /\ jws_verify_w cx ep now MPrivateJwt false w jdb = (VSkip, jdb)
  /\ request_param_verify_w cx now w jdb = (VSkip, jdb).
Proof. exact unsigned_content_refused. Qed.
Print Assumptions C01_unsigned_content_refused.

(* ... and ENCRYPTION ADDS NO AUTHORITY: a request accepted as X through client_secret_jwt / private_key_jwt /
   request_param carried, for that method, an object that opens to a JWS whose signature verifies under a key the key
   jar holds for X (HMAC: or an own symmetric key of the provider) - never bare claims, never an undecryptable or
   untyped wrapper - and the same request with every wrapper taken off is accepted in exactly the same way. *)
Theorem C01_wrapper_no_authority : forall cx ep q now jdb jdb' ai X,
  client_authentication_w cx ep q now jdb = (Ok (Some ai), jdb') ->
  ai_client ai = Some X ->
  jws_method (ai_method ai) = true ->
  (exists w j, used_wire q (ai_method ai) = Some w /\ open_assertion w = OSigned (Jwt j)
     /\ j_alg j <> AlgNone /\ signed_by_client cx X j)
  /\ client_authentication_w cx ep (unwrapped q) now jdb = (Ok (Some ai), jdb').
Proof. exact wrapper_no_authority. Qed.
Print Assumptions C01_wrapper_no_authority.

Definition wq (a r : option wire) (cid : option pystr) : wrequest :=
  {| w_hdr := HAbsent; w_client_id := cid; w_client_secret := None; w_access_token := None;
     w_assertion := a; w_request := r; w_authflag := false |}.
Definition jws3 := [MSecretJwt; MPrivateJwt; MRequestParam].
(* a genuine ES assertion of c2 / HS assertion of c1 inside a typed wrapper the provider can open is accepted (also as
   a request object); the bare claims of the same assertions inside a wrapper, an untyped wrapper around the genuine
   JWS, a wrapper the provider cannot open and a wrapper inside a wrapper are not - with the whole registry tried and
   the body naming the client, the request goes on as the PUBLIC client c2, not authenticated *)
Example C01_nonvacuous_wrappers :
  accepted_as (client_authentication_w wit_cx (wit_ep jws3) (wq (Some (WJwe true true (CTok (Jwt es2)))) None None) 1000 [])
    (PS "c2") MPrivateJwt = true
  /\ accepted_as (client_authentication_w wit_cx (wit_ep jws3) (wq (Some (WJwe true true (CTok (Jwt hs1)))) None None) 1000 [])
    (PS "c1") MSecretJwt = true
  /\ accepted_as (client_authentication_w wit_cx (wit_ep jws3) (wq None (Some (WJwe true true (CTok (Jwt es2)))) None) 1000 [])
    (PS "c2") MRequestParam = true
  /\ fst (client_authentication_w wit_cx (wit_ep jws3) (wq (Some (WJwe true false (CJson es2))) None None) 1000 [])
     = Err UnAuthorizedClient
  /\ fst (client_authentication_w wit_cx (wit_ep jws3) (wq None (Some (WJwe true false (CJson es2))) None) 1000 [])
     = Err UnAuthorizedClient
  /\ fst (client_authentication_w wit_cx (wit_ep jws3) (wq (Some (WJwe true true (CJson hs1))) None None) 1000 [])
     = Err UnAuthorizedClient
  /\ fst (client_authentication_w wit_cx (wit_ep jws3) (wq (Some (WJwe true false (CTok (Jwt es2)))) None None) 1000 [])
     = Err UnAuthorizedClient
  /\ fst (client_authentication_w wit_cx (wit_ep jws3) (wq (Some (WJwe false true (CTok (Jwt es2)))) None None) 1000 [])
     = Err UnAuthorizedClient
  /\ fst (client_authentication_w wit_cx (wit_ep jws3)
            (wq (Some (WJwe true true (CJwe true true (CTok (Jwt es2))))) None None) 1000 [])
     = Err UnAuthorizedClient
  /\ fst (parse_request_w wit_cx (wit_ep []) (wq None (Some (WJwe true false (CJson es2))) (Some (PS "c2"))) 1000 [])
     = Ok (PGeneric (Some (PS "c2")) (Some (PS "c2")) false).
Proof. vm_compute. repeat split. Qed.

(* TIE BY TRANSLATION: valid_client_secret as it reads in /repo/src NOW (coq/Gen/Src_token.v, regenerated every
   run by harness/py2v.py) computes the model's valid_client_secret. *)
From Verif Require Gen.Src_token Proofs.Src_refine.
Theorem C01_valid_client_secret_is_source : forall c now,
  Src_token.valid_client_secret_src (Src_refine.inject_client c) (VInt now) = Ok (VBool (ClientAuthn.valid_client_secret c now)).
Proof. exact Src_refine.valid_client_secret_refines. Qed.
Print Assumptions C01_valid_client_secret_is_source.
