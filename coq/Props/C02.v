(* Props/C02.v — placeholder while the proofs are written; replaced below. *)
From Verif Require Import Lib.Base Lib.PyStr Model.Session Model.SessionCheck.
Example C02_model_loads : init.(next_id) = O.
Proof. reflexivity. Qed.
