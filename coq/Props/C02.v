(* Props/C02.v — property C02: authorization codes are single use, client-bound, redirect-bound and
   expiring, for every interleaving of the parse and process steps of concurrent token requests; at the
   OIDC token endpoint a second presentation of a code invalidates what was minted from the first.
   Statements only; proofs are in Proofs/C02_proofs.v and Proofs/Session_proofs.v.
   The model (Model/Session.v) is tied to the real provider by harness/drv_C02.py on every run. *)
From Coq Require Import String ZArith List.
From Verif Require Import Lib.Base Lib.PyStr Model.Session Model.SessionCheck Proofs.Session_proofs Proofs.Session_gone Proofs.C02_proofs.
From Verif Require Gen.Src_token Proofs.Src_refine.
Import ListNotations.
Open Scope string_scope.

(* For every configuration, every history `pre` before the authorization response that hands out code c,
   and EVERY sequence `post` of operations afterwards (parse and process are separate operations, so this
   covers every interleaving of any number of concurrent redemptions by any clients, with clock ticks,
   refreshes and revocations in between): c is exchanged for tokens at most once. *)
Theorem C02_single_use : forall cf pre u cl sc s1 c scope post,
  step cf (fst (run cf init pre)) (Authorize u cl sc) = (s1, OAuthz c scope) ->
  (redeems c cf s1 post <= 1)%nat.
Proof. exact single_use. Qed.
Print Assumptions C02_single_use.

(* AUTHORIZING AGAIN WITHIN A BROWSER SESSION.  `issues o rd`: o is an authorization request with redirect_uri rd - a
   plain one (Authorize, rd = the client's first registered redirect_uri) or one that comes with the provider's session
   cookie of an earlier authorization (AuthorizeCookie: any earlier grant's cookie, same or other client and user, same /
   narrower / wider scope, the same or the client's other registered redirect_uri, old or new state and nonce; the provider
   keeps the earlier grant when the request equals the stored one and makes a new grant otherwise).
   The code of EVERY such authorization response is exchanged at most once ... *)
Theorem C02_single_use_any_authorization : forall cf pre o rd s1 c scope post,
  issues o rd -> step cf (fst (run cf init pre)) o = (s1, OAuthz c scope) -> (redeems c cf s1 post <= 1)%nat.
Proof. exact single_use_issued. Qed.
Print Assumptions C02_single_use_any_authorization.

(* ... and its redirect binding is fixed when it is issued: after ANY further operations `post` (among them further
   authorization requests of the same browser session for another registered redirect_uri), an exchange of code c that
   yields tokens carried exactly the redirect_uri rd of the request that produced c. *)
Theorem C02_redirect_bound_at_issue : forall cf pre o rd s1 c scope post o' s3 x,
  issues o rd -> step cf (fst (run cf init pre)) o = (s1, OAuthz c scope) ->
  step cf (fst (run cf s1 post)) o' = (s3, x) -> is_redeem c (fst (run cf s1 post)) o' x = true ->
  exists idx kw cl, o' = Process idx kw /\ nth_error (parsed (fst (run cf s1 post))) idx = Some (PCode cl c (Some rd)).
Proof. exact redirect_bound_at_issue. Qed.
Print Assumptions C02_redirect_bound_at_issue.
(* No operation changes which redirect_uri redeems a code. *)
Theorem C02_redirect_never_rebound : forall cf s o c r,
  code_redirect s c = Some r -> code_redirect (fst (step cf s o)) c = Some r.
Proof. exact code_redirect_step. Qed.
Print Assumptions C02_redirect_never_rebound.

(* An exchange that yields tokens was requested by the client the code was issued to, with the redirect_uri
   of the authorization request, for a code that is unrevoked, unexpired and unused, under a live grant. *)
Theorem C02_bound : forall cf c s o s1 x,
  step cf s o = (s1, x) -> is_redeem c s o x = true ->
  exists idx kw cl rd g t,
    o = Process idx kw /\ nth_error (parsed s) idx = Some (PCode cl c (Some rd)) /\
    find_tok c s = Some (g, t) /\
    cl = g_client g /\ rd = g_redirect g /\
    t_revoked t = false /\ (t_exp t = 0 \/ now s <= t_exp t)%Z /\ max_reached t = false /\
    g_revoked g = false.
Proof. exact redeem_bound. Qed.
Print Assumptions C02_bound.

(* THE CONFIGURATION FLAG c_remove_inactive (session_params.remove_inactive_token, documented, default off).  With it
   on, Grant.revoke_token takes the revoked tokens off grant.issued_token ("gone": still decrypting, still naming their
   session, no longer found by Grant.get_token).  Every statement above is for EVERY configuration, hence for both values
   of the flag; spelled out for the single-use clause: *)
Theorem C02_single_use_either_flag : forall (b : bool) cf pre o rd s1 c scope post,
  c_remove_inactive cf = b ->
  issues o rd -> step cf (fst (run cf init pre)) o = (s1, OAuthz c scope) -> (redeems c cf s1 post <= 1)%nat.
Proof. exact single_use_either_flag. Qed.
Print Assumptions C02_single_use_either_flag.
(* an exchange that yields tokens was made for a code its grant still lists: whatever takes a code off the list, the
   code is not exchanged afterwards *)
Theorem C02_redeemed_code_is_listed : forall cf c s o s1 x,
  step cf s o = (s1, x) -> is_redeem c s o x = true -> exists g t, find_tok c s = Some (g, t) /\ t_gone t = false.
Proof. exact redeem_listed. Qed.
Print Assumptions C02_redeemed_code_is_listed.
(* in every state any history reaches: only revoked tokens have left a list, and only under the flag *)
Theorem C02_gone_only_revoked : forall cf ops k t,
  tget k (fst (run cf init ops)) = Some t -> t_gone t = true -> c_remove_inactive cf = true /\ t_revoked t = true.
Proof. exact gone_only_revoked. Qed.
Print Assumptions C02_gone_only_revoked.

(* OIDC token endpoint: presenting a used code is refused and revokes the tokens minted from it (as long as the
   session the code belongs to is in the database: after SessionManager.remove_session the code does not resolve
   at all, the parse step raises - see C03_removed_never_honoured).
   BOTH values of the flag, ANY state: if the grant still lists the code, every token minted from it that the grant still
   lists is revoked (flag off: the cascade; flag on: the top level of the library's depth-first walk visits each). *)
Theorem C02_oidc_replay_revokes : forall cf s cl id redir s1 x g t,
  c_oidc cf = true ->
  find_tok id s = Some (g, t) -> g_removed g = false -> t_cls t = Code -> t_used t <> 0%Z -> t_gone t = false ->
  step cf s (TokenParse cl (TRef id) redir) = (s1, x) ->
  x = OErr EInvalidGrant /\
  forall k tk, tget k s = Some tk -> t_grant tk = t_grant t -> t_based tk = Some id -> t_gone tk = false ->
               exists tk', tget k s1 = Some tk' /\ t_revoked tk' = true.
Proof. exact oidc_replay_revokes. Qed.
Print Assumptions C02_oidc_replay_revokes.
(* BOTH values of the flag, every state a history reaches: if the grant still lists the code, EVERY token minted from it
   - listed or not - is revoked after the second presentation. *)
Theorem C02_oidc_replay_revokes_reachable : forall cf ops cl id redir s1 x g t,
  c_oidc cf = true ->
  find_tok id (fst (run cf init ops)) = Some (g, t) -> g_removed g = false -> t_cls t = Code -> t_used t <> 0%Z -> t_gone t = false ->
  step cf (fst (run cf init ops)) (TokenParse cl (TRef id) redir) = (s1, x) ->
  x = OErr EInvalidGrant /\
  forall k tk, tget k (fst (run cf init ops)) = Some tk -> t_grant tk = t_grant t -> t_based tk = Some id ->
               exists tk', tget k s1 = Some tk' /\ t_revoked tk' = true.
Proof. exact oidc_replay_revokes_reachable. Qed.
Print Assumptions C02_oidc_replay_revokes_reachable.
(* Flag OFF (the default configuration), every state a history reaches: no side condition at all - the statement this
   file made before the flag existed ... *)
Theorem C02_oidc_replay_revokes_default : forall cf ops cl id redir s1 x g t,
  c_remove_inactive cf = false -> c_oidc cf = true ->
  find_tok id (fst (run cf init ops)) = Some (g, t) -> g_removed g = false -> t_cls t = Code -> t_used t <> 0%Z ->
  step cf (fst (run cf init ops)) (TokenParse cl (TRef id) redir) = (s1, x) ->
  x = OErr EInvalidGrant /\
  forall k tk, tget k (fst (run cf init ops)) = Some tk -> t_grant tk = t_grant t -> t_based tk = Some id ->
               exists tk', tget k s1 = Some tk' /\ t_revoked tk' = true.
Proof. exact oidc_replay_revokes_default. Qed.
Print Assumptions C02_oidc_replay_revokes_default.
(* ... and transitively: everything whose based_on chain leads to the code (what a refresh of a refresh of ... minted). *)
Theorem C02_oidc_replay_revokes_descendants_default : forall cf ops cl id redir s1 x g t,
  c_remove_inactive cf = false -> c_oidc cf = true ->
  find_tok id (fst (run cf init ops)) = Some (g, t) -> g_removed g = false -> t_cls t = Code -> t_used t <> 0%Z ->
  step cf (fst (run cf init ops)) (TokenParse cl (TRef id) redir) = (s1, x) ->
  forall k tk, tget k (fst (run cf init ops)) = Some tk -> t_grant tk = t_grant t ->
               derived_from (S (length (toks (fst (run cf init ops))))) (toks (fst (run cf init ops))) tk id = true ->
               exists tk', tget k s1 = Some tk' /\ t_revoked tk' = true.
Proof. exact oidc_replay_revokes_descendants_default. Qed.
Print Assumptions C02_oidc_replay_revokes_descendants_default.

(* Tokens are never "un-used" or "un-revoked" by any operation (used by C03 as well). *)
Theorem C02_monotone : forall cf s o, ext s (fst (step cf s o)).
Proof. exact step_ext. Qed.
Print Assumptions C02_monotone.

(* non-vacuity: on the configuration of the correspondence run the first exchange succeeds; the replay,
   the cross-client attempt, the altered redirect_uri and the exchange after expiry do not. *)
Definition c1 := PS "client_1".
Definition c2 := PS "client_2".
Definition demo_post : list op :=
  [ TokenParse c2 (TRef 0) (Some (redirect_of c1));                (* another client *)
    Process 0 None;
    TokenParse c1 (TRef 0) (Some (PS "https://evil.example.com/cb")); Process 1 None;
    TokenParse c1 (TRef 0) (Some (redirect_of c1)); TokenParse c1 (TRef 0) (Some (redirect_of c1));
    Process 2 None; Process 3 None; Process 2 None;                 (* two concurrent redemptions *)
    TokenParse c1 (TRef 0) (Some (redirect_of c1)); Process 4 None ]. (* replay *)
Example C02_nonvacuous :
  let cf := mk_cfg true false in
  let '(s1, x) := step cf init (Authorize (PS "diana") c1 [PS "openid"; PS "offline_access"]) in
  x = OAuthz 0 [PS "openid"; PS "offline_access"] /\ redeems 0 cf s1 demo_post = 1%nat.
Proof. vm_compute. split; reflexivity. Qed.
Example C02_expired_not_redeemable :
  let cf := mk_cfg false false in
  let '(s1, x) := step cf init (Authorize (PS "diana") c1 [PS "openid"]) in
  redeems 0 cf s1 [Tick 301; TokenParse c1 (TRef 0) (Some (redirect_of c1)); Process 0 None] = 0%nat
  /\ redeems 0 cf s1 [TokenParse c1 (TRef 0) (Some (redirect_of c1)); Tick 301; Process 0 None] = 0%nat
  /\ redeems 0 cf s1 [Tick 300; TokenParse c1 (TRef 0) (Some (redirect_of c1)); Process 0 None] = 1%nat.
Proof. vm_compute. repeat split; reflexivity. Qed.

(* non-vacuity of the browser-session statements: a login with the first registered redirect_uri leaves code 0 pending;
   the same browser authorizes again (session cookie of grant 0) with the client's second registered redirect_uri ->
   code 1 in a new grant; with the identical request -> code 2 in grant 0.  Code 0 and code 2 are exchanged with cb only,
   code 1 with cb2 only, each once. *)
Definition cb2 := PS "https://client_1.example.com/cb2".
Definition demo_cookie : list op :=
  [ Authorize (PS "diana") c1 [PS "openid"];
    AuthorizeCookie 0 (PS "diana") c1 [PS "openid"] cb2 true;
    AuthorizeCookie 0 (PS "diana") c1 [PS "openid"] (redirect_of c1) false;
    TokenParse c1 (TRef 0) (Some cb2); Process 0 None;                    (* code 0 with the later request's redirect_uri *)
    TokenParse c1 (TRef 1) (Some (redirect_of c1)); Process 1 None;       (* code 1 with the earlier request's *)
    TokenParse c1 (TRef 0) (Some (redirect_of c1)); Process 2 None;
    TokenParse c1 (TRef 1) (Some cb2); Process 3 None;
    TokenParse c1 (TRef 2) (Some cb2); Process 4 None;
    TokenParse c1 (TRef 2) (Some (redirect_of c1)); Process 5 None ].
Example C02_cookie_nonvacuous :
  let cf := mk_cfg true false in
  let '(s, outs) := run cf init demo_cookie in
  firstn 3 outs = [OAuthz 0 [PS "openid"]; OAuthz 1 [PS "openid"]; OAuthz 2 [PS "openid"]]
  /\ length (grants s) = 2%nat
  /\ List.map is_tokens (skipn 3 outs) = [false; false; false; false; false; true; false; true; false; false; false; true]
  /\ code_redirect s 0 = Some (redirect_of c1) /\ code_redirect s 1 = Some cb2 /\ code_redirect s 2 = Some (redirect_of c1).
Proof. vm_compute. repeat split; reflexivity. Qed.

(* RECORDED FINDING (known_findings.txt, key replay-not-revoked:remove-inactive-token): with the flag ON the side conditions
   above cannot be dropped - the library's walk (transcribed exactly, Model/Session.v `walk`) takes every token that is
   revoked by then off the list when its first recursive call ends, so (A) a code that was itself revoked and then dropped
   is answered "Wrong token type" without any cascade, and (C) the cascade stops at a descendant that was revoked earlier
   (refresh rotation).  The same histories under the default configuration revoke everything. *)
Definition dia := PS "diana".
Definition sc_off := [PS "openid"; PS "email"; PS "offline_access"].
Definition rd1 := Some (redirect_of c1).
Definition gap_A : list op :=
  [ Authorize dia c1 sc_off; TokenParse c1 (TRef 0) rd1; Process 0 None;      (* code 0 -> access 1, refresh 2, ID Token 3 *)
    RevokeEP c1 (TRef 0);                                                      (* the client revokes the code *)
    ApiRevoke 3 true;                                                          (* any Grant.revoke_token call in that grant *)
    TokenParse c1 (TRef 0) rd1;                                                (* the code is presented again *)
    Userinfo (TRef 1); Introspect c1 (TRef 2) ].
Definition gap_C : list op :=
  [ Authorize dia c1 sc_off; TokenParse c1 (TRef 0) rd1; Process 0 None;      (* code 0 -> access 1, refresh 2, ID Token 3 *)
    RefreshParse c1 (TRef 2) None; Process 1 None;                             (* rotation: refresh 2 revoked -> access 4, refresh 5, ID Token 6 *)
    RefreshParse c1 (TRef 5) None; Process 2 None;                             (* refresh 5 revoked -> access 7, refresh 8, ID Token 9 *)
    TokenParse c1 (TRef 0) rd1;                                                (* the code is presented again *)
    Userinfo (TRef 4); Userinfo (TRef 7); Introspect c1 (TRef 8) ].
Example C02_replay_cascade_remove_inactive_refuted :
  skipn 5 (snd (run (mk_cfg5 true false false false true) init gap_A))
    = [OErr EInvalidRequest; OUserinfo; OActive sc_off c1 Refresh]
  /\ skipn 5 (snd (run (mk_cfg5 true false false false false) init gap_A))
    = [OErr EInvalidGrant; OErr EInvalidToken; OInactive]
  /\ skipn 7 (snd (run (mk_cfg5 true true false false true) init gap_C))
    = [OErr EInvalidGrant; OExc; OUserinfo; OActive sc_off c1 Refresh]
  /\ skipn 7 (snd (run (mk_cfg5 true true false false false) init gap_C))
    = [OErr EInvalidGrant; OErr EInvalidToken; OErr EInvalidToken; OInactive].
Proof. vm_compute. repeat split; reflexivity. Qed.
(* ... while the plain case - exchange, then the code again, nothing revoked in between - revokes everything under both
   values of the flag (the flag-on answers are crashes of the endpoints on the dropped tokens: refusals) *)
Example C02_replay_revokes_both_flags :
  let h := [ Authorize dia c1 sc_off; TokenParse c1 (TRef 0) rd1; Process 0 None; RefreshParse c1 (TRef 2) None; Process 1 None;
             TokenParse c1 (TRef 0) rd1;
             Userinfo (TRef 1); Userinfo (TRef 4); Introspect c1 (TRef 2); Introspect c1 (TRef 5); RefreshParse c1 (TRef 5) None ] in
  skipn 5 (snd (run (mk_cfg5 true false false false true) init h))
    = [OErr EInvalidGrant; OExc; OExc; OExc; OExc; OErr EInvalidRequest]
  /\ skipn 5 (snd (run (mk_cfg5 true false false false false) init h))
    = [OErr EInvalidGrant; OErr EInvalidToken; OErr EInvalidToken; OInactive; OInactive; OErr EInvalidRequest].
Proof. vm_compute. repeat split; reflexivity. Qed.

(* TIE BY TRANSLATION: Item.is_active / max_usage_reached / supports_minting as they read in /repo/src NOW
   (coq/Gen/Src_token.v is regenerated from the source on every run) compute the model's tok_active /
   supports_minting.  Changing a comparison, dropping the revoked test or the usage limit in the source breaks
   these statements. *)
Theorem C02_is_active_is_source : forall t now clock,
  now <> 0%Z -> Src_token.Item_is_active_src (Src_refine.inject_tok t) (VInt now) (VInt clock) = Ok (VBool (tok_active now t)).
Proof. exact Src_refine.is_active_refines. Qed.
Print Assumptions C02_is_active_is_source.
Theorem C02_supports_minting_is_source : forall t c clock,
  Src_token.SessionToken_supports_minting_src (Src_refine.inject_tok t) (VStr (Src_refine.cls_name c)) clock = Ok (VBool (supports_minting t c)).
Proof. exact Src_refine.supports_minting_refines. Qed.
Print Assumptions C02_supports_minting_is_source.

(* --- round 12: the authentication-age test of the cookie path is the source's AuthnEvent.is_valid --- *)
From Verif Require Gen.Src_authn Proofs.Src_refine_authn.
Theorem C02_authn_event_is_valid_is_source : forall vu now clock,
  Src_authn.AuthnEvent_is_valid_src (Src_refine_authn.inject_authn_event vu) (VInt now) (VInt clock)
  = Ok (VBool (Src_refine_authn.is_valid_at now clock <? vu)%Z).
Proof. exact Src_refine_authn.authn_event_is_valid_refines. Qed.
Print Assumptions C02_authn_event_is_valid_is_source.
Theorem C02_stale_authentication_asks_login : forall c s prev g u cl sc redir fresh,
  nth_error (grants s) prev = Some g -> g_removed g = false -> g_client g = cl ->
  Src_authn.AuthnEvent_is_valid_src (Src_refine_authn.inject_authn_event (g_valid_until g)) (VInt 0) (VInt (now s)) = Ok (VBool false) ->
  do_authorize_cookie c s prev u cl sc redir fresh = (s, OLogin).
Proof. exact Src_refine_authn.stale_authentication_asks_login. Qed.
Print Assumptions C02_stale_authentication_asks_login.
(* --- end round 12 --- *)
