(* Props/C03.v — property C03: expiry and revocation are final and cascade to every endpoint;
   revoking one token, grant or session never changes tokens of other grants, clients or users.
   Statements only; proofs in Proofs/C03_proofs.v.  Model/Session.v is tied to the real provider by
   harness/drv_C03.py on every run (outcome of every operation + the whole session state). *)
From Coq Require Import String ZArith List.
From Verif Require Import Lib.Base Lib.PyStr Model.Session Model.SessionCheck Proofs.Session_proofs Proofs.C03_proofs.
From Verif Require Gen.Src_token Proofs.Src_refine.
Import ListNotations.
Open Scope string_scope.
Open Scope Z_scope.

(* `dead n t` is exactly "Item.is_active() is false at time n": revoked, usage limit reached, or expired. *)
Theorem C03_dead_is : forall n t,
  dead n t <-> (t_revoked t = true \/ max_reached t = true \/ (t_exp t <> 0 /\ t_exp t < n)).
Proof. exact dead_cases. Qed.
Print Assumptions C03_dead_is.

(* FINAL: a dead token stays dead after any sequence of operations (flags are never cleared, usage never
   decreases across an operation, the clock only moves forward). *)
Theorem C03_final : forall c ops s k t,
  tget k s = Some t -> dead (now s) t ->
  exists t', tget k (fst (run c s ops)) = Some t' /\ dead (now (fst (run c s ops))) t'.
Proof. exact dead_forever. Qed.
Print Assumptions C03_final.

(* REFUSED EVERYWHERE: a dead token gets no user info, is never reported active, is refused by both
   parse steps of the token endpoint, and mints nothing in either process step. *)
Theorem C03_userinfo_refuses : forall c s id g t,
  find_tok id s = Some (g, t) -> dead (now s) t -> snd (do_userinfo c s (TRef id)) <> OUserinfo.
Proof. exact userinfo_dead. Qed.
Print Assumptions C03_userinfo_refuses.
Theorem C03_introspection_inactive : forall c s cl id g t,
  find_tok id s = Some (g, t) -> dead (now s) t ->
  forall sc cl' k, snd (do_introspect c s cl (TRef id)) <> OActive sc cl' k.
Proof. exact introspect_dead. Qed.
Print Assumptions C03_introspection_inactive.
Theorem C03_refresh_parse_refuses : forall c s cl id g t sc,
  find_tok id s = Some (g, t) -> dead (now s) t -> snd (do_refresh_parse c s cl (TRef id) sc) <> OOk.
Proof. exact refresh_parse_dead. Qed.
Print Assumptions C03_refresh_parse_refuses.
Theorem C03_code_parse_refuses : forall c s cl id g t rd,
  find_tok id s = Some (g, t) -> dead (now s) t -> snd (do_token_parse c s cl (TRef id) rd) <> OOk.
Proof. exact token_parse_dead. Qed.
Print Assumptions C03_code_parse_refuses.
Theorem C03_mints_nothing : forall c s idx kw cl id redir g t,
  (nth_error (parsed s) idx = Some (PCode cl id redir) \/ exists sc, nth_error (parsed s) idx = Some (PRefresh cl id sc)) ->
  find_tok id s = Some (g, t) -> dead (now s) t ->
  forall a r i sc, snd (do_process c s idx kw) <> OTokens a r i sc.
Proof. exact process_dead_mints_nothing. Qed.
Print Assumptions C03_mints_nothing.

(* CASCADE: revoking a grant / a client session / a token recursively kills every token below it. *)
Theorem C03_cascade_grant : forall s gi g k t,
  nth_error (grants s) gi = Some g -> tget k s = Some t -> t_grant t = gi ->
  exists t', tget k (revoke_grant_at gi s) = Some t' /\ t_revoked t' = true.
Proof. exact revoke_grant_cascade. Qed.
Print Assumptions C03_cascade_grant.
(* (live_branch: the grants the client-session node still knows, i.e. same user, same client, not removed from the
   database; the tokens of removed grants are covered by C03_remove_session_final) *)
Theorem C03_cascade_client_session : forall s g k t h,
  tget k s = Some t -> nth_error (grants s) (t_grant t) = Some h -> live_branch g h = true ->
  exists t', tget k (revoke_branch g s) = Some t' /\ t_revoked t' = true.
Proof. exact revoke_client_cascade. Qed.
Print Assumptions C03_cascade_client_session.
Theorem C03_cascade_token_recursive : forall s id g t k tk,
  find_tok id s = Some (g, t) -> g_removed g = false -> tget k s = Some tk -> t_grant tk = t_grant t ->
  (k = id \/ derived_from (S (length (toks s))) (upd_nth id revoke_t (toks s)) tk id = true) ->
  exists tk', tget k (fst (do_api_revoke s id true)) = Some tk' /\ t_revoked tk' = true.
Proof. exact api_revoke_recursive. Qed.
Print Assumptions C03_cascade_token_recursive.

(* ISOLATION: the tokens of every other grant (hence of every other client and user) are untouched, bit for bit. *)
Theorem C03_isolation_grant : forall s gi k t,
  tget k s = Some t -> t_grant t <> gi -> tget k (revoke_grant_at gi s) = Some t.
Proof. exact revoke_grant_isolation. Qed.
Print Assumptions C03_isolation_grant.
Theorem C03_isolation_client_session : forall s g k t,
  tget k s = Some t -> in_branch g s (t_grant t) = false -> tget k (revoke_branch g s) = Some t.
Proof. exact revoke_client_isolation. Qed.
Print Assumptions C03_isolation_client_session.
Theorem C03_isolation_token : forall s id rec g t k tk,
  find_tok id s = Some (g, t) -> tget k s = Some tk -> t_grant tk <> t_grant t ->
  tget k (fst (do_api_revoke s id rec)) = Some tk.
Proof. exact api_revoke_isolation. Qed.
Print Assumptions C03_isolation_token.
Theorem C03_isolation_revocation_endpoint : forall c s cl id k tk,
  k <> id -> tget k s = Some tk -> tget k (fst (do_revoke_ep c s cl (TRef id))) = Some tk.
Proof. exact revoke_ep_isolation. Qed.
Print Assumptions C03_isolation_revocation_endpoint.

(* REMOVE-SESSION (SessionManager.remove_session on grant gi): whatever operations follow, no token of that grant is
   honoured by any endpoint again - no user info, never reported active, refused by both parse steps of the token
   endpoint, and a request parsed before the removal mints nothing ... *)
Theorem C03_never_honoured_is : forall c s k,
  never_honoured c s k <->
  (snd (do_userinfo c s (TRef k)) <> OUserinfo /\
   (forall cl sc cl' cls, snd (do_introspect c s cl (TRef k)) <> OActive sc cl' cls) /\
   (forall cl sc, snd (do_refresh_parse c s cl (TRef k) sc) <> OOk) /\
   (forall cl rd, snd (do_token_parse c s cl (TRef k) rd) <> OOk) /\
   (forall idx kw cl redir,
      (nth_error (parsed s) idx = Some (PCode cl k redir) \/ exists sc, nth_error (parsed s) idx = Some (PRefresh cl k sc)) ->
      forall a r i sc, snd (do_process c s idx kw) <> OTokens a r i sc)).
Proof. exact never_honoured_unfold. Qed.
Print Assumptions C03_never_honoured_is.
Theorem C03_remove_session_final : forall c s gi g ops k t,
  nth_error (grants s) gi = Some g -> tget k s = Some t -> t_grant t = gi ->
  never_honoured c (fst (run c (fst (step c s (RemoveGrant gi))) ops)) k.
Proof. exact remove_grant_final. Qed.
Print Assumptions C03_remove_session_final.
(* ... and the removal changes no token at all (flags, counters, expiry, scope of every token are what they were) and
   no other grant: the status of every token of every other grant, client and user is what it was. *)
Theorem C03_remove_session_isolation : forall c s gi,
  toks (fst (step c s (RemoveGrant gi))) = toks s /\ now (fst (step c s (RemoveGrant gi))) = now s /\
  parsed (fst (step c s (RemoveGrant gi))) = parsed s /\
  forall gj, gj <> gi -> nth_error (grants (fst (step c s (RemoveGrant gi)))) gj = nth_error (grants s) gj.
Proof. exact remove_grant_isolation. Qed.
Print Assumptions C03_remove_session_isolation.
(* a grant once removed stays removed, through every operation (a later login creates a new grant) *)
Theorem C03_removed_forever : forall c ops s gi g,
  nth_error (grants s) gi = Some g -> g_removed g = true ->
  exists g', nth_error (grants (fst (run c s ops))) gi = Some g' /\ g_removed g' = true /\
             g_user g' = g_user g /\ g_client g' = g_client g.
Proof. exact removed_forever. Qed.
Print Assumptions C03_removed_forever.

(* USER SESSION (logout everywhere: revoke_sub_tree at the user level, through grant gi): every token of every grant
   of that user, at every client, is revoked or belongs to a grant that is out of the database ... *)
Theorem C03_cascade_user_session : forall c s gi g k t h,
  nth_error (grants s) gi = Some g -> tget k s = Some t -> nth_error (grants s) (t_grant t) = Some h -> same_user g h = true ->
  exists h' t', find_tok k (fst (step c s (RevokeUser gi))) = Some (h', t') /\
                (t_revoked t' = true \/ g_removed h' = true).
Proof. exact revoke_user_kills. Qed.
Print Assumptions C03_cascade_user_session.
(* ... hence never honoured again, whatever follows ... *)
Theorem C03_user_session_final : forall c s gi g ops k t h,
  nth_error (grants s) gi = Some g -> tget k s = Some t -> nth_error (grants s) (t_grant t) = Some h -> same_user g h = true ->
  never_honoured c (fst (run c (fst (step c s (RevokeUser gi))) ops)) k.
Proof. exact revoke_user_final. Qed.
Print Assumptions C03_user_session_final.
(* ... while every token and every grant of every other user is exactly what it was. *)
Theorem C03_isolation_user_session : forall c s gi k t h,
  tget k s = Some t -> nth_error (grants s) (t_grant t) = Some h ->
  (forall g, nth_error (grants s) gi = Some g -> same_user g h = false) ->
  tget k (fst (step c s (RevokeUser gi))) = Some t /\
  nth_error (grants (fst (step c s (RevokeUser gi)))) (t_grant t) = Some h.
Proof. exact revoke_user_isolation. Qed.
Print Assumptions C03_isolation_user_session.
Theorem C03_isolation_client_session_step : forall c s gi k t h,
  tget k s = Some t -> nth_error (grants s) (t_grant t) = Some h ->
  (forall g, nth_error (grants s) gi = Some g -> same_branch g h = false) ->
  tget k (fst (step c s (RevokeClient gi))) = Some t /\
  nth_error (grants (fst (step c s (RevokeClient gi)))) (t_grant t) = Some h.
Proof. exact revoke_client_step_isolation. Qed.
Print Assumptions C03_isolation_client_session_step.
(* dead or out of the database: refused everywhere, and that state is permanent *)
Theorem C03_unusable_refused : forall c s k g t, find_tok k s = Some (g, t) -> unusable s g t -> never_honoured c s k.
Proof. exact unusable_refused. Qed.
Print Assumptions C03_unusable_refused.
Theorem C03_unusable_forever : forall c ops s k g t,
  find_tok k s = Some (g, t) -> unusable s g t ->
  exists g' t', find_tok k (fst (run c s ops)) = Some (g', t') /\ unusable (fst (run c s ops)) g' t' /\
                t_grant t' = t_grant t /\ g_user g' = g_user g /\ g_client g' = g_client g.
Proof. exact unusable_forever. Qed.
Print Assumptions C03_unusable_forever.

(* non-vacuity: a history with two users and two clients; after revoking grant 0 its access token is dead at
   userinfo and introspection while the token of grant 1 is still honoured. *)
Definition c1 := PS "client_1".
Definition c2 := PS "client_2".
Definition demo : list op :=
  [ Authorize (PS "diana") c1 [PS "openid"; PS "offline_access"]; TokenParse c1 (TRef 0) (Some (redirect_of c1)); Process 0 None;
    Authorize (PS "babs") c2 [PS "openid"; PS "email"]; TokenParse c2 (TRef 4) (Some (redirect_of c2)); Process 1 None;
    Introspect c1 (TRef 1); Userinfo (TRef 1);
    RevokeGrant 0;
    Introspect c1 (TRef 1); Userinfo (TRef 1); Introspect c2 (TRef 5); Userinfo (TRef 5);
    RefreshParse c1 (TRef 2) None ].
Example C03_nonvacuous :
  snd (run (mk_cfg true false) init demo) =
  [ OAuthz 0 [PS "openid"; PS "offline_access"]; OOk; OTokens (Some 1%nat) (Some 2%nat) (Some 3%nat) [PS "openid"; PS "offline_access"];
    OAuthz 4 [PS "openid"; PS "email"]; OOk; OTokens (Some 5%nat) None (Some 6%nat) [PS "openid"; PS "email"];
    OActive [PS "openid"; PS "offline_access"] c1 Access; OUserinfo;
    OOk;
    OInactive; OErr EInvalidToken; OActive [PS "openid"; PS "email"] c2 Access; OUserinfo;
    OErr EInvalidRequest ].
Proof. vm_compute. reflexivity. Qed.

(* non-vacuity of the removal / user-session theorems: diana logs in twice at client_1 and once at client_2, babs once
   at client_1; the first session is removed: its tokens raise / are refused everywhere (also the request parsed
   before the removal), the sibling grant at the same client is served as before; then diana's user session is
   revoked: the sibling and the client_2 grant are dead at userinfo, introspection and the refresh grant, babs is
   served as before. *)
Definition demo2 : list op :=
  [ Authorize (PS "diana") c1 [PS "openid"; PS "offline_access"]; TokenParse c1 (TRef 0) (Some (redirect_of c1)); Process 0 None;
    Authorize (PS "diana") c1 [PS "openid"; PS "offline_access"]; TokenParse c1 (TRef 4) (Some (redirect_of c1)); Process 1 None;
    Authorize (PS "diana") c2 [PS "openid"; PS "offline_access"]; TokenParse c2 (TRef 8) (Some (redirect_of c2)); Process 2 None;
    Authorize (PS "babs") c1 [PS "openid"; PS "offline_access"]; TokenParse c1 (TRef 12) (Some (redirect_of c1)); Process 3 None;
    RefreshParse c1 (TRef 2) None;
    RemoveGrant 0;
    Userinfo (TRef 1); Introspect c1 (TRef 1); RefreshParse c1 (TRef 2) None; Process 4 None; RevokeEP c1 (TRef 1);
    Userinfo (TRef 5); Introspect c1 (TRef 6); Userinfo (TRef 9); Userinfo (TRef 13);
    RevokeUser 0;
    Userinfo (TRef 5); Introspect c1 (TRef 5); Introspect c1 (TRef 6); RefreshParse c1 (TRef 6) None;
    Userinfo (TRef 9); Introspect c2 (TRef 10); RefreshParse c2 (TRef 10) None;
    Userinfo (TRef 13); Introspect c1 (TRef 14); RefreshParse c1 (TRef 14) None ].
Example C03_nonvacuous_remove_logout :
  List.skipn 13 (snd (run (mk_cfg true false) init demo2)) =
  [ OOk;
    OErr EInvalidToken; OExc; OExc; OExc; OExc;
    OUserinfo; OActive [PS "openid"; PS "offline_access"] c1 Refresh; OUserinfo; OUserinfo;
    OOk;
    OErr EInvalidToken; OInactive; OInactive; OErr EInvalidRequest;
    OErr EInvalidToken; OInactive; OErr EInvalidRequest;
    OUserinfo; OActive [PS "openid"; PS "offline_access"] c1 Refresh; OOk ].
Proof. vm_compute. reflexivity. Qed.

(* TIE BY TRANSLATION: Item.is_active / max_usage_reached / supports_minting as they read in /repo/src NOW
   (coq/Gen/Src_token.v is regenerated from the source on every run) compute the model's tok_active /
   supports_minting.  Changing a comparison, dropping the revoked test or the usage limit in the source breaks
   these statements. *)
Theorem C03_is_active_is_source : forall t now clock,
  now <> 0%Z -> Src_token.Item_is_active_src (Src_refine.inject_tok t) (VInt now) (VInt clock) = Ok (VBool (tok_active now t)).
Proof. exact Src_refine.is_active_refines. Qed.
Print Assumptions C03_is_active_is_source.
Theorem C03_supports_minting_is_source : forall t c clock,
  Src_token.SessionToken_supports_minting_src (Src_refine.inject_tok t) (VStr (Src_refine.cls_name c)) clock = Ok (VBool (supports_minting t c)).
Proof. exact Src_refine.supports_minting_refines. Qed.
Print Assumptions C03_supports_minting_is_source.

(* --- round 12: which ID Token the logout code takes the session id from is the source's last_issued_token_of_type --- *)
From Verif Require Lib.PyOps Gen.Src_grant_last Proofs.Src_refine_grant Proofs.Src_refine_grant_last.
Theorem C03_last_issued_token_of_type_is_source : forall toks rest cls clock,
  Src_grant_last.Grant_last_issued_token_of_type_src (Src_refine_grant.inject_grant toks rest) (VStr cls) clock
  = Ok (Src_refine_grant.opt_tok (Src_refine_grant_last.last_of cls toks)).
Proof. exact Src_refine_grant_last.last_issued_token_of_type_refines. Qed.
Print Assumptions C03_last_issued_token_of_type_is_source.
(* the token picked is of the class asked for, was issued by THIS grant, and no token of the class is younger *)
Theorem C03_last_issued_sound : forall cls toks r,
  Src_refine_grant_last.last_of cls toks = Some r ->
  Src_refine_grant.k_cls r = cls /\ In r toks
  /\ (forall t, In t toks -> Src_refine_grant.k_cls t = cls -> (Src_refine_grant.k_iat t <= Src_refine_grant.k_iat r)%Z).
Proof. exact Src_refine_grant_last.last_of_sound. Qed.
Print Assumptions C03_last_issued_sound.
Theorem C03_last_issued_none : forall cls toks,
  Src_refine_grant_last.last_of cls toks = None <-> (forall t, In t toks -> Src_refine_grant.k_cls t <> cls).
Proof. exact Src_refine_grant_last.last_of_none. Qed.
Print Assumptions C03_last_issued_none.
(* --- end round 12 --- *)
