(* Props/C04.v — property C04: tokens are unforgeable, class-separated and bound to their session.
   Statements only; proofs in Proofs/TokenFmt_proofs.v (+ Proofs/Lv_proofs.v for the framing codec).
   Model/TokenFmt.v is tied to the real handlers by harness/drv_C04.py: the plaintext of real opaque tokens is
   recovered with the handler's key and compared with the model, the info() outcome matrix (handler x minted
   class x shared/distinct keys) is compared, and the oracle presents every genuine, wrong-class and mutated
   token in every slot of the real endpoints.  Where the handler keys come from (given by the deployment / generated
   by the library from the process's random source) is part of the model: histories of independently built real
   provider instances are compared with it (key material, who accepts whose tokens).  Cryptography is symbolic:
   Fernet = AEnc, JWS = Sig (Lib/Crypto.v); byte-level integrity is exercised, not proved. *)
From Coq Require Import String List.
From Verif Require Import Lib.Base Lib.PyStr Lib.Crypto Model.Lv Proofs.Lv_proofs Model.TokenFmt Proofs.TokenFmt_proofs.
From Verif Require Import Model.JwtKeys Proofs.JwtKeys_proofs.
From Coq Require Import ZArith.
From Verif Require Gen.Src_token Proofs.Src_refine.
Import ListNotations.
Open Scope string_scope.

Theorem C04_resolves_to_its_session : forall k nonce rnd c sid exp,
  opaque_info k c (opaque_token k nonce rnd c sid exp) = TOk (Some sid).
Proof. exact opaque_resolves. Qed.
Print Assumptions C04_resolves_to_its_session.

(* class separation holds even when every handler uses the same key *)
Theorem C04_class_separation : forall k nonce rnd h c sid exp,
  h <> c -> opaque_info k h (opaque_token k nonce rnd c sid exp) = TErr EWrongClass.
Proof. exact opaque_class_separation. Qed.
Print Assumptions C04_class_separation.

Theorem C04_foreign_key_refused : forall k k' nonce rnd h c sid exp,
  k <> k' -> opaque_info k h (opaque_token k' nonce rnd c sid exp) = TErr EUnknownToken.
Proof. exact opaque_key_separation. Qed.
Print Assumptions C04_foreign_key_refused.

Theorem C04_bound_to_session : forall k n1 n2 r1 r2 c1 c2 s1 s2 e1 e2,
  opaque_token k n1 r1 c1 s1 e1 = opaque_token k n2 r2 c2 s2 e2 -> c1 = c2 /\ s1 = s2 /\ r1 = r2 /\ e1 = e2.
Proof. exact opaque_token_injective. Qed.
Print Assumptions C04_bound_to_session.

(* UNFORGEABLE: with the handler key never published and the provider publishing under that key only tokens
   it minted, every term an adversary can derive and the handler accepts is (inside) something published,
   carries a class the handler accepts, and resolves to a session that class was minted for. *)
Theorem C04_unforgeable : forall (K : term -> Prop) (k0 : nat),
  (forall t, K t -> ~ sub (Key k0) t) ->
  forall minted : pystr -> pystr -> Prop,
  (forall t0 nonce m, K t0 -> sub (AEnc k0 nonce m) t0 ->
      exists rnd c sid exp, m = Atom (opaque_plain rnd c sid exp) /\ minted c sid) ->
  forall h t sid, derivable K t -> opaque_info k0 h t = TOk (Some sid) ->
  exists c, class_ok h c = true /\ minted c sid /\ exists t0, K t0 /\ sub t t0.
Proof. exact opaque_unforgeable. Qed.
Print Assumptions C04_unforgeable.

(* JWT tokens *)
Theorem C04_jwt_resolves : forall k h sid exp expired,
  expired exp = false -> jwt_info k h expired (jwt_token k (Some (tk_name h)) (Some sid) exp) = TOk (Some sid).
Proof. exact jwt_resolves. Qed.
Print Assumptions C04_jwt_resolves.
Theorem C04_jwt_class_separation : forall k h c sid exp expired,
  h <> c -> jwt_info k h expired (jwt_token k (Some (tk_name c)) sid exp) = TErr EWrongClass.
Proof. exact jwt_class_separation. Qed.
Print Assumptions C04_jwt_class_separation.
Theorem C04_id_token_is_no_access_token : forall k h sid exp expired,
  jwt_info k h expired (jwt_token k None sid exp) = TErr EWrongClass.
Proof. exact id_token_is_no_access_token. Qed.
Print Assumptions C04_id_token_is_no_access_token.
Theorem C04_jwt_expired_signature_refused : forall k h sid exp expired,
  expired exp = true -> jwt_info k h expired (jwt_token k (Some (tk_name h)) sid exp) = TErr ETooOld.
Proof. exact jwt_expired_refused. Qed.
Print Assumptions C04_jwt_expired_signature_refused.
Theorem C04_jwt_foreign_key_refused : forall k k' h c sid exp expired,
  k <> k' -> jwt_info k h expired (jwt_token k' c sid exp) = TErr EUnknownToken.
Proof. exact jwt_foreign_key_refused. Qed.
Print Assumptions C04_jwt_foreign_key_refused.
Theorem C04_jwt_unforgeable : forall (K : term -> Prop) (k0 : nat),
  (forall t, K t -> ~ sub (Key k0) t) ->
  forall h expired t sid, derivable K t -> jwt_info k0 h expired t = TOk sid -> exists t0, K t0 /\ sub t t0.
Proof. exact jwt_unforgeable. Qed.
Print Assumptions C04_jwt_unforgeable.

(* WHICH KEY VERIFIES (Model/JwtKeys.v, compared with JWTToken.get_payload of the real handlers on genuine and
   re-signed tokens): the verifier looks keys up under the issuer the token names; with the algorithm and the issuer
   pinned, an accepted token names this provider and was produced with a key the jar holds for this provider.
   A client's secret, a key a client registered, a fresh key: all are filed under other owners, hence refused. *)
Theorem C04_jwt_accepted_is_own : forall j issuer pinned t m,
  jwt_verify true j issuer pinned t = Some m ->
  j_iss t = Some issuer /\ jalg_eqb (j_alg t) pinned = true /\
  exists e, In e j /\ jk_owner e = issuer /\
            ((exists f n, j_alg t = AlgAsym f n /\ jk_kind e = KAsym f /\ j_body t = Sig (jk_num e) m) \/
             (exists n, j_alg t = AlgHS n /\ jk_kind e = KSym /\ j_body t = Mac (jk_num e) m)).
Proof. exact accepted_is_own. Qed.
Print Assumptions C04_jwt_accepted_is_own.
Theorem C04_jwt_key_of_another_owner_refused : forall j issuer pinned t k m,
  (j_body t = Sig k m \/ j_body t = Mac k m) ->
  (forall e, In e j -> jk_owner e = issuer -> jk_num e <> k) ->
  jwt_verify true j issuer pinned t = None.
Proof. exact foreign_key_refused. Qed.
Print Assumptions C04_jwt_key_of_another_owner_refused.
(* the code before 785ab74 (no issuer pin): a client that registered a key of the handler's algorithm family *)
Example C04_jwt_unpinned_refuted :
  let j := [mkJarkey (PS "https://op") 0 (KAsym 1); mkJarkey (PS "client_1") 7 (KAsym 1)] in
  let t := mkJtok (AlgAsym 1 0) (Some (PS "client_1")) (Sig 7 (Atom (PS "sid of somebody"))) in
  jwt_verify false j (PS "https://op") (AlgAsym 1 0) t = Some (Atom (PS "sid of somebody"))
  /\ jwt_verify true j (PS "https://op") (AlgAsym 1 0) t = None.
Proof. exact unpinned_refuted. Qed.

(* SLOTS (Model/TokenFmt.v slot / slot_resolve / slot_client, compared by harness/drv_C04.py with what the real
   endpoints do with every genuine token of this and of another instance in the userinfo slot, as bearer CLIENT
   CREDENTIAL (client authentication methods bearer_header / bearer_body) and in the class-agnostic lookup):
   every slot that asks one class handler accepts, of all the provider mints - ID Tokens included, whatever keys
   the handlers share -, only that class, and resolves it to the session it was minted for. *)
Theorem C04_slot_class_separation : forall cfg expired s h m nonce rnd sid exp x,
  slot_handler s = Some h -> slot_resolve cfg expired s (mint cfg m nonce rnd sid exp) = TOk x -> m = MTok h /\ x = Some sid.
Proof. exact slot_class_separation. Qed.
Print Assumptions C04_slot_class_separation.
(* the bearer client credential: only an access token resolves there ... *)
Theorem C04_bearer_credential_only_access_token : forall cfg expired m nonce rnd sid exp x,
  slot_resolve cfg expired SBearer (mint cfg m nonce rnd sid exp) = TOk x -> m = MTok KAccess /\ x = Some sid.
Proof. exact bearer_only_access. Qed.
Print Assumptions C04_bearer_credential_only_access_token.
(* ... it authenticates the client of the session it was minted for, nobody else ... *)
Theorem C04_bearer_credential_authenticates_its_client : forall cfg expired db m nonce rnd sid exp client,
  slot_client cfg expired db SBearer (mint cfg m nonce rnd sid exp) = Some client ->
  m = MTok KAccess /\ assoc sid db = Some client.
Proof. exact bearer_client_is_session_client. Qed.
Print Assumptions C04_bearer_credential_authenticates_its_client.
Theorem C04_bearer_access_token_authenticates : forall cfg expired db nonce rnd sid exp,
  expired exp = false -> slot_client cfg expired db SBearer (mint cfg (MTok KAccess) nonce rnd sid exp) = assoc sid db.
Proof. exact bearer_access_authenticates. Qed.
Print Assumptions C04_bearer_access_token_authenticates.
(* ... and what an adversary can build and the slot accepts is a value the provider minted with an access class *)
Theorem C04_bearer_credential_unforgeable : forall (K : term -> Prop) (k0 : nat) (minted : pystr -> pystr -> Prop) cfg expired t sid,
  (forall t, K t -> ~ sub (Key k0) t) ->
  (forall t0 nonce m, K t0 -> sub (AEnc k0 nonce m) t0 ->
      exists rnd c sid exp, m = Atom (opaque_plain rnd c sid exp) /\ minted c sid) ->
  h_access cfg = HOpaque k0 ->
  derivable K t -> slot_resolve cfg expired SBearer t = TOk (Some sid) ->
  exists c, class_ok KAccess c = true /\ minted c sid /\ exists t0, K t0 /\ sub t t0.
Proof. exact bearer_unforgeable. Qed.
Print Assumptions C04_bearer_credential_unforgeable.
Theorem C04_bearer_credential_unforgeable_jwt : forall (K : term -> Prop) (k0 : nat) cfg expired t sid,
  (forall t, K t -> ~ sub (Key k0) t) ->
  h_access cfg = HJwt k0 ->
  derivable K t -> slot_resolve cfg expired SBearer t = TOk sid -> exists t0, K t0 /\ sub t t0.
Proof. exact bearer_unforgeable_jwt. Qed.
Print Assumptions C04_bearer_credential_unforgeable_jwt.
(* the class-agnostic lookup resolves every class (that is its purpose at introspection / revocation): a class slot
   served by it is no class slot - the refuted variant below *)
Theorem C04_generic_lookup_resolves_every_class : forall cfg expired c nonce rnd sid exp,
  expired exp = false -> slot_resolve cfg expired SGeneric (mint cfg (MTok c) nonce rnd sid exp) = TOk (Some sid).
Proof. exact generic_resolves_every_class. Qed.
Print Assumptions C04_generic_lookup_resolves_every_class.
Example C04_bearer_by_generic_lookup_refuted :
  let cfg := mkHconf (HOpaque 0) (HOpaque 0) (HOpaque 0) 50 in
  let db := [(PS "sid", PS "client_1")] in
  let nx := fun _ : pystr => false in
  slot_client cfg nx db SGeneric (mint cfg (MTok KRefresh) (PS "n") (PS "r") (PS "sid") (PS "99")) = Some (PS "client_1") /\
  slot_client cfg nx db SGeneric (mint cfg (MTok KCode) (PS "n") (PS "r") (PS "sid") (PS "99")) = Some (PS "client_1") /\
  slot_client cfg nx db SGeneric (mint cfg MIdToken (PS "n") (PS "r") (PS "sid") (PS "99")) = Some (PS "client_1") /\
  slot_client cfg nx db SBearer (mint cfg (MTok KRefresh) (PS "n") (PS "r") (PS "sid") (PS "99")) = None /\
  slot_client cfg nx db SBearer (mint cfg (MTok KCode) (PS "n") (PS "r") (PS "sid") (PS "99")) = None /\
  slot_client cfg nx db SBearer (mint cfg MIdToken (PS "n") (PS "r") (PS "sid") (PS "99")) = None /\
  slot_client cfg nx db SBearer (mint cfg (MTok KAccess) (PS "n") (PS "r") (PS "sid") (PS "99")) = Some (PS "client_1").
Proof. exact bearer_by_generic_lookup_refuted. Qed.

(* REQUESTS IN FLIGHT (Model/TokenFmt.v tendpoint / run_tflight, compared by harness/drv_C04.py with the real userinfo,
   introspection, token_revocation and token endpoint objects on flights of 2-4 requests that present tokens of
   different sessions, the calls parse_request / process_request / do_response interleaved in every order).
   An endpoint is a state-passing machine; town_answer E r is what request r gets when it is alone. *)

(* Resolution is a function of the presented value: at every slot, whatever the provider minted for session sid
   resolves - if it resolves - to sid (slot_resolve has no argument that another request could have set). *)
Theorem C04_minted_resolves_to_own_session_at_every_slot : forall cfg expired s m nonce rnd sid exp x,
  slot_resolve cfg expired s (mint cfg m nonce rnd sid exp) = TOk x -> x = Some sid.
Proof. exact slot_resolve_minted. Qed.
Print Assumptions C04_minted_resolves_to_own_session_at_every_slot.

(* Whatever the schedule (any list of calls, any request numbers): if what an endpoint hands out does not depend on
   the state it carries between calls, every answer of an interleaved run is the answer the request it belongs to
   gets alone at a fresh endpoint. *)
Theorem C04_flight_independent : forall (S : Type) (E : tendpoint S),
  (forall s s' r, snd (te_parse E s r) = snd (te_parse E s' r)) ->
  (forall s s' r, snd (te_process E s r) = snd (te_process E s' r)) ->
  (forall s s' r a, snd (te_respond E s r a) = snd (te_respond E s' r a)) ->
  forall reqs sched i a, In (i, a) (run_tflight E reqs sched) ->
  exists r, nth_error reqs i = Some r /\ a = town_answer E r.
Proof. exact tflight_independent. Qed.
Print Assumptions C04_flight_independent.
(* the model of the token-resolving endpoints keeps nothing between calls ... *)
Theorem C04_endpoint_keeps_nothing : forall P (s s' : unit) r a,
  te_parse (tep_model P) s r = te_parse (tep_model P) s' r /\ te_process (tep_model P) s r = te_process (tep_model P) s' r
  /\ te_respond (tep_model P) s r a = te_respond (tep_model P) s' r a.
Proof. exact tmodel_keeps_nothing. Qed.
Print Assumptions C04_endpoint_keeps_nothing.
(* ... so for every interleaving the answer of request i equals its answer alone ... *)
Theorem C04_flight_answer_own : forall P reqs sched i a,
  In (i, a) (run_tflight (tep_model P) reqs sched) -> exists r, nth_error reqs i = Some r /\ a = tanswer1 P r.
Proof. exact tflight_model. Qed.
Print Assumptions C04_flight_answer_own.
(* ... it does not depend on any other request's token: the rest of the flight and the schedule can be exchanged *)
Theorem C04_flight_others_irrelevant : forall P reqs reqs' sched sched' i r a a',
  nth_error reqs i = Some r -> nth_error reqs' i = Some r ->
  In (i, a) (run_tflight (tep_model P) reqs sched) -> In (i, a') (run_tflight (tep_model P) reqs' sched') -> a = a'.
Proof. exact tflight_others_irrelevant. Qed.
Print Assumptions C04_flight_others_irrelevant.
(* and each request does get that answer, whatever happens for other requests in between *)
Theorem C04_flight_answers : forall P reqs i r a b c d,
  nth_error reqs i = Some r -> tabout i b = false -> tabout i c = false ->
  In (i, tanswer1 P r)
     (run_tflight (tep_model P) reqs (a ++ TvParse i :: b ++ TvProcess i :: c ++ TvRespond i :: d)%list).
Proof. exact tflight_answers. Qed.
Print Assumptions C04_flight_answers.
(* whose session: whatever else is in flight, a session handed out for request i is the one on record for the
   session id the token of request i was minted for; at a class slot the token is of that class; the token and
   revocation endpoints serve the client of that session only; introspection answers whom the audience rule admits *)
Theorem C04_flight_bound_to_session : forall P reqs sched i s,
  In (i, TSession s) (run_tflight (tep_model P) reqs sched) ->
  exists r, nth_error reqs i = Some r /\ tanswer1 P r = TSession s /\
    forall m nonce rnd sid exp, r_tok r = mint (p_cfg P) m nonce rnd sid exp ->
      assoc sid (p_db P) = Some s /\ (forall h, slot_handler (ep_slot (r_ep r)) = Some h -> m = MTok h) /\
      (r_ep r <> EpUserinfo -> r_ep r <> EpIntrospect -> s_client s = r_by r) /\
      (r_ep r = EpIntrospect -> may_ask P s (r_tok r) (r_by r) = true).
Proof. exact tflight_bound_to_session. Qed.
Print Assumptions C04_flight_bound_to_session.
(* with the audience rule at its default everywhere (enforced for every client, no audience on record but the
   session's own client) every endpoint but userinfo - introspection included - serves the client of the session only *)
Theorem C04_flight_bound_to_session_default_audience : forall P reqs sched i s,
  p_enforce_default P = true /\ p_enforce P = [] /\ p_aud P = [] ->
  In (i, TSession s) (run_tflight (tep_model P) reqs sched) ->
  exists r, nth_error reqs i = Some r /\ tanswer1 P r = TSession s /\
    forall m nonce rnd sid exp, r_tok r = mint (p_cfg P) m nonce rnd sid exp ->
      assoc sid (p_db P) = Some s /\ (forall h, slot_handler (ep_slot (r_ep r)) = Some h -> m = MTok h) /\
      (r_ep r <> EpUserinfo -> s_client s = r_by r).
Proof. exact tflight_bound_to_session_closed. Qed.
Print Assumptions C04_flight_bound_to_session_default_audience.

(* THE ASKER OF AN INTROSPECTION (Model/TokenFmt.v may_ask / tintrospect_view / tprocess, compared by harness/drv_C04.py
   with the real introspection endpoint asked by the token's own client, by other applications, by resource servers
   registered with enforce_audience_restriction off, by clients listed in the token's audience and by clients that are
   neither, for tokens of several live sessions, alone and in flight).  The client that asks need not be the client the
   token was minted for.  The asker decides whether there is an answer; what the answer states is the session of the
   token: r_by occurs in the audience test and nowhere else. *)
Theorem C04_introspection_asker_only_gates : forall P t asker,
  tanswer1 P (mkTreq EpIntrospect t asker) =
  match tintrospect_view P t with
  | Some s => if may_ask P s t asker then TSession s else TRefused
  | None => TRefused
  end.
Proof. exact introspect_gate. Qed.
Print Assumptions C04_introspection_asker_only_gates.
(* any two askers that are answered are told the same session ... *)
Theorem C04_introspection_asker_independent : forall P t a1 a2 s1 s2,
  tanswer1 P (mkTreq EpIntrospect t a1) = TSession s1 -> tanswer1 P (mkTreq EpIntrospect t a2) = TSession s2 -> s1 = s2.
Proof. exact introspect_asker_independent. Qed.
Print Assumptions C04_introspection_asker_independent.
(* ... the one on record for the session id the token was minted for, which is what its owner - or anybody else the
   audience rule admits - is told *)
Theorem C04_introspection_answer_is_owners : forall P m nonce rnd sid exp asker s,
  tanswer1 P (mkTreq EpIntrospect (mint (p_cfg P) m nonce rnd sid exp) asker) = TSession s ->
  assoc sid (p_db P) = Some s /\
  forall owner, may_ask P s (mint (p_cfg P) m nonce rnd sid exp) owner = true ->
    tanswer1 P (mkTreq EpIntrospect (mint (p_cfg P) m nonce rnd sid exp) owner) = TSession s.
Proof. exact introspect_equals_owner. Qed.
Print Assumptions C04_introspection_answer_is_owners.
Theorem C04_introspection_owner_answered_by_default : forall P t s,
  tintrospect_view P t = Some s -> (forall c, aud_lookup (s_id s) c (p_aud P) = None) ->
  tanswer1 P (mkTreq EpIntrospect t (s_client s)) = TSession s.
Proof. exact introspect_owner_default. Qed.
Print Assumptions C04_introspection_owner_answered_by_default.
(* the refuted variant: an introspection that names the ASKER as the client of the token answers the owner correctly
   and tells a resource server that the token of (diana, client_1) belongs to a session (diana, rs_open) *)
Example C04_introspection_naming_the_asker_refuted :
  let s0 := mkSess 0 (PS "diana") (PS "client_1") in
  let s1 := mkSess 1 (PS "babs") (PS "client_2") in
  tanswer1 ex_prov_rs (ex_ireq (PS "sid-0") (PS "client_1")) = TSession s0 /\
  tanswer1 ex_prov_rs (ex_ireq (PS "sid-0") (PS "rs_open")) = TSession s0 /\
  tanswer1 ex_prov_rs (ex_ireq (PS "sid-1") (PS "rs_open")) = TSession s1 /\
  tanswer1 ex_prov_rs (ex_ireq (PS "sid-1") (PS "rs_aud")) = TSession s1 /\
  tanswer1 ex_prov_rs (ex_ireq (PS "sid-0") (PS "rs_aud")) = TRefused /\
  tanswer1 ex_prov_rs (ex_ireq (PS "sid-0") (PS "client_2")) = TRefused /\
  tanswer1_asker_named ex_prov_rs (ex_ireq (PS "sid-0") (PS "client_1")) = TSession s0 /\
  tanswer1_asker_named ex_prov_rs (ex_ireq (PS "sid-0") (PS "rs_open")) = TSession (mkSess 0 (PS "diana") (PS "rs_open")) /\
  tanswer1_asker_named ex_prov_rs (ex_ireq (PS "sid-1") (PS "rs_aud")) = TSession (mkSess 1 (PS "babs") (PS "rs_aud")).
Proof. exact asker_named_refuted. Qed.
Print Assumptions C04_introspection_naming_the_asker_refuted.

Theorem C04_flight_userinfo_access_token : forall P nonce rnd sid exp by_,
  p_expired P exp = false ->
  tanswer1 P (mkTreq EpUserinfo (mint (p_cfg P) (MTok KAccess) nonce rnd sid exp) by_) =
  match assoc sid (p_db P) with Some s => TSession s | None => TRefused end.
Proof. exact tanswer1_userinfo_access. Qed.
Print Assumptions C04_flight_userinfo_access_token.
(* the refuted variant: an endpoint object that remembers what parse_request resolved and lets the next
   process_request use it answers every request correctly alone and in sequence, and with
   parse 0, parse 1, process 0 answers the token of session 0 with session 1 *)
Example C04_remembering_endpoint_refuted :
  let reqs := [ex_req (PS "sid-0"); ex_req (PS "sid-1")] in
  let s0 := mkSess 0 (PS "diana") (PS "client_1") in
  let s1 := mkSess 1 (PS "babs") (PS "client_2") in
  town_answer (tep_remember ex_prov) (ex_req (PS "sid-0")) = TSession s0 /\
  town_answer (tep_remember ex_prov) (ex_req (PS "sid-1")) = TSession s1 /\
  run_tflight (tep_remember ex_prov) reqs [TvParse 0; TvProcess 0; TvRespond 0; TvParse 1; TvProcess 1; TvRespond 1]
    = [(0%nat, TSession s0); (1%nat, TSession s1)] /\
  run_tflight (tep_remember ex_prov) reqs [TvParse 0; TvParse 1; TvProcess 0; TvRespond 0; TvProcess 1; TvRespond 1]
    = [(0%nat, TSession s1); (1%nat, TSession s1)] /\
  run_tflight (tep_model ex_prov) reqs [TvParse 0; TvParse 1; TvProcess 0; TvRespond 0; TvProcess 1; TvRespond 1]
    = [(0%nat, TSession s0); (1%nat, TSession s1)].
Proof. exact remembering_endpoint_refuted. Qed.

(* the framing codec under all of this: every list of every string *)
Theorem C04_lv_roundtrip : forall l, lv_unpack (lv_pack l) = Ok l.
Proof. exact lv_roundtrip. Qed.
Print Assumptions C04_lv_roundtrip.

(* non-vacuity: with one shared key, a refresh token offered as access token, a code offered as refresh token *)
Example C04_nonvacuous :
  opaque_info 0 KAccess (opaque_token 0 (PS "n") (PS "r") KRefresh (PS "sid:1;;2") (PS "99")) = TErr EWrongClass /\
  opaque_info 0 KRefresh (opaque_token 0 (PS "n") (PS "r") KCode (PS "sid") (PS "99")) = TErr EWrongClass /\
  opaque_info 0 KAccess (opaque_token 0 (PS "n") (PS "3:abc") KAccess (PS "sid:1;;2") (PS "-1")) = TOk (Some (PS "sid:1;;2")).
Proof. vm_compute. repeat split; reflexivity. Qed.

(* TIE BY TRANSLATION: is_expired (used by JWTToken.info and IDToken.info) as it reads in /repo/src NOW. *)
Theorem C04_is_expired_is_source : forall exp when clock,
  Src_token.is_expired_src (VInt exp) (VInt when) (VInt clock)
  = Ok (VBool (if (exp <? 0)%Z then false else ((if (when =? 0)%Z then clock else when) >? exp)%Z)).
Proof. exact Src_refine.is_expired_refines. Qed.
Print Assumptions C04_is_expired_is_source.

(* the plaintext of an opaque token is util.lv_pack of its fields: the model's lv_pack is the CURRENT source function
   (coq/Gen/Src_db.v, translated by harness/py2v.py on every run) *)
From Verif Require Gen.Src_db.
Theorem C04_lv_pack_is_source : forall args clock,
  Src_db.lv_pack_src (VList (List.map VStr args)) clock = Ok (VStr (lv_pack args)).
Proof. exact Src_refine.lv_pack_refines. Qed.
Print Assumptions C04_lv_pack_is_source.

(* TIE BY TRANSLATION: util.lv_unpack as it reads in /repo/src NOW (coq/Gen/Src_lv.v, regenerated by harness/py2v.py on
   every run: the `while txt:` loop as recursion on explicit fuel, `l, v = txt.split(":", 1)`, int(l), v[:n], v[n:])
   (DefaultToken.split_token: the decrypted plaintext of every opaque token goes through it).
   For every text of at most 4300 characters and every fuel above its length the translated function computes the
   model's lv_unpack - same list, same ValueError, Unmodelled exactly where the model is (a non-ASCII non-blank
   character in a length prefix) - and the loop never runs out of fuel.  The bound is CPython's default limit on the
   digits of an int() literal (run-time configurable, so not modelled: PyOps.py_int_of); beyond it the translation is
   either outside that fragment or again the model (second theorem), and on everything lv_pack wrote - whatever the
   length - it returns the packed list (third theorem; the side condition holds for every string a process can hold). *)
From Verif Require Lib.PyOps Gen.Src_lv Proofs.Src_refine_lv.
Theorem C04_lv_unpack_is_source : forall fuel txt clock,
  (length txt < fuel)%nat -> (length txt <= PyOps.int_max_str_digits)%nat ->
  Src_lv.lv_unpack_src fuel (VStr txt) clock = Src_refine_lv.inj_strs (lv_unpack txt) /\ lv_unpack txt <> Err OutOfFuel.
Proof. exact Src_refine_lv.lv_unpack_refines. Qed.
Print Assumptions C04_lv_unpack_is_source.
Theorem C04_lv_unpack_is_source_any_length : forall fuel txt clock,
  (length txt < fuel)%nat ->
  Src_lv.lv_unpack_src fuel (VStr txt) clock = Unmodelled
  \/ Src_lv.lv_unpack_src fuel (VStr txt) clock = Src_refine_lv.inj_strs (lv_unpack txt).
Proof. exact Src_refine_lv.lv_unpack_refines_partial. Qed.
Print Assumptions C04_lv_unpack_is_source_any_length.
Theorem C04_lv_source_roundtrip : forall l fuel clock,
  (length (lv_pack l) < fuel)%nat ->
  List.Forall (fun a => length (str_of_nat (length a)) <= PyOps.int_max_str_digits)%nat l ->
  Src_lv.lv_unpack_src fuel (VStr (lv_pack l)) clock = Ok (VList (List.map VStr l)) /\ lv_unpack (lv_pack l) = Ok l.
Proof. exact Src_refine_lv.lv_unpack_src_roundtrip. Qed.
Print Assumptions C04_lv_source_roundtrip.

(* WHERE THE HANDLER KEYS COME FROM (Model/TokenFmt.v ksrc / ispec / iconstruct / ibuild_all).  ispec says for each opaque
   class handler and for the session manager whether the deployment gave the key (KsGiven k: crypt_conf with a key, or
   with a password AND a salt) or the library generates it (KsGen: the documented `"code": {"lifetime": 600}`,
   `kwargs: {}`, a crypt_conf without key material, key_defs without a key file, DefaultToken / init_encrypter without
   configuration, session_params without encrypter).  iconstruct sup s n builds the instance when n draws have been
   made from the process's random source (sup d = the key material of draw d) and returns the number of draws made
   afterwards.  THE FRESHNESS ASSUMPTION is stated as the hypothesis `draws_distinct sup` (two different draws never
   yield the same key material); that the real library draws anew for every handler of every instance it builds -
   which is what makes the hypothesis a statement about the code - is checked on every run by harness/drv_C04.py
   (chk_ifresh: the key material of really built, independent provider instances shows exactly the equalities of
   ibuild_all under a supply of distinct draws; chk_icross: who accepts whose tokens).
   Two instances with generated keys, the second built after the first, anything drawing in between: *)
Theorem C04_generated_keys_fresh : forall sup s1 s2 n n2,
  draws_distinct sup -> all_gen s1 -> all_gen s2 -> (snd (iconstruct sup s1 n) <= n2)%nat ->
  forall k, inst_key (fst (iconstruct sup s1 n)) k -> inst_key (fst (iconstruct sup s2 n2)) k -> False.
Proof. exact generated_disjoint. Qed.
Print Assumptions C04_generated_keys_fresh.
Theorem C04_generated_slot_keys_distinct : forall sup s n c c' k k',
  draws_distinct sup -> all_gen s -> c <> c' ->
  h_of (in_cfg (fst (iconstruct sup s n))) c = HOpaque k -> h_of (in_cfg (fst (iconstruct sup s n))) c' = HOpaque k' -> k <> k'.
Proof. exact generated_slots_distinct. Qed.
Print Assumptions C04_generated_slot_keys_distinct.
(* a value under a key that is none of the provider's opaque handler keys is refused at every slot, whatever is inside *)
Theorem C04_foreign_key_refused_at_every_slot : forall cfg expired s k nonce m,
  (forall c k', h_of cfg c = HOpaque k' -> k' <> k) -> slot_resolve cfg expired s (AEnc k nonce m) = TErr EUnknownToken.
Proof. exact foreign_key_every_slot. Qed.
Print Assumptions C04_foreign_key_refused_at_every_slot.
(* independently built instances refuse each other's codes, access tokens and refresh tokens in EVERY slot *)
Theorem C04_independent_instances_refuse : forall sup s1 s2 n n2,
  draws_distinct sup -> all_gen s1 -> all_gen s2 -> (snd (iconstruct sup s1 n) <= n2)%nat ->
  let A := in_cfg (fst (iconstruct sup s1 n)) in let B := in_cfg (fst (iconstruct sup s2 n2)) in
  forall expired s c nonce rnd sid exp,
    slot_resolve A expired s (mint B (MTok c) nonce rnd sid exp) = TErr EUnknownToken /\
    slot_resolve B expired s (mint A (MTok c) nonce rnd sid exp) = TErr EUnknownToken.
Proof. exact independent_instances_refuse. Qed.
Print Assumptions C04_independent_instances_refuse.
(* a genuine token whose plaintext is encrypted anew under any key of the other instance is refused by its own minter *)
Theorem C04_reencrypted_under_other_instance_refused : forall sup s1 s2 n n2,
  draws_distinct sup -> all_gen s1 -> all_gen s2 -> (snd (iconstruct sup s1 n) <= n2)%nat ->
  let IA := fst (iconstruct sup s1 n) in let IB := fst (iconstruct sup s2 n2) in
  forall expired s c nonce nonce' rnd sid exp k,
    (inst_key IB k -> slot_resolve (in_cfg IA) expired s (reencrypt k nonce' (mint (in_cfg IA) (MTok c) nonce rnd sid exp)) = TErr EUnknownToken) /\
    (inst_key IA k -> slot_resolve (in_cfg IB) expired s (reencrypt k nonce' (mint (in_cfg IB) (MTok c) nonce rnd sid exp)) = TErr EUnknownToken).
Proof. exact reencrypted_refused. Qed.
Print Assumptions C04_reencrypted_under_other_instance_refused.
(* unforgeable against the OTHER INSTANCE'S OPERATOR, who holds every key of that instance (from C04_unforgeable) *)
Theorem C04_other_instance_cannot_forge : forall sup s1 s2 n n2 (K : term -> Prop) (minted : pystr -> pystr -> Prop),
  draws_distinct sup -> all_gen s1 -> all_gen s2 ->
  (snd (iconstruct sup s1 n) <= n2 \/ snd (iconstruct sup s2 n2) <= n)%nat ->
  let A := fst (iconstruct sup s1 n) in let B := fst (iconstruct sup s2 n2) in
  forall h k0, h_of (in_cfg A) h = HOpaque k0 ->
  (forall t, K t -> ~ sub (Key k0) t) ->
  (forall t0 nonce m, K t0 -> sub (AEnc k0 nonce m) t0 ->
      exists rnd c sid exp, m = Atom (opaque_plain rnd c sid exp) /\ minted c sid) ->
  forall expired t sid,
    derivable (fun x => K x \/ exists k, inst_key B k /\ x = Key k) t ->
    handler_info (in_cfg A) expired h t = TOk (Some sid) ->
    exists c, class_ok h c = true /\ minted c sid /\ exists t0, K t0 /\ sub t t0.
Proof. exact other_instance_cannot_forge. Qed.
Print Assumptions C04_other_instance_cannot_forge.
(* any two all-generated instances of one process history, whatever is built before, between and after them *)
Theorem C04_history_instances_independent : forall sup pre s1 mid s2 post n,
  draws_distinct sup -> all_gen s1 -> all_gen s2 ->
  let n1 := inext pre n in
  let n2 := inext mid (n1 + idraws s1) in
  let i1 := fst (iconstruct sup s1 n1) in
  let i2 := fst (iconstruct sup s2 n2) in
  ibuild_all sup (pre ++ IInst s1 :: mid ++ IInst s2 :: post) n
    = (ibuild_all sup pre n ++ i1 :: ibuild_all sup mid (n1 + idraws s1) ++ i2 :: ibuild_all sup post (n2 + idraws s2))%list
  /\ forall k, inst_key i1 k -> inst_key i2 k -> False.
Proof. exact ihistory_independent. Qed.
Print Assumptions C04_history_instances_independent.
(* positive control: instances the deployment gave the same keys are one provider - they resolve each other's tokens *)
Theorem C04_same_given_keys_accept : forall sup s n n' expired c nonce rnd sid exp,
  all_given s -> expired exp = false ->
  handler_info (in_cfg (fst (iconstruct sup s n'))) expired c (mint (in_cfg (fst (iconstruct sup s n))) (MTok c) nonce rnd sid exp) = TOk (Some sid).
Proof. exact given_instances_accept. Qed.
Print Assumptions C04_same_given_keys_accept.
(* non-vacuity, and the hypothesis is necessary: under a supply that hands out the same key material again (a key made
   up once per process instead of once per handler) the second instance resolves the first one's access token *)
Example C04_key_sources_nonvacuous :
  draws_distinct sup0 /\ all_gen sGen /\ all_given sG5 /\
  map ikeys (ibuild_all sup0 [IInst sGen; IOther 3; IInst sGen; IInst sG5; IInst sG5] 0)
    = [[Some 1000; Some 1001; Some 1002; Some 1003]; [Some 1007; Some 1008; Some 1009; Some 1010];
       [Some 5; Some 5; Some 5; Some 6]; [Some 5; Some 5; Some 5; Some 6]]%nat /\
  chk_icross ([IInst sGen; IOther 3; IInst sGen], 0, 1, 1, None, 2, false, false)%nat = true /\
  chk_icross ([IInst sGen; IOther 3; IInst sGen], 0, 0, 1, Some (1, 1), 2, true, false)%nat = true /\
  chk_icross ([IInst sGen; IOther 3; IInst sGen], 0, 0, 1, None, 2, true, true)%nat = true /\
  chk_icross ([IInst sG5; IInst sG5], 0, 1, 1, None, 2, false, true)%nat = true /\
  ~ draws_distinct stale /\
  let A := in_cfg (fst (iconstruct stale sGen 0)) in let B := in_cfg (fst (iconstruct stale sGen 4)) in
  slot_resolve B (fun _ => false) SUserinfo (mint A (MTok KAccess) (PS "n") (PS "r") (PS "sid") (PS "99")) = TOk (Some (PS "sid")).
Proof. exact key_sources_nonvacuous. Qed.
Print Assumptions C04_key_sources_nonvacuous.
(* the checker the driver evaluates on a value offered at all eight places (three class handlers and the class-agnostic
   lookup, at the handler and at the session manager) is the pointwise model at each of them *)
Theorem C04_grouped_checker_is_pointwise : forall steps i j m re obs,
  igroup_model (steps, i, j, m, re, obs) = map (fun p => icross_model (steps, i, j, m, re, fst p, snd p, false)) igroup_slots.
Proof. exact igroup_model_pointwise. Qed.
Print Assumptions C04_grouped_checker_is_pointwise.

(* --- round 11 --- *)
(* ONE ACCEPTED STRING, TWO READERS (Model/TokenClaims.v, compared by harness/c04_claims.py with real providers whose access /
   refresh slot has a JWT handler: every token handed out by code redemption, refresh, token exchange asked for by the
   subject token's own client and by another client - down-scoped, audience-restricted, chained -, client_credentials).
   The provider resolves a JWT-formatted token through the session id inside it; a resource server validates the
   signature and reads client_id / sub / scope / aud.  grant_of p: the grant a minting path produces; payload_arguments:
   the claims of a token minted in it (for an exchange grant the client is the EXCHANGE request's client). *)
From Verif Require Model.TokenClaims Proofs.TokenClaims_proofs.
(* for every minting path: the client and the subject a token's claims state are those of the session (branch of the
   session database) the grant belongs to, the scope stated is the scope of the token on record *)
Theorem C04_jwt_claims_name_the_session : forall p t,
  (forall c, TokenClaims.c_client (TokenClaims.payload_arguments (TokenClaims.grant_of p) t) = Some c -> c = TokenClaims.g_client (TokenClaims.grant_of p)) /\
  (forall s, TokenClaims.c_sub (TokenClaims.payload_arguments (TokenClaims.grant_of p) t) = Some s -> s = TokenClaims.g_sub (TokenClaims.grant_of p)) /\
  TokenClaims.c_scope (TokenClaims.payload_arguments (TokenClaims.grant_of p) t) = TokenClaims.t_scope t.
Proof. exact TokenClaims_proofs.claims_name_session. Qed.
Print Assumptions C04_jwt_claims_name_the_session.
(* the claims and the introspection answer about the same token agree on client_id, sub, scope, and on aud where the
   claims state one *)
Theorem C04_jwt_claims_agree_with_introspection : forall p t,
  TokenClaims.claims_agree (TokenClaims.payload_arguments (TokenClaims.grant_of p) t) (TokenClaims.introspection_of (TokenClaims.grant_of p) t) = true.
Proof. exact TokenClaims_proofs.claims_agree_with_introspection. Qed.
Print Assumptions C04_jwt_claims_agree_with_introspection.
(* an exchange asked for by another client makes a session of the same user and subject for THAT client *)
Theorem C04_exchange_session_party : forall o b,
  TokenClaims.g_user (TokenClaims.grant_of (TokenClaims.PExchange o b)) = TokenClaims.g_user (TokenClaims.grant_of o) /\
  TokenClaims.g_sub (TokenClaims.grant_of (TokenClaims.PExchange o b)) = TokenClaims.g_sub (TokenClaims.grant_of o) /\
  TokenClaims.g_client (TokenClaims.grant_of (TokenClaims.PExchange o b)) = b.
Proof. exact TokenClaims_proofs.exchange_session_party. Qed.
Print Assumptions C04_exchange_session_party.
(* the accepted string: at whatever slot the provider's part of a JWT-formatted token (TokenFmt.mint) resolves to a session
   on record, the claims signed with it name the client and subject of that very session and agree with what the
   introspection endpoint states about it *)
Theorem C04_accepted_jwt_claims_are_of_the_resolved_session : forall cfg expired (db : list (pystr * TokenClaims.gpath)) s c nonce rnd sid exp p t p',
  assoc sid db = Some p ->
  slot_session cfg expired db s (TokenClaims.j_tok (TokenClaims.mint_jwt cfg c nonce rnd sid exp p t)) = Some p' ->
  let cl := TokenClaims.j_claims (TokenClaims.mint_jwt cfg c nonce rnd sid exp p t) in
  (forall x, TokenClaims.c_client cl = Some x -> x = TokenClaims.g_client (TokenClaims.grant_of p')) /\
  (forall x, TokenClaims.c_sub cl = Some x -> x = TokenClaims.g_sub (TokenClaims.grant_of p')) /\
  TokenClaims.claims_agree cl (TokenClaims.introspection_of (TokenClaims.grant_of p') t) = true.
Proof. exact TokenClaims_proofs.accepted_jwt_names_resolved_session. Qed.
Print Assumptions C04_accepted_jwt_claims_are_of_the_resolved_session.
(* refuted reading: a payload that names the client of the authorization request the grant CARRIES (an exchange grant
   carries the request of the grant the subject token came from) misnames the tokens of every exchange session *)
Theorem C04_claims_from_carried_request_misname :
  let p := TokenClaims.PExchange (TokenClaims.PAuthz (PS "diana") (PS "client_1") (PS "sub-d")) (PS "client_2") in
  let t := TokenClaims.mkTok [PS "openid"] [] in
  TokenClaims.c_client (TokenClaims.payload_arguments_carried (TokenClaims.grant_of p) t) = Some (PS "client_1") /\
  TokenClaims.g_client (TokenClaims.grant_of p) = PS "client_2" /\
  TokenClaims.claims_agree (TokenClaims.payload_arguments_carried (TokenClaims.grant_of p) t) (TokenClaims.introspection_of (TokenClaims.grant_of p) t) = false /\
  TokenClaims.c_client (TokenClaims.payload_arguments (TokenClaims.grant_of p) t) = Some (PS "client_2").
Proof. exact TokenClaims_proofs.carried_request_misnames. Qed.
Print Assumptions C04_claims_from_carried_request_misname.
(* --- end round 11 --- *)

(* --- round 12: the look-up of a presented token among a grant's issued tokens is the source's --- *)
From Verif Require Gen.Src_grant Proofs.Src_refine_grant.
Theorem C04_get_token_is_source : forall toks rest v clock,
  Src_grant.Grant_get_token_src (Src_refine_grant.inject_grant toks rest) (VStr v) clock
  = Ok (Src_refine_grant.opt_tok (List.find (fun t => str_eqb (Src_refine_grant.k_value t) v) toks)).
Proof. exact Src_refine_grant.get_token_refines. Qed.
Print Assumptions C04_get_token_is_source.
(* what get_token hands on carries exactly the presented value: a token is never resolved through another token's value *)
Theorem C04_get_token_sound : forall toks rest v clock t,
  Src_grant.Grant_get_token_src (Src_refine_grant.inject_grant toks rest) (VStr v) clock = Ok (Src_refine_grant.inject_tok t) ->
  Src_refine_grant.k_value t = v.
Proof. exact Src_refine_grant.get_token_sound. Qed.
Print Assumptions C04_get_token_sound.
Theorem C04_find_token_is_source : forall toks v clock,
  Src_grant.find_token_src (VList (List.map Src_refine_grant.inject_tok toks)) (VStr v) clock
  = Ok (Src_refine_grant.opt_tok (List.find (fun t => str_eqb (Src_refine_grant.k_id t) v) toks)).
Proof. exact Src_refine_grant.find_token_refines. Qed.
Print Assumptions C04_find_token_is_source.
(* --- end round 12 --- *)
