(* Props/C04.v — property C04: tokens are unforgeable, class-separated and bound to their session.
   Statements only; proofs in Proofs/TokenFmt_proofs.v (+ Proofs/Lv_proofs.v for the framing codec).
   Model/TokenFmt.v is tied to the real handlers by harness/drv_C04.py: the plaintext of real opaque tokens is
   recovered with the handler's key and compared with the model, the info() outcome matrix (handler x minted
   class x shared/distinct keys) is compared, and the oracle presents every genuine, wrong-class and mutated
   token in every slot of the real endpoints.  Cryptography is symbolic: Fernet = AEnc, JWS = Sig (Lib/Crypto.v);
   byte-level integrity is exercised, not proved. *)
From Coq Require Import String List.
From Verif Require Import Lib.Base Lib.PyStr Lib.Crypto Model.Lv Proofs.Lv_proofs Model.TokenFmt Proofs.TokenFmt_proofs.
From Coq Require Import ZArith.
From Verif Require Gen.Src_token Proofs.Src_refine.
Import ListNotations.
Open Scope string_scope.

Theorem C04_resolves_to_its_session : forall k nonce rnd c sid exp,
  opaque_info k c (opaque_token k nonce rnd c sid exp) = TOk (Some sid).
Proof. exact opaque_resolves. Qed.
Print Assumptions C04_resolves_to_its_session.

(* class separation holds even when every handler uses the same key *)
Theorem C04_class_separation : forall k nonce rnd h c sid exp,
  h <> c -> opaque_info k h (opaque_token k nonce rnd c sid exp) = TErr EWrongClass.
Proof. exact opaque_class_separation. Qed.
Print Assumptions C04_class_separation.

Theorem C04_foreign_key_refused : forall k k' nonce rnd h c sid exp,
  k <> k' -> opaque_info k h (opaque_token k' nonce rnd c sid exp) = TErr EUnknownToken.
Proof. exact opaque_key_separation. Qed.
Print Assumptions C04_foreign_key_refused.

Theorem C04_bound_to_session : forall k n1 n2 r1 r2 c1 c2 s1 s2 e1 e2,
  opaque_token k n1 r1 c1 s1 e1 = opaque_token k n2 r2 c2 s2 e2 -> c1 = c2 /\ s1 = s2 /\ r1 = r2 /\ e1 = e2.
Proof. exact opaque_token_injective. Qed.
Print Assumptions C04_bound_to_session.

(* UNFORGEABLE: with the handler key never published and the provider publishing under that key only tokens
   it minted, every term an adversary can derive and the handler accepts is (inside) something published,
   carries a class the handler accepts, and resolves to a session that class was minted for. *)
Theorem C04_unforgeable : forall (K : term -> Prop) (k0 : nat),
  (forall t, K t -> ~ sub (Key k0) t) ->
  forall minted : pystr -> pystr -> Prop,
  (forall t0 nonce m, K t0 -> sub (AEnc k0 nonce m) t0 ->
      exists rnd c sid exp, m = Atom (opaque_plain rnd c sid exp) /\ minted c sid) ->
  forall h t sid, derivable K t -> opaque_info k0 h t = TOk (Some sid) ->
  exists c, class_ok h c = true /\ minted c sid /\ exists t0, K t0 /\ sub t t0.
Proof. exact opaque_unforgeable. Qed.
Print Assumptions C04_unforgeable.

(* JWT tokens *)
Theorem C04_jwt_resolves : forall k h sid exp expired,
  expired exp = false -> jwt_info k h expired (jwt_token k (Some (tk_name h)) (Some sid) exp) = TOk (Some sid).
Proof. exact jwt_resolves. Qed.
Print Assumptions C04_jwt_resolves.
Theorem C04_jwt_class_separation : forall k h c sid exp expired,
  h <> c -> jwt_info k h expired (jwt_token k (Some (tk_name c)) sid exp) = TErr EWrongClass.
Proof. exact jwt_class_separation. Qed.
Print Assumptions C04_jwt_class_separation.
Theorem C04_id_token_is_no_access_token : forall k h sid exp expired,
  jwt_info k h expired (jwt_token k None sid exp) = TErr EWrongClass.
Proof. exact id_token_is_no_access_token. Qed.
Print Assumptions C04_id_token_is_no_access_token.
Theorem C04_jwt_expired_signature_refused : forall k h sid exp expired,
  expired exp = true -> jwt_info k h expired (jwt_token k (Some (tk_name h)) sid exp) = TErr ETooOld.
Proof. exact jwt_expired_refused. Qed.
Print Assumptions C04_jwt_expired_signature_refused.
Theorem C04_jwt_foreign_key_refused : forall k k' h c sid exp expired,
  k <> k' -> jwt_info k h expired (jwt_token k' c sid exp) = TErr EUnknownToken.
Proof. exact jwt_foreign_key_refused. Qed.
Print Assumptions C04_jwt_foreign_key_refused.
Theorem C04_jwt_unforgeable : forall (K : term -> Prop) (k0 : nat),
  (forall t, K t -> ~ sub (Key k0) t) ->
  forall h expired t sid, derivable K t -> jwt_info k0 h expired t = TOk sid -> exists t0, K t0 /\ sub t t0.
Proof. exact jwt_unforgeable. Qed.
Print Assumptions C04_jwt_unforgeable.

(* the framing codec under all of this: every list of every string *)
Theorem C04_lv_roundtrip : forall l, lv_unpack (lv_pack l) = Ok l.
Proof. exact lv_roundtrip. Qed.
Print Assumptions C04_lv_roundtrip.

(* non-vacuity: with one shared key, a refresh token offered as access token, a code offered as refresh token *)
Example C04_nonvacuous :
  opaque_info 0 KAccess (opaque_token 0 (PS "n") (PS "r") KRefresh (PS "sid:1;;2") (PS "99")) = TErr EWrongClass /\
  opaque_info 0 KRefresh (opaque_token 0 (PS "n") (PS "r") KCode (PS "sid") (PS "99")) = TErr EWrongClass /\
  opaque_info 0 KAccess (opaque_token 0 (PS "n") (PS "3:abc") KAccess (PS "sid:1;;2") (PS "-1")) = TOk (Some (PS "sid:1;;2")).
Proof. vm_compute. repeat split; reflexivity. Qed.

(* TIE BY TRANSLATION: is_expired (used by JWTToken.info and IDToken.info) as it reads in /repo/src NOW. *)
Theorem C04_is_expired_is_source : forall exp when clock,
  Src_token.is_expired_src (VInt exp) (VInt when) (VInt clock)
  = Ok (VBool (if (exp <? 0)%Z then false else ((if (when =? 0)%Z then clock else when) >? exp)%Z)).
Proof. exact Src_refine.is_expired_refines. Qed.
Print Assumptions C04_is_expired_is_source.
