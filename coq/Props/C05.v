(* Props/C05.v — property C05: scope never escalates across minting (at the token endpoint and, for implicit / hybrid
   response types, at the authorization endpoint itself), refresh and chained refresh; the scope
   stated in the token response, carried by the token and reported by introspection is the same set.
   Statements only; proofs in Proofs/C05*_proofs.v.  Model/Session.v is tied to the real provider by
   harness/drv_C05.py on every run.  (The scope decisions of token exchange and client credentials are modelled in Model/ScopeFlows.v; their session
   bookkeeping and the password grant are decided by the driver's oracle on the real code — see DESIGN.md.) *)
From Coq Require Import String ZArith List.
From Verif Require Import Lib.Base Lib.PyStr Model.Session Model.SessionCheck Proofs.Session_proofs
  Proofs.C05a_proofs Proofs.C05v_proofs Proofs.C05_proofs.
From Verif Require Model.ScopeFlows Proofs.ScopeFlows_proofs.
Import ListNotations.
Open Scope string_scope.

(* In EVERY reachable state (any configuration, any operation sequence from the empty provider), every scope value
   of every token — code, access, refresh or ID token, however obtained — was requested in the authorization
   request of its grant and is among the scopes allowed for that grant's client. *)
Theorem C05_no_escalation : forall c ops k t g x,
  let s := fst (run c init ops) in
  tget k s = Some t -> nth_error (grants s) (t_grant t) = Some g -> In x (t_scope t) ->
  In x (g_areq_scope g) /\ In x (c_allowed c (g_client g)).
Proof. exact no_escalation. Qed.
Print Assumptions C05_no_escalation.

(* AUTHORIZING AGAIN WITHIN A BROWSER SESSION (the operations of `run` include AuthorizeCookie: an authorization request
   that carries the provider's session cookie of an earlier authorization - the provider keeps the earlier grant when the
   request equals the stored one and makes a new grant otherwise; so C05_no_escalation above already ranges over these
   histories).  Explicitly: after such a request - whatever the earlier authorization asked for, wider or narrower -
   every token ever found in the grant that holds the new code (the code, what it is exchanged for, every refresh down
   the chain) carries only scope values THIS request asked for and ITS client is allowed. *)
Theorem C05_cookie_authorization_bounded : forall c pre prev u cl sc rd fresh s1 code scope post tc k t x,
  step c (fst (run c init pre)) (AuthorizeCookie prev u cl sc rd fresh) = (s1, OAuthz code scope) ->
  tget code s1 = Some tc ->
  tget k (fst (run c s1 post)) = Some t -> t_grant t = t_grant tc -> In x (t_scope t) ->
  In x sc /\ In x (c_allowed c cl).
Proof. exact cookie_authorization_bounded. Qed.
Print Assumptions C05_cookie_authorization_bounded.

(* TOKENS MINTED BY THE AUTHORIZATION ENDPOINT ITSELF (the operations of `run` include AuthorizeRT: an authorization
   request whose response type contains `token` and / or `id_token`, with or without `code` - implicit and hybrid flows;
   so C05_no_escalation above already ranges over these histories and over the front-channel tokens).  Explicitly:
   (views) the scope the authorization response states is the requested scope filtered by the client's allowed scopes,
   and the code, the access token and the ID Token it carries are tokens of the new grant, based on nothing, with exactly
   that scope; *)
Theorem C05_front_channel_views : forall c s u cl sc wc wt wi s1 code acc idt scope,
  do_authorize_rt c s u cl sc wc wt wi = (s1, OAuthzRT code acc idt scope) ->
  scope = filter_scopes c cl sc /\
  forall k cls, (code = Some k /\ cls = Code) \/ (acc = Some k /\ cls = Access) \/ (idt = Some k /\ cls = IdTok) ->
    exists t, tget k s1 = Some t /\ t_cls t = cls /\ t_based t = None /\ t_scope t = scope /\ t_grant t = length (grants s).
Proof. exact front_channel_views. Qed.
Print Assumptions C05_front_channel_views.
(* (bound) after any history, such an authorization, and any further history, every token ever found in the grant it
   created - front-channel access token and ID Token, the code, what the code is redeemed for, every refresh down the
   chain - carries only scope values THIS request asked for and ITS client is allowed. *)
Theorem C05_front_channel_bounded : forall c pre u cl sc wc wt wi s1 x0 post k t x,
  step c (fst (run c init pre)) (AuthorizeRT u cl sc wc wt wi) = (s1, x0) ->
  tget k (fst (run c s1 post)) = Some t -> t_grant t = length (grants (fst (run c init pre))) -> In x (t_scope t) ->
  In x sc /\ In x (c_allowed c cl).
Proof. exact front_channel_bounded. Qed.
Print Assumptions C05_front_channel_bounded.

(* THE RFC 8707 `resource` PARAMETER AT THE AUTHORIZATION ENDPOINT (decision function ScopeFlows.authz_decide: requested
   scope, the client's allowed scopes, what a configured resource-indicator policy permits, the scope lists registered
   for the named resources -> the scope of the grant, of every artefact minted, and the response's statement; tied to the
   real OIDC and OAuth2 authorization endpoints by drv_C05 for every response type).  Naming a resource never ADDS a
   scope to anything that is minted: *)
Theorem C05_authz_artefacts_within_request : forall requested allowed permitted rscopes x,
  let r := ScopeFlows.authz_decide requested allowed permitted rscopes in
  In x (ScopeFlows.a_grant r) \/ In x (ScopeFlows.a_code r) \/ In x (ScopeFlows.a_access r) \/ In x (ScopeFlows.a_idtoken r) ->
  In x requested /\ In x allowed /\ (forall p, permitted = Some p -> In x p).
Proof. exact ScopeFlows_proofs.authz_artefacts_within_request. Qed.
Print Assumptions C05_authz_artefacts_within_request.
Theorem C05_resource_scopes_never_reach_tokens : forall requested allowed permitted rscopes x,
  let r := ScopeFlows.authz_decide requested allowed permitted rscopes in
  In x rscopes -> ~ In x requested ->
  ~ In x (ScopeFlows.a_grant r) /\ ~ In x (ScopeFlows.a_code r) /\ ~ In x (ScopeFlows.a_access r) /\ ~ In x (ScopeFlows.a_idtoken r).
Proof. exact ScopeFlows_proofs.authz_resource_scopes_never_reach_tokens. Qed.
Print Assumptions C05_resource_scopes_never_reach_tokens.
(* the response's scope statement: without a resource parameter it is the minted tokens' scope (as a set) ... *)
Theorem C05_authz_response_is_token_scope_without_resource : forall requested allowed permitted x,
  let r := ScopeFlows.authz_decide requested allowed permitted [] in
  In x (ScopeFlows.a_response r) <-> In x (ScopeFlows.a_access r).
Proof. exact ScopeFlows_proofs.authz_response_is_token_scope_without_resource. Qed.
Print Assumptions C05_authz_response_is_token_scope_without_resource.
(* ... with one it stays within the client's allowed scopes but may list what a named resource's registration lists *)
Theorem C05_authz_response_within : forall requested allowed permitted rscopes x,
  In x (ScopeFlows.a_response (ScopeFlows.authz_decide requested allowed permitted rscopes)) ->
  In x allowed /\ (In x requested \/ In x rscopes).
Proof. exact ScopeFlows_proofs.authz_response_within. Qed.
Print Assumptions C05_authz_response_within.
(* RECORDED FINDINGS (known_findings.txt: authz-response-states-resource-scope, token-response-scope-under-resource-policy):
   under a resource parameter the statement is NOT the token's scope.  Witnesses: the request asks for profile and names a
   resource that lists email -> the response states [profile; email], every artefact holds [profile]; at an OAuth2 token
   endpoint with a resource policy the response states the TOKEN request's scope parameter cut down to what the resources
   permit (nothing when there is none, [email] for scope=[email]) while the token holds the grant's [profile]. *)
Theorem C05_refuted_authz_response_states_resource_scope :
  let r := ScopeFlows.authz_decide ScopeFlows_proofs.ex_req ScopeFlows_proofs.ex_allowed None ScopeFlows_proofs.ex_rscopes in
  ScopeFlows.a_response r = [PS "profile"; PS "email"] /\ ScopeFlows.a_access r = [PS "profile"] /\
  ScopeFlows.a_code r = [PS "profile"] /\ ScopeFlows.set_eqb (ScopeFlows.a_response r) (ScopeFlows.a_access r) = false.
Proof. exact ScopeFlows_proofs.authz_response_states_resource_scope_refuted. Qed.
Print Assumptions C05_refuted_authz_response_states_resource_scope.
Theorem C05_refuted_token_response_scope_under_resource_policy :
  ScopeFlows.token_ri_statement [] ScopeFlows_proofs.ex_allowed = [] /\
  ScopeFlows.token_ri_statement [PS "email"] ScopeFlows_proofs.ex_allowed = [PS "email"] /\
  ScopeFlows.token_ri_token [PS "profile"] = [PS "profile"] /\
  ScopeFlows.set_eqb (ScopeFlows.token_ri_statement [PS "email"] ScopeFlows_proofs.ex_allowed) (ScopeFlows.token_ri_token [PS "profile"]) = false.
Proof. exact ScopeFlows_proofs.token_response_scope_under_resource_policy_refuted. Qed.
Print Assumptions C05_refuted_token_response_scope_under_resource_policy.
Theorem C05_token_ri_statement_within : forall treq permitted x,
  In x (ScopeFlows.token_ri_statement treq permitted) -> In x treq /\ In x permitted.
Proof. exact ScopeFlows_proofs.token_ri_statement_within. Qed.
Print Assumptions C05_token_ri_statement_within.

(* The invariant behind it, preserved by every operation. *)
Theorem C05_invariant_step : forall c s o, inv c s -> inv c (fst (step c s o)).
Proof. exact inv_step. Qed.
Print Assumptions C05_invariant_step.

(* Refresh (with or without a scope parameter, after any history, hence chains of any length): the scope of the
   response lies within the scope granted to the grant. *)
Theorem C05_refresh_within_grant : forall c ops idx kw cl tok rsc s' n r i sc,
  let s := fst (run c init ops) in
  nth_error (parsed s) idx = Some (PRefresh cl tok rsc) ->
  do_process c s idx kw = (s', OTokens (Some n) r i sc) ->
  exists g t, find_tok tok s = Some (g, t) /\ subset sc (g_scope g) = true.
Proof. exact refresh_within_grant. Qed.
Print Assumptions C05_refresh_within_grant.

(* Views agree: the scope stated in a token response is the scope of the access token returned ... *)
Theorem C05_view_refresh : forall c s cl tok rsc kw s' n r i sc,
  do_refresh_process c s cl tok rsc kw = (s', OTokens (Some n) r i sc) ->
  exists ta, tget n s' = Some ta /\ t_cls ta = Access /\ t_scope ta = sc.
Proof. exact view_refresh. Qed.
Print Assumptions C05_view_refresh.
Theorem C05_view_code : forall c ops cl code redir kw s' n r i sc g t,
  let s := fst (run c init ops) in
  do_code_process c s cl code redir kw = (s', OTokens (Some n) r i sc) ->
  find_tok code s = Some (g, t) -> t_cls t = Code ->
  exists ta, tget n s' = Some ta /\ t_cls ta = Access /\ t_scope ta = sc /\ sc = g_scope g.
Proof. exact view_code. Qed.
Print Assumptions C05_view_code.
(* ... and introspection reports that token's scope. *)
Theorem C05_view_introspection : forall c s cl id sc cl' k,
  snd (do_introspect c s cl (TRef id)) = OActive sc cl' k ->
  exists g t, find_tok id s = Some (g, t) /\
    sc = match t_scope t with [] => match t_based t with Some _ => fscope s (t_grant t) g (t_based t) | None => g_scope g end | x => x end.
Proof. exact view_introspection. Qed.
Print Assumptions C05_view_introspection.

(* Token exchange: whatever is granted lay in the subject token's scope, is allowed for the requesting client and
   was asked for; a refresh token needs offline_access in the subject token.  Client credentials: the client's
   configured scopes.  (Decision functions of Model/ScopeFlows.v, tied to the real token endpoint by drv_C05.) *)
Theorem C05_exchange_never_widens : forall subj req allowed wr sc x,
  ScopeFlows.exchange_scope subj req allowed wr = ScopeFlows.XOk sc -> In x sc ->
  In x subj /\ In x allowed /\ (forall r, req = Some r -> In x r).
Proof. exact ScopeFlows_proofs.exchange_never_widens. Qed.
Print Assumptions C05_exchange_never_widens.
Theorem C05_exchange_refresh_needs_offline : forall subj req allowed sc,
  ScopeFlows.exchange_scope subj req allowed true = ScopeFlows.XOk sc -> In ScopeFlows.offline subj /\ In ScopeFlows.offline sc.
Proof. exact ScopeFlows_proofs.exchange_refresh_needs_offline. Qed.
Print Assumptions C05_exchange_refresh_needs_offline.
Theorem C05_client_credentials_within_configured : forall allowed x,
  In x (ScopeFlows.client_credentials_scope allowed) -> exists a, allowed = Some a /\ In x a.
Proof. exact ScopeFlows_proofs.client_credentials_within_configured. Qed.
Print Assumptions C05_client_credentials_within_configured.

(* non-vacuity: client_1 may use openid/profile/email/offline_access; it asks for address and a custom scope too.
   The code exchange and a narrowing refresh succeed; a widening refresh is refused. *)
Definition c1 := PS "client_1".
Definition demo : list op :=
  [ Authorize (PS "diana") c1 [PS "openid"; PS "address"; PS "email"; PS "custom"; PS "offline_access"];
    TokenParse c1 (TRef 0) (Some (redirect_of c1)); Process 0 None;
    RefreshParse c1 (TRef 2) (Some [PS "openid"]); Process 1 None;
    RefreshParse c1 (TRef 2) (Some [PS "openid"; PS "address"]);
    Introspect c1 (TRef 4) ].
Example C05_nonvacuous :
  snd (run (mk_cfg true false) init demo) =
  [ OAuthz 0 [PS "openid"; PS "email"; PS "offline_access"]; OOk;
    OTokens (Some 1%nat) (Some 2%nat) (Some 3%nat) [PS "openid"; PS "email"; PS "offline_access"];
    OOk; OTokens (Some 4%nat) None (Some 5%nat) [PS "openid"];
    OErr EInvalidRequest;
    OActive [PS "openid"] c1 Access ].
Proof. vm_compute. reflexivity. Qed.

(* non-vacuity, browser session: diana logs in at client_1 for openid+email+offline_access (code 0 stays pending); the
   same browser then asks for openid only (new grant, code 1), for more (new grant, code 2: address is not allowed), and
   sends the first request once more (grant 0 is kept, code 3).  What each code is exchanged for carries what ITS request
   authorised. *)
Definition cb := redirect_of c1.
Definition demo_cookie : list op :=
  [ Authorize (PS "diana") c1 [PS "openid"; PS "email"; PS "offline_access"];
    AuthorizeCookie 0 (PS "diana") c1 [PS "openid"] cb false;
    AuthorizeCookie 0 (PS "diana") c1 [PS "openid"; PS "email"; PS "offline_access"; PS "profile"; PS "address"] cb false;
    AuthorizeCookie 0 (PS "diana") c1 [PS "openid"; PS "email"; PS "offline_access"] cb false;
    TokenParse c1 (TRef 1) (Some cb); Process 0 None;
    TokenParse c1 (TRef 2) (Some cb); Process 1 None;
    TokenParse c1 (TRef 3) (Some cb); Process 2 None;
    TokenParse c1 (TRef 0) (Some cb); Process 3 None ].
Example C05_cookie_nonvacuous :
  let '(s, outs) := run (mk_cfg true false) init demo_cookie in
  length (grants s) = 3%nat /\
  outs =
  [ OAuthz 0 [PS "openid"; PS "email"; PS "offline_access"]; OAuthz 1 [PS "openid"];
    OAuthz 2 [PS "openid"; PS "email"; PS "offline_access"; PS "profile"]; OAuthz 3 [PS "openid"; PS "email"; PS "offline_access"];
    OOk; OTokens (Some 4%nat) None (Some 5%nat) [PS "openid"];
    OOk; OTokens (Some 6%nat) (Some 7%nat) (Some 8%nat) [PS "openid"; PS "email"; PS "offline_access"; PS "profile"];
    OOk; OTokens (Some 9%nat) (Some 10%nat) (Some 11%nat) [PS "openid"; PS "email"; PS "offline_access"];
    OOk; OTokens (Some 12%nat) (Some 13%nat) (Some 14%nat) [PS "openid"; PS "email"; PS "offline_access"] ].
Proof. vm_compute. split; reflexivity. Qed.

(* non-vacuity, implicit / hybrid: client_1 asks for openid+address+email+custom with response type `code id_token token`
   (the response carries code 0, access token 1, ID Token 2, all with openid+email), then with `token` alone (access token
   3); the front-channel access token is introspected, the hybrid code redeemed. *)
Definition demo_front : list op :=
  [ AuthorizeRT (PS "diana") c1 [PS "openid"; PS "address"; PS "email"; PS "custom"] true true true;
    AuthorizeRT (PS "diana") c1 [PS "openid"; PS "profile"; PS "phone"] false true false;
    Introspect c1 (TRef 1); Introspect c1 (TRef 3);
    TokenParse c1 (TRef 0) (Some cb); Process 0 None ].
Example C05_front_channel_nonvacuous :
  snd (run (mk_cfg true false) init demo_front) =
  [ OAuthzRT (Some 0%nat) (Some 1%nat) (Some 2%nat) [PS "openid"; PS "email"];
    OAuthzRT None (Some 3%nat) None [PS "openid"; PS "profile"];
    OActive [PS "openid"; PS "email"] c1 Access; OActive [PS "openid"; PS "profile"] c1 Access;
    OOk; OTokens (Some 4%nat) None (Some 5%nat) [PS "openid"; PS "email"] ].
Proof. vm_compute. reflexivity. Qed.

(* Tie to the source: Gen/Src_scopes.v is the CURRENT idpyoidc.server.scopes.Scopes.get_allowed_scopes / filter_scopes,
   translated by harness/py2v.py on every run.  inject_scopes pa cdb is a Scopes instance whose own allowed_scopes are
   pa and whose upstream_get("attribute", "cdb") is the client database cdb (client id -> its allowed_scopes, if any). *)
From Verif Require Lib.PyOps Gen.Src_scopes Proofs.Src_refine_scopes.
Theorem C05_get_allowed_scopes_is_source : forall pa cdb cid clock,
  Src_scopes.Scopes_get_allowed_scopes_src (Src_refine_scopes.inject_scopes pa cdb) (VStr cid) clock
  = Ok (Src_refine_scopes.strs (match cid with
                                | [] => pa
                                | _ => match assoc cid cdb with Some (Some a) => a | _ => pa end
                                end)).
Proof. exact Src_refine_scopes.get_allowed_scopes_refines. Qed.
Print Assumptions C05_get_allowed_scopes_is_source.
(* for every configuration whose c_allowed is that answer, the model's filter_scopes is the source's filter_scopes *)
Theorem C05_filter_scopes_is_source : forall c pa cdb sc cl clock,
  (forall cl, c_allowed c cl = Src_refine_scopes.allowed_for pa cdb cl) ->
  Src_scopes.Scopes_filter_scopes_src (Src_refine_scopes.inject_scopes pa cdb) (Src_refine_scopes.strs sc) (VStr cl) clock
  = Ok (Src_refine_scopes.strs (filter_scopes c cl sc)).
Proof. exact Src_refine_scopes.filter_scopes_refines. Qed.
Print Assumptions C05_filter_scopes_is_source.
