(* Props/C06.v — property C06: responses go only to registered URIs and carry exactly what was issued.
   Only statements, each closed by exact <lemma>, with Print Assumptions, and non-vacuity Examples.
   Models: Model/Uri.v (urllib.parse fragment, verify_uri, get_uri, the redirect decision),
   Model/Delivery.v (query / fragment / form_post delivery), Lib/Html.v (html.escape).
   Model/Flight.v (requests in flight at one endpoint object; the completion step under the registration in
   force when the response is built).
   The models follow the tree after the repairs 3a645c7 0513a4c 9e460b5 226f2a0 690cd16 d89f533 bd0ec73
   0d1555c 894d3ce ee6d4b2; the one recorded finding (empty path parameters, key empty-path-params-dropped) keeps its
   guarded theorem and refuting witness. *)
From Coq Require Import String.
From Coq Require Import Permutation.
From Verif Require Model.RegUri Model.Registration.
From Verif Require Import Lib.Base Lib.PyStr Lib.Urlenc Lib.Html Model.Uri Model.Delivery Model.Flight Model.RegFlow
  Proofs.Html_proofs Proofs.Uri_proofs Proofs.Delivery_proofs Proofs.Flight_proofs Proofs.RegFlow_proofs.
Open Scope N_scope.

(* ================================================================== (a) the matcher *)

(* Whatever verify_uri accepts has, after percent-decoding, no control character, no surrounding white
   space and no fragment delimiter; parsed, it has a host, a valid port, an absolute (or empty) path, and
   the scheme, path, params and query multimap (blank values included) of one registered URI; its netloc
   (user information, host, port) is that of the registered URI — for native clients after both sides went
   through norm_native (see C06_native_port_only / C06_native_keeps_host). *)
Theorem C06_match_sound : forall regs native oidc u,
  verify_uri regs native oidc u = Ok tt ->
  exists d p r rp,
    unquote u = Ok d /\ urlparse d = Ok p /\ In r regs /\ parse_reg r = Ok rp /\
    fragment p = [] /\ hostname p <> None /\ (exists po, port p = Ok po) /\
    (path p = [] \/ starts_with [47] (path p) = true) /\
    scheme p = scheme (fst rp) /\ path p = path (fst rp) /\ params p = params (fst rp) /\ fragment (fst rp) = [] /\
    (exists qd, parse_qs true (query p) = Ok qd /\ qd_eqb qd (snd rp) = true) /\
    (if native
     then exists p' r', norm_native p = Ok p' /\ norm_native (fst rp) = Ok r' /\ netloc p' = netloc r'
     else netloc p = netloc (fst rp)) /\
    dirty d = false /\ has_c 35 d = false.
Proof. exact verify_uri_sound. Qed.
Print Assumptions C06_match_sound.

(* web clients: host, port and user information are exactly the registered ones *)
Theorem C06_match_sound_web : forall regs oidc u,
  verify_uri regs false oidc u = Ok tt ->
  exists d p r rp,
    unquote u = Ok d /\ urlparse d = Ok p /\ In r regs /\ parse_reg r = Ok rp /\
    fragment p = [] /\ scheme p = scheme (fst rp) /\ netloc p = netloc (fst rp) /\
    hostname p = hostname (fst rp) /\ port p = port (fst rp) /\
    path p = path (fst rp) /\ params p = params (fst rp) /\
    (exists qd, parse_qs true (query p) = Ok qd /\ qd_eqb qd (snd rp) = true).
Proof. exact verify_uri_sound_web. Qed.
Print Assumptions C06_match_sound_web.

(* native clients: normalisation touches nothing but the netloc, and the netloc only by cutting the
   text after its last colon when the scheme is http, the host one of the three loopback literals and
   the port a non-zero number ... *)
Theorem C06_native_port_only : forall p p', norm_native p = Ok p' ->
  scheme p' = scheme p /\ path p' = path p /\ params p' = params p /\ query p' = query p /\ fragment p' = fragment p /\
  (netloc p' = netloc p \/
   (is_http p = true /\ is_localhost p = true /\
    exists z, port p = Ok (Some z) /\ z <> 0%Z /\ netloc p' = before_last 58 (netloc p))).
Proof. exact norm_native_spec. Qed.
Print Assumptions C06_native_port_only.

(* ... and that cut keeps host name and user information: only the port is ignored *)
Theorem C06_native_keeps_host : forall p p', norm_native p = Ok p' ->
  hostname p' = hostname p /\ userinfo_text (netloc p') = userinfo_text (netloc p).
Proof. exact norm_native_keeps_host. Qed.
Print Assumptions C06_native_keeps_host.

Theorem C06_match_sound_native : forall regs oidc u,
  verify_uri regs true oidc u = Ok tt ->
  exists d p r rp,
    unquote u = Ok d /\ urlparse d = Ok p /\ In r regs /\ parse_reg r = Ok rp /\
    fragment p = [] /\ scheme p = scheme (fst rp) /\
    hostname p = hostname (fst rp) /\ userinfo_text (netloc p) = userinfo_text (netloc (fst rp)) /\
    path p = path (fst rp) /\ params p = params (fst rp) /\
    (exists qd, parse_qs true (query p) = Ok qd /\ qd_eqb qd (snd rp) = true).
Proof. exact verify_uri_sound_native. Qed.
Print Assumptions C06_match_sound_native.

(* an accepted URI needs no repair by the parser (so the next two theorems apply to it unconditionally)
   and neither its decoded nor its raw text contains a fragment delimiter *)
Theorem C06_accepted_clean : forall regs native oidc u,
  verify_uri regs native oidc u = Ok tt ->
  exists d, unquote u = Ok d /\ clean d = true /\ has_c 35 d = false /\ has_c 35 u = false.
Proof. exact verify_uri_accepted_clean. Qed.
Print Assumptions C06_accepted_clean.

(* the components the theorems speak about are literally the pieces of a repair-free text *)
Theorem C06_components_are_pieces : forall d p, clean d = true -> urlsplit d = Ok p ->
  exists S rest rest2 rest3,
    ((scheme p = [] /\ rest = d) \/ (scheme p = lower S /\ d = S ++ 58 :: rest)) /\
    ((netloc p = [] /\ rest2 = rest) \/ rest = 47 :: 47 :: netloc p ++ rest2) /\
    ((fragment p = [] /\ rest3 = rest2) \/ rest2 = rest3 ++ 35 :: fragment p) /\
    ((query p = [] /\ path p = rest3) \/ rest3 = path p ++ 63 :: query p) /\
    params p = [].
Proof. exact urlsplit_pieces. Qed.
Print Assumptions C06_components_are_pieces.
Theorem C06_params_are_pieces : forall d p, clean d = true -> urlparse d = Ok p ->
  exists ps, urlsplit d = Ok ps /\ scheme p = scheme ps /\ netloc p = netloc ps /\ query p = query ps /\
             fragment p = fragment ps /\
             ((params p = [] /\ path p = path ps) \/ path ps = path p ++ 59 :: params p).
Proof. exact urlparse_pieces. Qed.
Print Assumptions C06_params_are_pieces.

(* the query comparison is Python dict equality *)
Theorem C06_query_multimap : forall a b, qd_eqb a b = true ->
  length a = length b /\ forall k v, In (k, v) a -> assoc k b = Some v.
Proof. exact qd_eqb_spec. Qed.
Print Assumptions C06_query_multimap.

(* control characters or surrounding white space: URIError, whatever is registered *)
Theorem C06_dirty_refused : forall regs native oidc u d,
  unquote u = Ok d -> dirty d = true -> verify_uri regs native oidc u = Err uri_error.
Proof. exact verify_uri_refuses_dirty. Qed.
Print Assumptions C06_dirty_refused.

(* a fragment delimiter (even with an empty fragment), no host, a relative path or an invalid port: URIError *)
Theorem C06_malformed_refused : forall regs native oidc u d p,
  unquote u = Ok d -> dirty d = false -> urlparse d = Ok p ->
  (has_c 35 d = true \/ fragment p <> [] \/ hostname p = None
   \/ (path p <> [] /\ starts_with [47] (path p) = false) \/ port p = Err ValueError) ->
  verify_uri regs native oidc u = Err uri_error.
Proof. exact verify_uri_refuses. Qed.
Print Assumptions C06_malformed_refused.

(* nothing registered: refused for every endpoint type *)
Theorem C06_nothing_registered : forall native oidc u, verify_uri [] native oidc u <> Ok tt.
Proof. exact verify_uri_nothing_registered. Qed.
Print Assumptions C06_nothing_registered.

(* the model is not vacuously strict: a registered URI itself is accepted *)
Theorem C06_match_complete : forall regs native oidc b p,
  In (RPair b None) regs -> regs_ok regs native ->
  plain b = true -> dirty b = false -> has_c 35 b = false ->
  urlparse b = Ok p -> basic_checks p = Ok tt -> query p = [] ->
  verify_uri regs native oidc b = Ok tt.
Proof. exact verify_uri_complete. Qed.
Print Assumptions C06_match_complete.

(* THE ONE FULL STATEMENT THAT IS STILL FALSE OF THE CODE (recorded finding, oracle signature
   empty-path-params-dropped):
     accepted -> the path text of the decoded URI is the registered path text, character by character.
   urlparse splits an empty parameter list off the last path segment, so the request path may carry one
   extra trailing semicolon.  Guarded version (neither path text ends in a semicolon) and the witness: *)
Theorem C06_path_exact_partial : forall d b p rp ps rps,
  clean d = true -> clean b = true ->
  urlparse d = Ok p -> urlparse b = Ok rp -> urlsplit d = Ok ps -> urlsplit b = Ok rps ->
  path p = path rp -> params p = params rp ->
  last_is 59 (path ps) = false -> last_is 59 (path rps) = false ->
  path ps = path rps.
Proof. exact path_exact_partial. Qed.
Print Assumptions C06_path_exact_partial.
Definition cb : pystr := PS "https://client.example.com/cb"%string.
Example C06_path_exact_refuted :
  verify_uri [RPair cb None] false true (cb ++ [59]) = Ok tt
  /\ exists ps rps, urlsplit (cb ++ [59]) = Ok ps /\ urlsplit cb = Ok rps /\ path ps <> path rps.
Proof. split; [vm_compute; reflexivity|]. eexists. eexists. repeat split; try (vm_compute; reflexivity). vm_compute. discriminate. Qed.

(* the statements that were false before the repairs now hold; the former witnesses are refused *)
Example C06_former_witnesses_refused :
  verify_uri [RPair cb None] false true (cb ++ [35]) = Err uri_error
  /\ verify_uri [RPair cb None] false true (cb ++ PS "%23"%string) = Err uri_error
  /\ verify_uri [RPair cb None] false true (PS "https://cli"%string ++ 9 :: PS "ent.example.com/cb"%string) = Err uri_error
  /\ verify_uri [RPair cb None] false true (32 :: cb) = Err uri_error
  /\ verify_uri [RPair cb None] false true (PS "https://cli%09ent.example.com/cb"%string) = Err uri_error
  /\ verify_uri [RPair cb None] false true (cb ++ PS "?code="%string) = Err redirect_error
  /\ verify_uri [RPair cb None] false true (cb ++ PS "?x"%string) = Err redirect_error
  /\ verify_uri [] false false (PS "https://evil.example.org/cb"%string) = Err redirect_error
  /\ verify_uri [RStr (cb ++ PS "?x=1"%string)] false true cb = Err redirect_error
  /\ verify_uri [RStr (cb ++ PS "?x=1"%string)] false true (cb ++ PS "?x=1"%string) = Ok tt.
Proof. repeat split; vm_compute; reflexivity. Qed.

(* ================================================================== (c) an error is direct *)

(* The request goes on (and a response can ever be sent somewhere) only with the very URI that
   verify_uri accepted; without redirect_uri only with the single registered one. *)
Theorem C06_redirect_only_verified : forall regs native oidc ru v,
  decide regs native oidc ru = Redirectable v ->
  match ru with
  | Some u => v = u /\ verify_uri regs native oidc u = Ok tt
  | None => exists b q, regs = [RPair b q] /\ join_query b q = Ok v
  end.
Proof. exact decide_redirectable. Qed.
Print Assumptions C06_redirect_only_verified.

Theorem C06_error_is_direct : forall regs native oidc u,
  verify_uri regs native oidc u <> Ok tt -> forall v, decide regs native oidc (Some u) <> Redirectable v.
Proof. exact decide_error_is_direct. Qed.
Print Assumptions C06_error_is_direct.

Theorem C06_mismatch_is_error_message : forall regs native oidc u,
  verify_uri regs native oidc u = Err redirect_error -> decide regs native oidc (Some u) = DirectError.
Proof. exact decide_mismatch_direct. Qed.
Print Assumptions C06_mismatch_is_error_message.

(* ================================================================== (b) delivery *)

(* html.escape: no markup character, no bare ampersand, and it decodes back *)
Theorem C06_escape_markup_free : forall s, markup_free (html_escape s) = true.
Proof. exact escape_markup_free. Qed.
Print Assumptions C06_escape_markup_free.
Theorem C06_escape_no_bare_amp : forall s, amp_ok (html_escape s) = true.
Proof. exact escape_amp_ok. Qed.
Print Assumptions C06_escape_no_bare_amp.
Theorem C06_unescape_escape : forall s, html_unescape5 (html_escape s) = s.
Proof. exact unescape_escape. Qed.
Print Assumptions C06_unescape_escape.

(* form_post: reading the page back yields the verified redirect URI as the action and exactly the
   issued (name, value) pairs, for all strings *)
Theorem C06_form_post_reads_back : forall action l, read_page (form_page action l) = Some (action, l).
Proof. exact read_page_form_page. Qed.
Print Assumptions C06_form_post_reads_back.
Theorem C06_form_post_shape : forall action l,
  form_page action l = page_a ++ html_escape action ++ page_b ++ inputs l ++ page_c
  /\ markup_free (html_escape action) = true
  /\ Forall (fun kv => markup_free (html_escape (fst kv)) = true /\ markup_free (html_escape (snd kv)) = true
                       /\ amp_ok (html_escape (fst kv)) = true /\ amp_ok (html_escape (snd kv)) = true) l.
Proof. exact form_page_shape. Qed.
Print Assumptions C06_form_post_shape.

(* urlencode: what the receiver decodes is what was issued (byte level; utf8 output is a byte string) *)
Theorem C06_urlencode_roundtrip : forall l, Forall pair_bytes l -> parse_qsl_b (urlencode_b l) = l.
Proof. exact parse_urlencode_b. Qed.
Print Assumptions C06_urlencode_roundtrip.
Theorem C06_utf8_is_bytes : forall s b, utf8 s = Ok b -> is_bytes b.
Proof. exact utf8_bytes. Qed.
Print Assumptions C06_utf8_is_bytes.

(* query mode, for EVERY accepted redirect URI: the produced URL has no fragment delimiter, starts with
   the accepted URI, and its query decodes to the URI's own parameters followed by exactly the issued ones *)
Theorem C06_delivery_query : forall regs native oidc u l,
  verify_uri regs native oidc u = Ok tt -> Forall pair_bytes l -> l <> [] ->
  let r := place u (urlencode_b l) false in
  no_c 35 r = true /\
  ((has 63 u = false /\ split1_c 63 r = Some (u, urlencode_b l) /\ parse_qsl_b (urlencode_b l) = l)
   \/ (exists base q0, u = base ++ 63 :: q0 /\ has 63 base = false
        /\ split1_c 63 r = Some (base, q0 ++ 38 :: urlencode_b l)
        /\ parse_qsl_b (q0 ++ 38 :: urlencode_b l) = parse_qsl_b q0 ++ l)).
Proof. exact delivery_query_accepted. Qed.
Print Assumptions C06_delivery_query.

(* fragment mode, for every accepted redirect URI *)
Theorem C06_delivery_fragment : forall regs native oidc u l,
  verify_uri regs native oidc u = Ok tt -> Forall pair_bytes l -> l <> [] ->
  split1_c 35 (place u (urlencode_b l) true) = Some (u, urlencode_b l) /\ parse_qsl_b (urlencode_b l) = l.
Proof. exact delivery_fragment_accepted. Qed.
Print Assumptions C06_delivery_fragment.

(* end-session: for every accepted post_logout_redirect_uri, state arrives as one more parameter *)
Theorem C06_logout_state : forall regs native oidc uri s b,
  verify_uri regs native oidc uri = Ok tt -> utf8 s = Ok b ->
  exists t, logout_target uri (Some s) = Ok t /\ no_c 35 t = true /\
    ((has 63 uri = false /\ split1_c 63 t = Some (uri, urlencode_b [(PS "state"%string, b)])
      /\ parse_qsl_b (urlencode_b [(PS "state"%string, b)]) = [(PS "state"%string, b)])
     \/ (exists base q0, uri = base ++ 63 :: q0 /\ has 63 base = false
          /\ split1_c 63 t = Some (base, q0 ++ 38 :: urlencode_b [(PS "state"%string, b)])
          /\ parse_qsl_b (q0 ++ 38 :: urlencode_b [(PS "state"%string, b)]) = parse_qsl_b q0 ++ [(PS "state"%string, b)])).
Proof. exact logout_state_accepted. Qed.
Print Assumptions C06_logout_state.

(* ================================================================== (d) several requests in flight *)

(* Model/Flight.v: a host application interleaves the calls (parse_request; process_request, or after a
   login page setup_auth / create_session and authz_part2; do_response) that belong to different
   requests at ONE endpoint object in any order.  An endpoint is a state-passing machine; answer1 r is
   what request r gets when it is alone. *)

(* Whatever the schedule (any list of calls, any request numbers): if what an endpoint hands out does
   not depend on the state it carries between calls, every answer it gives in an interleaved run is the
   answer the request it belongs to gets alone at a fresh endpoint. *)
Theorem C06_flight_independent : forall (S : Type) (E : endpoint S),
  (forall s s' r, snd (e_parse E s r) = snd (e_parse E s' r)) ->
  (forall s s' p, snd (e_part2 E s p) = snd (e_part2 E s' p)) ->
  forall reqs sched i a, In (i, a) (run_flight E reqs sched) ->
  exists r, nth_error reqs i = Some r /\ a = own_answer E r.
Proof. exact flight_independent. Qed.
Print Assumptions C06_flight_independent.

(* the model of the authorization endpoint keeps nothing between calls ... *)
Theorem C06_endpoint_keeps_nothing : forall (s s' : unit) r,
  e_parse ep_model s r = e_parse ep_model s' r /\ e_auth ep_model s r = e_auth ep_model s' r
  /\ e_part2 ep_model s r = e_part2 ep_model s' r.
Proof. exact model_keeps_nothing. Qed.
Print Assumptions C06_endpoint_keeps_nothing.

(* ... so in every interleaved run each answer is a function of the request being answered alone *)
Theorem C06_flight_answer_own : forall reqs sched i a,
  In (i, a) (run_flight ep_model reqs sched) -> exists r, nth_error reqs i = Some r /\ a = answer1 r.
Proof. exact flight_model. Qed.
Print Assumptions C06_flight_answer_own.

(* and each request does get that answer, whatever happens for other requests in between — directly ... *)
Theorem C06_flight_answers_process : forall reqs i r a b c d,
  nth_error reqs i = Some r -> about i b = false -> about i c = false ->
  In (i, answer1 r)
     (run_flight ep_model reqs (a ++ EvParse i :: b ++ EvProcess i :: c ++ EvRespond i :: d)).
Proof. exact flight_answers_process. Qed.
Print Assumptions C06_flight_answers_process.
(* ... and when the flow is continued after a login page *)
Theorem C06_flight_answers_login : forall reqs i r a b c c' d,
  nth_error reqs i = Some r -> about i b = false -> about i c = false -> about i c' = false ->
  In (i, answer1 r)
     (run_flight ep_model reqs (a ++ EvParse i :: b ++ EvAuth i :: c ++ EvPart2 i :: c' ++ EvRespond i :: d)).
Proof. exact flight_answers_login. Qed.
Print Assumptions C06_flight_answers_login.

(* where that answer goes: own_target r v says v is the redirect URI of r itself, accepted by verify_uri
   against the registration of r's own client (without redirect_uri: the single registered one) *)
Theorem C06_flight_redirect_own : forall reqs sched i url,
  In (i, ARedirect url) (run_flight ep_model reqs sched) ->
  exists r v l, nth_error reqs i = Some r /\
    (decide (q_regs r) (q_native r) (q_oidc r) (q_uri r) = Redirectable v /\
     match q_uri r with
     | Some u => v = u /\ verify_uri (q_regs r) (q_native r) (q_oidc r) u = Ok tt
     | None => exists b q, q_regs r = [RPair b q] /\ join_query b q = Ok v
     end) /\
    enc_pairs (q_args r) = Ok l /\ url = place v (urlencode_b l) (q_frag r).
Proof. exact flight_redirect_own. Qed.
Print Assumptions C06_flight_redirect_own.
Theorem C06_flight_page_own : forall reqs sched i page,
  In (i, APage page) (run_flight ep_model reqs sched) ->
  exists r v l, nth_error reqs i = Some r /\
    (decide (q_regs r) (q_native r) (q_oidc r) (q_uri r) = Redirectable v /\
     match q_uri r with
     | Some u => v = u /\ verify_uri (q_regs r) (q_native r) (q_oidc r) u = Ok tt
     | None => exists b q, q_regs r = [RPair b q] /\ join_query b q = Ok v
     end) /\
    form_pairs (q_args r) = Ok l /\ read_page page = Some (v, l).
Proof. exact flight_page_own. Qed.
Print Assumptions C06_flight_page_own.

(* ================================================================== (e) the second judgement, at completion *)

(* Model/Flight.v, completion: the redirect URI is judged a second time when the response is built
   (post_authentication, and error_by_response_mode before it sends an error by redirect), under the
   registration in force THEN (regn: Reg regs native, or Gone when the client was deleted).  complete g md
   failed p is what authz_part2 + do_response hand to the user agent for request p; answer_at is the whole
   history of a request: parsed under its own registration (q_regs, q_native) - or taken from where the host
   stored it and never parsed (example/flask_op/views.py::verify) - and completed under g. *)

(* Whatever the completion step delivers by redirect goes to a URI that get_uri accepts under the registration
   in force when the response is built (target_at: the request's own URI, accepted by verify_uri against g),
   and carries exactly the issued parameters ... *)
Theorem C06_completion_redirect : forall g md failed p url,
  complete g md failed p = ARedirect url ->
  exists v l, get_uri_at g (q_oidc p) (q_uri p) = Ok v /\
    match g with
    | Gone => False
    | Reg regs native =>
        match q_uri p with
        | Some u => v = u /\ verify_uri regs native (q_oidc p) u = Ok tt
        | None => exists b q, regs = [RPair b q] /\ join_query b q = Ok v
        end
    end /\
    enc_pairs (q_args p) = Ok l /\
    url = place v (urlencode_b l) (if failed then mode_frag md else q_frag p).
Proof. exact complete_redirect. Qed.
Print Assumptions C06_completion_redirect.
(* ... and so does a form_post page *)
Theorem C06_completion_page : forall g md failed p page,
  complete g md failed p = APage page ->
  exists v l, get_uri_at g (q_oidc p) (q_uri p) = Ok v /\ target_at g p v /\ form_pairs (q_args p) = Ok l
              /\ page = form_page v l /\ read_page page = Some (v, l).
Proof. exact complete_page. Qed.
Print Assumptions C06_completion_page.

(* A redirect URI that does not verify when the response is built - not registered, no longer registered,
   malformed, fragment-bearing, the client gone - has no redirect target: nothing is placed in a URL or a
   page, whatever the exception, the response mode, the response type, and whether or not the completion
   failed for another reason as well. *)
Theorem C06_completion_unverified_direct : forall g md failed p e,
  get_uri_at g (q_oidc p) (q_uri p) = Err e -> complete g md failed p = AOther.
Proof. exact complete_unverified_direct. Qed.
Print Assumptions C06_completion_unverified_direct.
Theorem C06_completion_client_gone : forall md failed p, complete Gone md failed p = AOther.
Proof. exact complete_gone. Qed.
Print Assumptions C06_completion_client_gone.

(* An error built by authz_part2 after a failed completion (the session ended between login and completion)
   is delivered by redirect iff the request's redirect URI verifies against the registration in force at
   that moment: then it is placed as the request's response_mode says, at the verified URI ... *)
Theorem C06_failed_completion_error : forall g md p,
  (forall v, get_uri_at g (q_oidc p) (q_uri p) = Ok v -> complete g md true p = by_mode md v p) /\
  (forall e, get_uri_at g (q_oidc p) (q_uri p) = Err e -> complete g md true p = AOther).
Proof. exact complete_failed. Qed.
Print Assumptions C06_failed_completion_error.
(* ... (by_mode does deliver: form_post) *)
Theorem C06_failed_completion_form : forall v p l,
  form_pairs (q_args p) = Ok l -> by_mode MForm v p = APage (form_page v l).
Proof. exact by_mode_form. Qed.
Print Assumptions C06_failed_completion_form.

(* a stored request meets the completion step only: nothing else ever judges its redirect URI *)
Theorem C06_stored_completion_only : forall viap failed g md r,
  answer_at true viap failed g md r = complete g md failed r.
Proof. exact answer_at_stored. Qed.
Print Assumptions C06_stored_completion_only.

(* the whole history of a request (parsed or stored; process_request or login continuation; completion failing
   or not; any registration at completion): a redirect or a page goes to a URI verified under the registration
   in force at completion *)
Theorem C06_history_redirect : forall stored viap failed g md r url,
  answer_at stored viap failed g md r = ARedirect url ->
  exists p v l frag, seen_at_completion stored r p /\ get_uri_at g (q_oidc p) (q_uri p) = Ok v /\ target_at g p v
                     /\ enc_pairs (q_args r) = Ok l /\ url = place v (urlencode_b l) frag.
Proof. exact answer_at_redirect. Qed.
Print Assumptions C06_history_redirect.
Theorem C06_history_page : forall stored viap failed g md r page,
  answer_at stored viap failed g md r = APage page ->
  exists p v l, seen_at_completion stored r p /\ get_uri_at g (q_oidc p) (q_uri p) = Ok v /\ target_at g p v
                /\ form_pairs (q_args r) = Ok l /\ read_page page = Some (v, l).
Proof. exact answer_at_page. Qed.
Print Assumptions C06_history_page.

(* the new dimension is conservative: registration unchanged, completion not failing - the answer of (d) *)
Theorem C06_history_unchanged : forall viap md r,
  answer1 r <> AOutside -> answer_at false viap false (Reg (q_regs r) (q_native r)) md r = answer1 r.
Proof. exact answer_at_unchanged. Qed.
Print Assumptions C06_history_unchanged.

(* A request in flight while its client re-registers: the second judgement of a URI that passed the first can
   differ from it in one way only - the URI does not match any more (RedirectURIError); never by another
   exception (the new registration consisting of parseable entries) ... *)
Theorem C06_reverify : forall regs0 n0 o0 regs1 n1 o1 u,
  verify_uri regs0 n0 o0 u = Ok tt -> regs_ok regs1 n1 ->
  verify_uri regs1 n1 o1 u = Ok tt \/ verify_uri regs1 n1 o1 u = Err redirect_error.
Proof. exact verify_uri_reverify. Qed.
Print Assumptions C06_reverify.
(* ... so either the URI is registered NOW and the answer goes there, or nothing is sent at all *)
Theorem C06_inflight_answer : forall viap failed regs1 n1 md r u,
  q_uri r = Some u -> verify_uri (q_regs r) (q_native r) (q_oidc r) u = Ok tt -> regs_ok regs1 n1 ->
  (verify_uri regs1 n1 (q_oidc r) u = Ok tt /\
   answer_at false viap failed (Reg regs1 n1) md r
   = if negb viap && failed then by_mode md u (set_uri r u) else deliver_to u (set_uri r u))
  \/ (verify_uri regs1 n1 (q_oidc r) u = Err redirect_error /\
      answer_at false viap failed (Reg regs1 n1) md r = AOther).
Proof. exact inflight_answer. Qed.
Print Assumptions C06_inflight_answer.

(* ================================================================== (e) how a registration reaches the stored form *)
(* Model/RegFlow.v: store1 / store_list are Registration.verify_one / verify_uris (the loop of
   Registration.verify_redirect_uris, Model/Registration.v); to_reg hands a stored pair to the matcher above. *)

(* the loop over the redirect URIs of a registration request is a map of the single-URI function *)
Theorem C06_registration_is_a_map : forall ct mh l, store_list ct mh l = mapM (store1 ct mh) l.
Proof. exact store_list_is_map. Qed.
Print Assumptions C06_registration_is_a_map.

(* the i-th stored pair is the stored form of the i-th URI: it depends on that URI and the application type only *)
Theorem C06_registration_pointwise : forall ct mh l st,
  store_list ct mh l = Ok st ->
  List.length st = List.length l /\
  forall i u, nth_error l i = Some u -> exists x, nth_error st i = Some x /\ store1 ct mh u = Ok x.
Proof. exact store_list_nth. Qed.
Print Assumptions C06_registration_pointwise.

(* neither the neighbours of a URI nor its position influence what is stored for it *)
Theorem C06_registration_neighbours_irrelevant : forall ct mh l l' st st' i j u,
  store_list ct mh l = Ok st -> store_list ct mh l' = Ok st' ->
  nth_error l i = Some u -> nth_error l' j = Some u ->
  exists x, nth_error st i = Some x /\ nth_error st' j = Some x /\ store1 ct mh u = Ok x.
Proof. exact store_neighbours_irrelevant. Qed.
Print Assumptions C06_registration_neighbours_irrelevant.

(* nor does the order of the list *)
Theorem C06_registration_order_irrelevant : forall ct mh l l',
  Permutation l l' -> forall st, store_list ct mh l = Ok st ->
  exists st', store_list ct mh l' = Ok st' /\ Permutation st st'.
Proof. exact store_list_perm. Qed.
Print Assumptions C06_registration_order_irrelevant.

(* a list is accepted exactly when each of its URIs is accepted on its own *)
Theorem C06_registration_accepts_each : forall ct mh l,
  (exists st, store_list ct mh l = Ok st) <-> Forall (fun u => exists x, store1 ct mh u = Ok x) l.
Proof. exact store_list_accepts. Qed.
Print Assumptions C06_registration_accepts_each.

(* what is stored for one URI is its OWN split (split_uri of this URI, whatever its scheme): its own scheme,
   netloc and path as base, parse_qs of its own query as query *)
Theorem C06_registration_stores_own : forall ct mh u x,
  store1 ct mh u = Ok x ->
  exists p, RegUri.urlsplit u = Ok p /\
     fst x = RegUri.urlunsplit (RegUri.u_scheme p) (RegUri.u_netloc p) (RegUri.u_path p) [] [] /\
     match RegUri.u_query p with [] => snd x = [] | q => RegUri.parse_qs q = Ok (snd x) end.
Proof. exact (fun ct mh u x H => do_split_own u x (store1_own ct mh u x H)). Qed.
Print Assumptions C06_registration_stores_own.

(* TIE BY TRANSLATION: idpyoidc.util.split_uri as it reads in /repo/src NOW (coq/Gen/Src_uri.v, regenerated by
   harness/py2v.py on every run) computes the model's split_uri (what do_split / store1 above store).
   The three urllib.parse functions it calls are parameters of the translation, instantiated with the urllib model of
   Model/RegUri.v (validated against CPython on every run); the statement is about the glue: the fragment and the query
   are dropped from the base, the base is re-assembled from this URI's own scheme / netloc / path, the second component
   is parse_qs of this URI's own query, or None when there is none. *)
From Verif Require Lib.PyOps Gen.Src_uri Proofs.Src_refine_uri.
Theorem C06_split_uri_is_source : forall uri clock,
  Src_uri.split_uri_src Src_refine_uri.env_parse_qs Src_refine_uri.env_urlsplit Src_refine_uri.env_urlunsplit (VStr uri) clock
  = Src_refine_uri.lift_pv (RegUri.split_uri uri) Src_refine_uri.inject_split_uri.
Proof. exact Src_refine_uri.split_uri_refines. Qed.
Print Assumptions C06_split_uri_is_source.

(* the response names one URI per URI sent, each computed from its own stored pair *)
Theorem C06_registration_echo : forall ct co l st ec,
  register ct co l = Ok (st, ec) ->
  store_list ct (must_https ct co) l = Ok st /\ ec = List.map echo1 st /\ List.length ec = List.length l.
Proof. exact register_echo. Qed.
Print Assumptions C06_registration_echo.

(* registration, then authorization: whatever is served was matched against the stored form of ONE URI of
   the registration request, which is store1 of that URI alone (scheme, path, params, query multimap; netloc
   exactly, or after loopback port stripping on both sides for a native client) *)
Theorem C06_registered_served_own : forall ct co l oidc u v,
  decide_registered ct co l oidc (Some u) = Redirectable v ->
  v = u /\
  exists uri x, In uri l /\ store1 ct (must_https ct co) uri = Ok x /\
    exists d p bp, unquote u = Ok d /\ urlparse d = Ok p /\ urlparse (fst x) = Ok bp /\
      fragment p = [] /\ hostname p <> None /\
      scheme p = scheme bp /\ path p = path bp /\ params p = params bp /\
      (exists qd, parse_qs true (query p) = Ok qd /\ qd_eqb qd (snd x) = true) /\
      (if is_native ct
       then exists p' r', norm_native p = Ok p' /\ norm_native bp = Ok r' /\ netloc p' = netloc r'
       else netloc p = netloc bp).
Proof. exact served_after_registration. Qed.
Print Assumptions C06_registered_served_own.

Theorem C06_registered_refused_direct : forall ct co l oidc u,
  verify_registered ct co l oidc u <> Ok tt -> forall v, decide_registered ct co l oidc (Some u) <> Redirectable v.
Proof. exact refused_after_registration. Qed.
Print Assumptions C06_registered_refused_direct.

(* ================================================================== non-vacuity *)
Definition lo4 : pystr := PS "http://127.0.0.1:8000/cb"%string.
Example C06_nonvacuous_match :
  verify_uri [RPair cb None] false true cb = Ok tt
  /\ verify_uri [RPair cb (Some [(PS "foo"%string, [PS "bar"%string])])] false true (cb ++ PS "?foo=bar"%string) = Ok tt
  /\ verify_uri [RPair cb (Some [(PS "foo"%string, [PS "bar"%string])])] false true cb = Err redirect_error
  /\ verify_uri [RPair lo4 None] true true (PS "http://127.0.0.1:51234/cb"%string) = Ok tt
  /\ verify_uri [RPair lo4 None] false true (PS "http://127.0.0.1:51234/cb"%string) = Err redirect_error
  /\ verify_uri [RPair cb None] false true (PS "https://client.example.com@evil.example.org/cb"%string) = Err redirect_error
  /\ verify_uri [RPair cb None] false true (PS "https://client.example.com.evil.org/cb"%string) = Err redirect_error
  /\ verify_uri [RPair cb None] false true (cb ++ PS "#x"%string) = Err uri_error
  /\ verify_uri [RPair cb None] false true (cb ++ PS "%23x"%string) = Err uri_error.
Proof. repeat split; vm_compute; reflexivity. Qed.
Example C06_nonvacuous_complete :
  exists p, In (RPair lo4 None) [RPair cb None; RPair lo4 None] /\ regs_ok [RPair cb None; RPair lo4 None] true
            /\ plain lo4 = true /\ dirty lo4 = false /\ has_c 35 lo4 = false
            /\ urlparse lo4 = Ok p /\ basic_checks p = Ok tt /\ query p = [].
Proof.
  eexists. split; [right; left; reflexivity|]. split.
  - eexists. split; [vm_compute; reflexivity|]. intros _. eexists. vm_compute. reflexivity.
  - repeat split; vm_compute; reflexivity.
Qed.
Example C06_nonvacuous_pieces : clean cb = true /\ clean lo4 = true /\ exists p, urlparse cb = Ok p.
Proof. repeat split; try (vm_compute; reflexivity). eexists. vm_compute. reflexivity. Qed.
Example C06_nonvacuous_decide :
  decide [RPair cb None] false true (Some cb) = Redirectable cb
  /\ decide [RPair cb None] false true (Some (PS "https://evil.example.org/cb"%string)) = DirectError
  /\ decide [RPair cb None] false true (Some (cb ++ PS "#x"%string)) = Raised uri_error
  /\ decide [RPair cb None] false false None = Redirectable cb
  /\ decide [RPair cb None; RPair lo4 None] false false None = DirectError.
Proof. repeat split; vm_compute; reflexivity. Qed.
Example C06_nonvacuous_delivery :
  deliver_url cb [(PS "state"%string, FStr (PS "a&b=c#d"%string)); (PS "scope"%string, FList [PS "openid"%string; PS "email"%string])] false
    = Ok (cb ++ PS "?state=a%26b%3Dc%23d&scope=openid+email"%string)
  /\ read_page (form_page cb [(PS "state"%string, PS """><script>alert(1)</script>"%string)])
     = Some (cb, [(PS "state"%string, PS """><script>alert(1)</script>"%string)])
  /\ logout_target (PS "https://c.example/lo?x=1"%string) (Some (PS "st"%string)) = Ok (PS "https://c.example/lo?x=1&state=st"%string).
Proof. repeat split; vm_compute; reflexivity. Qed.

(* two clients, two requests in flight; every order of the calls gives each request its own answer *)
Definition cb2 : pystr := PS "https://rp-b.example.net/callback"%string.
Definition rq_a : areq := mk_areq [RPair cb None] false true (Some cb) false false [(PS "state"%string, FStr (PS "sa"%string))].
Definition rq_b : areq := mk_areq [RPair cb2 (Some [(PS "rp"%string, [PS "b"%string])])] false true
                            (Some (cb2 ++ PS "?rp=b"%string)) true false [(PS "state"%string, FStr (PS "sb"%string))].
Example C06_nonvacuous_flight :
  answer1 rq_a = ARedirect (cb ++ PS "?state=sa"%string)
  /\ answer1 rq_b = APage (form_page (cb2 ++ PS "?rp=b"%string) [(PS "state"%string, PS "sb"%string)])
  /\ run_flight ep_model [rq_a; rq_b] [EvParse 0; EvParse 1; EvProcess 0; EvProcess 1; EvRespond 0; EvRespond 1]%nat
     = [(0%nat, answer1 rq_a); (1%nat, answer1 rq_b)]
  /\ run_flight ep_model [rq_a; rq_b] [EvParse 1; EvParse 0; EvProcess 1; EvAuth 0; EvRespond 1; EvPart2 0; EvRespond 0]%nat
     = [(1%nat, answer1 rq_b); (0%nat, answer1 rq_a)]
  /\ run_flight ep_model [rq_a; set_uri rq_a (PS "https://evil.example.org/cb"%string)] [EvParse 0; EvParse 1; EvProcess 0; EvRespond 0]%nat
     = [(1%nat, ADirect); (0%nat, answer1 rq_a)].
Proof. repeat split; vm_compute; reflexivity. Qed.
(* the independence statement has content: an endpoint object that remembers the URI it verified last
   and uses it for the next response sends the answer of request 0 to the target of request 1 *)
Example C06_flight_register_refuted :
  run_flight ep_register [rq_a; rq_b] [EvParse 0; EvParse 1; EvProcess 0; EvRespond 0]%nat
  = [(0%nat, ARedirect (cb2 ++ PS "?rp=b&state=sa"%string))]
  /\ own_answer ep_register rq_a = answer1 rq_a
  /\ ARedirect (cb2 ++ PS "?rp=b&state=sa"%string) <> answer1 rq_a.
Proof. repeat split; try (vm_compute; reflexivity). vm_compute. discriminate. Qed.

(* completion: the URI is registered when the request is parsed and de-registered (replaced) before the response
   is built - nothing is sent; registered again - the answer goes there; a stored request with a never
   registered or a fragment-bearing URI - nothing is sent, also when completion failed and a response mode is given *)
Definition newcb : pystr := PS "https://client.example.com/new-cb"%string.
Definition evil : pystr := PS "https://evil.example.org/collect"%string.
Definition rq_e (u : pystr) : areq :=
  mk_areq [RPair cb None] false true (Some u) true false [(PS "error"%string, FStr (PS "server_error"%string))].
Example C06_nonvacuous_completion :
  answer_at false false false (Reg [RPair newcb None] false) MNone rq_a = AOther
  /\ answer_at false true false (Reg [RPair newcb None] false) MNone rq_a = AOther
  /\ answer_at false false false (Reg [RPair newcb None; RPair cb None] false) MNone rq_a = answer1 rq_a
  /\ answer_at false false false Gone MQuery rq_a = AOther
  /\ answer_at false false false (Reg [RPair cb None] false) MNone (set_uri rq_a evil) = ADirect
  /\ answer_at true false false (Reg [RPair cb None] false) MNone (set_uri rq_a evil) = AOther
  /\ answer_at true false true (Reg [RPair cb None] false) MForm (rq_e evil) = AOther
  /\ answer_at true false true (Reg [RPair cb None] false) MForm (rq_e (evil ++ [35])) = AOther
  /\ answer_at true false true (Reg [RPair cb None] false) MQuery (rq_e (cb ++ [35])) = AOther
  /\ answer_at true false true (Reg [RPair cb None] false) MForm (rq_e cb)
     = APage (form_page cb [(PS "error"%string, PS "server_error"%string)])
  /\ answer_at true false false (Reg [RPair cb None] false) MNone rq_a = answer1 rq_a.
Proof. repeat split; vm_compute; reflexivity. Qed.
(* the statements have content: a completion step that, when the second judgement fails, fills in the request's
   own redirect_uri as the place to send the error to, posts the error to a never registered URI and redirects
   to a de-registered one *)
Example C06_completion_unverified_refuted :
  complete_unverified (Reg [RPair cb None] false) MForm (rq_e (evil ++ [35]))
  = APage (form_page (evil ++ [35]) [(PS "error"%string, PS "server_error"%string)])
  /\ complete_unverified (Reg [RPair newcb None] false) MQuery rq_a = ARedirect (cb ++ PS "?state=sa"%string)
  /\ complete (Reg [RPair cb None] false) MForm true (rq_e (evil ++ [35])) = AOther
  /\ complete (Reg [RPair newcb None] false) MQuery true rq_a = AOther.
Proof. repeat split; vm_compute; reflexivity. Qed.

(* registration -> authorization has content: a native client's list of a custom-scheme URI, a loopback URI with
   a query and one without; each is stored as its own split whatever the order, the loopback URI is served with
   its registered query on any port and refused without it or with another one *)
Definition ru_app : pystr := PS "com.example.app://cb"%string.
Definition ru_loq : pystr := PS "http://127.0.0.1:8080/cb?tenant=alpha"%string.
Definition ru_lo : pystr := PS "http://localhost/done"%string.
Definition ru_appq : pystr := PS "com.example.app://cb?x=1"%string.
Definition st_loq : stored := (PS "http://127.0.0.1:8080/cb"%string, [(PS "tenant"%string, [PS "alpha"%string])]).
Example C06_nonvacuous_registration :
  store_list Registration.S_native false [ru_app; ru_loq; ru_lo] = Ok [(ru_app, []); st_loq; (ru_lo, [])]
  /\ store_list Registration.S_native false [ru_loq; ru_lo; ru_app] = Ok [st_loq; (ru_lo, []); (ru_app, [])]
  /\ register Registration.S_native true [ru_app; ru_loq] = Ok ([(ru_app, []); st_loq], [ru_app; ru_loq])
  /\ decide_registered Registration.S_native true [ru_app; ru_loq] true (Some (PS "http://127.0.0.1:51004/cb?tenant=alpha"%string))
     = Redirectable (PS "http://127.0.0.1:51004/cb?tenant=alpha"%string)
  /\ decide_registered Registration.S_native true [ru_app; ru_loq] true (Some (PS "http://127.0.0.1:8080/cb"%string)) = DirectError
  /\ decide_registered Registration.S_native true [ru_app; ru_loq] true (Some (PS "http://127.0.0.1:8080/cb?tenant=beta"%string)) = DirectError
  /\ decide_registered Registration.S_web true [ru_loq] true (Some (PS "http://127.0.0.1:51004/cb?tenant=alpha"%string)) = DirectError
  /\ store_list Registration.S_native false [ru_lo; ru_appq] = Ok [(ru_lo, []); (ru_app, [(PS "x"%string, [PS "1"%string])])]
  /\ decide_registered Registration.S_native true [ru_lo; ru_appq] true (Some ru_appq) = Redirectable ru_appq
  /\ decide_registered Registration.S_native true [ru_lo; ru_appq] true (Some ru_app) = DirectError
  /\ store_list Registration.S_web true [ru_loq] = Err (Refused 3)
  /\ store_list Registration.S_web false [ru_loq; ru_app] = Err (Refused 4).
Proof. repeat split; vm_compute; reflexivity. Qed.

(* --- round 12: the loopback list and the default encoding of the response are the source's --- *)
From Verif Require Gen.Src_authz Proofs.Src_refine_authz.
Theorem C06_is_localhost_is_source : forall p clock,
  Src_authz.is_localhost_uri_src (Src_refine_authz.inject_host p) clock = Ok (VBool (Uri.is_localhost p)).
Proof. exact Src_refine_authz.is_localhost_uri_refines. Qed.
Print Assumptions C06_is_localhost_is_source.
Theorem C06_fragment_encoding_is_source : forall rt clock,
  Src_authz.fragment_encoding_src (VList (List.map VStr rt)) clock = Ok (VBool (Src_refine_authz.fragment_encoding rt)).
Proof. exact Src_refine_authz.fragment_encoding_refines. Qed.
Print Assumptions C06_fragment_encoding_is_source.
Theorem C06_query_delivery_only_for_code : forall rt,
  Src_refine_authz.fragment_encoding rt = false <-> rt = [PS "code"%string].
Proof. exact Src_refine_authz.fragment_encoding_false_iff. Qed.
Print Assumptions C06_query_delivery_only_for_code.
(* --- end round 12 --- *)
