(* Props/C07.v — property C07: released user claims are bounded by what the token authorises.
   Statements only; proofs in Proofs/Claims_proofs.v.  Model/Claims.v is tied to the real ClaimsInterface by
   harness/drv_C07.py (restriction and released claims of generated configurations compared on every run) and the
   oracle bounds what the real userinfo / ID Token / introspection / JWT access token actually contain.
   "Nothing for an invalid token" rests on C03/C04 (a dead or unresolvable token is refused before any claim is
   computed) and is probed by the oracle; "does not depend on earlier flows" is C20's and is probed by the oracle
   (same flow on a long-lived and on a fresh provider). *)
From Coq Require Import String List.
From Verif Require Import Lib.Base Lib.PyStr Model.Claims Proofs.Claims_proofs.
Import ListNotations.
Open Scope string_scope.

(* Every released attribute is listed in the restriction, is the user's own non-null value, and satisfies the
   value / values constraint of its specification. *)
Theorem C07_released_bound : forall ui r k v,
  In (k, v) (user_claims ui r) ->
  exists spec, In (k, spec) r /\ assoc k ui = Some v /\ claims_match (Some v) spec = true /\ v <> VNone.
Proof. exact released_bound. Qed.
Print Assumptions C07_released_bound.

(* The restriction's keys come only from: the release point's base claims, its always-add claims (or the
   client's, when per-client claims are enabled), the claims mapped from the token's scopes, and the claims
   parameter of the authorization request for that release point. *)
Theorem C07_restriction_sources : forall pm m cl point secondary scopes req k,
  In k (keys (get_claims pm m cl point secondary scopes req)) ->
  In k (keys m.(m_base))
  \/ In k (always_keys m.(m_always))
  \/ (exists c, cl = Some c /\ m.(m_per_client) = true /\ In k (snd (client_claims m c point secondary)))
  \/ scope_claim pm cl scopes k
  \/ In k (keys req).
Proof. exact restriction_sources. Qed.
Print Assumptions C07_restriction_sources.

(* Scope-derived claims need a scope that the token carries AND the client is allowed. *)
Theorem C07_scope_claims_need_allowed_scope : forall pm allowed cmap scopes k,
  In k (keys (scopes_to_claims pm allowed cmap scopes)) ->
  exists s, In s scopes /\ In s (match allowed with Some a => a | None => List.map fst pm end).
Proof. exact scope_claim_from_allowed_scope. Qed.
Print Assumptions C07_scope_claims_need_allowed_scope.

Theorem C07_no_restriction_no_claims : forall ui, user_claims ui [] = [].
Proof. exact no_restriction_no_claims. Qed.
Print Assumptions C07_no_restriction_no_claims.

Theorem C07_null_never_released : forall c, claims_match (Some VNone) c = false /\ claims_match None c = false.
Proof. exact claims_match_null. Qed.
Print Assumptions C07_null_never_released.

(* the claims a scope list stands for do not depend on the order in which the scopes are listed (nor on repetitions):
   same claim names, each with the null specification *)
Theorem C07_scope_order_irrelevant : forall pm allowed cmap s1 s2,
  (forall x, In x s1 <-> In x s2) ->
  (forall k, In k (keys (scopes_to_claims pm allowed cmap s1)) <-> In k (keys (scopes_to_claims pm allowed cmap s2)))
  /\ all_null (scopes_to_claims pm allowed cmap s1) /\ all_null (scopes_to_claims pm allowed cmap s2).
Proof. exact scope_order_irrelevant. Qed.
Print Assumptions C07_scope_order_irrelevant.

(* ---- the token's own scope (a token minted by a refresh request with a narrower scope, by a refresh of such a
   refresh, or by a down-scoping token exchange has a scope that is a proper subset of its grant's).  Every release point
   hands the scope of the presented / minted token to get_claims; tied to the real userinfo, introspection, ID Token and
   JWT access token by the correspondence of drv_C07.downscoped_tokens on such tokens. ---- *)

(* what is released for a token with scope ts is bounded by the claims of ts (scopes the TOKEN carries and the client is
   allowed), never by the grant's scope gs *)
Theorem C07_token_scope_bound : forall pm m cl point sec ts gs req ui k v,
  In (k, v) (release_tok pm m cl point sec (Some ts) gs req ui) ->
  (In k (keys m.(m_base))
   \/ In k (always_keys m.(m_always))
   \/ (exists c, cl = Some c /\ m.(m_per_client) = true /\ In k (snd (client_claims m c point sec)))
   \/ (scope_claim pm cl ts k /\
       exists s, In s ts /\ In s (match (match cl with Some c => c.(c_allowed_scopes) | None => None end) with
                                  | Some a => a | None => List.map fst pm end))
   \/ In k (keys req))
  /\ assoc k ui = Some v /\ v <> VNone.
Proof. exact token_scope_bound. Qed.
Print Assumptions C07_token_scope_bound.

Theorem C07_grant_scope_irrelevant : forall pm m cl point sec ts gs1 gs2 req ui,
  release_tok pm m cl point sec (Some ts) gs1 req ui = release_tok pm m cl point sec (Some ts) gs2 req ui.
Proof. exact grant_scope_irrelevant. Qed.
Print Assumptions C07_grant_scope_irrelevant.

(* monotone: a narrower token scope permits no more (same claim with the same or the null specification) ... *)
Theorem C07_restriction_monotone_in_token_scope : forall pm m cl point sec ts1 ts2 req,
  (forall s, In s ts1 -> In s ts2) ->
  permits_more (get_claims pm m cl point sec ts1 req) (get_claims pm m cl point sec ts2 req).
Proof. exact restriction_monotone_in_token_scope. Qed.
Print Assumptions C07_restriction_monotone_in_token_scope.

(* ... and never releases more; base_claims is a Python dict, so its keys are unique *)
Theorem C07_narrower_token_never_more : forall pm m cl point sec ts1 ts2 gs1 gs2 req ui k v,
  NoDup (keys m.(m_base)) ->
  (forall s, In s ts1 -> In s ts2) ->
  In (k, v) (release_tok pm m cl point sec (Some ts1) gs1 req ui) ->
  In (k, v) (release_tok pm m cl point sec (Some ts2) gs2 req ui).
Proof. exact narrower_token_never_more. Qed.
Print Assumptions C07_narrower_token_never_more.

(* a down-scoped token releases nothing that a token carrying the grant's whole scope would not release *)
Theorem C07_downscoped_within_grant : forall pm m cl point sec ts gs req ui k v,
  NoDup (keys m.(m_base)) ->
  (forall s, In s ts -> In s gs) ->
  In (k, v) (release_tok pm m cl point sec (Some ts) gs req ui) ->
  In (k, v) (release_tok pm m cl point sec None gs req ui).
Proof. exact downscoped_within_grant. Qed.
Print Assumptions C07_downscoped_within_grant.

(* non-vacuity: email by scope (allowed), phone by scope (not allowed for the client), nickname by claims request with
   a value constraint that the user does not meet, name always added *)
Definition pm : scope_map := [(PS "openid", [PS "sub"]); (PS "email", [PS "email"; PS "email_verified"]); (PS "phone", [PS "phone_number"])].
Definition ui : list (pystr * pyval) :=
  [(PS "name", VStr (PS "Diana")); (PS "email", VStr (PS "d@example.org")); (PS "phone_number", VStr (PS "1")); (PS "nickname", VStr (PS "Dina"))].
Example C07_nonvacuous :
  let m := mkModule [] true (Some (AList [PS "name"])) false in
  let cl := mkClient None [] (Some [PS "openid"; PS "email"]) None in
  let r := get_claims pm m (Some cl) (PS "userinfo") [] [PS "openid"; PS "email"; PS "phone"]
                      [(PS "nickname", Some [SValue (VStr (PS "Other"))])] in
  keys (user_claims ui r) = [PS "name"; PS "email"].
Proof. vm_compute. reflexivity. Qed.

(* non-vacuity of the token-scope theorems: the grant has openid + email, the token was down-scoped to openid; the
   down-scoped token releases only the always-added name, the grant-scope token also the e-mail address *)
Example C07_downscoped_nonvacuous :
  let m := mkModule [] true (Some (AList [PS "name"])) false in
  let cl := mkClient None [] (Some [PS "openid"; PS "email"]) None in
  keys (release_tok pm m (Some cl) (PS "userinfo") [] (Some [PS "openid"]) [PS "openid"; PS "email"] [] ui) = [PS "name"]
  /\ keys (release_tok pm m (Some cl) (PS "userinfo") [] None [PS "openid"; PS "email"] [] ui) = [PS "name"; PS "email"].
Proof. vm_compute. split; reflexivity. Qed.

(* ---- ID Tokens minted by the AUTHORIZATION endpoint (response types id_token, code id_token, id_token token,
   code id_token token).  Their release point is a function of the response type: idt_release_point rt = (id_token,
   userinfo) exactly when rt is `id_token` alone (no access token will ever exist, OIDC Core 5.4), (id_token, none) - the
   release point of the token endpoint's ID Tokens - otherwise.  Tied to the real authorization endpoint by
   drv_C07.authz_endpoint_id_tokens: every ID Token found in an authorization response is decoded and compared, as a set,
   with release_authz_idt for the response type that was asked for. ---- *)
Theorem C07_id_token_alone_spec : forall rt,
  id_token_alone rt = true <-> rt <> [] /\ forall w, In w rt -> w = W_id_token.
Proof. exact id_token_alone_spec. Qed.
Print Assumptions C07_id_token_alone_spec.

Theorem C07_idt_release_point_alone : forall rt,
  id_token_alone rt = true -> idt_release_point rt = (W_id_token, W_userinfo).
Proof. exact idt_release_point_alone. Qed.
Print Assumptions C07_idt_release_point_alone.

Theorem C07_idt_release_point_not_alone : forall rt,
  id_token_alone rt = false -> idt_release_point rt = idt_release_point_token_endpoint.
Proof. exact idt_release_point_not_alone. Qed.
Print Assumptions C07_idt_release_point_not_alone.

(* any word other than id_token in the response type (code, token) makes the ID Token an id_token release only *)
Theorem C07_other_word_not_alone : forall rt w, In w rt -> w <> W_id_token -> id_token_alone rt = false.
Proof. exact other_word_not_alone. Qed.
Print Assumptions C07_other_word_not_alone.

(* for every response type other than `id_token` alone the ID Token of the authorization response is bounded by the
   id_token rules: the client's always-add claims FOR id_token only, scope-derived claims only if the id_token switch
   (the client's by_scope.id_token, else the handler's add_claims_by_scope) is on *)
Theorem C07_authz_idt_bound_id_token_rules : forall pm m cl rt ts gs req ui k v,
  id_token_alone rt = false ->
  In (k, v) (release_authz_idt pm m cl rt (Some ts) gs req ui) ->
  (In k (keys m.(m_base))
   \/ ((cl = None \/ m.(m_per_client) = false) /\ In k (always_keys m.(m_always)))
   \/ (exists c, cl = Some c /\ m.(m_per_client) = true /\ In k (always_at c W_id_token))
   \/ (by_scope_rule m cl W_id_token = true /\ scope_claim pm cl ts k /\
       exists s, In s ts /\ In s (match (match cl with Some c => c.(c_allowed_scopes) | None => None end) with
                                  | Some a => a | None => List.map fst pm end))
   \/ In k (keys req))
  /\ assoc k ui = Some v /\ v <> VNone.
Proof. exact authz_idt_bound_id_token_rules. Qed.
Print Assumptions C07_authz_idt_bound_id_token_rules.

(* what the client configured for other release points is irrelevant to such an ID Token ... *)
Theorem C07_authz_idt_other_points_irrelevant : forall pm m c1 c2 rt ts gs req ui,
  id_token_alone rt = false ->
  by_scope_at c1 W_id_token = by_scope_at c2 W_id_token -> always_at c1 W_id_token = always_at c2 W_id_token ->
  c_allowed_scopes c1 = c_allowed_scopes c2 -> c_scope_map c1 = c_scope_map c2 ->
  release_authz_idt pm m (Some c1) rt ts gs req ui = release_authz_idt pm m (Some c2) rt ts gs req ui.
Proof. exact authz_idt_other_points_irrelevant. Qed.
Print Assumptions C07_authz_idt_other_points_irrelevant.

(* ... in particular a userinfo-only configuration contributes nothing *)
Theorem C07_authz_idt_userinfo_config_contributes_nothing : forall pm m c rt ts gs req ui,
  id_token_alone rt = false ->
  release_authz_idt pm m (Some c) rt ts gs req ui = release_authz_idt pm m (Some (without_point W_userinfo c)) rt ts gs req ui.
Proof. exact authz_idt_userinfo_config_contributes_nothing. Qed.
Print Assumptions C07_authz_idt_userinfo_config_contributes_nothing.

(* response type `id_token` alone: id_token rules plus the client's userinfo entries, nothing of any other point *)
Theorem C07_authz_idt_alone_bound : forall pm m cl rt ts gs req ui k v,
  id_token_alone rt = true ->
  In (k, v) (release_authz_idt pm m cl rt (Some ts) gs req ui) ->
  (In k (keys m.(m_base))
   \/ In k (always_keys m.(m_always))
   \/ (exists c, cl = Some c /\ m.(m_per_client) = true /\ (In k (always_at c W_id_token) \/ In k (always_at c W_userinfo)))
   \/ (scope_claim pm cl ts k /\
       exists s, In s ts /\ In s (match (match cl with Some c => c.(c_allowed_scopes) | None => None end) with
                                  | Some a => a | None => List.map fst pm end))
   \/ In k (keys req))
  /\ assoc k ui = Some v /\ v <> VNone.
Proof. exact authz_idt_alone_bound. Qed.
Print Assumptions C07_authz_idt_alone_bound.

(* non-vacuity: per-client claims on, the client configures ONLY userinfo (always e-mail, scope-derived claims on), the ID
   Token handler's own switch is off.  `id_token` alone: the ID Token is the userinfo release (e-mail twice over: always
   and by scope).  code id_token / id_token token / code id_token token: nothing. *)
Example C07_authz_idt_nonvacuous :
  let m := mkModule [] false None true in
  let cl := mkClient (Some [(PS "userinfo", true)]) [(PS "userinfo", [PS "name"])] (Some [PS "openid"; PS "email"]) None in
  let sc := [PS "openid"; PS "email"] in
  keys (release_authz_idt pm m (Some cl) [PS "id_token"] (Some sc) sc [] ui) = [PS "name"; PS "email"]
  /\ release_authz_idt pm m (Some cl) [PS "code"; PS "id_token"] (Some sc) sc [] ui = []
  /\ release_authz_idt pm m (Some cl) [PS "id_token"; PS "token"] (Some sc) sc [] ui = []
  /\ release_authz_idt pm m (Some cl) [PS "token"; PS "id_token"; PS "code"] (Some sc) sc [] ui = [].
Proof. vm_compute. repeat split; reflexivity. Qed.

(* Tie to the source: Gen/Src_claims.v is the CURRENT idpyoidc.server.session.claims.claims_match, translated by
   harness/py2v.py on every run.  inject_spec is the Python value of a claim specification (None or the dict, in
   insertion order); spec_ok: an SOther item stands for a key other than "value" / "values" / "essential". *)
From Verif Require Lib.PyOps Gen.Src_claims Proofs.Src_refine_claims.
Theorem C07_claims_match_is_source : forall v c clock,
  Src_refine_claims.spec_ok c = true ->
  Src_claims.claims_match_src v (Src_refine_claims.inject_spec c) clock = Ok (VBool (claims_match (Some v) c)).
Proof. exact Src_refine_claims.claims_match_refines. Qed.
Print Assumptions C07_claims_match_is_source.

(* --- round 11 --- *)
(* Multi-valued (list-valued) user attributes.  The filter hands the attribute as stored to claims_match: a list is ONE
   value.  Model/ClaimsMV.v: release_attr (by attribute shape), carried / permitted_values / value_restricted, the
   value-by-value judgement values_within.  Tied to the real ClaimsInterface and to the real release points by
   drv_C07.multi_valued_unit / multi_valued_release_points (user records whose attributes are lists mixing permitted
   and non-permitted values, empty and one-element lists, lists of dicts x null / essential / value / values /
   essential+value(s) specifications from the claims parameter, dict-form base_claims and dict-form always_add_claims). *)
From Verif Require Model.ClaimsMV Proofs.ClaimsMV_proofs.

(* the hand-written released-claims function IS the shape-wise one *)
Theorem C07_user_claims_by_shape : forall ui r,
  user_claims ui r =
  List.flat_map (fun kv => match assoc (fst kv) ui with
                           | Some v => match ClaimsMV.release_attr v (snd kv) with Some x => [(fst kv, x)] | None => [] end
                           | None => [] end) r.
Proof. exact ClaimsMV_proofs.user_claims_by_shape. Qed.
Print Assumptions C07_user_claims_by_shape.

Theorem C07_release_attr_is_claims_match : forall v c,
  ClaimsMV.release_attr v c = if claims_match (Some v) c then Some v else None.
Proof. exact ClaimsMV_proofs.release_attr_spec. Qed.
Print Assumptions C07_release_attr_is_claims_match.

(* a released value of a value-restricted claim is (Python ==) a permitted value, for every attribute shape *)
Theorem C07_released_value_permitted : forall ui r k v,
  In (k, v) (user_claims ui r) ->
  exists spec, In (k, spec) r /\ assoc k ui = Some v /\
    forall s, spec = Some s -> ClaimsMV.value_restricted s = true ->
              exists p, In p (ClaimsMV.permitted_values s) /\ pyval_eqb v p = true.
Proof. exact ClaimsMV_proofs.released_value_permitted. Qed.
Print Assumptions C07_released_value_permitted.

(* a released LIST under a value restriction is itself listed as a permitted value - never let out element-wise *)
Theorem C07_released_list_permitted_as_a_whole : forall ui r k l,
  In (k, VList l) (user_claims ui r) ->
  exists spec, In (k, spec) r /\
    forall s, spec = Some s -> ClaimsMV.value_restricted s = true ->
              exists p, In p (ClaimsMV.permitted_values s) /\ ClaimsMV.is_list p = true /\ pyval_eqb (VList l) p = true.
Proof. exact ClaimsMV_proofs.released_list_permitted_as_a_whole. Qed.
Print Assumptions C07_released_list_permitted_as_a_whole.

(* value by value: what leaves lies within the specification in force *)
Theorem C07_released_values_within : forall ui r k v,
  In (k, v) (user_claims ui r) -> exists spec, In (k, spec) r /\ ClaimsMV.values_within spec v = true.
Proof. exact ClaimsMV_proofs.released_values_within. Qed.
Print Assumptions C07_released_values_within.

(* some elements permitted, the list as a whole not: withheld *)
Theorem C07_partial_match_withheld : forall l s,
  ClaimsMV.value_restricted s = true -> ClaimsMV.permitted s (VList l) = false -> ClaimsMV.release_attr (VList l) (Some s) = None.
Proof. exact ClaimsMV_proofs.partial_match_withheld. Qed.
Print Assumptions C07_partial_match_withheld.

Theorem C07_scalar_restriction_withholds_list : forall l s,
  ClaimsMV.value_restricted s = true ->
  forallb (fun p => negb (ClaimsMV.is_list p)) (ClaimsMV.permitted_values s) = true ->
  ClaimsMV.release_attr (VList l) (Some s) = None.
Proof. exact ClaimsMV_proofs.scalar_restriction_withholds_list. Qed.
Print Assumptions C07_scalar_restriction_withholds_list.

Theorem C07_multi_valued_withheld : forall ui r k l s,
  NoDup (keys r) -> In (k, Some s) r -> assoc k ui = Some (VList l) ->
  ClaimsMV.value_restricted s = true -> ClaimsMV.permitted s (VList l) = false ->
  ~ In k (keys (user_claims ui r)).
Proof. exact ClaimsMV_proofs.multi_valued_withheld. Qed.
Print Assumptions C07_multi_valued_withheld.

(* no value restriction (null, `essential` alone): the whole list leaves, also the empty one *)
Theorem C07_multi_valued_unrestricted : forall l,
  ClaimsMV.release_attr (VList l) None = Some (VList l)
  /\ forall b, ClaimsMV.release_attr (VList l) (Some [SEssential b]) = Some (VList l).
Proof. exact ClaimsMV_proofs.multi_valued_unrestricted. Qed.
Print Assumptions C07_multi_valued_unrestricted.

(* non-vacuity: affiliation [staff, member].  values [member] -> withheld (one of two elements permitted); value = the
   list itself -> released; values [staff, member] (element-wise all permitted) -> withheld; null -> released;
   essential + value member -> withheld; scalar attribute with the same restriction -> released *)
Example C07_multi_valued_nonvacuous :
  let staff := VStr (PS "staff@example.org") in let member := VStr (PS "member@example.org") in
  let rec_ := [(PS "affil", VList [staff; member]); (PS "one", member)] in
  user_claims rec_ [(PS "affil", Some [SValues [member]])] = []
  /\ user_claims rec_ [(PS "affil", Some [SValue (VList [staff; member])])] = [(PS "affil", VList [staff; member])]
  /\ user_claims rec_ [(PS "affil", Some [SValues [staff; member]])] = []
  /\ user_claims rec_ [(PS "affil", None)] = [(PS "affil", VList [staff; member])]
  /\ user_claims rec_ [(PS "affil", Some [SEssential (VBool true); SValue member])] = []
  /\ user_claims rec_ [(PS "one", Some [SEssential (VBool true); SValue member])] = [(PS "one", member)]
  /\ ClaimsMV.values_within (Some [SValues [member]]) (VList [staff; member]) = false
  /\ ClaimsMV.values_within (Some [SValues [member; staff]]) (VList [staff; member]) = true.
Proof. vm_compute. repeat split; reflexivity. Qed.
(* --- end round 11 --- *)
