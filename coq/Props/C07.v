(* Props/C07.v — property C07: released user claims are bounded by what the token authorises.
   Statements only; proofs in Proofs/Claims_proofs.v.  Model/Claims.v is tied to the real ClaimsInterface by
   harness/drv_C07.py (restriction and released claims of generated configurations compared on every run) and the
   oracle bounds what the real userinfo / ID Token / introspection / JWT access token actually contain.
   "Nothing for an invalid token" rests on C03/C04 (a dead or unresolvable token is refused before any claim is
   computed) and is probed by the oracle; "does not depend on earlier flows" is C20's and is probed by the oracle
   (same flow on a long-lived and on a fresh provider). *)
From Coq Require Import String List.
From Verif Require Import Lib.Base Lib.PyStr Model.Claims Proofs.Claims_proofs.
Import ListNotations.
Open Scope string_scope.

(* Every released attribute is listed in the restriction, is the user's own non-null value, and satisfies the
   value / values constraint of its specification. *)
Theorem C07_released_bound : forall ui r k v,
  In (k, v) (user_claims ui r) ->
  exists spec, In (k, spec) r /\ assoc k ui = Some v /\ claims_match (Some v) spec = true /\ v <> VNone.
Proof. exact released_bound. Qed.
Print Assumptions C07_released_bound.

(* The restriction's keys come only from: the release point's base claims, its always-add claims (or the
   client's, when per-client claims are enabled), the claims mapped from the token's scopes, and the claims
   parameter of the authorization request for that release point. *)
Theorem C07_restriction_sources : forall pm m cl point secondary scopes req k,
  In k (keys (get_claims pm m cl point secondary scopes req)) ->
  In k (keys m.(m_base))
  \/ In k (always_keys m.(m_always))
  \/ (exists c, cl = Some c /\ m.(m_per_client) = true /\ In k (snd (client_claims m c point secondary)))
  \/ scope_claim pm cl scopes k
  \/ In k (keys req).
Proof. exact restriction_sources. Qed.
Print Assumptions C07_restriction_sources.

(* Scope-derived claims need a scope that the token carries AND the client is allowed. *)
Theorem C07_scope_claims_need_allowed_scope : forall pm allowed cmap scopes k,
  In k (keys (scopes_to_claims pm allowed cmap scopes)) ->
  exists s, In s scopes /\ In s (match allowed with Some a => a | None => List.map fst pm end).
Proof. exact scope_claim_from_allowed_scope. Qed.
Print Assumptions C07_scope_claims_need_allowed_scope.

Theorem C07_no_restriction_no_claims : forall ui, user_claims ui [] = [].
Proof. exact no_restriction_no_claims. Qed.
Print Assumptions C07_no_restriction_no_claims.

Theorem C07_null_never_released : forall c, claims_match (Some VNone) c = false /\ claims_match None c = false.
Proof. exact claims_match_null. Qed.
Print Assumptions C07_null_never_released.

(* the claims a scope list stands for do not depend on the order in which the scopes are listed (nor on repetitions):
   same claim names, each with the null specification *)
Theorem C07_scope_order_irrelevant : forall pm allowed cmap s1 s2,
  (forall x, In x s1 <-> In x s2) ->
  (forall k, In k (keys (scopes_to_claims pm allowed cmap s1)) <-> In k (keys (scopes_to_claims pm allowed cmap s2)))
  /\ all_null (scopes_to_claims pm allowed cmap s1) /\ all_null (scopes_to_claims pm allowed cmap s2).
Proof. exact scope_order_irrelevant. Qed.
Print Assumptions C07_scope_order_irrelevant.

(* non-vacuity: email by scope (allowed), phone by scope (not allowed for the client), nickname by claims request with
   a value constraint that the user does not meet, name always added *)
Definition pm : scope_map := [(PS "openid", [PS "sub"]); (PS "email", [PS "email"; PS "email_verified"]); (PS "phone", [PS "phone_number"])].
Definition ui : list (pystr * pyval) :=
  [(PS "name", VStr (PS "Diana")); (PS "email", VStr (PS "d@example.org")); (PS "phone_number", VStr (PS "1")); (PS "nickname", VStr (PS "Dina"))].
Example C07_nonvacuous :
  let m := mkModule [] true (Some (AList [PS "name"])) false in
  let cl := mkClient None [] (Some [PS "openid"; PS "email"]) None in
  let r := get_claims pm m (Some cl) (PS "userinfo") [] [PS "openid"; PS "email"; PS "phone"]
                      [(PS "nickname", Some [SValue (VStr (PS "Other"))])] in
  keys (user_claims ui r) = [PS "name"; PS "email"].
Proof. vm_compute. reflexivity. Qed.
