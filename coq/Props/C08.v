(* Props/C08.v — property C08: the relying party accepts only valid ID Tokens.
   Only statements, each closed by `exact <lemma>`, with Print Assumptions, and non-vacuity Examples.
   The model is Model/IdToken.v (message API) and Model/RpState.v (client services); the schema tables are
   regenerated from /repo/src (Gen/RpTables.v).  lhash is the left-hash function (any function). *)
From Coq Require Import String.
From Verif Require Import Lib.Base Lib.PyStr Lib.Crypto Lib.RpTy Gen.RpTables Model.IdToken Model.RpState
     Model.RpExamples Proofs.IdToken_proofs Proofs.RpState_proofs.
Open Scope string_scope.

(* Message API (verify_id_token as called by oidc.AuthorizationResponse.verify with check_hash = true and by
   oidc.AccessTokenResponse.verify with check_hash = false).  Whenever a token is accepted, for the issuer i
   and client id c the caller expects: *)
Theorem C08_sound : forall lhash kw ch code atok t now d i c,
  verify_id_token lhash kw ch code atok t now = Ok d ->
  NoDup (List.map fst (t_claims t)) ->
  kw_iss kw = Some i -> kw_client_id kw = Some c ->
  (* 1 signed under a key registered for the issuer (or, for an HMAC, this client's own secret) with the
       expected algorithm; alg none only if sigalg none was expected or allow_sign_alg_none was set *)
  ((t_alg t = PS "none" /\ (kw_sigalg kw = Some (PS "none") \/ kw_allow_none kw = true))
   \/ (t_alg t <> PS "none"
       /\ (exists k e, alg2kty (t_alg t) = Some k /\ In e (kw_jar kw) /\ je_kty e = k /\
                       t_signer t = Some (je_key e) /\ (je_owner e = i \/ (je_owner e = [] /\ k = KOct)))
       /\ (forall a, kw_sigalg kw = Some a -> a <> [] -> t_alg t = a)
       /\ (forall a, kw_allowed_sign_alg kw = Some a -> t_alg t = a))) /\
  (* 2 the claims returned as verified are the coerced payload of this very token *)
  from_dict idtoken_params (t_claims t) [] = Ok d /\
  (* 3 names the issuer *)
  assoc (PS "iss") d = Some (VStr i) /\
  (* 4 lists this client in aud; azp, when present or when there are several audiences, is this client *)
  (exists aud, assoc (PS "aud") d = Some aud /\ py_in (VStr c) aud = Ok true /\
               (forall n, py_len aud = Ok n -> (1 < n)%nat -> assoc (PS "azp") d = Some (VStr c))) /\
  (forall azp, assoc (PS "azp") d = Some azp -> azp = VStr c) /\
  (* 5 unexpired, not issued in the future (within the skew), inside the storage window, exp >= iat *)
  (exists exp iat, assoc (PS "exp") d = Some (VInt exp) /\ assoc (PS "iat") d = Some (VInt iat) /\
                   (now - eff_skew kw <= exp)%Z /\ (iat <= now + eff_skew kw)%Z /\
                   (now - eff_skew kw <= iat + eff_storage kw)%Z /\ (iat <= exp)%Z) /\
  (* 6 the nonce argument, when given, is present in the token and equal *)
  (forall n, kw_nonce kw = Some n -> assoc (PS "nonce") d = Some (VStr n)) /\
  (* 7 delivered by the authorization endpoint with a code / access token: c_hash / at_hash match *)
  (ch = true -> t_alg t <> PS "none" ->
     (forall x, code = Some x -> assoc (PS "c_hash") d = Some (VStr (lhash (hash_bits (t_alg t)) x))) /\
     (forall x, atok = Some x -> assoc (PS "at_hash") d = Some (VStr (lhash (hash_bits (t_alg t)) x)))) /\
  (* 8 delivered as a JWE around the JWS: encrypted to one of this client's own decryption keys, with the
       expected key-management algorithm and content encryption; clauses 1-7 are about the JWS inside *)
  (forall w, t_wrap t = Some w ->
     (exists k, w_key w = Some k /\ In k (kw_dec kw)) /\
     (forall a, kw_encalg kw = Some a -> a <> [] -> w_alg w = a) /\
     (forall e, kw_encenc kw = Some e -> e <> [] -> w_enc w = e)).
Proof. exact verify_id_token_sound. Qed.
Print Assumptions C08_sound.

(* Encrypted delivery (nested JWT).  Decryption is the identity on the symbolic level, and an encrypted delivery
   establishes exactly what the delivery of the inner JWS to the same client without encryption expectations
   establishes - in particular the expected signing algorithm applies to the JWS inside ... *)
Theorem C08_encrypted_as_plain : forall lhash kw ch code atok t now d,
  verify_id_token lhash kw ch code atok t now = Ok d ->
  verify_id_token lhash (kw_plain kw) ch code atok (unwrap t) now = Ok d.
Proof. exact encrypted_as_plain. Qed.
Print Assumptions C08_encrypted_as_plain.

(* ... hence a JWE around a token that is refused when delivered plain is refused. *)
Theorem C08_refused_plain_refused_encrypted : forall lhash kw ch code atok t now,
  (forall d, verify_id_token lhash (kw_plain kw) ch code atok (unwrap t) now <> Ok d) ->
  forall d, verify_id_token lhash kw ch code atok t now <> Ok d.
Proof. exact refused_plain_refused_encrypted. Qed.
Print Assumptions C08_refused_plain_refused_encrypted.

(* non-vacuity: a client that registered RS256 and RSA-OAEP / A256GCM accepts the genuine token inside a JWE
   made for its key; refuses an ES256 token of the issuer inside the same kind of JWE, the genuine token inside a
   JWE for another key or with another key-management algorithm, and the genuine token delivered plain *)
Example C08_encrypted_nonvacuous :
  let c := ex_two_flows (ex_cfg_enc (Some (PS "RS256"))) in
  let deliver t := step_authz ex_lhash c (ex_authz_resp (PS "S1") (Some t)) ex_now in
  is_ok (snd (deliver (wrapped (ex_tok_rs (PS "N1")) ex_wrap))) = true /\
  deliver (wrapped (ex_tok_es (PS "N1")) ex_wrap) = (c, Err E_SignerAlgError) /\
  deliver (wrapped (ex_tok_rs (PS "N1")) (mkJwe (PS "RSA-OAEP") (PS "A256GCM") (Some 12%nat))) = (c, Err ValueError) /\
  deliver (wrapped (ex_tok_rs (PS "N1")) (mkJwe (PS "RSA-OAEP-256") (PS "A256GCM") (Some 11%nat))) = (c, Err E_HeaderError) /\
  deliver (ex_tok_rs (PS "N1")) = (c, Err E_HeaderError).
Proof. vm_compute. repeat split. Qed.

(* Authorization service of a real client (Service.parse_response + post_parse_response + finalize_auth):
   a __verified_id_token is stored / returned only if the delivered token passed verify_id_token under the
   client's own settings (so C08_sound applies with i = the client's issuer, c = its client id, check_hash on),
   and the nonce sent for that state is present in the token and equal. *)
Theorem C08_authorization_service : forall lhash c r now c' stored,
  step_authz lhash c r now = (c', Ok stored) -> has_key (PS "error") stored = false ->
  exists st rec,
    assoc (PS "state") stored = Some (VStr st) /\
    db_get (cl_db c) st = Ok rec /\
    assoc (PS "iss") rec = Some (VStr (eff_issuer (cl_cfg c))) /\
    (forall v, assoc (PS "iss") stored = Some v -> v = VStr (cf_issuer (cl_cfg c))) /\
    (cf_client_id (cl_cfg c) <> [] ->
     forall v, assoc (PS "client_id") stored = Some v -> v = VStr (cf_client_id (cl_cfg c))) /\
    c' = mkClient (cl_cfg c) (db_update (cl_db c) st stored) (cl_map c) /\
    (forall v, assoc (verified_name (PS "id_token")) stored = Some v ->
       exists t code atok vd, r_idt r = Some t /\ v = VDict vd /\
         verify_id_token lhash (svc_kwargs (cl_cfg c)) true code atok t now = Ok vd /\
         (forall n, assoc (PS "nonce") rec = Some (VStr n) -> n <> [] -> assoc (PS "nonce") vd = Some (VStr n))).
Proof. exact step_authz_accept. Qed.
Print Assumptions C08_authorization_service.

(* Token service (AccessToken.parse_response + update_service_context via StandAloneClient.get_tokens): the
   verified token passed verify_id_token, carries a nonce, and that nonce is bound to the very state the
   tokens were requested for. *)
Theorem C08_token_service : forall lhash c st r now c' stored,
  step_token lhash c st r now = (c', Ok stored) ->
  exists rec,
    db_get (cl_db c) st = Ok rec /\
    cl_cfg c' = cl_cfg c /\
    cl_db c' = db_update (cl_db c) st stored /\
    (forall v, assoc (verified_name (PS "id_token")) stored = Some v ->
       exists t vd n sub, r_idt r = Some t /\ v = VDict vd /\
         verify_id_token lhash (svc_kwargs (cl_cfg c)) false None None t now = Ok vd /\
         assoc (PS "nonce") vd = Some (VStr n) /\ assoc n (cl_map c) = Some st /\
         assoc (PS "sub") vd = Some (VStr sub) /\ cl_map c' = aset sub st (cl_map c) /\
         sub_clash (cl_db c) (cl_map c) st sub = false) /\
    (assoc (verified_name (PS "id_token")) stored = None -> cl_map c' = cl_map c).
Proof. exact step_token_accept. Qed.
Print Assumptions C08_token_service.

(* A __verified_id_token parameter supplied by the sender never survives: whatever is in the verified slot
   after verify() was put there by verify_id_token on the delivered token. *)
Theorem C08_forged_verified_claim_cleared : forall lhash kw d idt now d1,
  authz_response_verify lhash kw d idt now = Ok d1 ->
  param_matches d (PS "client_id") (kw_client_id kw) = Ok tt /\
  param_matches d (PS "iss") (kw_iss kw) = Ok tt /\
  (forall k, is_verified_name k = false -> assoc k d1 = assoc k d) /\
  (forall v, assoc (verified_name (PS "id_token")) d1 = Some v ->
     exists t code atok vd, idt = Some t /\ v = VDict vd /\
       opt_param (strip_verified d) (PS "code") = Ok code /\
       opt_param (strip_verified d) (PS "access_token") = Ok atok /\
       verify_id_token lhash kw true code atok t now = Ok vd).
Proof. exact authz_response_verify_inv. Qed.
Print Assumptions C08_forged_verified_claim_cleared.

(* A token failing any check is never stored: a refused operation leaves every client of the RP unchanged. *)
Theorem C08_reject_stores_nothing : forall lhash w o w' out,
  step lhash w o = (w', out) -> (forall d, out <> Ok d) -> w' = w.
Proof. exact step_reject. Qed.
Print Assumptions C08_reject_stores_nothing.

(* The ID-token signing algorithm the client registered - or, for a statically registered client, the one it is
   configured to use (id_token_signed_response_alg, default RS256) - is the only one the authorization service
   accepts (besides none, when explicitly allowed). *)
Theorem C08_expected_alg : forall lhash c r now c' stored v a,
  step_authz lhash c r now = (c', Ok stored) -> has_key (PS "error") stored = false ->
  assoc (verified_name (PS "id_token")) stored = Some v ->
  eff_sigalg (cl_cfg c) = Some a -> a <> [] ->
  exists t, r_idt r = Some t /\ (t_alg t = a \/ t_alg t = PS "none").
Proof. exact service_expected_alg. Qed.
Print Assumptions C08_expected_alg.

(* a statically registered client (no registration response) configured for RS256 refuses an ES256 token of
   the issuer *)
Example C08_expected_alg_static :
  let c := ex_two_flows (ex_cfg None (Some (PS "RS256")) false) in
  step_authz ex_lhash c (ex_authz_resp (PS "S1") (Some (ex_tok_es (PS "N1")))) ex_now = (c, Err E_SignerAlgError).
Proof. vm_compute. reflexivity. Qed.

(* FULL STATEMENT (false): "delivered with a code from the authorization endpoint => matching c_hash".
   With allow_sign_alg_none an unsigned token is accepted with a code and without any c_hash (clause 7 of
   C08_sound holds for signed tokens only): *)
Example C08_unsigned_hash_refuted :
  let c := ex_two_flows (ex_cfg None None true) in
  exists c' stored vd,
    step_authz ex_lhash c (ex_authz_resp (PS "S1") (Some (ex_tok_none (PS "N1")))) ex_now = (c', Ok stored) /\
    assoc (PS "code") stored = Some (VStr (PS "C1")) /\
    assoc (verified_name (PS "id_token")) stored = Some (VDict vd) /\ assoc (PS "c_hash") vd = None.
Proof. vm_compute. do 3 eexists. repeat split; reflexivity. Qed.

(* IdToken.verify(nonce = N) refuses a token that has no nonce claim *)
Example C08_msgapi_nonce_absent_refused :
  let kw := mkKw (Some ex_iss) (Some ex_cid) None None false (Some 0%Z) None false (Some (PS "N1")) ex_jar None None [] in
  let t := mkTok (PS "RS256") (Some (PS "r1")) (Some 0%nat)
                 [(PS "iss", VStr ex_iss); (PS "sub", VStr (PS "diana")); (PS "aud", VList [VStr ex_cid]);
                  (PS "exp", VInt 1700000300); (PS "iat", VInt 1699999995)] None in
  verify_id_token ex_lhash kw false None None t ex_now = Err E_MissingRequiredAttribute.
Proof. vm_compute. reflexivity. Qed.

(* Unforgeability (symbolic, Lib/Crypto.v): if no key of the jar is ever published, the signature / MAC of
   an accepted signed token is a term the honest parties published. *)
Theorem C08_unforgeable : forall lhash (K : term -> Prop) kw ch code atok t now d i,
  (forall e, In e (kw_jar kw) -> forall x, K x -> ~ sub (Key (je_key e)) x) ->
  verify_id_token lhash kw ch code atok t now = Ok d ->
  NoDup (List.map fst (t_claims t)) -> kw_iss kw = Some i -> t_alg t <> PS "none" ->
  exists k, t_signer t = Some k /\
    forall m, (derivable K (Sig k m) -> exists t0, K t0 /\ sub (Sig k m) t0) /\
              (derivable K (Mac k m) -> exists t0, K t0 /\ sub (Mac k m) t0).
Proof. exact accepted_token_genuine. Qed.
Print Assumptions C08_unforgeable.

(* non-vacuity: a genuine token is accepted through the authorization service and stored for its own state;
   the same token re-signed with a key that is not registered is refused and nothing changes *)
Example C08_nonvacuous :
  let c := ex_two_flows (ex_cfg (Some (PS "RS256")) (Some (PS "RS256")) false) in
  (exists c' stored vd,
     step_authz ex_lhash c (ex_authz_resp (PS "S1") (Some (ex_tok_rs (PS "N1")))) ex_now = (c', Ok stored) /\
     assoc (verified_name (PS "id_token")) stored = Some (VDict vd) /\
     assoc (PS "nonce") vd = Some (VStr (PS "N1")) /\ c' <> c) /\
  step_authz ex_lhash c
    (ex_authz_resp (PS "S1") (Some (mkTok (PS "RS256") (Some (PS "r1")) (Some 4%nat) (t_claims (ex_tok_rs (PS "N1"))) None)))
    ex_now = (c, Err E_BadSignature) /\
  step_authz ex_lhash c (ex_authz_resp (PS "S1") (Some (ex_tok_rs (PS "N2")))) ex_now = (c, Err ValueError).
Proof.
  vm_compute. split; [|split; reflexivity].
  do 3 eexists. split; [reflexivity|]. split; [reflexivity|]. split; [reflexivity|]. discriminate.
Qed.
