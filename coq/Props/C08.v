(* Props/C08.v — property C08: the relying party accepts only valid ID Tokens.
   Only statements, each closed by `exact <lemma>`, with Print Assumptions, and non-vacuity Examples.
   The model is Model/IdToken.v (message API) and Model/RpState.v (client services); the schema tables are
   regenerated from /repo/src (Gen/RpTables.v).  lhash is the left-hash function (any function). *)
From Coq Require Import String.
From Verif Require Import Lib.Base Lib.PyStr Lib.Crypto Lib.RpTy Gen.RpTables Model.IdToken Model.RpState
     Model.RpExamples Model.RpReuse Proofs.IdToken_proofs Proofs.RpState_proofs Proofs.RpReuse_proofs.
Open Scope string_scope.

(* Message API (verify_id_token as called by oidc.AuthorizationResponse.verify with check_hash = true and by
   oidc.AccessTokenResponse.verify with check_hash = false).  Whenever a token is accepted, for the issuer i
   and client id c the caller expects: *)
Theorem C08_sound : forall lhash kw ch code atok t now d i c,
  verify_id_token lhash kw ch code atok t now = Ok d ->
  NoDup (List.map fst (t_claims t)) ->
  kw_iss kw = Some i -> kw_client_id kw = Some c ->
  (* 1 signed under a key registered for the issuer (or, for an HMAC, this client's own secret) with the
       expected algorithm; alg none only if sigalg none was expected or allow_sign_alg_none was set *)
  ((t_alg t = PS "none" /\ (kw_sigalg kw = Some (PS "none") \/ kw_allow_none kw = true))
   \/ (t_alg t <> PS "none"
       /\ (exists k e, alg2kty (t_alg t) = Some k /\ In e (kw_jar kw) /\ je_kty e = k /\
                       t_signer t = Some (je_key e) /\ (je_owner e = i \/ (je_owner e = [] /\ k = KOct)))
       /\ (forall a, kw_sigalg kw = Some a -> a <> [] -> t_alg t = a)
       /\ (forall a, kw_allowed_sign_alg kw = Some a -> t_alg t = a))) /\
  (* 2 the claims returned as verified are the coerced payload of this very token *)
  from_dict idtoken_params (t_claims t) [] = Ok d /\
  (* 3 names the issuer *)
  assoc (PS "iss") d = Some (VStr i) /\
  (* 4 lists this client in aud; azp, when present or when there are several audiences, is this client *)
  (exists aud, assoc (PS "aud") d = Some aud /\ py_in (VStr c) aud = Ok true /\
               (forall n, py_len aud = Ok n -> (1 < n)%nat -> assoc (PS "azp") d = Some (VStr c))) /\
  (forall azp, assoc (PS "azp") d = Some azp -> azp = VStr c) /\
  (* 5 unexpired, not issued in the future (within the skew), inside the storage window, exp >= iat *)
  (exists exp iat, assoc (PS "exp") d = Some (VInt exp) /\ assoc (PS "iat") d = Some (VInt iat) /\
                   (now - eff_skew kw <= exp)%Z /\ (iat <= now + eff_skew kw)%Z /\
                   (now - eff_skew kw <= iat + eff_storage kw)%Z /\ (iat <= exp)%Z) /\
  (* 6 the nonce argument, when given, is present in the token and equal *)
  (forall n, kw_nonce kw = Some n -> assoc (PS "nonce") d = Some (VStr n)) /\
  (* 7 delivered by the authorization endpoint with a code / access token: c_hash / at_hash match *)
  (ch = true -> t_alg t <> PS "none" ->
     (forall x, code = Some x -> assoc (PS "c_hash") d = Some (VStr (lhash (hash_bits (t_alg t)) x))) /\
     (forall x, atok = Some x -> assoc (PS "at_hash") d = Some (VStr (lhash (hash_bits (t_alg t)) x)))) /\
  (* 8 delivered as a JWE around the JWS: encrypted to one of this client's own decryption keys, with the
       expected key-management algorithm and content encryption; clauses 1-7 are about the JWS inside *)
  (forall w, t_wrap t = Some w ->
     (exists k, w_key w = Some k /\ In k (kw_dec kw)) /\
     (forall a, kw_encalg kw = Some a -> a <> [] -> w_alg w = a) /\
     (forall e, kw_encenc kw = Some e -> e <> [] -> w_enc w = e)).
Proof. exact verify_id_token_sound. Qed.
Print Assumptions C08_sound.

(* Encrypted delivery (nested JWT).  Decryption is the identity on the symbolic level, and an encrypted delivery
   establishes exactly what the delivery of the inner JWS to the same client without encryption expectations
   establishes - in particular the expected signing algorithm applies to the JWS inside ... *)
Theorem C08_encrypted_as_plain : forall lhash kw ch code atok t now d,
  verify_id_token lhash kw ch code atok t now = Ok d ->
  verify_id_token lhash (kw_plain kw) ch code atok (unwrap t) now = Ok d.
Proof. exact encrypted_as_plain. Qed.
Print Assumptions C08_encrypted_as_plain.

(* ... hence a JWE around a token that is refused when delivered plain is refused. *)
Theorem C08_refused_plain_refused_encrypted : forall lhash kw ch code atok t now,
  (forall d, verify_id_token lhash (kw_plain kw) ch code atok (unwrap t) now <> Ok d) ->
  forall d, verify_id_token lhash kw ch code atok t now <> Ok d.
Proof. exact refused_plain_refused_encrypted. Qed.
Print Assumptions C08_refused_plain_refused_encrypted.

(* non-vacuity: a client that registered RS256 and RSA-OAEP / A256GCM accepts the genuine token inside a JWE
   made for its key; refuses an ES256 token of the issuer inside the same kind of JWE, the genuine token inside a
   JWE for another key or with another key-management algorithm, and the genuine token delivered plain *)
Example C08_encrypted_nonvacuous :
  let c := ex_two_flows (ex_cfg_enc (Some (PS "RS256"))) in
  let deliver t := step_authz ex_lhash c (ex_authz_resp (PS "S1") (Some t)) ex_now in
  is_ok (snd (deliver (wrapped (ex_tok_rs (PS "N1")) ex_wrap))) = true /\
  deliver (wrapped (ex_tok_es (PS "N1")) ex_wrap) = (c, Err E_SignerAlgError) /\
  deliver (wrapped (ex_tok_rs (PS "N1")) (mkJwe (PS "RSA-OAEP") (PS "A256GCM") (Some 12%nat))) = (c, Err ValueError) /\
  deliver (wrapped (ex_tok_rs (PS "N1")) (mkJwe (PS "RSA-OAEP-256") (PS "A256GCM") (Some 11%nat))) = (c, Err E_HeaderError) /\
  deliver (ex_tok_rs (PS "N1")) = (c, Err E_HeaderError).
Proof. vm_compute. repeat split. Qed.

(* Authorization service of a real client (Service.parse_response + post_parse_response + finalize_auth):
   a __verified_id_token is stored / returned only if the delivered token passed verify_id_token under the
   client's own settings (so C08_sound applies with i = the client's issuer, c = its client id, check_hash on),
   and the nonce sent for that state is present in the token and equal. *)
Theorem C08_authorization_service : forall lhash c r now c' stored,
  step_authz lhash c r now = (c', Ok stored) -> has_key (PS "error") stored = false ->
  exists st rec,
    assoc (PS "state") stored = Some (VStr st) /\
    db_get (cl_db c) st = Ok rec /\
    assoc (PS "iss") rec = Some (VStr (eff_issuer (cl_cfg c))) /\
    (forall v, assoc (PS "iss") stored = Some v -> v = VStr (cf_issuer (cl_cfg c))) /\
    (cf_client_id (cl_cfg c) <> [] ->
     forall v, assoc (PS "client_id") stored = Some v -> v = VStr (cf_client_id (cl_cfg c))) /\
    c' = mkClient (cl_cfg c) (db_update (cl_db c) st stored) (cl_map c) /\
    (forall v, assoc (verified_name (PS "id_token")) stored = Some v ->
       exists t code atok vd, r_idt r = Some t /\ v = VDict vd /\
         verify_id_token lhash (svc_kwargs (cl_cfg c)) true code atok t now = Ok vd /\
         (forall n, assoc (PS "nonce") rec = Some (VStr n) -> n <> [] -> assoc (PS "nonce") vd = Some (VStr n))).
Proof. exact step_authz_accept. Qed.
Print Assumptions C08_authorization_service.

(* Token service (AccessToken.parse_response + update_service_context via StandAloneClient.get_tokens): the
   verified token passed verify_id_token, carries a nonce, that nonce is bound to the very state the tokens were
   requested for, and it is the nonce in the request record of that state (not some other key - a subject, a
   session id - that is bound to the state in the shared key map). *)
Theorem C08_token_service : forall lhash c st r now c' stored,
  step_token lhash c st r now = (c', Ok stored) ->
  exists rec,
    db_get (cl_db c) st = Ok rec /\
    cl_cfg c' = cl_cfg c /\
    cl_db c' = db_update (cl_db c) st stored /\
    (forall v, assoc (verified_name (PS "id_token")) stored = Some v ->
       exists t vd n sub, r_idt r = Some t /\ v = VDict vd /\
         verify_id_token lhash (svc_kwargs (cl_cfg c)) false None None t now = Ok vd /\
         assoc (PS "nonce") vd = Some (VStr n) /\ assoc n (cl_map c) = Some st /\
         assoc (PS "sub") vd = Some (VStr sub) /\ cl_map c' = aset sub st (cl_map c) /\
         sub_clash (cl_db c) (cl_map c) st sub = false /\
         assoc (PS "nonce") rec = Some (VStr n)) /\
    (assoc (verified_name (PS "id_token")) stored = None -> cl_map c' = cl_map c).
Proof. exact step_token_accept. Qed.
Print Assumptions C08_token_service.

(* Refresh service (oidc RefreshAccessToken.update_service_context via refresh_access_token): an ID Token in a
   refresh response passed verify_id_token; a nonce in it is bound to the very state that is refreshed AND is the
   nonce in the request record of that state; its subject is the subject the session already has. *)
Theorem C08_refresh_service : forall lhash c st r now c' stored,
  step_refresh lhash c st r now = (c', Ok stored) ->
  exists rec rt, db_get (cl_db c) st = Ok rec /\ assoc (PS "refresh_token") rec = Some (VStr rt) /\
    c' = mkClient (cl_cfg c) (db_update (cl_db c) st stored) (cl_map c) /\
    (forall v, assoc (verified_name (PS "id_token")) stored = Some v ->
       exists t vd, r_idt r = Some t /\ v = VDict vd /\
         verify_id_token lhash (svc_kwargs (cl_cfg c)) false None None t now = Ok vd /\
         (forall n, assoc (PS "nonce") vd = Some (VStr n) ->
            assoc n (cl_map c) = Some st /\ assoc (PS "nonce") rec = Some (VStr n)) /\
         (forall before s, assoc (verified_name (PS "id_token")) rec = Some (VDict before) ->
                           assoc (PS "sub") before = Some (VStr s) -> assoc (PS "sub") vd = Some (VStr s))).
Proof. exact step_refresh_accept. Qed.
Print Assumptions C08_refresh_service.

(* The nonce a session's request was sent with is never replaced: whatever is merged into the records later (every
   accepted response is: Current.update) - in particular a response member called nonce - the record of every
   state keeps naming the nonce it named. *)
Theorem C08_record_nonce_kept : forall db st0 info s rec n,
  assoc s db = Some rec -> assoc (PS "nonce") rec = Some (VStr n) ->
  exists rec', assoc s (db_update db st0 info) = Some rec' /\ assoc (PS "nonce") rec' = Some (VStr n).
Proof. exact db_update_keeps_nonce. Qed.
Print Assumptions C08_record_nonce_kept.

(* THE NONCE CLAUSE OVER HISTORIES.  After ANY sequence of operations on any number of clients - sessions begun
   (the relying party draws fresh states and nonces: fresh_history), authorization / token / refresh / user-info
   responses with whatever members and whatever ID Tokens, accepted or refused, directly or through the RPHandler -
   an ID Token accepted for the state st (in an authorization response naming st, or in the answer to the token /
   refresh request made for st) by the client for issuer i carries the nonce that the authorization request of st
   was sent with: st was begun by that client, with exactly one nonce n, and the token's nonce is n (a refresh
   response may also carry an ID Token without nonce).  In particular the sub -> state and sid -> state bindings
   that share the key map with the nonces, and the members of earlier responses, never make a foreign nonce
   acceptable. *)
Theorem C08_nonce_history : forall lhash cfgs pre o w' stored i st vd,
  fresh_history lhash (init_world cfgs) pre ->
  step lhash (run lhash (init_world cfgs) pre) o = (w', Ok stored) ->
  idtoken_op o = true -> has_key (PS "error") stored = false ->
  op_target (run lhash (init_world cfgs) pre) o = Some i -> accepted_for o stored st ->
  assoc (verified_name (PS "id_token")) stored = Some (VDict vd) ->
  exists n, In (st, n) (sent_by i pre) /\ (forall n', In (st, n') (sent_by i pre) -> n' = n) /\
    (forall x, assoc (PS "nonce") vd = Some x -> x = VStr n) /\
    (refresh_of o = None -> assoc (PS "nonce") vd = Some (VStr n)).
Proof. exact history_nonce_sent. Qed.
Print Assumptions C08_nonce_history.

(* the invariant behind it, for every history: every session a client started still has its record, the record
   still names the nonce it was sent with, and that nonce is still bound to that very state *)
Theorem C08_history_invariant : forall lhash cfgs ops i st n,
  fresh_history lhash (init_world cfgs) ops -> In (st, n) (sent_by i ops) ->
  (exists rec, rec_of (run lhash (init_world cfgs) ops) i st = Some rec /\ assoc (PS "nonce") rec = Some (VStr n)) /\
  map_of (run lhash (init_world cfgs) ops) i n = Some st /\ n <> [].
Proof. exact history_invariant. Qed.
Print Assumptions C08_history_invariant.

(* non-vacuity: the history ex_hist_pre satisfies the freshness hypothesis (sessions S1/N1 and S2/N2 on one client;
   the code response for S2 carried a member nonce = N1; S1 is completed; for S2 an ID Token with sub = N1 was
   refused and one with sub = erin accepted).  After it, for S2: an ID Token carrying N1 (the nonce of the
   completed session S1) is refused in the token response, in the refresh response and in an authorization
   response; an ID Token whose nonce is the subject bound to S2 (erin) is refused; the ID Token with N2 is accepted,
   and the record of S2 still names N2. *)
Example C08_nonce_history_nonvacuous :
  fresh_history ex_lhash (init_world ex_hist_cfgs) ex_hist_pre /\
  sent_by ex_iss ex_hist_pre = [(PS "S1", PS "N1"); (PS "S2", PS "N2")] /\
  (let tok n sub := OToken ex_iss (PS "S2") (ex_token_resp (Some (ex_tok_te n sub))) ex_now in
   snd (step ex_lhash ex_hist_world (tok (PS "N1") (PS "erin"))) = Err E_ParameterError /\
   snd (step ex_lhash ex_hist_world (tok (PS "erin") (PS "erin"))) = Err E_ParameterError /\
   snd (step ex_lhash ex_hist_world (OAuthz ex_iss (ex_authz_resp (PS "S2") (Some (ex_tok_rs (PS "N1")))) ex_now)) = Err ValueError /\
   (exists w' stored vd, step ex_lhash ex_hist_world (tok (PS "N2") (PS "erin")) = (w', Ok stored) /\
      assoc (verified_name (PS "id_token")) stored = Some (VDict vd) /\ assoc (PS "nonce") vd = Some (VStr (PS "N2")))) /\
  (exists rec, rec_of ex_hist_world ex_iss (PS "S2") = Some rec /\ assoc (PS "nonce") rec = Some (VStr (PS "N2")) /\
               assoc (PS "code") rec = Some (VStr (PS "C1"))) /\
  map_of ex_hist_world ex_iss (PS "N1") = Some (PS "S1") /\ map_of ex_hist_world ex_iss (PS "erin") = Some (PS "S2").
Proof.
  split.
  { cbn [ex_hist_pre fresh_history fresh_begin].
    assert (Hreq : forall st n v, In (PS "nonce", v) (ex_req st n) -> v = VStr n).
    { intros st n v H. unfold ex_req in H. cbn [In] in H.
      repeat (destruct H as [H|H]; [inversion H; try reflexivity; (vm_compute in H; discriminate)|]). destruct H. }
    repeat split; try (vm_compute; (reflexivity || discriminate)); try (apply Hreq). }
  split; [vm_compute; reflexivity|].
  split.
  { vm_compute. repeat split. do 3 eexists. repeat split; reflexivity. }
  split; [vm_compute; eexists; repeat split; reflexivity|].
  vm_compute. split; reflexivity.
Qed.

(* A __verified_id_token parameter supplied by the sender never survives: whatever is in the verified slot
   after verify() was put there by verify_id_token on the delivered token. *)
Theorem C08_forged_verified_claim_cleared : forall lhash kw d idt now d1,
  authz_response_verify lhash kw d idt now = Ok d1 ->
  param_matches d (PS "client_id") (kw_client_id kw) = Ok tt /\
  param_matches d (PS "iss") (kw_iss kw) = Ok tt /\
  (forall k, is_verified_name k = false -> assoc k d1 = assoc k d) /\
  (forall v, assoc (verified_name (PS "id_token")) d1 = Some v ->
     exists t code atok vd, idt = Some t /\ v = VDict vd /\
       opt_param (strip_verified d) (PS "code") = Ok code /\
       opt_param (strip_verified d) (PS "access_token") = Ok atok /\
       verify_id_token lhash kw true code atok t now = Ok vd).
Proof. exact authz_response_verify_inv. Qed.
Print Assumptions C08_forged_verified_claim_cleared.

(* A token failing any check is never stored: a refused operation leaves every client of the RP unchanged. *)
Theorem C08_reject_stores_nothing : forall lhash w o w' out,
  step lhash w o = (w', out) -> (forall d, out <> Ok d) -> w' = w.
Proof. exact step_reject. Qed.
Print Assumptions C08_reject_stores_nothing.

(* The ID-token signing algorithm the client registered - or, for a statically registered client, the one it is
   configured to use (id_token_signed_response_alg, default RS256) - is the only one the authorization service
   accepts (besides none, when explicitly allowed). *)
Theorem C08_expected_alg : forall lhash c r now c' stored v a,
  step_authz lhash c r now = (c', Ok stored) -> has_key (PS "error") stored = false ->
  assoc (verified_name (PS "id_token")) stored = Some v ->
  eff_sigalg (cl_cfg c) = Some a -> a <> [] ->
  exists t, r_idt r = Some t /\ (t_alg t = a \/ t_alg t = PS "none").
Proof. exact service_expected_alg. Qed.
Print Assumptions C08_expected_alg.

(* a statically registered client (no registration response) configured for RS256 refuses an ES256 token of
   the issuer *)
Example C08_expected_alg_static :
  let c := ex_two_flows (ex_cfg None (Some (PS "RS256")) false) in
  step_authz ex_lhash c (ex_authz_resp (PS "S1") (Some (ex_tok_es (PS "N1")))) ex_now = (c, Err E_SignerAlgError).
Proof. vm_compute. reflexivity. Qed.

(* FULL STATEMENT (false): "delivered with a code from the authorization endpoint => matching c_hash".
   With allow_sign_alg_none an unsigned token is accepted with a code and without any c_hash (clause 7 of
   C08_sound holds for signed tokens only): *)
Example C08_unsigned_hash_refuted :
  let c := ex_two_flows (ex_cfg None None true) in
  exists c' stored vd,
    step_authz ex_lhash c (ex_authz_resp (PS "S1") (Some (ex_tok_none (PS "N1")))) ex_now = (c', Ok stored) /\
    assoc (PS "code") stored = Some (VStr (PS "C1")) /\
    assoc (verified_name (PS "id_token")) stored = Some (VDict vd) /\ assoc (PS "c_hash") vd = None.
Proof. vm_compute. do 3 eexists. repeat split; reflexivity. Qed.

(* IdToken.verify(nonce = N) refuses a token that has no nonce claim *)
Example C08_msgapi_nonce_absent_refused :
  let kw := mkKw (Some ex_iss) (Some ex_cid) None None false (Some 0%Z) None false (Some (PS "N1")) ex_jar None None [] in
  let t := mkTok (PS "RS256") (Some (PS "r1")) (Some 0%nat)
                 [(PS "iss", VStr ex_iss); (PS "sub", VStr (PS "diana")); (PS "aud", VList [VStr ex_cid]);
                  (PS "exp", VInt 1700000300); (PS "iat", VInt 1699999995)] None in
  verify_id_token ex_lhash kw false None None t ex_now = Err E_MissingRequiredAttribute.
Proof. vm_compute. reflexivity. Qed.

(* Unforgeability (symbolic, Lib/Crypto.v): if no key of the jar is ever published, the signature / MAC of
   an accepted signed token is a term the honest parties published. *)
Theorem C08_unforgeable : forall lhash (K : term -> Prop) kw ch code atok t now d i,
  (forall e, In e (kw_jar kw) -> forall x, K x -> ~ sub (Key (je_key e)) x) ->
  verify_id_token lhash kw ch code atok t now = Ok d ->
  NoDup (List.map fst (t_claims t)) -> kw_iss kw = Some i -> t_alg t <> PS "none" ->
  exists k, t_signer t = Some k /\
    forall m, (derivable K (Sig k m) -> exists t0, K t0 /\ sub (Sig k m) t0) /\
              (derivable K (Mac k m) -> exists t0, K t0 /\ sub (Mac k m) t0).
Proof. exact accepted_token_genuine. Qed.
Print Assumptions C08_unforgeable.

(* non-vacuity: a genuine token is accepted through the authorization service and stored for its own state;
   the same token re-signed with a key that is not registered is refused and nothing changes *)
Example C08_nonvacuous :
  let c := ex_two_flows (ex_cfg (Some (PS "RS256")) (Some (PS "RS256")) false) in
  (exists c' stored vd,
     step_authz ex_lhash c (ex_authz_resp (PS "S1") (Some (ex_tok_rs (PS "N1")))) ex_now = (c', Ok stored) /\
     assoc (verified_name (PS "id_token")) stored = Some (VDict vd) /\
     assoc (PS "nonce") vd = Some (VStr (PS "N1")) /\ c' <> c) /\
  step_authz ex_lhash c
    (ex_authz_resp (PS "S1") (Some (mkTok (PS "RS256") (Some (PS "r1")) (Some 4%nat) (t_claims (ex_tok_rs (PS "N1"))) None)))
    ex_now = (c, Err E_BadSignature) /\
  step_authz ex_lhash c (ex_authz_resp (PS "S1") (Some (ex_tok_rs (PS "N2")))) ex_now = (c, Err ValueError).
Proof.
  vm_compute. split; [|split; reflexivity].
  do 3 eexists. split; [reflexivity|]. split; [reflexivity|]. split; [reflexivity|]. discriminate.
Qed.

(* --- round 11 --- *)
(* AUTHORIZATION REQUESTS UNDER A STATE THAT ALREADY HAS A RECORD.  The state value of a request is the
   application's to choose (request_args["state"] / the state argument of the authorization service): it may begin a
   second request under the state of a running session (re-authentication, a retry).  C08_nonce_history assumes every
   begin comes with a fresh state (fresh_history); here nothing is asked of the states (reuse_history: the nonces are
   new to the client and the request that goes out carries the nonce).  "The nonce that was sent" for st is then the
   nonce of the LATEST request the client sent under st (latest_sent), and that is the nonce of every ID Token
   accepted for st - at the authorization endpoint, the token endpoint or in a refresh response, directly or
   through the RPHandler; in particular the genuine ID Token of an earlier round under the same state is refused. *)
Theorem C08_nonce_history_reused_states : forall lhash cfgs pre o w' stored i st vd,
  reuse_history lhash (init_world cfgs) pre ->
  step lhash (run lhash (init_world cfgs) pre) o = (w', Ok stored) ->
  idtoken_op o = true -> has_key (PS "error") stored = false ->
  op_target (run lhash (init_world cfgs) pre) o = Some i -> accepted_for o stored st ->
  assoc (verified_name (PS "id_token")) stored = Some (VDict vd) ->
  exists n, latest_sent i pre st = Some n /\
    (forall x, assoc (PS "nonce") vd = Some x -> x = VStr n) /\
    (refresh_of o = None -> assoc (PS "nonce") vd = Some (VStr n)).
Proof. exact reuse_history_nonce_sent. Qed.
Print Assumptions C08_nonce_history_reused_states.

(* what latest_sent is: nothing was sent in the empty history; a request of client i under st makes its nonce the
   latest one for st; no other operation changes it *)
Theorem C08_latest_sent_begin : forall i ops st n req, latest_sent i (ops ++ [OBegin i st n req]) st = Some n.
Proof. exact latest_sent_begin. Qed.
Print Assumptions C08_latest_sent_begin.
Theorem C08_latest_sent_other : forall i ops o st,
  (forall n req, o <> OBegin i st n req) -> latest_sent i (ops ++ [o]) st = latest_sent i ops st.
Proof. exact latest_sent_other. Qed.
Print Assumptions C08_latest_sent_other.

(* the invariant behind it: after every such history the record of a state names the nonce of the latest request
   under that state (the record is replaced by a new request, and nothing merged into it later replaces the nonce) *)
Theorem C08_reuse_invariant : forall lhash cfgs ops i st n,
  reuse_history lhash (init_world cfgs) ops -> latest_sent i ops st = Some n ->
  (exists rec, rec_of (run lhash (init_world cfgs) ops) i st = Some rec /\ assoc (PS "nonce") rec = Some (VStr n)) /\
  n <> [].
Proof. exact reuse_invariant. Qed.
Print Assumptions C08_reuse_invariant.

(* the histories of C08_nonce_history are among these, and in them the latest request under a state is its only one *)
Theorem C08_fresh_history_is_reuse_history : forall lhash ops w,
  fresh_history lhash w ops -> reuse_history lhash w ops.
Proof. exact fresh_is_reuse. Qed.
Print Assumptions C08_fresh_history_is_reuse_history.
Theorem C08_fresh_latest_is_sent : forall lhash cfgs ops i st n,
  fresh_history lhash (init_world cfgs) ops -> (latest_sent i ops st = Some n <-> In (st, n) (sent_by i ops)).
Proof. exact fresh_latest_is_sent. Qed.
Print Assumptions C08_fresh_latest_is_sent.

(* non-vacuity: ex_reuse_pre (S1 completed with N1, then begun again with N3 and its code response processed) is such
   a history and not a fresh one; the latest nonce under S1 is N3; the genuine ID Token of the first round (N1) is
   refused in the token response and in an authorization response for S1, the ID Token with N3 is accepted; the record
   of S1 was replaced by the new request (no verified ID Token, no access token of the first round), N1 is still a
   key of the map *)
Example C08_reused_state_nonvacuous :
  reuse_history ex_lhash (init_world ex_hist_cfgs) ex_reuse_pre /\
  ~ fresh_history ex_lhash (init_world ex_hist_cfgs) ex_reuse_pre /\
  reuses_state ex_lhash (init_world ex_hist_cfgs) ex_reuse_pre = true /\
  latest_sent ex_iss ex_reuse_pre (PS "S1") = Some (PS "N3") /\
  (let tok n := OToken ex_iss (PS "S1") (ex_token_resp (Some (ex_tok_te n (PS "diana")))) ex_now in
   snd (step ex_lhash ex_reuse_world (tok (PS "N1"))) = Err E_ParameterError /\
   snd (step ex_lhash ex_reuse_world (OAuthz ex_iss (ex_authz_resp (PS "S1") (Some (ex_tok_rs (PS "N1")))) ex_now)) = Err ValueError /\
   (exists w' stored vd, step ex_lhash ex_reuse_world (tok (PS "N3")) = (w', Ok stored) /\
      assoc (verified_name (PS "id_token")) stored = Some (VDict vd) /\ assoc (PS "nonce") vd = Some (VStr (PS "N3")))) /\
  (exists rec, rec_of ex_reuse_world ex_iss (PS "S1") = Some rec /\ assoc (PS "nonce") rec = Some (VStr (PS "N3")) /\
               assoc (verified_name (PS "id_token")) rec = None /\ assoc (PS "access_token") rec = None) /\
  map_of ex_reuse_world ex_iss (PS "N1") = Some (PS "S1").
Proof.
  assert (Hreq : forall st n v, In (PS "nonce", v) (ex_req st n) -> v = VStr n).
  { intros st n v H. unfold ex_req in H. cbn [In] in H.
    repeat (destruct H as [H|H]; [inversion H; try reflexivity; (vm_compute in H; discriminate)|]). destruct H. }
  split.
  { unfold ex_reuse_pre, ex_hist_pre. cbn [app reuse_history sound_begin].
    repeat split; try (vm_compute; (reflexivity || discriminate)); try (apply Hreq). }
  split.
  { unfold ex_reuse_pre, ex_hist_pre. cbn [app fresh_history fresh_begin]. intro H.
    destruct H as (_ & _ & _ & _ & _ & _ & _ & (_ & Hfresh & _) & _). vm_compute in Hfresh. discriminate. }
  split; [vm_compute; reflexivity|].
  split; [vm_compute; reflexivity|].
  split.
  { vm_compute. repeat split. do 3 eexists. repeat split; reflexivity. }
  split; [vm_compute; eexists; repeat split; reflexivity|].
  vm_compute. reflexivity.
Qed.
(* --- end round 11 --- *)
