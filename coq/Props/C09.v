(* Props/C09.v — property C09: the relying party binds every response to its own state, nonce and issuer.
   Only statements, each closed by `exact <lemma>`, with Print Assumptions, and non-vacuity Examples.
   Model: Model/RpState.v — per issuer one client (configuration, state store db : state -> record,
   key map : nonce / sub -> state); a world is the issuer2rp table of an RPHandler; operations are
   OBegin / OAuthz / OToken / OUserinfo / ORoutedToken / ORefresh / ORoutedRefresh / ORoutedUserinfo with
   responses the adversary recombines freely; look-ups through a state value are probes (PIssuer = state2issuer,
   PSession = get_session_information). *)
From Coq Require Import String.
From Verif Require Import Lib.Base Lib.PyStr Lib.RpTy Gen.RpTables Model.IdToken Model.RpState Model.RpExamples
     Proofs.IdToken_proofs Proofs.RpState_proofs.
Open Scope string_scope.

(* An authorization response is processed (stored) only if its state is a record of the very client it was
   delivered to, that record was created for this client's issuer, and the iss / client_id response
   parameters, when present, are this client's issuer and client id.  Only that record changes. *)
Theorem C09_accept_own : forall lhash w i r now w' stored,
  step lhash w (OAuthz i r now) = (w', Ok stored) -> has_key (PS "error") stored = false ->
  exists c st rec,
    assoc i w = Some c /\
    assoc (PS "state") stored = Some (VStr st) /\
    db_get (cl_db c) st = Ok rec /\
    assoc (PS "iss") rec = Some (VStr (eff_issuer (cl_cfg c))) /\
    (forall v, assoc (PS "iss") stored = Some v -> v = VStr (cf_issuer (cl_cfg c))) /\
    (cf_client_id (cl_cfg c) <> [] ->
     forall v, assoc (PS "client_id") stored = Some v -> v = VStr (cf_client_id (cl_cfg c))) /\
    w' = w_set w i (mkClient (cl_cfg c) (db_update (cl_db c) st stored) (cl_map c)).
Proof. exact world_authz_own. Qed.
Print Assumptions C09_accept_own.

(* Frame, records: whatever an operation does, accepted or not, the record of every state value it does not
   carry is unchanged in every client. *)
Theorem C09_frame_db : forall lhash w o w' out j s,
  step lhash w o = (w', out) -> op_mentions o s = false -> rec_of w' j s = rec_of w j s.
Proof. exact step_frame_db. Qed.
Print Assumptions C09_frame_db.

(* Frame, clients: an operation touches only the client it is executed on (for RPHandler.get_tokens(state)
   that is the client found through the state). *)
Theorem C09_frame_client : forall lhash w o w' out j,
  step lhash w o = (w', out) -> op_target w o <> Some j -> assoc j w' = assoc j w.
Proof. exact step_frame_client. Qed.
Print Assumptions C09_frame_client.

(* A rejected operation changes nothing at all. *)
Theorem C09_reject_changes_nothing : forall lhash w o w' out,
  step lhash w o = (w', out) -> (forall d, out <> Ok d) -> w' = w.
Proof. exact step_reject. Qed.
Print Assumptions C09_reject_changes_nothing.

(* Nonce binding: a token response with an ID token is accepted for state st only if the token's nonce is
   bound, in that client, to st itself; so an ID token whose nonce belongs to a different pending flow is
   refused (and by C09_reject_changes_nothing alters nothing). Tokens are recorded under st only
   (C09_frame_db). *)
Theorem C09_nonce_binding : forall lhash w i st r now w' stored v,
  step lhash w (OToken i st r now) = (w', Ok stored) ->
  assoc (verified_name (PS "id_token")) stored = Some v ->
  exists vd n, v = VDict vd /\ assoc (PS "nonce") vd = Some (VStr n) /\ map_of w i n = Some st.
Proof. exact world_token_nonce. Qed.
Print Assumptions C09_nonce_binding.

(* User info is recorded under the state it was asked for, and only if its sub equals the sub of the ID
   token verified for that state. *)
Theorem C09_userinfo_sub : forall c st u c' d,
  step_userinfo c st u = (c', Ok d) ->
  exists rec, db_get (cl_db c) st = Ok rec /\
    c' = mkClient (cl_cfg c) (db_update (cl_db c) st d) (cl_map c) /\
    (forall idt s, assoc (verified_name (PS "id_token")) rec = Some (VDict idt) ->
                   assoc (PS "sub") idt = Some (VStr s) -> assoc (PS "sub") d = Some (VStr s)).
Proof. exact step_userinfo_accept. Qed.
Print Assumptions C09_userinfo_sub.

(* Frame, key map (PARTIAL): the binding of a key k is unchanged by every operation that neither starts a
   flow drawing k as its nonce nor delivers an ID token whose subject is k. *)
Theorem C09_frame_map_partial : forall lhash w o w' out j k,
  step lhash w o = (w', out) -> op_may_bind o k = false -> map_of w' j k = map_of w j k.
Proof. exact step_frame_map. Qed.
Print Assumptions C09_frame_map_partial.

(* Frame, key map (FULL for nonces): the nonce -> state binding of a pending flow survives every operation,
   accepted or not, except the start of a flow that draws the very same nonce (freshness of rndstr).  _map is
   one namespace for nonce, sub and sid bindings; Current.bind_key refuses to re-bind a key that is the nonce of
   another session. *)
Theorem C09_nonce_binding_stable : forall lhash w o w' out j k s' rec,
  step lhash w o = (w', out) -> op_draws_nonce o k = false ->
  map_of w j k = Some s' -> rec_of w j s' = Some rec -> assoc (PS "nonce") rec = Some (VStr k) ->
  map_of w' j k = Some s'.
Proof. exact step_keeps_nonce_binding. Qed.
Print Assumptions C09_nonce_binding_stable.

(* an ID token whose subject is the nonce of another pending flow of the same client is refused, nothing
   changes, and the other flow is still served *)
Example C09_sub_is_foreign_nonce_refused :
  let c0 := ex_two_flows (ex_cfg None None false) in
  let c1 := fst (step_authz ex_lhash c0 (ex_authz_resp (PS "S1") None) ex_now) in
  let c2 := fst (step_authz ex_lhash c1 (ex_authz_resp (PS "S2") None) ex_now) in
  step_token ex_lhash c2 (PS "S1") (ex_token_resp (Some (ex_tok_te (PS "N1") (PS "N2")))) ex_now = (c2, Err ValueError) /\
  is_ok (snd (step_token ex_lhash c2 (PS "S2") (ex_token_resp (Some (ex_tok_te (PS "N2") (PS "diana")))) ex_now)) = true.
Proof. vm_compute. split; reflexivity. Qed.

(* Histories: for every sequence of operations over any number of issuers and pending flows ... *)
(* ... the record of a state is unchanged by every sequence that never carries that state *)
Theorem C09_history_frame_db : forall lhash ops w j s,
  (forall o, In o ops -> op_mentions o s = false) -> rec_of (run lhash w ops) j s = rec_of w j s.
Proof. exact run_frame_db. Qed.
Print Assumptions C09_history_frame_db.

Theorem C09_history_frame_map : forall lhash ops w j k,
  (forall o, In o ops -> op_may_bind o k = false) -> map_of (run lhash w ops) j k = map_of w j k.
Proof. exact run_frame_map. Qed.
Print Assumptions C09_history_frame_map.

(* ... every record any client holds belongs to a state this relying party issued for that very issuer *)
Theorem C09_history_states_issued : forall lhash cfgs ops i c st,
  assoc i (run lhash (init_world cfgs) ops) = Some c -> has_key st (cl_db c) = true -> In (i, st) (issued ops).
Proof. exact history_states_issued. Qed.
Print Assumptions C09_history_states_issued.

(* ... and an authorization response accepted at any point of any history carries a state that this relying
   party issued earlier in that history, for the issuer whose client processed it *)
Theorem C09_history : forall lhash cfgs pre i r now w' stored,
  step lhash (run lhash (init_world cfgs) pre) (OAuthz i r now) = (w', Ok stored) ->
  has_key (PS "error") stored = false ->
  exists st c rec, assoc (PS "state") stored = Some (VStr st) /\ In (i, st) (issued pre) /\
    assoc i (run lhash (init_world cfgs) pre) = Some c /\ db_get (cl_db c) st = Ok rec /\
    assoc (PS "iss") rec = Some (VStr (eff_issuer (cl_cfg c))).
Proof. exact history_authz_own. Qed.
Print Assumptions C09_history.

(* ---- back-channel responses: token response of a code exchange, refresh response, user info ----
   The relying party makes these requests itself, for ONE session: get_tokens(st) / refresh_access_token(st) /
   get_user_info(st), directly on a client or through the RPHandler (client found via the state).  What the HTTP
   layer returns is arbitrary: oauth2.AccessTokenResponse may legally carry a `state` member, any JSON object
   may carry members named state / iss / client_id / nonce / code / redirect_uri / refresh_token ..., an ID
   Token of another flow.  backchannel_of o = Some st says o is such a request made for st. *)

(* The key of a back-channel response is the key of the REQUEST, for every content of the response: the
   operation is refused and the world is unchanged, or it is accepted and the record of st - in the client the
   request was made by - is updated with what is handed back; that is all that happens to the records. *)
Theorem C09_backchannel_key : forall lhash w o st w' out,
  backchannel_of o = Some st -> step lhash w o = (w', out) ->
  ((forall d, out <> Ok d) /\ w' = w) \/
  exists i c rec stored m, op_target w o = Some i /\ assoc i w = Some c /\ db_get (cl_db c) st = Ok rec /\
    out = Ok stored /\ w' = w_set w i (mkClient (cl_cfg c) (db_update (cl_db c) st stored) m).
Proof. exact world_backchannel_key. Qed.
Print Assumptions C09_backchannel_key.

(* Recorded under the state of the request only: after an accepted back-channel response the record of st is
   the old record updated with the response (minus a member called nonce that differs from the nonce the session's
   request was sent with: Current.update never replaces that), and no other record of any client has changed. *)
Theorem C09_backchannel_recorded : forall lhash w o st w' stored,
  backchannel_of o = Some st -> step lhash w o = (w', Ok stored) ->
  exists i rec, op_target w o = Some i /\ rec_of w i st = Some rec /\
    rec_of w' i st = Some (dict_update rec (keep_nonce rec stored)) /\
    (forall j s, j <> i \/ s <> st -> rec_of w' j s = rec_of w j s).
Proof. exact world_backchannel_recorded. Qed.
Print Assumptions C09_backchannel_recorded.

(* A `state` member of the response that names another session is data, never a key: the record of the session
   it names is untouched, whether the response is accepted or refused. *)
Theorem C09_backchannel_named_state_untouched : forall lhash w o st w' out s j,
  backchannel_of o = Some st -> step lhash w o = (w', out) ->
  has_entry (PS "state") (VStr s) (backchannel_members o) = true -> s <> st ->
  rec_of w' j s = rec_of w j s.
Proof. exact world_backchannel_named_state_untouched. Qed.
Print Assumptions C09_backchannel_named_state_untouched.

(* The nonce binding of a code exchange made through the RPHandler (C09_nonce_binding: on a client). *)
Theorem C09_routed_nonce_binding : forall lhash w st r now w' stored v,
  step lhash w (ORoutedToken st r now) = (w', Ok stored) ->
  assoc (verified_name (PS "id_token")) stored = Some v ->
  exists i vd n, op_target w (ORoutedToken st r now) = Some i /\ v = VDict vd /\
    assoc (PS "nonce") vd = Some (VStr n) /\ map_of w i n = Some st.
Proof. exact world_routed_token_nonce. Qed.
Print Assumptions C09_routed_nonce_binding.

(* The ID Token of a refresh response is bound to the session that is refreshed (OpenID Connect Core 12.2): a
   nonce in it is bound, in the client that asked, to the very state the refresh was made for, and its subject
   is the subject of the ID Token the session already has.  So the ID Token of another flow or another user in
   the refresh response of this session is refused (C09_reject_changes_nothing: nothing changes). *)
Theorem C09_refresh_idtoken_bound : forall lhash w o st w' stored v,
  refresh_of o = Some st -> step lhash w o = (w', Ok stored) ->
  assoc (verified_name (PS "id_token")) stored = Some v ->
  exists i vd rec, op_target w o = Some i /\ v = VDict vd /\ rec_of w i st = Some rec /\
    (forall n, assoc (PS "nonce") vd = Some (VStr n) -> map_of w i n = Some st) /\
    (forall before s, assoc (verified_name (PS "id_token")) rec = Some (VDict before) ->
                      assoc (PS "sub") before = Some (VStr s) -> assoc (PS "sub") vd = Some (VStr s)).
Proof. exact world_refresh_idtoken_bound. Qed.
Print Assumptions C09_refresh_idtoken_bound.

(* non-vacuity: one client, flows S1 (diana) and S2 (bob), both finalized.  The token response for S2 carries
   `state` = S1 (and a refresh token): accepted, recorded under S2, the record of S1 untouched; the same response
   with the ID Token of flow S1 is refused; then S1 redeems its code.  The refresh for S2: answered with the ID
   Token of flow S1 (refused: another user), with bob's subject and the nonce of S1 (refused: nonce of another
   flow), with its own ID Token and `state` = S1 (accepted under S2 - also through the RPHandler - S1 untouched);
   user info for S2 carrying `state` = S1 lands under S2. *)
Example C09_backchannel_nonvacuous :
  let S1 := PS "S1" in let S2 := PS "S2" in
  let w0 := run ex_lhash ex_world
              [OBegin ex_iss S1 (PS "N1") (ex_req S1 (PS "N1")); OBegin ex_iss S2 (PS "N2") (ex_req S2 (PS "N2"));
               OAuthz ex_iss (ex_authz_resp S1 None) ex_now; OAuthz ex_iss (ex_authz_resp S2 None) ex_now] in
  let named t := mkResp ((PS "state", VStr S1) :: (PS "refresh_token", VStr (PS "RT2")) :: r_params (ex_token_resp (Some t)))
                        (Some t) in
  let bob2 := ex_tok_te (PS "N2") (PS "bob") in
  let tok2 := OToken ex_iss S2 (named bob2) ex_now in
  let w1 := fst (step ex_lhash w0 tok2) in
  let w2 := fst (step ex_lhash w1 (OToken ex_iss S1 (ex_token_resp (Some (ex_tok_te (PS "N1") (PS "diana")))) ex_now)) in
  let stored_at w s k := match rec_of w ex_iss s with Some rec => assoc k rec | None => None end in
  is_ok (snd (step ex_lhash w0 tok2)) = true /\
  rec_of w1 ex_iss S1 = rec_of w0 ex_iss S1 /\
  stored_at w1 S2 (PS "access_token") = Some (VStr (PS "AT1")) /\
  stored_at w1 S1 (PS "access_token") = None /\
  step ex_lhash w0 (OToken ex_iss S2 (named (ex_tok_te (PS "N1") (PS "diana"))) ex_now) = (w0, Err E_ParameterError) /\
  is_ok (snd (step ex_lhash w1 (OToken ex_iss S1 (ex_token_resp (Some (ex_tok_te (PS "N1") (PS "diana")))) ex_now))) = true /\
  step ex_lhash w2 (ORefresh ex_iss S2 (named (ex_tok_te (PS "N1") (PS "diana"))) ex_now) = (w2, Err E_ParameterError) /\
  step ex_lhash w2 (ORefresh ex_iss S2 (named (ex_tok_te (PS "N1") (PS "bob"))) ex_now) = (w2, Err E_ParameterError) /\
  step ex_lhash w2 (ORefresh ex_iss S2 (named (ex_tok_te (PS "N9") (PS "bob"))) ex_now) = (w2, Err ValueError) /\
  is_ok (snd (step ex_lhash w2 (ORefresh ex_iss S2 (named bob2) ex_now))) = true /\
  is_ok (snd (step ex_lhash w2 (ORoutedRefresh S2 (named bob2) ex_now))) = true /\
  rec_of (fst (step ex_lhash w2 (ORoutedRefresh S2 (named bob2) ex_now))) ex_iss S1 = rec_of w2 ex_iss S1 /\
  step ex_lhash w2 (ORefresh ex_iss S1 (named bob2) ex_now) = (w2, Err E_MissingRequiredAttribute) /\
  (let w3 := fst (step ex_lhash w2 (ORoutedUserinfo S2 [(PS "sub", VStr (PS "bob")); (PS "state", VStr S1)])) in
   stored_at w3 S2 (PS "sub") = Some (VStr (PS "bob")) /\ rec_of w3 ex_iss S1 = rec_of w2 ex_iss S1) /\
  step ex_lhash w2 (ORoutedUserinfo S2 [(PS "sub", VStr (PS "diana")); (PS "state", VStr S1)]) = (w2, Err ValueError).
Proof. vm_compute. repeat split. Qed.

(* ---- a value the relying party's stores KNOW under another role is not a state ----
   Next to the session records (cl_db: state -> record, created by begin / init_authorization) a client keeps ONE
   map for everything bound to a session (cl_map = Current._map: nonce -> state, subject -> state, session id ->
   state, state of a logout request -> state).  Only a key of the record store is a state.  The nonce of this or
   another pending flow, a bound subject, a bound session id, a key of another client's stores behind the same
   RPHandler, presented AS the state of an authorization response, as the state argument of get_tokens /
   refresh_access_token / get_user_info, or to the look-ups of the RPHandler, is an unknown state. *)

(* Acceptance requires a key of the RECORD store: whatever operation other than the start of a flow is accepted
   (handed back without an error member) - authorization response, code exchange, refresh, user info, on a
   client or routed through the RPHandler - the state it was accepted for is a key of cl_db of the client it was
   executed on. *)
Theorem C09_accepted_state_is_record_key : forall lhash w o w' stored,
  step lhash w o = (w', Ok stored) -> is_begin o = false -> has_key (PS "error") stored = false ->
  exists i c st, op_target w o = Some i /\ assoc i w = Some c /\ op_mentions o st = true /\
    accepted_for o stored st /\ has_key st (cl_db c) = true.
Proof. exact world_accept_record_key. Qed.
Print Assumptions C09_accepted_state_is_record_key.

(* One client: a key k of its binding map that is not a key of its record store is refused wherever it is
   presented as a state - an authorization response naming only k changes nothing and hands back at most an error
   response; get_tokens / refresh_access_token / get_user_info made for k raise KeyError with the client unchanged. *)
Theorem C09_bound_key_is_not_a_state : forall lhash c k s,
  assoc k (cl_map c) = Some s -> has_key k (cl_db c) = false ->
  (forall r now c' out, step_authz lhash c r now = (c', out) ->
     (forall s', has_entry (PS "state") (VStr s') (r_params r) = true -> s' = k) ->
     c' = c /\ forall stored, out = Ok stored -> has_key (PS "error") stored = true) /\
  (forall r now, step_token lhash c k r now = (c, Err KeyError)) /\
  (forall r now, step_refresh lhash c k r now = (c, Err KeyError)) /\
  (forall u, step_userinfo c k u = (c, Err KeyError)).
Proof. exact client_bound_key_not_a_state. Qed.
Print Assumptions C09_bound_key_is_not_a_state.

(* Histories: after ANY sequence of operations, an operation that presents as its state only values this relying
   party never issued as a state (for any issuer) is refused - or, for an authorization error response, handed
   back as it is - and the stores of every client are exactly what they were. *)
Theorem C09_history_unissued_state_refused : forall lhash cfgs pre o w' out,
  is_begin o = false ->
  (forall s, op_mentions o s = true -> forall i, ~ In (i, s) (issued pre)) ->
  step lhash (run lhash (init_world cfgs) pre) o = (w', out) ->
  w' = run lhash (init_world cfgs) pre /\ (forall stored, out = Ok stored -> has_key (PS "error") stored = true).
Proof. exact history_unissued_state_refused. Qed.
Print Assumptions C09_history_unissued_state_refused.

(* ... so no key of the binding map of any client that is not a state is ever accepted as one: whatever k is bound
   to after the history (the session of this user, of another user, a session at another issuer), presenting it
   as a state is refused and nothing changes. *)
Theorem C09_history_bound_key_never_a_state : forall lhash cfgs pre j k s o w' out,
  map_of (run lhash (init_world cfgs) pre) j k = Some s ->
  (forall i, ~ In (i, k) (issued pre)) ->
  is_begin o = false -> (forall s', op_mentions o s' = true -> s' = k) ->
  step lhash (run lhash (init_world cfgs) pre) o = (w', out) ->
  w' = run lhash (init_world cfgs) pre /\ (forall stored, out = Ok stored -> has_key (PS "error") stored = true).
Proof. exact history_bound_key_never_a_state. Qed.
Print Assumptions C09_history_bound_key_never_a_state.

(* The look-ups of the RPHandler (state2issuer, hence get_client_from_session_key and every routed call) find only
   keys of record stores; after any history of a handler with one client per issuer a value never issued as a
   state resolves to no issuer and to no session of any client. *)
Theorem C09_lookup_finds_record_keys_only : forall w st v,
  state2issuer w st = Some v -> exists i c, In (i, c) w /\ has_key st (cl_db c) = true.
Proof. exact state2issuer_record_key. Qed.
Print Assumptions C09_lookup_finds_record_keys_only.

Theorem C09_history_lookup_unissued : forall lhash cfgs pre k,
  NoDup (List.map fst cfgs) -> (forall i, ~ In (i, k) (issued pre)) ->
  probe_out (run lhash (init_world cfgs) pre) (PIssuer k) = Ok [] /\
  forall i, probe_out (run lhash (init_world cfgs) pre) (PSession i k) = Err KeyError.
Proof. exact history_lookup_unissued. Qed.
Print Assumptions C09_history_lookup_unissued.

(* non-vacuity: two issuers; flows S1/N1 (diana, code redeemed: diana -> S1 joins the map) and S2/N2 at issuer 1,
   T1/M1 at issuer 2.  The keys of the maps are N1, N2, diana, M1; each of them is bound (hypothesis of the
   theorems) and none is a record key.  Presented as a state - in an authorization response with a code, with the
   genuine ID Token of the flow the nonce belongs to, to get_tokens / refresh / user info, routed - every one is
   refused with KeyError and the world unchanged; an error response naming N2 is handed back, world unchanged; the
   look-ups find nothing; the genuine response of S2 is still accepted afterwards. *)
Example C09_bound_keys_nonvacuous :
  let S1 := PS "S1" in let S2 := PS "S2" in let N1 := PS "N1" in let N2 := PS "N2" in
  let w := run ex_lhash ex_world
              [OBegin ex_iss S1 N1 (ex_req S1 N1); OBegin ex_iss S2 N2 (ex_req S2 N2);
               OBegin ex_iss2 (PS "T1") (PS "M1") (ex_req (PS "T1") (PS "M1"));
               OAuthz ex_iss (ex_authz_resp S1 None) ex_now;
               OToken ex_iss S1 (ex_token_resp (Some (ex_tok_te N1 (PS "diana")))) ex_now] in
  map_of w ex_iss N1 = Some S1 /\ map_of w ex_iss N2 = Some S2 /\ map_of w ex_iss (PS "diana") = Some S1 /\
  map_of w ex_iss2 (PS "M1") = Some (PS "T1") /\
  List.forallb (fun k => negb (record_key w ex_iss k) && negb (record_key w ex_iss2 k)) [N1; N2; PS "diana"; PS "M1"] = true /\
  List.forallb (fun k =>
    res_eqb dict_eqb (snd (step ex_lhash w (OAuthz ex_iss (ex_authz_resp k None) ex_now))) (Err KeyError) &&
    res_eqb dict_eqb (snd (step ex_lhash w (OToken ex_iss k (ex_token_resp None) ex_now))) (Err KeyError) &&
    res_eqb dict_eqb (snd (step ex_lhash w (ORefresh ex_iss k (ex_token_resp None) ex_now))) (Err KeyError) &&
    res_eqb dict_eqb (snd (step ex_lhash w (OUserinfo ex_iss k [(PS "sub", VStr (PS "diana"))]))) (Err KeyError) &&
    res_eqb dict_eqb (snd (step ex_lhash w (ORoutedToken k (ex_token_resp None) ex_now))) (Err KeyError) &&
    res_eqb dict_eqb (snd (step ex_lhash w (ORoutedRefresh k (ex_token_resp None) ex_now))) (Err KeyError) &&
    res_eqb dict_eqb (snd (step ex_lhash w (ORoutedUserinfo k [(PS "sub", VStr (PS "diana"))]))) (Err KeyError) &&
    res_eqb dict_eqb (probe_out w (PIssuer k)) (Ok []) && res_eqb dict_eqb (probe_out w (PSession ex_iss k)) (Err KeyError))
    [N1; N2; PS "diana"; PS "M1"] = true /\
  step ex_lhash w (OAuthz ex_iss (ex_authz_resp N2 (Some (ex_tok_rs N2))) ex_now) = (w, Err KeyError) /\
  fst (step ex_lhash w (OAuthz ex_iss (mkResp [(PS "state", VStr N2); (PS "error", VStr (PS "access_denied"))] None) ex_now)) = w /\
  probe_out w (PIssuer S2) = Ok [(PS "iss", VStr ex_iss)] /\
  is_ok (snd (step ex_lhash w (OAuthz ex_iss (ex_authz_resp S2 None) ex_now))) = true.
Proof. vm_compute. repeat split. Qed.

(* ---- hybrid and implicit flows: EVERY member of a front-channel response is bound to the flow of its state ----
   Response types "code id_token", "code token", "code id_token token", "id_token token", "id_token": the
   response names a state and carries up to three more members (code, ID Token, access token); the adversary
   recombines them member by member out of the genuine artefacts of several pending flows
   (Model/RpState.v flow / hybrid / hybrid_response).  What is accepted and STORED with a signed ID Token: the
   code and the access token stored are the ones the token's c_hash and at_hash cover - both, independently
   (hash rules of Model/IdToken.v, property C08). *)
Theorem C09_authz_members_hashed : forall lhash c r now c' stored,
  step_authz lhash c r now = (c', Ok stored) -> has_key (PS "error") stored = false ->
  exists d0, from_dict authz_resp_params (r_params r) [] = Ok d0 /\
    assoc (PS "state") stored = assoc (PS "state") d0 /\
    assoc (PS "code") stored = assoc (PS "code") d0 /\
    assoc (PS "access_token") stored = assoc (PS "access_token") d0 /\
    assoc (PS "id_token") stored = assoc (PS "id_token") d0 /\
    (forall s, assoc (PS "id_token") stored = Some (VStr s) ->
       exists v, assoc (verified_name (PS "id_token")) stored = Some v) /\
    (forall v, assoc (verified_name (PS "id_token")) stored = Some v ->
       exists t vd, r_idt r = Some t /\ v = VDict vd /\
         from_dict idtoken_params (t_claims t) [] = Ok vd /\
         (t_alg t <> PS "none" ->
            (forall x, assoc (PS "code") stored = Some (VStr x) ->
               assoc (PS "c_hash") vd = Some (VStr (lhash (hash_bits (t_alg t)) x))) /\
            (forall x, assoc (PS "access_token") stored = Some (VStr x) ->
               assoc (PS "at_hash") vd = Some (VStr (lhash (hash_bits (t_alg t)) x))))).
Proof. exact step_authz_members. Qed.
Print Assumptions C09_authz_members_hashed.

(* The binding of every member.  Universe fs of flows whose artefacts are genuine (the ID Token of a flow states
   only that flow's nonce and the left hashes of that flow's code and access token) and pairwise separate
   (fresh nonces, no hash collision among the issued codes / access tokens).  A response recombined from them
   member by member (state of A; code, ID Token, access token each of ANY flow, present or absent), delivered
   to a client where the flow named by the state is pending with its own nonce, that carries a signed ID Token
   and is accepted: the ID Token, the code and the access token are ALL the artefacts of the flow the state
   names, what is stored under that state are that flow's own code and access token, and only that record
   changes (with C09_reject_changes_nothing: a refused recombination leaves the pending flow as it was). *)
Theorem C09_hybrid_members_own : forall lhash fs w i h now w' stored,
  separate_flows lhash fs -> (forall f, In f fs -> genuine_flow lhash f) -> hybrid_within fs h ->
  (forall c rec, assoc i w = Some c -> db_get (cl_db c) (fl_state (hy_state h)) = Ok rec ->
                 assoc (PS "nonce") rec = Some (VStr (fl_nonce (hy_state h)))) ->
  step lhash w (OAuthz i (hybrid_response h) now) = (w', Ok stored) -> has_key (PS "error") stored = false ->
  forall fi, hy_idt h = Some fi -> t_alg (fl_idt fi) <> PS "none" ->
    hybrid_own h = true /\
    (forall g, hy_code h = Some g -> assoc (PS "code") stored = Some (VStr (fl_code (hy_state h)))) /\
    (forall g, hy_atok h = Some g -> assoc (PS "access_token") stored = Some (VStr (fl_atok (hy_state h)))) /\
    exists c, assoc i w = Some c /\
      w' = w_set w i (mkClient (cl_cfg c) (db_update (cl_db c) (fl_state (hy_state h)) stored) (cl_map c)).
Proof. exact world_hybrid_members_own. Qed.
Print Assumptions C09_hybrid_members_own.

(* non-vacuity: the hypotheses are satisfiable (two concrete "code id_token token" flows, a toy injective
   hash), the genuine response of flow A is accepted, and each single foreign member is refused with nothing
   changed: access token of B (at_hash), code of B (c_hash), ID Token of B *)
Example C09_hybrid_hypotheses_satisfiable :
  separate_flows ex_lhash [ex_flow_a; ex_flow_b] /\ (forall f, In f [ex_flow_a; ex_flow_b] -> genuine_flow ex_lhash f).
Proof. exact ex_flows_separate_genuine. Qed.

Example C09_hybrid_nonvacuous :
  let c0 := ex_two_flows (ex_cfg None None false) in
  let A := ex_flow_a in let B := ex_flow_b in
  is_ok (snd (step_authz ex_lhash c0 (hybrid_response (mkHybrid A (Some A) (Some A) (Some A))) ex_now)) = true /\
  step_authz ex_lhash c0 (hybrid_response (mkHybrid A (Some A) (Some A) (Some B))) ex_now = (c0, Err E_AtHashError) /\
  step_authz ex_lhash c0 (hybrid_response (mkHybrid A (Some B) (Some A) (Some A))) ex_now = (c0, Err E_CHashError) /\
  step_authz ex_lhash c0 (hybrid_response (mkHybrid A (Some B) (Some A) (Some B))) ex_now = (c0, Err E_AtHashError) /\
  fst (step_authz ex_lhash c0 (hybrid_response (mkHybrid A (Some A) (Some B) (Some A))) ex_now) = c0 /\
  is_ok (snd (step_authz ex_lhash c0 (hybrid_response (mkHybrid A (Some A) (Some B) (Some A))) ex_now)) = false /\
  is_ok (snd (step_authz ex_lhash c0 (hybrid_response (mkHybrid A (Some B) (Some B) (Some B))) ex_now)) = false /\
  is_ok (snd (step_authz ex_lhash c0 (hybrid_response (mkHybrid B (Some B) (Some B) (Some B))) ex_now)) = true.
Proof. vm_compute. repeat split. Qed.

(* non-vacuity: two issuers, one pending flow each; the response for the flow of issuer 1 is accepted by
   client 1, refused (KeyError, nothing changes) when delivered to client 2, refused with a wrong iss
   parameter; an ID token carrying the nonce of the other pending flow of the same client is refused *)
Example C09_nonvacuous :
  let w0 := run ex_lhash ex_world
              [OBegin ex_iss (PS "S1") (PS "N1") (ex_req (PS "S1") (PS "N1"));
               OBegin ex_iss (PS "S2") (PS "N2") (ex_req (PS "S2") (PS "N2"));
               OBegin ex_iss2 (PS "T1") (PS "M1") (ex_req (PS "T1") (PS "M1"))] in
  let good := ex_authz_resp (PS "S1") None in
  is_ok (snd (step ex_lhash w0 (OAuthz ex_iss good ex_now))) = true /\
  step ex_lhash w0 (OAuthz ex_iss2 good ex_now) = (w0, Err KeyError) /\
  step ex_lhash w0 (OAuthz ex_iss (mkResp ((PS "iss", VStr ex_iss2) :: r_params good) None) ex_now)
    = (w0, Err E_VerificationError) /\
  step ex_lhash w0 (OAuthz ex_iss (ex_authz_resp (PS "s1") None) ex_now) = (w0, Err KeyError) /\
  (let w1 := fst (step ex_lhash w0 (OAuthz ex_iss good ex_now)) in
   step ex_lhash w1 (OToken ex_iss (PS "S1") (ex_token_resp (Some (ex_tok_te (PS "N2") (PS "diana")))) ex_now)
     = (w1, Err E_ParameterError) /\
   is_ok (snd (step ex_lhash w1 (OToken ex_iss (PS "S1") (ex_token_resp (Some (ex_tok_te (PS "N1") (PS "diana")))) ex_now)))
     = true).
Proof. vm_compute. repeat split. Qed.

(* --- round 12: the look-up by state is the source's Current.get --- *)
From Verif Require Lib.PyOps Gen.Src_current Proofs.Src_refine_current.
Theorem C09_current_get_is_source : forall db map k clock,
  Src_current.Current_get_src (Src_refine_current.inject_current db map) (VStr k) clock
  = Src_refine_current.lift_rec (db_get db k).
Proof. exact Src_refine_current.current_get_refines. Qed.
Print Assumptions C09_current_get_is_source.
Theorem C09_lookup_ignores_bound_keys : forall db m1 m2 k clock,
  Src_current.Current_get_src (Src_refine_current.inject_current db m1) (VStr k) clock
  = Src_current.Current_get_src (Src_refine_current.inject_current db m2) (VStr k) clock.
Proof. exact Src_refine_current.current_get_ignores_map. Qed.
Print Assumptions C09_lookup_ignores_bound_keys.
Theorem C09_is_error_message_is_source : forall d clock,
  Src_current.is_error_message_src (VDict d) clock = Ok (VBool (has_key (PS "error") d)).
Proof. exact Src_refine_current.is_error_message_refines. Qed.
Print Assumptions C09_is_error_message_is_source.
(* --- end round 12 --- *)
