(* Props/C10.v — placeholder while the driver is being developed *)
From Coq Require Import String.
From Verif Require Import Lib.Base Lib.PyStr Lib.MsgSchema Gen.Schema Model.Msg Model.MsgCheck.
Example C10_placeholder : length all_classes = 108%nat.
Proof. vm_compute. reflexivity. Qed.
