(* Props/C10.v — property C10: protocol messages survive every wire format unchanged.
   Only statements, each closed by `exact <lemma>`, with Print Assumptions, and non-vacuity examples.

   Scope.  The Gallina model (Model/Msg.v) and these theorems cover the parameter kinds named by
   `param_modelled`: str / int / bool scalars and both [str] list kinds (777 of 861 declared
   parameters), parameters outside the schema and language-tagged keys, for EVERY class of the
   regenerated table Gen/Schema.v.  JSON text and JWT/JWE are the dict layer under a trusted
   text / crypto layer (exercised by the driver's oracle).  The remaining 29 kinds (nested Message
   objects, JSON-text kinds, identity assurance) are pinned in Model/MsgKinds.v and decided by the
   oracle on the real code only; the known findings form:message, form:message-list, form:dict,
   form:extra, form:ia-*, json:ia-* live there.  For nested messages the step that is modelled is the
   nested deserializer itself (deserialize_from_one_of, Model/Msg.v one_of): which wire format the nested
   value is read as, for nested classes of the modelled fragment (C10_nested_dict_roundtrip, C10_nested_form_partial). *)
From Coq Require Import String.
From Verif Require Import Lib.Base Lib.PyStr Lib.Urlenc Lib.Utf8 Lib.Qs Lib.MsgSchema Gen.Schema
  Model.Msg Model.MsgKinds Model.MsgRules Model.MsgCheck Proofs.Qs_proofs Proofs.Msg_proofs Proofs.MsgTable_proofs.
Open Scope string_scope.

(* ---- the wire text layer: characters with special meaning survive ---- *)
(* str.encode("utf-8") / decode: every string of Unicode scalar values *)
Theorem C10_utf8_roundtrip : forall s b, utf8_encode s = Some b -> utf8_decode b = Some s.
Proof. exact utf8_roundtrip. Qed.
Print Assumptions C10_utf8_roundtrip.

(* parse_qsl (urlencode l) = l for every list of (name, non-empty value) pairs of encodable strings:
   space, +, &, =, %, #, quotes, non-ASCII included *)
Theorem C10_query_string_roundtrip :
  forall l t, urlencode l = Some t -> forallb (fun kv => nonempty (snd kv)) l = true -> parse_qsl t = Ok l.
Proof. exact parse_qsl_urlencode. Qed.
Print Assumptions C10_query_string_roundtrip.

(* ---- the quantification over classes and kinds, recomputed over the regenerated table ---- *)
(* every declared parameter of every class is of a modelled kind or of a kind pinned as opaque:
   a new class, value type, (de)serializer or null flag re-opens this obligation *)
Theorem C10_all_kinds_accounted :
  forall c p, In c all_classes -> In p (c_params c) -> kind_supported p = true.
Proof. exact kinds_accounted_all. Qed.
Print Assumptions C10_all_kinds_accounted.

(* ---- dict (and, under the trusted text layer, JSON / JWT / JWE) ---- *)
(* For every class of the table and every message of the modelled fragment valid for its schema
   (valid_msg: each entry a value of its parameter's kind, keys distinct, class defaults present):
   to_dict succeeds, constructing the class from that dict succeeds, and the result has exactly the
   entries of the original message - nothing dropped, duplicated, split or altered; parameters
   outside the schema and language-tagged keys included. *)
Theorem C10_dict_roundtrip :
  forall c, In c all_classes -> forall m, valid_msg c m = true ->
  exists d r, to_dict c m = Ok d /\ construct c d = Ok r /\ same_entries r m.
Proof. intros c _. exact (dict_roundtrip c). Qed.
Print Assumptions C10_dict_roundtrip.

(* ---- nested messages (the helper deserialize_from_one_of behind address_deser, claims_deser, the nested
        registration request and the identity-assurance deserializers; Model/Msg.v one_of) ----
   A nested message of any class of the table, valid for its schema, handed to the nested deserializer as
   the dict of the nested object under sformat dict or json (= its JSON text, trusted text layer) comes back
   with exactly its entries, whatever characters its strings hold ("=", "&", "+", "%", "#" included: the
   JSON reading is tried before the form reading). *)
Theorem C10_nested_dict_roundtrip :
  forall c, In c all_classes -> forall m f, valid_msg c m = true -> f <> WUrl ->
  exists d r, to_dict c m = Ok d /\ one_of c f (VDict d) = Ok r /\ same_entries r m.
Proof. intros c _. exact (nested_dict_roundtrip c). Qed.
Print Assumptions C10_nested_dict_roundtrip.

(* the same helper on form text (sformat urlencoded), under the guard of finding F17 *)
Theorem C10_nested_form_partial :
  forall c, In c all_classes -> forall m, valid_form c m = true -> list_elems_no_space c m = true ->
  exists t r, to_urlencoded c m = Ok t /\ one_of c WUrl (VStr t) = Ok r /\ form_entries_of r m.
Proof. intros c _. exact (nested_form_roundtrip c). Qed.
Print Assumptions C10_nested_form_partial.

(* ---- form encoding ----
   Full statement (FALSE of the faithful model, known finding F17 `space-in-list-element`):
     forall c in all_classes, forall m, valid_form c m = true ->
       exists t r, to_urlencoded c m = Ok t /\ from_urlencoded c t (c_default c) = Ok r /\ form_entries_of r m.
   Proved with the guard that elements of list_serializer lists contain no space: *)
Theorem C10_urlencoded_partial :
  forall c, In c all_classes -> forall m, valid_form c m = true -> list_elems_no_space c m = true ->
  exists t r, to_urlencoded c m = Ok t /\ from_urlencoded c t (c_default c) = Ok r /\ form_entries_of r m.
Proof. intros c _. exact (urlencoded_roundtrip c). Qed.
Print Assumptions C10_urlencoded_partial.

(* ... and the guard is necessary: RegistrationRequest(contacts=["John Doe"]) comes back as
   ["John", "Doe"] *)
Theorem C10_urlencoded_refuted :
  exists c m, In c all_classes /\ valid_form c m = true /\ list_elems_no_space c m = false /\
    ~ (exists t r, to_urlencoded c m = Ok t /\ from_urlencoded c t (c_default c) = Ok r /\ form_entries_of r m).
Proof. exact urlencoded_refuted. Qed.
Print Assumptions C10_urlencoded_refuted.

(* ---- non-vacuity: a concrete oidc.AuthorizationRequest with metacharacters, a language tag, an
        extra parameter, an int and space-separated lists is valid and round-trips both ways ---- *)
Definition ex_class : pystr := PS "idpyoidc.message.oidc.AuthorizationRequest".
Definition ex_msg : msg :=
  [(PS "response_type", VList [VStr (PS "code"); VStr (PS "id_token")]);
   (PS "client_id", VStr (PS "c l&i=e%nt#+"));
   (PS "scope", VList [VStr (PS "openid"); VStr [229; 228; 246]]);
   (PS "redirect_uri", VStr (PS "https://rp.example/cb?x=1&y=2#frag"));
   (PS "max_age", VInt 3600);
   (PS "state#fr", VStr [233; 116; 97; 116; 32; 128512]);
   (PS "x_extra", VStr (PS "a b+c"))].
Example C10_nonvacuous :
  match find_class ex_class all_classes with
  | Some c =>
      valid_msg c ex_msg = true /\ valid_form c ex_msg = true /\ list_elems_no_space c ex_msg = true /\
      (d <- to_dict c ex_msg ;; construct c d) = Ok ex_msg /\
      match to_urlencoded c ex_msg with
      | Ok t => match from_urlencoded c t (c_default c) with
                | Ok r => assoc (PS "max_age") r = Some (VStr (PS "3600"))
                          /\ assoc (PS "client_id") r = assoc (PS "client_id") ex_msg
                          /\ assoc (PS "state#fr") r = assoc (PS "state#fr") ex_msg
                | _ => False
                end
      | _ => False
      end
  | None => False
  end.
Proof. vm_compute. repeat split; reflexivity. Qed.

(* a nested address whose strings hold form metacharacters survives the nested deserializer *)
Definition ex_nested_class : pystr := PS "idpyoidc.message.oidc.AddressClaim".
Definition ex_nested : msg :=
  [(PS "street_address", VStr (PS "c/o R&D, Room=12")); (PS "locality", VStr [85; 109; 101; 229]);
   (PS "x_note", VStr (PS "https://rp.example/cb?a=1&b=2#f+%"))].
Example C10_nested_nonvacuous :
  match find_class ex_nested_class all_classes with
  | Some c => valid_msg c ex_nested = true
              /\ (d <- to_dict c ex_nested ;; one_of c WDict (VDict d)) = Ok ex_nested
              /\ (d <- to_dict c ex_nested ;; one_of c WJson (VDict d)) = Ok ex_nested
              /\ (t <- to_urlencoded c ex_nested ;; one_of c WUrl (VStr t)) = Ok ex_nested
  | None => False
  end.
Proof. vm_compute. repeat split; reflexivity. Qed.
