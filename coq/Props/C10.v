(* Props/C10.v — property C10: protocol messages survive every wire format unchanged.
   Only statements, each closed by `exact <lemma>`, with Print Assumptions, and non-vacuity examples.

   Scope.  The Gallina model (Model/Msg.v) and these theorems cover the parameter kinds named by
   `param_modelled`: str / int / bool scalars and both [str] list kinds (777 of 861 declared
   parameters), parameters outside the schema and language-tagged keys, for EVERY class of the
   regenerated table Gen/Schema.v.  JSON text and JWT/JWE are the dict layer under a trusted
   text / crypto layer (exercised by the driver's oracle).  The remaining 29 kinds (nested Message
   objects, JSON-text kinds, identity assurance) are pinned in Model/MsgKinds.v and decided by the
   oracle on the real code only; the known findings form:message, form:message-list, form:dict,
   form:extra, form:ia-*, json:ia-* live there.  For nested messages the step that is modelled is the
   nested deserializer itself (deserialize_from_one_of, Model/Msg.v one_of): which wire format the nested
   value is read as, for nested classes of the modelled fragment (C10_nested_dict_roundtrip, C10_nested_form_partial). *)
From Coq Require Import String.
From Verif Require Import Lib.Base Lib.PyStr Lib.Urlenc Lib.Utf8 Lib.Qs Lib.MsgSchema Gen.Schema
  Model.Msg Model.MsgKinds Model.MsgRules Model.MsgCheck Proofs.Qs_proofs Proofs.Msg_proofs Proofs.MsgTable_proofs.
Open Scope string_scope.

(* ---- the wire text layer: characters with special meaning survive ---- *)
(* str.encode("utf-8") / decode: every string of Unicode scalar values *)
Theorem C10_utf8_roundtrip : forall s b, utf8_encode s = Some b -> utf8_decode b = Some s.
Proof. exact utf8_roundtrip. Qed.
Print Assumptions C10_utf8_roundtrip.

(* parse_qsl (urlencode l) = l for every list of (name, non-empty value) pairs of encodable strings:
   space, +, &, =, %, #, quotes, non-ASCII included *)
Theorem C10_query_string_roundtrip :
  forall l t, urlencode l = Some t -> forallb (fun kv => nonempty (snd kv)) l = true -> parse_qsl t = Ok l.
Proof. exact parse_qsl_urlencode. Qed.
Print Assumptions C10_query_string_roundtrip.

(* ---- the quantification over classes and kinds, recomputed over the regenerated table ---- *)
(* every declared parameter of every class is of a modelled kind or of a kind pinned as opaque:
   a new class, value type, (de)serializer or null flag re-opens this obligation *)
Theorem C10_all_kinds_accounted :
  forall c p, In c all_classes -> In p (c_params c) -> kind_supported p = true.
Proof. exact kinds_accounted_all. Qed.
Print Assumptions C10_all_kinds_accounted.

(* ---- dict (and, under the trusted text layer, JSON / JWT / JWE) ---- *)
(* For every class of the table and every message of the modelled fragment valid for its schema
   (valid_msg: each entry a value of its parameter's kind, keys distinct, class defaults present):
   to_dict succeeds, constructing the class from that dict succeeds, and the result has exactly the
   entries of the original message - nothing dropped, duplicated, split or altered; parameters
   outside the schema and language-tagged keys included. *)
Theorem C10_dict_roundtrip :
  forall c, In c all_classes -> forall m, valid_msg c m = true ->
  exists d r, to_dict c m = Ok d /\ construct c d = Ok r /\ same_entries r m.
Proof. intros c _. exact (dict_roundtrip c). Qed.
Print Assumptions C10_dict_roundtrip.

(* ---- nested messages (the helper deserialize_from_one_of behind address_deser, claims_deser, the nested
        registration request and the identity-assurance deserializers; Model/Msg.v one_of) ----
   A nested message of any class of the table, valid for its schema, handed to the nested deserializer as
   the dict of the nested object under sformat dict or json (= its JSON text, trusted text layer) comes back
   with exactly its entries, whatever characters its strings hold ("=", "&", "+", "%", "#" included: the
   JSON reading is tried before the form reading). *)
Theorem C10_nested_dict_roundtrip :
  forall c, In c all_classes -> forall m f, valid_msg c m = true -> f <> WUrl ->
  exists d r, to_dict c m = Ok d /\ one_of c f (VDict d) = Ok r /\ same_entries r m.
Proof. intros c _. exact (nested_dict_roundtrip c). Qed.
Print Assumptions C10_nested_dict_roundtrip.

(* the same helper on form text (sformat urlencoded), under the guard of finding F17 *)
Theorem C10_nested_form_partial :
  forall c, In c all_classes -> forall m, valid_form c m = true -> list_elems_no_space c m = true ->
  exists t r, to_urlencoded c m = Ok t /\ one_of c WUrl (VStr t) = Ok r /\ form_entries_of r m.
Proof. intros c _. exact (nested_form_roundtrip c). Qed.
Print Assumptions C10_nested_form_partial.

(* ---- form encoding ----
   Full statement (FALSE of the faithful model, known finding F17 `space-in-list-element`):
     forall c in all_classes, forall m, valid_form c m = true ->
       exists t r, to_urlencoded c m = Ok t /\ from_urlencoded c t (c_default c) = Ok r /\ form_entries_of r m.
   Proved with the guard that elements of list_serializer lists contain no space: *)
Theorem C10_urlencoded_partial :
  forall c, In c all_classes -> forall m, valid_form c m = true -> list_elems_no_space c m = true ->
  exists t r, to_urlencoded c m = Ok t /\ from_urlencoded c t (c_default c) = Ok r /\ form_entries_of r m.
Proof. intros c _. exact (urlencoded_roundtrip c). Qed.
Print Assumptions C10_urlencoded_partial.

(* ... and the guard is necessary: RegistrationRequest(contacts=["John Doe"]) comes back as
   ["John", "Doe"] *)
Theorem C10_urlencoded_refuted :
  exists c m, In c all_classes /\ valid_form c m = true /\ list_elems_no_space c m = false /\
    ~ (exists t r, to_urlencoded c m = Ok t /\ from_urlencoded c t (c_default c) = Ok r /\ form_entries_of r m).
Proof. exact urlencoded_refuted. Qed.
Print Assumptions C10_urlencoded_refuted.

(* ---- non-vacuity: a concrete oidc.AuthorizationRequest with metacharacters, a language tag, an
        extra parameter, an int and space-separated lists is valid and round-trips both ways ---- *)
Definition ex_class : pystr := PS "idpyoidc.message.oidc.AuthorizationRequest".
Definition ex_msg : msg :=
  [(PS "response_type", VList [VStr (PS "code"); VStr (PS "id_token")]);
   (PS "client_id", VStr (PS "c l&i=e%nt#+"));
   (PS "scope", VList [VStr (PS "openid"); VStr [229; 228; 246]]);
   (PS "redirect_uri", VStr (PS "https://rp.example/cb?x=1&y=2#frag"));
   (PS "max_age", VInt 3600);
   (PS "state#fr", VStr [233; 116; 97; 116; 32; 128512]);
   (PS "x_extra", VStr (PS "a b+c"))].
Example C10_nonvacuous :
  match find_class ex_class all_classes with
  | Some c =>
      valid_msg c ex_msg = true /\ valid_form c ex_msg = true /\ list_elems_no_space c ex_msg = true /\
      (d <- to_dict c ex_msg ;; construct c d) = Ok ex_msg /\
      match to_urlencoded c ex_msg with
      | Ok t => match from_urlencoded c t (c_default c) with
                | Ok r => assoc (PS "max_age") r = Some (VStr (PS "3600"))
                          /\ assoc (PS "client_id") r = assoc (PS "client_id") ex_msg
                          /\ assoc (PS "state#fr") r = assoc (PS "state#fr") ex_msg
                | _ => False
                end
      | _ => False
      end
  | None => False
  end.
Proof. vm_compute. repeat split; reflexivity. Qed.

(* a nested address whose strings hold form metacharacters survives the nested deserializer *)
Definition ex_nested_class : pystr := PS "idpyoidc.message.oidc.AddressClaim".
Definition ex_nested : msg :=
  [(PS "street_address", VStr (PS "c/o R&D, Room=12")); (PS "locality", VStr [85; 109; 101; 229]);
   (PS "x_note", VStr (PS "https://rp.example/cb?a=1&b=2#f+%"))].
Example C10_nested_nonvacuous :
  match find_class ex_nested_class all_classes with
  | Some c => valid_msg c ex_nested = true
              /\ (d <- to_dict c ex_nested ;; one_of c WDict (VDict d)) = Ok ex_nested
              /\ (d <- to_dict c ex_nested ;; one_of c WJson (VDict d)) = Ok ex_nested
              /\ (t <- to_urlencoded c ex_nested ;; one_of c WUrl (VStr t)) = Ok ex_nested
  | None => False
  end.
Proof. vm_compute. repeat split; reflexivity. Qed.

(* --- round 11 --- *)
(* Histories of round trips in ONE process (Model/MsgHistory.v).  The theorems above speak about one isolated
   serialise / deserialise cycle; the property speaks about every message, whatever the process did before.  In the
   model a deserialisation is a pure function of the class and the wire form, so the statements below are immediate -
   they name what the correspondence now checks on the real classes (harness/drv_C10.py `history`, checker
   `chk_history`): after an arbitrary history of readings, in-place edits of the instances received and
   serialisations, the implementation's answer on wire form t is the model's answer on t, and instances are
   independent of one another. *)
From Verif Require Import Model.MsgHistory Proofs.MsgHistory_proofs.

(* a reading (constructor / from_dict / from_json, from_urlencoded, a nested deserializer) answers from the wire form
   alone: the same answer in every state of the process *)
Theorem C10_reading_state_independent :
  forall st st' e r, recv_out e = Some r -> snd (hstep st e) = OMsg r /\ snd (hstep st' e) = snd (hstep st e).
Proof. exact reading_state_independent. Qed.
Print Assumptions C10_reading_state_independent.

(* ... hence the answer at the end of ANY two histories, from any two states, is the same *)
Theorem C10_reading_history_independent :
  forall es es' st st' e r, recv_out e = Some r ->
  last (snd (hrun st (es ++ [e]))) ONone = last (snd (hrun st' (es' ++ [e]))) ONone.
Proof. exact last_reading_two. Qed.
Print Assumptions C10_reading_history_independent.

(* the holder's edit of ITS instance reaches no other instance the process holds (the model's "no shared mutable
   value"), and serialising changes nothing that is held *)
Theorem C10_edit_stays_in_its_instance :
  forall st e j, match e with HSet i _ _ | HDel i _ => i <> j | _ => False end ->
  nth_error (fst (hstep st e)) j = nth_error st j /\ length (fst (hstep st e)) = length st.
Proof. exact edit_local. Qed.
Print Assumptions C10_edit_stays_in_its_instance.

Theorem C10_serialising_keeps_instances :
  forall st e, match e with HToDict _ _ | HToUrl _ _ => True | _ => False end -> fst (hstep st e) = st.
Proof. exact send_keeps_store. Qed.
Print Assumptions C10_serialising_keeps_instances.

(* the round-trip theorems at the end of an arbitrary history: for every class name of the table and every valid
   message, whatever was read, edited and serialised before (es, from any state st), the message comes back with
   exactly its entries *)
Theorem C10_dict_roundtrip_after_history :
  forall n c, find_class n all_classes = Some c -> forall m, valid_msg c m = true -> forall es st,
  exists d r, to_dict c m = Ok d /\ last (snd (hrun st (es ++ [HConstruct n d]))) ONone = OMsg (Ok r) /\ same_entries r m.
Proof. exact history_dict_roundtrip. Qed.
Print Assumptions C10_dict_roundtrip_after_history.

Theorem C10_nested_dict_roundtrip_after_history :
  forall n c, find_class n all_classes = Some c -> forall m f, valid_msg c m = true -> f <> WUrl -> forall es st,
  exists d r, to_dict c m = Ok d /\ last (snd (hrun st (es ++ [HOneOf n f (VDict d)]))) ONone = OMsg (Ok r) /\ same_entries r m.
Proof. exact history_nested_roundtrip. Qed.
Print Assumptions C10_nested_dict_roundtrip_after_history.

Theorem C10_urlencoded_partial_after_history :
  forall n c, find_class n all_classes = Some c -> forall m, valid_form c m = true -> list_elems_no_space c m = true ->
  forall es st,
  exists t r, to_urlencoded c m = Ok t /\ last (snd (hrun st (es ++ [HFromUrl n t]))) ONone = OMsg (Ok r) /\ form_entries_of r m.
Proof. exact history_urlencoded_roundtrip. Qed.
Print Assumptions C10_urlencoded_partial_after_history.

(* non-vacuity: the example message is read, the receiver edits its copy (a scope removed, an audience of its own
   added, the extra parameter deleted), the same wire form is read again by the class and the edited copy is sent on:
   the second reading is the message, the first slot holds the edits *)
Example C10_history_nonvacuous :
  let es := [HConstruct ex_class ex_msg;
             HSet 0 (PS "scope") (VList [VStr (PS "openid")]); HSet 0 (PS "x_mine") (VList [VStr (PS "a")]);
             HDel 0 (PS "x_extra");
             HConstruct ex_class ex_msg; HToDict ex_class 0] in
  match hrun [] es with
  | (st, [OMsg (Ok a); ONone; ONone; ONone; OMsg (Ok b); OMsg (Ok c)]) =>
      a = ex_msg /\ b = ex_msg /\ nth_error st 1 = Some (Some ex_msg)
      /\ assoc (PS "x_mine") c = Some (VList [VStr (PS "a")]) /\ assoc (PS "x_extra") c = None
      /\ chk_history (es, Ok (snd (hrun [] es))) = true
  | _ => False
  end.
Proof. vm_compute. repeat split; reflexivity. Qed.
(* --- end round 11 --- *)
