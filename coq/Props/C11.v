(* Props/C11.v — property C11: message verification enforces the declared schema.
   Only statements, each closed by `exact <lemma>`, with Print Assumptions, and non-vacuity examples.

   Scope.  Generic verify(): every class of the regenerated table (any schema).  Chaining of the 33
   verify() overrides: flags extracted by ast inspection on every run (Gen/Schema.v).  Typed slots:
   the five modelled kinds (777 of 861 declared parameters); JSON floats are outside the value
   universe of the model and are decided by the driver's type matrix on the real code.
   Cross-parameter rules (Model/Msg.v, Model/MsgRules.v): oidc.AuthorizationRequest / OpenIDRequest
   (without request object and id_token_hint), ResponseMessage, oauth2/oidc AuthorizationResponse,
   RegistrationRequest, RegistrationResponse, ProviderConfigurationResponse, OpenIDSchema, IdToken,
   JsonWebToken / AuthnToken, LogoutToken, EndSessionRequest: each rule set is the ordered list of
   (condition, exception) the code checks, tied to the code by exhaustive truth tables.  Request objects:
   oauth2.JWTSecuredAuthorizationRequest / PushedAuthorizationRequest (unpack, strict / lax merge, generic
   check on the merged message; the signature check is symbolic), tied to the code by the driver's
   request-object matrix.  Embedded signed objects with symbolic cryptography (token: JWS valid / forged / alg
   none, bare JSON, JWE around any of them): embedded_verify, instantiated for session.BackChannelLogoutRequest
   and tied to the code by the signed-object matrix.  The ID Token inside oidc.AuthorizationResponse /
   oidc.AccessTokenResponse: verify_id_token for a token whose signature verifies (MsgRules.v verify_id_token,
   oidc_authzresp_verify_idt, oidc_tokenresp_verify_idt; the left-half hash is an environment function), with the
   two bindings code <-> c_hash and access_token <-> at_hash as two independent rule lists, tied to the code by
   the full truth table of the driver (hash_tables).  Rules over a SET of parameters (MsgRules.v presence /
   count_true): Message.has_none_or_one_of as the loop it is, proved to answer "at most one present" for every list
   length and pattern and in every order of the names; at-least-one / all-or-none / all / none / exactly-one likewise;
   the classes' rules stated through them (CIBA AuthenticationRequest with its request object and id_token_hint
   symbolic, RegistrationResponse, LogoutToken, JWTSecuredAuthorizationRequest, OauthClientMetadata /
   OauthClientInformationResponse, device AccessTokenRequest), the names of the CIBA hint rule regenerated from the
   code (Gen/Schema.v set_rule_calls), tied to the code by the driver's full presence tables.
   The other embedded signed objects (forged / unsigned ID
   Tokens, id_token_hint, the request object of oauth2 / oidc AuthorizationRequest) and the opaque kinds are
   decided by the driver's oracle on the real code only.
   WHICH schema: the tables of Gen/Schema.v are read off the class objects after the whole package has been imported -
   mutable dicts that another class body (`c_param = Parent.c_param` without copy, then `.update`; a shallow copy whose
   lists are extended) or module-level code may have changed at import time.  Gen/SchemaDecl.v holds the tables as the
   SOURCE TEXT of each class body declares them (harness/schema_decl.py: ast, evaluated by value, independent of import
   order, fail closed); the section "the declared schema" below states that the two are the same tables, so that every
   theorem of this file speaks about the declared schema; the driver's isolation runs (one fresh interpreter per
   module) tie the run-time side to every import order. *)
From Coq Require Import String.
From Verif Require Import Lib.Base Lib.PyStr Lib.MsgSchema Gen.Schema Gen.SchemaDecl
  Model.Msg Model.MsgKinds Model.MsgRules Model.MsgCheck Model.MsgDecl
  Proofs.Msg_proofs Proofs.MsgTable_proofs Proofs.MsgRules_proofs Proofs.MsgDecl_proofs.
Open Scope string_scope.

(* ---- the generic check ---- *)
(* Message.verify() accepts exactly the messages that satisfy the schema as the property reads it:
   every required parameter present and non-empty (booleans: present), every value with an
   enumerated set inside that set.  For every schema, hence every class of the table. *)
Theorem C11_generic : forall c m, generic_verify c m = Ok tt <-> schema_ok c m = true.
Proof. exact generic_verify_iff. Qed.
Print Assumptions C11_generic.

(* ... spelled out per parameter *)
Theorem C11_generic_sound :
  forall c m p, generic_verify c m = Ok tt -> In p (c_params c) -> p_name p <> star ->
  (p_req p = true ->
     exists v, assoc (p_name p) m = Some v /\ (is_bool_ty (p_ty p) = true \/ py_truthy v = true))
  /\ (forall al v, assoc (p_name p) (c_allowed c) = Some al -> assoc (p_name p) m = Some v ->
        (is_bool_ty (p_ty p) = true \/ py_truthy v = true) ->
        type_check (p_ty p) al v (p_null p) = true).
Proof. exact generic_verify_sound. Qed.
Print Assumptions C11_generic_sound.

(* ---- no class skips it ---- *)
(* for every class of the regenerated table that overrides verify(), every accepting path of the
   override has called an ancestor's verify (ast inspection, recomputed on every run) ... *)
Theorem C11_all_classes :
  forall c, In c all_classes -> c_overrides_verify c = true -> c_chains c = true.
Proof. exact table_chains_all. Qed.
Print Assumptions C11_all_classes.

(* ... so whatever the class's own rules do, an accepted message went through the generic check,
   before the rules (parent called first) or after them (parent called last: JAR / PAR) *)
Theorem C11_all_classes_generic :
  forall c rules m m', In c all_classes -> class_verify rules c m = Ok m' ->
  generic_verify c m = Ok tt \/ generic_verify c m' = Ok tt.
Proof. exact all_classes_reach_generic. Qed.
Print Assumptions C11_all_classes_generic.

(* ---- typed slots ----
   Full statement (FALSE of the faithful model, finding `slot:[str]<-dict`):
     add_value p v = Ok (Some w) -> (v = None /\ w = None) \/ (has_type w /\ (w = v \/ coerced v w)).
   Proved with the guard that a dict is not given to a list parameter: what construction /
   deserialisation stores has the declared type and is the given value or a lossless coercion of it
   (int("12"), a bare str wrapped or split into the list it denotes); the only other stored value
   is None for None. *)
Theorem C11_typed_partial :
  forall p k v w, modelled_kind p = Some k -> slot_guard p v = true -> add_value p v = Ok (Some w) ->
  (v = VNone /\ w = VNone) \/ (has_type (p_ty p) w = true /\ (w = v \/ coerced p v w = true)).
Proof. exact add_value_typed. Qed.
Print Assumptions C11_typed_partial.

Theorem C11_typed_refuted :
  exists p k v w, modelled_kind p = Some k /\ slot_guard p v = false /\ add_value p v = Ok (Some w)
                  /\ v <> VNone /\ has_type (p_ty p) w = false.
Proof. exact typed_refuted. Qed.
Print Assumptions C11_typed_refuted.

(* ---- cross-parameter rules of oidc.AuthorizationRequest (and OpenIDRequest) ---- *)
(* the rules, for all messages whose response_type / scope / prompt are lists: accepted exactly when
   response_type is present, an id_token response type comes with a nonce (the expected one when
   given), openid is among the scopes, offline_access comes with prompt=consent, and prompt=none
   stands alone *)
Theorem C11_rules_AuthorizationRequest :
  forall nonce m, authz_lists_typed m = true -> (authz_rules nonce m = Ok tt <-> authz_ok nonce m = true).
Proof. exact authz_rules_iff. Qed.
Print Assumptions C11_rules_AuthorizationRequest.

(* verify() as a whole: the message as it stands afterwards satisfies schema and rules *)
Theorem C11_AuthorizationRequest_verify :
  forall c nonce m m', find_param verified_request (c_params c) = None ->
  authz_verify c nonce m = Ok m' -> schema_ok c m' = true /\ authz_rules nonce m' = Ok tt.
Proof. exact authz_verify_sound. Qed.
Print Assumptions C11_AuthorizationRequest_verify.

(* ---- verify() of the classes that unpack and merge a signed request object (Model/Msg.v jar_verify:
        oauth2.JWTSecuredAuthorizationRequest, strict merge; par_verify: oauth2.PushedAuthorizationRequest,
        lax merge); the object's signature check is symbolic (payload = Some p: verified content p) ---- *)
(* the message AS IT STANDS AFTER verification satisfies the schema, whatever the object holds or omits *)
Theorem C11_JAR_verify :
  forall c roc payload m m', jar_verify c roc payload m = Ok m' -> schema_ok c m' = true.
Proof. exact jar_verify_sound. Qed.
Print Assumptions C11_JAR_verify.

Theorem C11_PAR_verify :
  forall c roc payload m m', par_verify c roc payload m = Ok m' -> schema_ok c m' = true.
Proof. exact par_verify_sound. Qed.
Print Assumptions C11_PAR_verify.

(* ... and because the strict merge deletes every outer parameter the object does not carry, an accepted
   JWT-secured request has every required parameter inside the signed object: a complete outer request does
   not make up for an object that omits response_type or client_id *)
Theorem C11_JAR_required_in_object :
  forall c roc p m m' ro q, find_param verified_request (c_params c) = None ->
  has_key (PS "request") m = true -> jar_verify c roc (Some p) m = Ok m' -> construct roc p = Ok ro ->
  In q (c_params c) -> p_req q = true -> p_name q <> star -> has_key (p_name q) ro = true.
Proof. exact jar_required_in_object. Qed.
Print Assumptions C11_JAR_required_in_object.

(* ---- embedded signed objects, cryptography symbolic (Model/Msg.v token / open_token / embedded_verify:
        Message.from_jwt followed by the embedded class's verify and the allowed_sign_alg keyword; instantiated
        for session.BackChannelLogoutRequest in Model/MsgCheck.v bclogout_verify) ----
   With the caller naming the one signing algorithm it expects, an embedded object is accepted only if it
   carries a valid signature of the expected issuer made with that algorithm - encrypted to the verifier or
   not.  Bare JSON inside a JWE, alg none and forged signatures are refused whatever the class's own rules
   are (alg-none tokens carry the header value "none": none_headers_ok). *)
Theorem C11_embedded_only_signed :
  forall rules a lc t o, a <> [] -> a <> PS "none" -> none_headers_ok t ->
  embedded_verify rules (Some a) lc t = Ok o -> signed_with a t.
Proof. exact embedded_verify_only_signed. Qed.
Print Assumptions C11_embedded_only_signed.

(* Full statement without the keyword (FALSE of the faithful model; findings signed-object:alg-none and
   signed-object:jwe:bare-json / jwe:alg-none of the logout token and of every request class):
     embedded_verify rules None lc t = Ok o -> exists a, signed_with a t.
   Witness: unsigned JSON encrypted to the verifier's published key is read by json.loads and accepted. *)
Theorem C11_embedded_refuted :
  forall lc p o, construct lc p = Ok o ->
  embedded_verify (fun _ => Ok tt) None lc (TJwe (TJson p)) = Ok o /\ ~ (exists a, signed_with a (TJwe (TJson p))).
Proof. exact embedded_verify_refuted. Qed.
Print Assumptions C11_embedded_refuted.

(* ---- cross-parameter rules of the other classes: accepted exactly when the parent check accepts and
        every rule of the class holds (`all_hold` of the ordered rule list) ---- *)
Theorem C11_rules_ProviderConfigurationResponse :
  forall c allow m, pcr_typed m = true ->
  (pcr_verify c allow m = Ok tt <-> response_verify c m = Ok tt /\ all_hold (pcr_checks allow m) = true).
Proof. exact pcr_verify_iff. Qed.
Print Assumptions C11_rules_ProviderConfigurationResponse.

(* spelled out: EVERY response type that contains "code" (the code flow and all hybrid flows) needs a
   token endpoint; https issuer without query / fragment; openid advertised; no "none" for client
   authentication; a real id_token signing algorithm *)
Theorem C11_ProviderConfigurationResponse_accepts_only :
  forall c allow m, pcr_typed m = true -> pcr_verify c allow m = Ok tt ->
  let issuer := match get "issuer" m with Some (VStr s) => s | _ => [] end in
  let rts := strs (list_of (get "response_types_supported" m)) in
  (forall rt, In rt rts -> contains (PS "code") rt = true -> has "token_endpoint" m = true)
  /\ (allow = false -> fst (url_scheme_rest issuer) = PS "https")
  /\ url_query (snd (url_scheme_rest issuer)) = [] /\ url_fragment (snd (url_scheme_rest issuer)) = []
  /\ (has "scopes_supported" m = true -> In (PS "openid") (strs (list_of (get "scopes_supported" m))))
  /\ ~ In (PS "none") (strs (list_of (get "token_endpoint_auth_signing_alg_values_supported" m)))
  /\ (exists a, In a (strs (list_of (get "id_token_signing_alg_values_supported" m))) /\ lower a <> PS "none").
Proof. exact pcr_accepts_only. Qed.
Print Assumptions C11_ProviderConfigurationResponse_accepts_only.

Theorem C11_rules_ResponseMessage :
  forall c m, response_typed m = true ->
  (response_verify c m = Ok tt <-> generic_verify c m = Ok tt /\ all_hold (response_checks m) = true).
Proof. exact response_verify_iff. Qed.
Print Assumptions C11_rules_ResponseMessage.

Theorem C11_rules_AuthorizationResponse :
  forall c kw m, authzresp_verify c kw m = Ok tt <->
                 response_verify c m = Ok tt /\ all_hold (authzresp_checks kw m) = true.
Proof. exact authzresp_verify_iff. Qed.
Print Assumptions C11_rules_AuthorizationResponse.

Theorem C11_rules_RegistrationResponse :
  forall c m, regresp_verify c m = Ok tt <->
  response_verify c m = Ok tt /\ has "registration_client_uri" m = has "registration_access_token" m.
Proof. exact regresp_verify_iff. Qed.
Print Assumptions C11_rules_RegistrationResponse.

Theorem C11_RegistrationRequest_accepts_only :
  forall c m m', regreq_verify c m = Ok m' -> regreq_post m' = true.
Proof. exact regreq_accepts_only. Qed.
Print Assumptions C11_RegistrationRequest_accepts_only.

Theorem C11_rules_IdToken :
  forall c now kw m, idtoken_typed kw m = true ->
  (idtoken_verify c now kw m = Ok tt <->
   (exists b, openid_verify c m = Ok b) /\ all_hold (idtoken_checks now kw m) = true).
Proof. exact idtoken_verify_iff. Qed.
Print Assumptions C11_rules_IdToken.

Theorem C11_IdToken_time_rules :
  forall c now kw m, idtoken_typed kw m = true -> idtoken_verify c now kw m = Ok tt ->
  let skew := kw_int "skew" 0%Z kw in
  let exp := int_of (get "exp" m) in let iat := int_of (get "iat" m) in
  (now - skew <= exp /\ iat <= now + skew /\ now - skew <= iat + kw_int "nonce_storage_time" NONCE_STORAGE_TIME kw
   /\ iat <= exp)%Z.
Proof. exact idtoken_time_rules. Qed.
Print Assumptions C11_IdToken_time_rules.

Theorem C11_rules_JsonWebToken :
  forall c now kw m, jwt_typed kw m = true ->
  (jwt_verify c now kw m = Ok tt <-> generic_verify c m = Ok tt /\ all_hold (jwt_checks now kw m) = true).
Proof. exact jwt_verify_iff. Qed.
Print Assumptions C11_rules_JsonWebToken.

Theorem C11_rules_LogoutToken :
  forall c now kw m, logout_typed kw m = true ->
  (logout_verify c now kw m = Ok tt <-> generic_verify c m = Ok tt /\ all_hold (logout_checks now kw m) = true).
Proof. exact logout_verify_iff. Qed.
Print Assumptions C11_rules_LogoutToken.

Theorem C11_LogoutToken_accepts_only :
  forall c now kw m, logout_typed kw m = true -> logout_verify c now kw m = Ok tt ->
  has "nonce" m = false /\ get "events" m = Some (VDict [(logout_event, VDict [])])
  /\ (has "sub" m = true \/ has "sid" m = true).
Proof. exact logout_accepts_only. Qed.
Print Assumptions C11_LogoutToken_accepts_only.

Theorem C11_EndSessionRequest_accepts_only :
  forall c m, endsession_verify c m = Ok true ->
  generic_verify c m = Ok tt /\ (has "post_logout_redirect_uri" m = true -> False).
Proof. exact endsession_accepts_only. Qed.
Print Assumptions C11_EndSessionRequest_accepts_only.

(* ---- oidc.AuthorizationResponse with an ID Token: code <-> c_hash and access_token <-> at_hash ----
   verify_id_token(check_hash=True) as oidc.AuthorizationResponse.verify calls it; lh = the left-half hash
   (environment), hash_bits alg = the width that goes with the token's signing algorithm.
   An accepted response that carries an ID Token carries one whose signature verified; the verified token is
   what is stored under the marker key; and the two bindings hold INDEPENDENTLY of each other: a code in the
   response is the code the token's c_hash names AND an access token in the response is the one its at_hash
   names - a response with both has to satisfy both. *)
Theorem C11_rules_AuthorizationResponse_hashes :
  forall lh issuers c ic now kw t m m',
  oidc_authzresp_verify_idt lh issuers c ic now kw t m = Ok (true, m') -> has "id_token" m = true ->
  exists alg p o, t = TJws SigValid alg p /\ construct ic p = Ok o
    /\ m' = aset verified_id_token (VObj o) (clear_verified m)
    /\ authzresp_verify c kw m = Ok tt /\ idtoken_verify ic now kw o = Ok tt
    /\ all_hold (c_hash_rule lh alg (clear_verified m) o) = true
    /\ all_hold (at_hash_rule lh alg (clear_verified m) o) = true
    /\ (has "code" m = true ->
        exists v, get "code" m = Some (VStr v) /\ get "c_hash" o = Some (VStr (lh (hash_bits alg) v)))
    /\ (has "access_token" m = true ->
        exists v, get "access_token" m = Some (VStr v) /\ get "at_hash" o = Some (VStr (lh (hash_bits alg) v))).
Proof. exact authzresp_idt_hashes. Qed.
Print Assumptions C11_rules_AuthorizationResponse_hashes.

(* verify_id_token inside the modelled fragment (signature verifies, textual code / access_token, modelled
   keywords and algorithm): accepted EXACTLY when the algorithm policy, the issuer check, the construction of
   the IdToken, IdToken.verify and - with check_hash - each of the two hash rules hold *)
Theorem C11_verify_id_token_iff :
  forall lh issuers ic now ch kw alg p m o s,
  idt_kw_modelled kw = true -> hash_typed m = true -> get "id_token" m = Some (VStr s) ->
  hash_alg_modelled alg = true ->
  (verify_id_token lh issuers ic now ch kw (TJws SigValid alg p) m = Ok o <->
   idt_alg_allowed kw alg = Ok tt /\ idt_issuer_known issuers p = Ok tt /\ construct ic p = Ok o
   /\ idtoken_verify ic now kw o = Ok tt
   /\ (ch = true -> all_hold (at_hash_rule lh alg m o) = true /\ all_hold (c_hash_rule lh alg m o) = true)).
Proof. exact verify_id_token_iff. Qed.
Print Assumptions C11_verify_id_token_iff.

(* what one hash rule says *)
Theorem C11_hash_rule :
  forall lh alg param claim bad m idt,
  all_hold (hash_rule lh alg param claim bad m idt) = true ->
  (has param m = true -> has claim idt = true)
  /\ (forall v, get param m = Some (VStr v) -> get claim idt = Some (VStr (lh (hash_bits alg) v))).
Proof. exact hash_rule_holds. Qed.
Print Assumptions C11_hash_rule.

(* oidc.AccessTokenResponse.verify calls verify_id_token without check_hash: no hash rule applies to the token
   response, its answer does not depend on the hash function *)
Theorem C11_AccessTokenResponse_no_hash_rule :
  forall lh lh' issuers c ic now kw t m,
  oidc_tokenresp_verify_idt lh issuers c ic now kw t m = oidc_tokenresp_verify_idt lh' issuers c ic now kw t m.
Proof. exact tokenresp_idt_no_hash_rule. Qed.
Print Assumptions C11_AccessTokenResponse_no_hash_rule.

(* ---- rules over a SET of parameters (Model/MsgRules.v presence / count_true and the set predicates) ----
   Message.has_none_or_one_of, transcribed as the loop with its latched flag, answers True exactly when AT MOST ONE
   of the named parameters is present: for every number of names and every presence pattern (induction, so the
   pattern present-absent-present is covered like any other), and whatever the order of the names *)
Theorem C11_has_none_or_one_of : forall l, has_none_or_one_of l = true <-> (count_true l <= 1)%nat.
Proof. exact has_none_or_one_of_iff. Qed.
Print Assumptions C11_has_none_or_one_of.
Theorem C11_has_none_or_one_of_refuses : forall l, has_none_or_one_of l = false <-> (2 <= count_true l)%nat.
Proof. exact has_none_or_one_of_false_iff. Qed.
Print Assumptions C11_has_none_or_one_of_refuses.
Theorem C11_has_none_or_one_of_on_a_message :
  forall ks m, msg_has_none_or_one_of ks m = true <-> (count_true (presence ks m) <= 1)%nat.
Proof. exact msg_has_none_or_one_of_iff. Qed.
Print Assumptions C11_has_none_or_one_of_on_a_message.
Theorem C11_has_none_or_one_of_any_order :
  forall ks ks' m, Permutation.Permutation ks ks' -> msg_has_none_or_one_of ks m = msg_has_none_or_one_of ks' m.
Proof. exact msg_has_none_or_one_of_perm. Qed.
Print Assumptions C11_has_none_or_one_of_any_order.

(* TIE BY TRANSLATION: Message.has_none_or_one_of and the Message.__contains__ behind its `c in self`, as they read in
   /repo/src NOW (coq/Gen/Src_msg.v, regenerated by harness/py2v.py on every run), compute the model's helper: for
   every message (injected as the object whose `_dict` is the model's parameter list) and every list of names the
   translated method returns exactly msg_has_none_or_one_of - the function the four theorems above are about.  A
   change of the loop (a flag that no longer latches, `return True` inside the loop, another container behind `in`)
   breaks this statement on the next run. *)
From Verif Require Lib.PyOps Gen.Src_msg Proofs.Src_refine_msg.
Theorem C11_contains_is_source : forall m k clock,
  Src_msg.Message_contains_src (Src_refine_msg.inject_msg m) (VStr k) clock = Ok (VBool (has_key k m)).
Proof. exact Src_refine_msg.contains_refines. Qed.
Print Assumptions C11_contains_is_source.
Theorem C11_has_none_or_one_of_is_source : forall m claims clock,
  Src_msg.Message_has_none_or_one_of_src (Src_refine_msg.inject_msg m) (VList (List.map VStr claims)) clock
  = Ok (VBool (msg_has_none_or_one_of claims m)).
Proof. exact Src_refine_msg.has_none_or_one_of_refines. Qed.
Print Assumptions C11_has_none_or_one_of_is_source.
(* the predicates the other classes' set rules are stated with *)
Theorem C11_set_predicates :
  forall l,
  (has_at_least_one_of l = true <-> (1 <= count_true l)%nat)
  /\ (has_none_of l = true <-> count_true l = 0%nat)
  /\ (has_all_of l = true <-> count_true l = length l)
  /\ (has_all_or_none_of l = true <-> count_true l = 0%nat \/ count_true l = length l)
  /\ (has_exactly_one_of l = true <-> count_true l = 1%nat).
Proof. exact set_predicates_count. Qed.
Print Assumptions C11_set_predicates.

(* CIBA AuthenticationRequest.verify: an accepted request has, in the message as it stands afterwards (the claims of
   a request object copied in), at most one of id_token_hint / login_hint / login_hint_token; a request object came
   with nothing but client-authentication parameters beside it; ping / push mode has its notification token *)
Theorem C11_rules_CIBA_AuthenticationRequest :
  forall c rjc ic kw rt ht m m', ciba_authn_verify c rjc ic kw rt ht m = Ok m' ->
  generic_verify c m = Ok tt
  /\ (count_true (presence ciba_hints m') <= 1)%nat
  /\ (has "request" m = true -> count_true (presence (ciba_inside_only c) (adel verified_request m)) = 0%nat)
  /\ (ciba_mode_needs_token kw = true -> has "client_notification_token" m' = true).
Proof. exact ciba_accepts_only. Qed.
Print Assumptions C11_rules_CIBA_AuthenticationRequest.
(* ... and every pattern with two or more hints is refused *)
Theorem C11_CIBA_two_hints_refused :
  forall c rjc ic kw rt ht m,
  generic_verify c m = Ok tt -> has "request" m = false -> (2 <= count_true (presence ciba_hints m))%nat ->
  ciba_authn_verify c rjc ic kw rt ht m = Err ValueError.
Proof. exact ciba_two_hints_refused. Qed.
Print Assumptions C11_CIBA_two_hints_refused.

(* RegistrationResponse: all or none of the two registration-management parameters *)
Theorem C11_rules_RegistrationResponse_set :
  forall c m, regresp_verify c m = Ok tt <->
  response_verify c m = Ok tt
  /\ let n := count_true (presence [PS "registration_client_uri"; PS "registration_access_token"] m) in
     (n = 0 \/ n = 2)%nat.
Proof. exact regresp_set_rule. Qed.
Print Assumptions C11_rules_RegistrationResponse_set.
(* LogoutToken: at least one of sub / sid *)
Theorem C11_rules_LogoutToken_set :
  forall c now kw m, logout_typed kw m = true -> logout_verify c now kw m = Ok tt ->
  (1 <= count_true (presence [PS "sub"; PS "sid"] m))%nat.
Proof. exact logout_set_rule. Qed.
Print Assumptions C11_rules_LogoutToken_set.
(* JWTSecuredAuthorizationRequest: at least one of request / request_uri *)
Theorem C11_rules_JAR_set :
  forall c roc p m m', jar_verify c roc p m = Ok m' ->
  (1 <= count_true (presence [PS "request"; PS "request_uri"] m))%nat.
Proof. exact jar_set_rule. Qed.
Print Assumptions C11_rules_JAR_set.
Theorem C11_rules_JAR_set_none :
  forall c roc p m, count_true (presence [PS "request"; PS "request_uri"] m) = 0%nat ->
  jar_verify c roc p m = Err EMissingAttribute.
Proof. exact jar_set_rule_none. Qed.
Print Assumptions C11_rules_JAR_set_none.
(* client metadata / information response / device token request *)
Theorem C11_OauthClientMetadata_accepts_only :
  forall c m, clientmeta_typed m = true -> clientmeta_verify c m = Ok tt ->
  generic_verify c m = Ok tt
  /\ (forall g, In g (strs (list_of (get "grant_types" m))) -> g = PS "authorization_code" \/ g = PS "implicit" ->
      has "redirect_uris" m = true).
Proof. exact clientmeta_accepts_only. Qed.
Print Assumptions C11_OauthClientMetadata_accepts_only.
Theorem C11_OauthClientInformationResponse_accepts_only :
  forall c m, clientinfo_verify c m = Ok tt ->
  clientmeta_verify c m = Ok tt /\ (has "client_secret" m = true -> has "client_secret_expires_at" m = true).
Proof. exact clientinfo_accepts_only. Qed.
Print Assumptions C11_OauthClientInformationResponse_accepts_only.
Theorem C11_device_AccessTokenRequest_accepts_only :
  forall c m, device_verify c m = Ok tt ->
  generic_verify c m = Ok tt
  /\ (has "device_code" m = true -> has "grant_type" m = true /\ has "client_id" m = true).
Proof. exact device_accepts_only. Qed.
Print Assumptions C11_device_AccessTokenRequest_accepts_only.

(* ---- the declared schema ----
   Every class body was evaluated from its source text (no statement about c_param / c_default / c_allowed_values
   outside the evaluator's subset: fail closed) ... *)
Theorem C11_declared_all_evaluated : decl_refused = [].
Proof. exact declared_all_evaluated. Qed.
Print Assumptions C11_declared_all_evaluated.

(* ... for exactly the classes of the run-time table ... *)
Theorem C11_declared_same_classes : same_classes declared_schemas all_classes = true.
Proof. exact declared_same_classes. Qed.
Print Assumptions C11_declared_same_classes.

(* ... and there is no (class, table, key) on which what the source declares and what the class objects hold after
   importing the whole package differ: no class body or module changed another class's schema at import time.
   (Recomputed on every run; a failure names the entries.) *)
Theorem C11_declared_no_drift : drift declared_schemas all_classes = [].
Proof. exact declared_no_drift. Qed.
Print Assumptions C11_declared_no_drift.

(* The same as an equality of tables: every class of the run-time table, rebuilt from the three tables its source
   declares, is the class itself. *)
Theorem C11_declared_is_runtime : declared_view declared_schemas all_classes = List.map Some all_classes.
Proof. exact declared_is_runtime. Qed.
Print Assumptions C11_declared_is_runtime.

Theorem C11_declared_tables :
  forall c, In c all_classes ->
  exists ps al df, assoc (c_name c) declared_schemas = Some (ps, al, df)
                   /\ c_params c = ps /\ c_allowed c = al /\ c_default c = df.
Proof. exact declared_tables_of_class. Qed.
Print Assumptions C11_declared_tables.

(* Hence the generic check enforces the schema AS DECLARED IN THE SOURCE, exactly ... *)
Theorem C11_generic_enforces_declared :
  forall c m, In c all_classes ->
  exists d, assoc (c_name c) declared_schemas = Some d /\
            (generic_verify c m = Ok tt <-> schema_ok (as_declared c d) m = true).
Proof. exact generic_enforces_declared. Qed.
Print Assumptions C11_generic_enforces_declared.

(* ... and so does every class-level verify(), whatever the class's own rules are: the accepted message satisfied the
   declared schema before the rules ran (parent first) or satisfies it as it stands afterwards (parent last). *)
Theorem C11_all_classes_enforce_declared :
  forall c rules m m', In c all_classes -> class_verify rules c m = Ok m' ->
  exists d, assoc (c_name c) declared_schemas = Some d /\
            (schema_ok (as_declared c d) m = true \/ schema_ok (as_declared c d) m' = true).
Proof. exact class_verify_enforces_declared. Qed.
Print Assumptions C11_all_classes_enforce_declared.

(* non-vacuity of the tie: a run-time table in which ONE required flag has been relaxed is not the declared one *)
Theorem C11_declared_tie_discriminates :
  let cs := List.map (relax_class (PS "idpyoidc.message.oauth2.AccessTokenResponse") (PS "access_token")) all_classes in
  declared_view declared_schemas cs <> List.map Some cs.
Proof. exact declared_tie_discriminates. Qed.
Print Assumptions C11_declared_tie_discriminates.

(* ---- non-vacuity ---- *)
Definition ex_class : pystr := PS "idpyoidc.message.oidc.AuthorizationRequest".
Definition ex_ok : msg :=
  [(PS "response_type", VList [VStr (PS "code"); VStr (PS "id_token")]); (PS "client_id", VStr (PS "c"));
   (PS "scope", VList [VStr (PS "openid"); VStr (PS "offline_access")]); (PS "redirect_uri", VStr (PS "https://rp/cb"));
   (PS "nonce", VStr (PS "n")); (PS "prompt", VList [VStr (PS "consent")]); (PS "display", VStr (PS "page"))].
Example C11_nonvacuous :
  match find_class ex_class all_classes with
  | Some c =>
      find_param verified_request (c_params c) = None
      /\ authz_verify c (Some (PS "n")) ex_ok = Ok ex_ok
      (* each single fault is refused *)
      /\ authz_verify c None (adel (PS "nonce") ex_ok) = Err EMissingRequired
      /\ authz_verify c None (adel (PS "prompt") ex_ok) = Err EMissingValue
      /\ authz_verify c None (aset (PS "prompt") (VList [VStr (PS "none"); VStr (PS "consent")]) ex_ok) = Err EInvalidRequest
      /\ authz_verify c None (aset (PS "display") (VStr (PS "tv")) ex_ok) = Err ENotAllowed
      /\ authz_verify c None (adel (PS "client_id") ex_ok) = Err EMissingRequired
      /\ authz_verify c None (aset (PS "redirect_uri") (VStr []) ex_ok) = Err EMissingRequired
      /\ c_overrides_verify c = true /\ c_chains c = true
  | None => False
  end.
Proof. vm_compute. repeat split; reflexivity. Qed.

Definition pcr_class : pystr := PS "idpyoidc.message.oidc.ProviderConfigurationResponse".
Definition pcr_ok_msg : msg :=
  [(PS "issuer", VStr (PS "https://op.example")); (PS "authorization_endpoint", VStr (PS "https://op.example/a"));
   (PS "jwks_uri", VStr (PS "https://op.example/j"));
   (PS "response_types_supported", VList [VStr (PS "code id_token"); VStr (PS "id_token")]);
   (PS "subject_types_supported", VList [VStr (PS "public")]);
   (PS "id_token_signing_alg_values_supported", VList [VStr (PS "RS256")]);
   (PS "token_endpoint", VStr (PS "https://op.example/t")); (PS "scopes_supported", VList [VStr (PS "openid")])].
Example C11_rules_nonvacuous :
  match find_class pcr_class all_classes with
  | Some c =>
      pcr_typed pcr_ok_msg = true /\ pcr_verify c false pcr_ok_msg = Ok tt
      (* a hybrid response type without a token endpoint is refused *)
      /\ pcr_verify c false (adel (PS "token_endpoint") pcr_ok_msg) = Err EMissingRequired
      /\ pcr_verify c false (aset (PS "issuer") (VStr (PS "http://op.example")) pcr_ok_msg) = Err EScheme
      /\ pcr_verify c true (aset (PS "issuer") (VStr (PS "http://op.example")) pcr_ok_msg) = Ok tt
      /\ pcr_verify c false (aset (PS "issuer") (VStr (PS "https://op.example?x=1")) pcr_ok_msg) = Err ValueError
  | None => False
  end.
Proof. vm_compute. repeat split; reflexivity. Qed.

(* the request-object classes in the regenerated table: the override runs the generic check LAST (after the
   merge: the order jar_verify / par_verify model), the marker key is not a schema parameter; a complete
   object is accepted, an object without response_type or client_id is refused although the outer request
   is complete, and without request / request_uri the JWT-secured request is refused *)
Definition jar_class : pystr := PS "idpyoidc.message.oauth2.JWTSecuredAuthorizationRequest".
Definition par_class : pystr := PS "idpyoidc.message.oauth2.PushedAuthorizationRequest".
Definition ro_class : pystr := PS "idpyoidc.message.oauth2.AuthorizationRequest".
Definition jar_outer : msg :=
  [(PS "response_type", VList [VStr (PS "code")]); (PS "client_id", VStr (PS "c")); (PS "state", VStr (PS "s"));
   (PS "request", VStr (PS "eyJ.eyJ.sig"))].
Definition ro_full : msg := [(PS "response_type", VStr (PS "code")); (PS "client_id", VStr (PS "c"))].
Example C11_request_object_nonvacuous :
  match find_class jar_class all_classes, find_class par_class all_classes, find_class ro_class all_classes with
  | Some c, Some pc, Some roc =>
      c_overrides_verify c = true /\ c_chain_pos c = ChainLast
      /\ c_overrides_verify pc = true /\ c_chain_pos pc = ChainLast
      /\ find_param verified_request (c_params c) = None /\ find_param verified_request (c_params pc) = None
      /\ jar_verify c roc (Some ro_full) jar_outer =
           Ok [(PS "response_type", VList [VStr (PS "code")]); (PS "client_id", VStr (PS "c"));
               (verified_request, VObj [(PS "response_type", VList [VStr (PS "code")]); (PS "client_id", VStr (PS "c"))])]
      /\ jar_verify c roc (Some (adel (PS "response_type") ro_full)) jar_outer = Err EMissingRequired
      /\ jar_verify c roc (Some (adel (PS "client_id") ro_full)) jar_outer = Err EMissingRequired
      /\ jar_verify c roc None (adel (PS "request") jar_outer) = Err EMissingAttribute
      (* the lax merge keeps the outer parameters *)
      /\ (exists m', par_verify pc roc (Some (adel (PS "response_type") ro_full)) jar_outer = Ok m'
                      /\ has_key (PS "response_type") m' = true)
  | _, _, _ => False
  end.
Proof. vm_compute. repeat split; try reflexivity. eexists. split; reflexivity. Qed.

(* the back-channel logout request over the regenerated table: a signed token is accepted with and without
   the keyword, plain or encrypted; with allowed_sign_alg every unsigned form is refused - bare JSON inside a
   JWE by the TypeError of subscripting the missing JWS header *)
Definition bcl_class : pystr := PS "idpyoidc.message.oidc.session.BackChannelLogoutRequest".
Definition lt_class : pystr := PS "idpyoidc.message.oidc.session.LogoutToken".
Definition lt_claims : msg :=
  [(PS "iss", VStr (PS "https://op.example")); (PS "sub", VStr (PS "s")); (PS "aud", VList [VStr (PS "c")]);
   (PS "iat", VInt 1700000000); (PS "jti", VStr (PS "j")); (PS "events", VDict [(logout_event, VDict [])])].
Definition bcl_msg : msg := [(PS "logout_token", VStr (PS "eyJ.eyJ.sig"))].
Definition bcl_kw : msg := [(PS "iss", VStr (PS "https://op.example")); (PS "aud", VStr (PS "c"))].
Definition bcl_kw_alg : msg := bcl_kw ++ [(PS "allowed_sign_alg", VStr (PS "RS256"))].
Definition accepted (r : res msg) : bool := match r with Ok _ => true | _ => false end.
Example C11_logout_token_nonvacuous :
  match find_class bcl_class all_classes, find_class lt_class all_classes with
  | Some c, Some lc =>
      let run kw t := bclogout_verify c lc 1700000000 kw t bcl_msg in
      accepted (run bcl_kw (TJws SigValid (PS "RS256") lt_claims)) = true
      /\ accepted (run bcl_kw_alg (TJws SigValid (PS "RS256") lt_claims)) = true
      /\ accepted (run bcl_kw_alg (TJwe (TJws SigValid (PS "RS256") lt_claims))) = true
      /\ run bcl_kw_alg (TJws SigValid (PS "ES256") lt_claims) = Err EUnsupportedAlg
      /\ run bcl_kw_alg (TJws SigNone (PS "none") lt_claims) = Err EUnsupportedAlg
      /\ run bcl_kw_alg (TJwe (TJws SigNone (PS "none") lt_claims)) = Err EUnsupportedAlg
      /\ run bcl_kw_alg (TJwe (TJson lt_claims)) = Err TypeError
      (* the known findings: without the keyword the unsigned forms pass *)
      /\ accepted (run bcl_kw (TJwe (TJson lt_claims))) = true
      /\ accepted (run bcl_kw (TJws SigNone (PS "none") lt_claims)) = true
  | _, _ => False
  end.
Proof. vm_compute. repeat split; reflexivity. Qed.

(* the hybrid response `code id_token token` over the regenerated table, with a toy hash table: both hashes right
   is accepted and the verified token stored; a right at_hash does not make up for a c_hash of another code or a
   missing one, nor a right c_hash for a wrong / missing at_hash; with only one of the two parameters in the
   response only that binding is asked for; the token response asks for neither *)
Definition azr_class : pystr := PS "idpyoidc.message.oidc.AuthorizationResponse".
Definition atr_class : pystr := PS "idpyoidc.message.oidc.AccessTokenResponse".
Definition idt_class : pystr := PS "idpyoidc.message.oidc.IdToken".
Definition hx_tbl : list (pystr * pystr * pystr) :=
  [(PS "256", PS "CODE", PS "h256-code"); (PS "256", PS "TOKEN", PS "h256-token");
   (PS "384", PS "CODE", PS "h384-code"); (PS "384", PS "TOKEN", PS "h384-token")].
Definition hx_claims (c_hash at_hash : option string) : msg :=
  ([(PS "iss", VStr (PS "https://op.example")); (PS "sub", VStr (PS "s")); (PS "aud", VList [VStr (PS "c")]);
   (PS "exp", VInt 1700000600); (PS "iat", VInt 1700000000)]
  ++ match c_hash with Some h => [(PS "c_hash", VStr (PS h))] | None => [] end
  ++ match at_hash with Some h => [(PS "at_hash", VStr (PS h))] | None => [] end)%list.
Definition hx_resp : msg :=
  [(PS "state", VStr (PS "st")); (PS "code", VStr (PS "CODE")); (PS "access_token", VStr (PS "TOKEN"));
   (PS "token_type", VStr (PS "Bearer")); (PS "id_token", VStr (PS "eyJ.eyJ.sig"))].
Definition hx_kw : msg := [(PS "iss", VStr (PS "https://op.example")); (PS "client_id", VStr (PS "c"))].
Definition outcome (r : res (bool * msg)) : res bool := match r with Ok (b, _) => Ok b | Err e => Err e | Unmodelled => Unmodelled end.
Example C11_hashes_nonvacuous :
  match find_class azr_class all_classes, find_class atr_class all_classes, find_class idt_class all_classes with
  | Some c, Some tc, Some ic =>
      let run alg ch ah m :=
        oidc_authzresp_verify_idt (lhash_of hx_tbl) [PS "https://op.example"] c ic 1700000000 hx_kw
          (TJws SigValid (PS alg) (hx_claims ch ah)) m in
      let trun ch ah :=
        oidc_tokenresp_verify_idt (lhash_of hx_tbl) [PS "https://op.example"] tc ic 1700000000 hx_kw
          (TJws SigValid (PS "RS256") (hx_claims ch ah)) (adel (PS "code") hx_resp) in
      (exists o, construct ic (hx_claims (Some "h256-code") (Some "h256-token")) = Ok o
                 /\ run "RS256" (Some "h256-code") (Some "h256-token") hx_resp
                    = Ok (true, (hx_resp ++ [(verified_id_token, VObj o)])%list))
      /\ outcome (run "RS256" (Some "h256-OTHER") (Some "h256-token") hx_resp) = Err ECHash
      /\ outcome (run "RS256" None (Some "h256-token") hx_resp) = Err EMissingRequired
      /\ outcome (run "RS256" (Some "h256-code") (Some "h256-OTHER") hx_resp) = Err EAtHash
      /\ outcome (run "RS256" (Some "h256-code") None hx_resp) = Err EMissingRequired
      (* the hash width follows the signing algorithm *)
      /\ outcome (run "ES384" (Some "h384-code") (Some "h384-token") hx_resp) = Ok true
      /\ outcome (run "RS384" (Some "h256-code") (Some "h384-token") hx_resp) = Err ECHash
      (* one parameter only: one binding only *)
      /\ outcome (run "RS256" (Some "h256-code") None (adel (PS "access_token") hx_resp)) = Ok true
      /\ outcome (run "RS256" None (Some "h256-token") (adel (PS "code") hx_resp)) = Ok true
      /\ outcome (run "RS256" (Some "h256-OTHER") None (adel (PS "access_token") hx_resp)) = Err ECHash
      (* forged / unsigned tokens are outside this model *)
      /\ oidc_authzresp_verify_idt (lhash_of hx_tbl) [PS "https://op.example"] c ic 1700000000 hx_kw
           (TJws SigBad (PS "RS256") (hx_claims None None)) hx_resp = Unmodelled
      (* the token response: no hash rule *)
      /\ outcome (trun None (Some "h256-OTHER")) = Ok true /\ outcome (trun None None) = Ok true
  | _, _, _ => False
  end.
Proof. vm_compute. repeat split; try reflexivity. eexists. split; reflexivity. Qed.

(* the CIBA authentication request over the regenerated table: the names the model's hint rule ranges over are the
   names the code passes to has_none_or_one_of (extracted by ast on every run, Gen/Schema.v set_rule_calls); the full
   truth table of the three hints - (1,0,1) is refused like the adjacent pairs; the hints inside a request object;
   a hint beside a request object; ping mode without notification token *)
Definition ciba_class : pystr := PS "idpyoidc.message.oidc.backchannel_authentication.AuthenticationRequest".
Definition ciba_jwt_class : pystr := PS "idpyoidc.message.oidc.backchannel_authentication.AuthenticationRequestJWT".
Definition ciba_base : msg := [(PS "scope", VList [VStr (PS "openid")]); (PS "client_id", VStr (PS "c"))].
Definition ciba_idt : token :=
  TJws SigValid (PS "RS256")
    [(PS "iss", VStr (PS "https://op.example")); (PS "sub", VStr (PS "s")); (PS "aud", VList [VStr (PS "c")]);
     (PS "exp", VInt 1700000600); (PS "iat", VInt 1700000000)].
Definition ciba_row (a b c : bool) : msg :=
  (ciba_base ++ (if a then [(PS "id_token_hint", VStr (PS "eyJ.eyJ.sig"))] else [])
             ++ (if b then [(PS "login_hint", VStr (PS "mail:x"))] else [])
             ++ (if c then [(PS "login_hint_token", VStr (PS "tok"))] else []))%list.
Definition ciba_ro (a b c : bool) : token :=
  TJws SigValid (PS "RS256")
    ([(PS "iss", VStr (PS "c")); (PS "aud", VList [VStr (PS "https://op.example")]); (PS "exp", VInt 1700000600);
      (PS "nbf", VInt 1700000000); (PS "iat", VInt 1700000000); (PS "jti", VStr (PS "j")); (PS "scope", VStr (PS "openid"))]
     ++ (if a then [(PS "id_token_hint", VStr (PS "eyJ.eyJ.sig"))] else [])
     ++ (if b then [(PS "login_hint", VStr (PS "mail:x"))] else [])
     ++ (if c then [(PS "login_hint_token", VStr (PS "tok"))] else []))%list.
Definition ciba_outer : msg := [(PS "client_id", VStr (PS "c")); (PS "request", VStr (PS "eyJ.eyJ.sig"))].
Example C11_ciba_nonvacuous :
  In (ciba_class, PS "has_none_or_one_of", ciba_hints) set_rule_calls
  /\ match find_class ciba_class all_classes, find_class ciba_jwt_class all_classes, find_class idt_class all_classes with
     | Some c, Some rjc, Some ic =>
         let run kw m := ciba_authn_verify c rjc ic kw TJunk ciba_idt m in
         let via kw a b h := ciba_authn_verify c rjc ic kw (ciba_ro a b h) ciba_idt ciba_outer in
         c_overrides_verify c = true /\ c_chains c = true
         /\ accepted (run [] (ciba_row false false false)) = true
         /\ accepted (run [] (ciba_row true false false)) = true
         /\ accepted (run [] (ciba_row false true false)) = true
         /\ accepted (run [] (ciba_row false false true)) = true
         /\ run [] (ciba_row true true false) = Err ValueError
         /\ run [] (ciba_row false true true) = Err ValueError
         /\ run [] (ciba_row true false true) = Err ValueError
         /\ run [] (ciba_row true true true) = Err ValueError
         (* the hints inside a signed request object *)
         /\ accepted (via [] false false true) = true /\ accepted (via [] true false false) = true
         /\ via [] true false true = Err ValueError /\ via [] true true false = Err ValueError
         (* a parameter beside the request object *)
         /\ run [] (ciba_outer ++ [(PS "login_hint", VStr (PS "mail:x"))])%list = Err EParameter
         (* ping mode *)
         /\ run [(PS "mode", VStr (PS "ping"))] (ciba_row false true false) = Err EMissingRequired
         /\ accepted (run [(PS "mode", VStr (PS "ping"))]
                        (ciba_row false true false ++ [(PS "client_notification_token", VStr (PS "t"))])%list) = true
     | _, _, _ => False
     end.
Proof. vm_compute. repeat split; try reflexivity. left. reflexivity. Qed.

(* --- round 11: reserved verified members --- *)
(* The verifier's own bookkeeping (Model/MsgVerified.v): verify() stores the content of an embedded signed object
   under the reserved member `__verified_<claim>` (idpyoidc.verified_claim_name) for the code that runs after it.  A
   message may already hold such a member when it is presented - written into the wire form by the peer, or left by
   an earlier verify() whose raw claim has since been removed / damaged / replaced.  The sentence "an embedded
   signed object is accepted only with a valid signature" is about the message as it stands AFTER verification:
   what it then holds under a reserved name is the content of an object whose signature THIS verification checked,
   or nothing - for every initial content of the reserved member (the statements quantify over every message with
   distinct keys, `dict_like`).  Tied to the code by the driver's reserved-member matrix (every discovered embedding
   class x reserved name x delivery form x {absent, forged, stale} x raw claim {absent, valid, signature altered,
   replaced}), whose rows also run through these functions (kinds v_idt, v_esr, v_request, v_ciba, v_bclogout,
   v_authz; the older kinds request, ciba, authz run through the clear-first functions as well). *)
From Verif Require Import Model.MsgVerified Proofs.MsgVerified_proofs.

(* one verified-copy slot, abstractly: drop the old copy first thing, then rebuild from the signed claim *)
Theorem C11_verified_copy_always_clear :
  forall claim est m m', dict_like m = true -> book ClearAlways claim est m = Ok m' ->
  copy_established claim est m m'.
Proof. exact book_always_established. Qed.
Print Assumptions C11_verified_copy_always_clear.

Theorem C11_verified_copy_absent_raw_claim :
  forall claim est m m', dict_like m = true -> has_key claim m = false -> book ClearAlways claim est m = Ok m' ->
  assoc (verified_name claim) m' = None.
Proof. exact book_always_absent. Qed.
Print Assumptions C11_verified_copy_absent_raw_claim.

(* dropping the old copy only next to the raw claim, or never (FALSE of the property: a member that arrives
   without the raw claim is accepted as it is) *)
Theorem C11_verified_copy_lazy_refuted :
  forall cl claim est v, cl <> ClearAlways ->
  let m := [(verified_name claim, v)] in
  book cl claim est m = Ok m /\ ~ copy_established claim est m m.
Proof. exact book_lazy_keeps. Qed.
Print Assumptions C11_verified_copy_lazy_refuted.

(* oidc.AccessTokenResponse.verify, oidc.AuthorizationResponse.verify, session.EndSessionRequest.verify: raw claim
   absent => no verified copy; present => the copy is the content of a token whose signature verified; no copy
   under the two other reserved names *)
Theorem C11_AccessTokenResponse_verified_copy :
  forall lh issuers c ic now kw t m b m',
  dict_like m = true -> oidc_tokenresp_verify_idt lh issuers c ic now kw t m = Ok (b, m') ->
  b = true /\ id_token_copy_ok ic t "id_token" verified_id_token m m'
  /\ assoc verified_id_token_hint m' = None /\ assoc verified_request m' = None.
Proof. exact tokenresp_verified_copy. Qed.
Print Assumptions C11_AccessTokenResponse_verified_copy.

Theorem C11_AuthorizationResponse_verified_copy :
  forall lh issuers c ic now kw t m m',
  dict_like m = true -> oidc_authzresp_verify_idt lh issuers c ic now kw t m = Ok (true, m') ->
  id_token_copy_ok ic t "id_token" verified_id_token m m'
  /\ assoc verified_id_token_hint m' = None /\ assoc verified_request m' = None.
Proof. exact authzresp_verified_copy. Qed.
Print Assumptions C11_AuthorizationResponse_verified_copy.

Theorem C11_AuthorizationResponse_not_for_me_no_copy :
  forall lh issuers c ic now kw t m m',
  dict_like m = true -> oidc_authzresp_verify_idt lh issuers c ic now kw t m = Ok (false, m') ->
  assoc verified_id_token m' = None.
Proof. exact authzresp_false_no_copy. Qed.
Print Assumptions C11_AuthorizationResponse_not_for_me_no_copy.

Theorem C11_EndSessionRequest_verified_copy :
  forall issuers c ic now kw t m m',
  dict_like m = true -> endsession_verify_hint issuers c ic now kw t m = Ok (true, m') ->
  id_token_copy_ok ic t "id_token_hint" verified_id_token_hint m m'
  /\ assoc verified_id_token m' = None /\ assoc verified_request m' = None.
Proof. exact endsession_verified_copy. Qed.
Print Assumptions C11_EndSessionRequest_verified_copy.

(* the function with the id_token_hint answers what the one without (C11_EndSessionRequest_accepts_only) answers *)
Theorem C11_EndSessionRequest_hint_extends :
  forall issuers c ic now kw t m, has "id_token_hint" m = false ->
  match endsession_verify c m with
  | Ok b => exists m', endsession_verify_hint issuers c ic now kw t m = Ok (b, m')
  | Err e => endsession_verify_hint issuers c ic now kw t m = Err e
  | Unmodelled => True
  end.
Proof. exact endsession_hint_extends. Qed.
Print Assumptions C11_EndSessionRequest_hint_extends.

(* ---- the four request classes.  Since the repairs that followed this round their verify() drops the reserved
   members before anything is unpacked and cleans the UNPACKED request object of reserved claims before it is merged
   (oauth2.drop_verified_copies); Model/MsgVerified.v jar_verify_v / par_verify_v / authz_verify_v /
   ciba_authn_verify_v transcribe that, the bodies of Model/Msg.v / Model/MsgRules.v (jar_verify ...) are what they
   do on a message without reserved members and an object without reserved claims ---- *)
Theorem C11_JAR_verified_copy :
  forall c roc payload m m', dict_like m = true -> jar_verify_v c roc payload m = Ok m' ->
  (has_key (PS "request") m = false -> assoc verified_request m' = None)
  /\ (has_key (PS "request") m = true ->
      exists p ro0, payload = Some p /\ construct roc p = Ok ro0
                    /\ assoc verified_request m' = Some (VObj (drop_verified_copies ro0))).
Proof. exact jar_v_verified_copy. Qed.
Print Assumptions C11_JAR_verified_copy.

Theorem C11_PAR_verified_copy :
  forall c roc payload m m', dict_like m = true -> par_verify_v c roc payload m = Ok m' ->
  (has_key (PS "request") m = false -> assoc verified_request m' = None)
  /\ (has_key (PS "request") m = true ->
      exists p ro0, payload = Some p /\ construct roc p = Ok ro0
                    /\ assoc verified_request m' = Some (VObj (drop_verified_copies ro0))).
Proof. exact par_v_verified_copy. Qed.
Print Assumptions C11_PAR_verified_copy.

(* a reserved name delivered as a CLAIM OF THE SIGNED REQUEST OBJECT never reaches the message: after the strict
   merge (JAR) the message holds no reserved member but the copy, after the lax merge (PAR) the others are what
   the message presented held *)
Theorem C11_request_object_claims_not_merged :
  forall strict c roc payload m m' k, is_reserved k = true -> k <> verified_request ->
  unpack_request_v strict c roc payload m = Ok m' ->
  assoc k m' = if strict then None else assoc k (adel verified_request m).
Proof. exact request_object_claims_not_merged. Qed.
Print Assumptions C11_request_object_claims_not_merged.

(* what C11_JAR_verify / C11_PAR_verify / C11_AuthorizationRequest_verify state of the bodies holds of verify() *)
Theorem C11_JAR_verify_whole :
  forall c roc payload m m', jar_verify_v c roc payload m = Ok m' -> schema_ok c m' = true.
Proof. exact jar_v_sound. Qed.
Print Assumptions C11_JAR_verify_whole.

Theorem C11_PAR_verify_whole :
  forall c roc payload m m', par_verify_v c roc payload m = Ok m' -> schema_ok c m' = true.
Proof. exact par_v_sound. Qed.
Print Assumptions C11_PAR_verify_whole.

Theorem C11_JAR_verify_is_body :
  forall c roc payload m, assoc verified_request m = None ->
  (forall p ro0, payload = Some p -> construct roc p = Ok ro0 -> no_reserved ro0 = true) ->
  jar_verify_v c roc payload m = jar_verify c roc payload m.
Proof. exact jar_v_is_body. Qed.
Print Assumptions C11_JAR_verify_is_body.

Theorem C11_PAR_verify_is_body :
  forall c roc payload m, assoc verified_request m = None ->
  (forall p ro0, payload = Some p -> construct roc p = Ok ro0 -> no_reserved ro0 = true) ->
  par_verify_v c roc payload m = par_verify c roc payload m.
Proof. exact par_v_is_body. Qed.
Print Assumptions C11_PAR_verify_is_body.

Theorem C11_AuthorizationRequest_verify_whole :
  forall c nonce m m', find_param verified_request (c_params c) = None ->
  authz_verify_v c nonce m = Ok m' -> schema_ok c m' = true /\ authz_rules nonce m' = Ok tt.
Proof. exact authz_v_sound. Qed.
Print Assumptions C11_AuthorizationRequest_verify_whole.

Theorem C11_AuthorizationRequest_no_verified_copy :
  forall c nonce m m', dict_like m = true -> authz_verify_v c nonce m = Ok m' ->
  assoc verified_request m' = None /\ assoc verified_id_token_hint m' = None /\ assoc verified_id_token m' = None.
Proof. exact authz_v_no_copy. Qed.
Print Assumptions C11_AuthorizationRequest_no_verified_copy.

(* the CIBA AuthenticationRequest: whatever the message holds under the three reserved names afterwards is what THIS
   verification unpacked - the request object handed over (without its reserved claims), the id_token_hint handed
   over, nothing - for every initial content of the members and every claim the request object carries *)
Theorem C11_CIBA_verified_copies :
  forall c rjc ic kw rt ht m m',
  dict_like m = true -> ciba_authn_verify_v c rjc ic kw rt ht m = Ok m' ->
  assoc verified_id_token m' = None
  /\ match assoc verified_id_token_hint m' with
     | None => True
     | Some v => exists hp o, open_token ht = Ok hp /\ construct ic (snd hp) = Ok o /\ v = VObj o
     end
  /\ match assoc verified_request m' with
     | None => has "request" m = false
     | Some v => has "request" m = true
                 /\ exists hp ro0, open_token rt = Ok hp /\ construct rjc (snd hp) = Ok ro0 /\ v = VObj (drop_verified_copies ro0)
     end.
Proof. exact ciba_v_copies. Qed.
Print Assumptions C11_CIBA_verified_copies.

Theorem C11_CIBA_verify_is_body :
  forall c rjc ic kw rt ht m,
  assoc verified_id_token m = None -> assoc verified_id_token_hint m = None -> assoc verified_request m = None ->
  (forall hp ro0, open_token rt = Ok hp -> construct rjc (snd hp) = Ok ro0 -> no_reserved ro0 = true) ->
  ciba_authn_verify_v c rjc ic kw rt ht m = ciba_authn_verify c rjc ic kw rt ht m.
Proof. exact ciba_v_is_body. Qed.
Print Assumptions C11_CIBA_verify_is_body.

(* the bodies alone (the whole verify() until 834e726; FALSE of the property - the repaired findings
   verified-copy:unverified-kept of the request classes): without the raw claim an accepted message comes out
   unchanged, with whatever it held under the reserved names *)
Theorem C11_request_bodies_keep_unverified :
  (forall c roc payload m m', has_key (PS "request") m = false -> jar_verify c roc payload m = Ok m' -> m' = m)
  /\ (forall c roc payload m m', has_key (PS "request") m = false -> par_verify c roc payload m = Ok m' -> m' = m)
  /\ (forall c rjc ic kw rt ht m m', has "request" m = false -> get "id_token_hint" m = None ->
      ciba_authn_verify c rjc ic kw rt ht m = Ok m' -> m' = m).
Proof. exact (conj jar_keeps_unverified (conj par_keeps_unverified ciba_keeps_unverified)). Qed.
Print Assumptions C11_request_bodies_keep_unverified.

(* over the regenerated table: a forged member without the raw claim is gone after an accepting verify() of the
   token response, the authorization response and the logout request; next to a signed token it is replaced by the
   token's content; a stale object likewise; the JAR class drops it too (its body alone would keep it) *)
Definition esr_class : pystr := PS "idpyoidc.message.oidc.session.EndSessionRequest".
Definition vx_forged : pyval := VDict [(PS "iss", VStr (PS "https://op.example")); (PS "sub", VStr (PS "victim"))].
Definition vx_stale : pyval := VObj [(PS "iss", VStr (PS "https://op.example")); (PS "sub", VStr (PS "earlier"))].
Definition vx_tok : token := TJws SigValid (PS "RS256") (hx_claims None None).
Example C11_verified_members_nonvacuous :
  match find_class azr_class all_classes, find_class atr_class all_classes, find_class idt_class all_classes,
        find_class esr_class all_classes, find_class jar_class all_classes, find_class ro_class all_classes with
  | Some c, Some tc, Some ic, Some ec, Some jc, Some roc =>
      let iss := [PS "https://op.example"] in
      let tresp := [(PS "access_token", VStr (PS "TOKEN")); (PS "token_type", VStr (PS "Bearer"))] in
      let trun t m := oidc_tokenresp_verify_idt (lhash_of hx_tbl) iss tc ic 1700000000 hx_kw t m in
      let arun t m := oidc_authzresp_verify_idt (lhash_of hx_tbl) iss c ic 1700000000 hx_kw t m in
      let erun t m := endsession_verify_hint iss ec ic 1700000000 hx_kw t m in
      find_param verified_id_token (c_params tc) = None /\ find_param verified_id_token_hint (c_params ec) = None
      (* forged, no raw claim: accepted, the member is gone *)
      /\ trun TJunk (tresp ++ [(verified_id_token, vx_forged)])%list = Ok (true, tresp)
      /\ arun TJunk [(PS "state", VStr (PS "st")); (verified_id_token, vx_forged)] = Ok (true, [(PS "state", VStr (PS "st"))])
      /\ erun TJunk [(PS "state", VStr (PS "st")); (verified_id_token_hint, vx_forged)] = Ok (true, [(PS "state", VStr (PS "st"))])
      (* forged / stale next to a signed token: replaced by the token's content *)
      /\ (exists o, construct ic (hx_claims None None) = Ok o
          /\ trun vx_tok ((verified_id_token, vx_stale) :: tresp ++ [(PS "id_token", VStr (PS "eyJ.eyJ.sig"))])%list
             = Ok (true, (tresp ++ [(PS "id_token", VStr (PS "eyJ.eyJ.sig")); (verified_id_token, VObj o)])%list)
          /\ erun vx_tok [(verified_id_token_hint, vx_forged); (PS "id_token_hint", VStr (PS "eyJ.eyJ.sig"))]
             = Ok (true, [(PS "id_token_hint", VStr (PS "eyJ.eyJ.sig")); (verified_id_token_hint, VObj o)]))
      (* the JAR class without `request`: the forged member is dropped by verify(), kept by the body alone *)
      /\ (let m := [(PS "response_type", VList [VStr (PS "code")]); (PS "client_id", VStr (PS "c"));
                    (PS "request_uri", VStr (PS "https://rp/ro")); (verified_request, vx_forged)] in
          jar_verify_v jc roc None m = Ok (adel verified_request m) /\ jar_verify jc roc None m = Ok m)
      (* the reserved name as a claim of the signed request object: not merged, not in the stored copy *)
      /\ (let obj := (ro_full ++ [(verified_id_token_hint, vx_forged)])%list in
          jar_verify_v jc roc (Some obj) jar_outer = jar_verify_v jc roc (Some ro_full) jar_outer
          /\ exists m', jar_verify jc roc (Some obj) jar_outer = Ok m' /\ assoc verified_id_token_hint m' = Some vx_forged)
  | _, _, _, _, _, _ => False
  end.
Proof. vm_compute. repeat split; try reflexivity. all: eexists; repeat split; reflexivity. Qed.
(* --- end round 11 --- *)
