(* Props/C12.v — property C12: provider and relying party interoperate over the whole configuration space.
   Only statements, each closed by `exact <lemma>`, with Print Assumptions.

   Domain.  `in_product c` says: every component of the configuration c is a value the RELYING PARTY half can be
   configured with, read from the regenerated Gen/Supports.v (response type: EVERY response type both halves can be
   configured with - code, id_token, token, code token, code id_token, id_token token, code id_token token - not just
   the three `_supports` defaults, see C12_response_types_both_sides; response mode or none, token-endpoint
   authentication method, ID Token signing algorithm, ID Token / userinfo key-management algorithm and content
   encryption, userinfo signing algorithm or none, PKCE method or none); access / refresh token format and the
   request transport range over their whole types.  With the tables of the current tree that is
   7 * 4 * 6 * 2 * 2 * 16 * 61 * 17 * 61 * 4 * 4 (about 1.1 * 10^10) configurations, times the inputs `inp`
   (offline_access requested, client-secret length in N, RP configured with all / one response type, provider
   configuration explicit / silent, claims request present).  Nothing is enumerated beyond the per-dimension tables.

   Real cryptographic interoperability of every algorithm pair is EXERCISED by the driver, not proved: the model
   only decides whether a key of the right family is where the code looks for it (partial, see the driver). *)
From Coq Require Import String.
From Verif Require Import Lib.Base Lib.PyStr Lib.InteropTy Gen.Supports Model.Interop Proofs.Interop_proofs.
Open Scope string_scope.

(* ---- every dimension: whatever the RP can be configured with, the value in force after the RP has matched
        its configuration against the provider info is accepted by the provider's code.  The finite domain is
        rp_offers d, for the eleven dimensions of all_dims. *)
Theorem C12_dimension_compatible : forall d v, In v (rp_offers d) -> op_accepts d (negotiated d v) = true.
Proof. exact dimension_compatible. Qed.
Print Assumptions C12_dimension_compatible.

(* what that negotiation hides, listed: values the RP offers and the provider does not advertise / accept *)
Theorem C12_not_advertised :
  not_advertised DTokenAuth = [PS "bearer_header"; PS "bearer_body"]
  /\ not_advertised DPkce = [PS "S384"; PS "S512"]
  /\ forall d, d <> DTokenAuth -> d <> DPkce -> not_advertised d = [].
Proof. exact not_advertised_list. Qed.
Print Assumptions C12_not_advertised.

Theorem C12_not_accepted :
  not_accepted DTokenAuth = [PS "bearer_header"; PS "bearer_body"]
  /\ forall d, d <> DTokenAuth -> not_accepted d = [].
Proof. exact not_accepted_list. Qed.
Print Assumptions C12_not_accepted.

Theorem C12_auth_fallback : forall v, In v (not_accepted DTokenAuth) -> negotiated DTokenAuth v = rp_token_default_authn.
Proof. exact auth_fallback. Qed.
Print Assumptions C12_auth_fallback.

Theorem C12_pkce_plain_limit :
  str_in (PS "plain") op_pkce_methods = true /\ str_in (PS "plain") rp_pkce_methods = false.
Proof. exact pkce_plain_limit. Qed.
Print Assumptions C12_pkce_plain_limit.

(* ---- the product.
   Full statement (FALSE of the faithful model of the current tree, witnesses below):
     Theorem C12_product : forall c i, in_product c -> completes c i = true.
   What holds: a flow fails to complete exactly when one of the NAMED limits (ten on the recorded tree; each repaired_* flag removes its own) applies (limits c i), for every
   configuration of the product and every input; in particular every cell outside the limits completes. *)
Theorem C12_product_char : forall c i, in_product c -> (flow_outcome c i = Completed <-> limits c i = false).
Proof. exact product_char. Qed.
Print Assumptions C12_product_char.

Theorem C12_product_partial : forall c i, in_product c -> limits c i = false -> completes c i = true.
Proof. exact product_partial. Qed.
Print Assumptions C12_product_partial.

(* the independence / factorisation lemma behind it: the checks of one flow regroup into ten groups, each a
   function of a few dimensions only *)
Theorem C12_factor : forall c i,
  forallb snd (checks c i) =
    grpA_ok (c_rt c) (c_rm c) (i_rp_all_rts i) (i_op_explicit i)
    && (pkce_rp_ok (c_pkce c) && pkce_op_ok (c_pkce c))
    && grpB_ok (c_rt c) (c_tr c) (c_auth c)
    && stub_ok (c_tr c) (c_rt c) (i_offline i)
    && par_claims_ok (c_tr c) (i_claims i)
    && grpC_ok (c_rt c) (c_idt_sig c)
    && idt_hashes_ok (c_rt c)
    && grpI_ok (c_rt c) (c_idt_enc c) (i_secret_len i)
    && ui_sig_ok (c_rt c) (c_ui_sig c)
    && ui_enc_ok (c_rt c) (c_ui_enc c) (i_secret_len i).
Proof. exact checks_factor. Qed.
Print Assumptions C12_factor.

(* token formats never decide completion *)
Theorem C12_independent : forall rt rm auth a1 r1 a2 r2 sig e us ue tr p i,
  flow_outcome (mkCfg rt rm auth a1 r1 sig e us ue tr p) i = flow_outcome (mkCfg rt rm auth a2 r2 sig e us ue tr p) i.
Proof. exact outcome_independent. Qed.
Print Assumptions C12_independent.

(* ---- witnesses: one cell of the product per limit (the finding signatures of the driver).  Where a repair exists
        (the repaired_* flags of Model/Interop.v) the statement covers both worlds: the cell stops at the named place
        without the repair and completes with it. *)
Definition base_cfg : cfg :=
  mkCfg (PS "code") None (PS "client_secret_basic") false false (PS "RS256") None None None TPlain None.
Definition base_inp : inp := mkInp false 32 false true false.

Ltac in_prod :=
  lazy beta zeta iota delta [in_product in_opt in_opt2 base_cfg c_rt c_rm c_auth c_idt_sig c_idt_enc c_ui_sig c_ui_enc c_pkce];
  repeat split; try (apply str_in_In; vm_compute; reflexivity).

Example C12_nonvacuous : in_product base_cfg /\ limits base_cfg base_inp = false /\ flow_outcome base_cfg base_inp = Completed.
Proof. split; [in_prod|split; vm_compute; reflexivity]. Qed.

Example C12_nonvacuous_rich :
  let c := mkCfg (PS "code id_token") (Some (PS "form_post")) (PS "private_key_jwt") true true (PS "ES384")
                 None (Some (PS "EdDSA")) (Some (PS "ECDH-ES+A128KW", PS "A128CBC-HS256"))
                 TRequest (Some (PS "S512")) in
  in_product c /\ flow_outcome c (mkInp true 56 true true false) = Completed.
Proof. split; [in_prod|vm_compute; reflexivity]. Qed.

(* C12_product_refuted, limit by limit *)
Theorem C12_refuted_mode :
  let c := mkCfg (PS "code") (Some (PS "fragment")) (PS "client_secret_basic") false false (PS "RS256") None None None TPlain None in
  in_product c /\ flow_outcome c (mkInp false 32 true true false) = FailAt AuthzProcess /\ flow_outcome c base_inp = FailAt RpInit.
Proof. split; [in_prod|split; vm_compute; reflexivity]. Qed.
Print Assumptions C12_refuted_mode.

Theorem C12_refuted_hs_id_token :
  let c := mkCfg (PS "code") None (PS "client_secret_basic") false false (PS "HS256") None None None TPlain None in
  let c' := mkCfg (PS "id_token") None (PS "client_secret_basic") false false (PS "HS256") None None None TPlain None in
  in_product c /\ flow_outcome c base_inp = (if repaired_hs_sign then Completed else FailAt TokenEp)
  /\ in_product c' /\ flow_outcome c' base_inp = (if repaired_hs_sign then Completed else FailAt AuthzProcess).
Proof. split; [in_prod|split; [vm_compute; reflexivity|split; [in_prod|vm_compute; reflexivity]]]. Qed.
Print Assumptions C12_refuted_hs_id_token.

Theorem C12_refuted_hs_userinfo :
  let c := mkCfg (PS "code") None (PS "client_secret_basic") false false (PS "RS256") None (Some (PS "HS256")) None TPlain None in
  in_product c /\ flow_outcome c base_inp = (if repaired_hs_sign then Completed else FailAt UserinfoEp).
Proof. split; [in_prod|vm_compute; reflexivity]. Qed.
Print Assumptions C12_refuted_hs_userinfo.

Theorem C12_refuted_kw_secret :
  let c := mkCfg (PS "code") None (PS "client_secret_basic") false false (PS "RS256") None None
                 (Some (PS "A128KW", PS "A128GCM")) TPlain None in
  in_product c /\ flow_outcome c (mkInp false 56 false true false) = FailAt UserinfoEp /\ flow_outcome c base_inp = Completed.
Proof. split; [in_prod|split; vm_compute; reflexivity]. Qed.
Print Assumptions C12_refuted_kw_secret.

Theorem C12_refuted_byref_nonce :
  let c := mkCfg (PS "code id_token") None (PS "client_secret_basic") false false (PS "RS256") None None None TRequestUri None in
  let c' := mkCfg (PS "id_token") None (PS "client_secret_basic") false false (PS "RS256") None None None TPar None in
  in_product c /\ flow_outcome c base_inp = (if repaired_byref then Completed else FailAt AuthzParse)
  /\ in_product c' /\ flow_outcome c' base_inp = (if repaired_byref then Completed else FailAt AuthzParse).
Proof. split; [in_prod|split; [vm_compute; reflexivity|split; [in_prod|vm_compute; reflexivity]]]. Qed.
Print Assumptions C12_refuted_byref_nonce.

Theorem C12_refuted_byref_consent :
  let c := mkCfg (PS "code") None (PS "client_secret_basic") false false (PS "RS256") None None None TPar None in
  in_product c /\ flow_outcome c (mkInp true 32 false true false) = (if repaired_byref then Completed else FailAt AuthzParse)
  /\ flow_outcome c base_inp = Completed.
Proof. split; [in_prod|split; vm_compute; reflexivity]. Qed.
Print Assumptions C12_refuted_byref_consent.

Theorem C12_refuted_par_jwt :
  let c := mkCfg (PS "code") None (PS "private_key_jwt") false false (PS "RS256") None None None TPar None in
  in_product c /\ flow_outcome c base_inp = (if repaired_par_issuer_audience then Completed else FailAt Par).
Proof. split; [in_prod|vm_compute; reflexivity]. Qed.
Print Assumptions C12_refuted_par_jwt.

Theorem C12_refuted_shadow :
  let c := mkCfg (PS "id_token") None (PS "client_secret_basic") false false (PS "RS256") None None None TPlain None in
  in_product c /\ flow_outcome c (mkInp false 32 false false false) = FailAt RpInit
  /\ flow_outcome c (mkInp false 32 true false false) = FailAt AuthzParse /\ flow_outcome c base_inp = Completed
  /\ op_adv_rts false = [PS "code"].
Proof. split; [in_prod|repeat split; vm_compute; reflexivity]. Qed.
Print Assumptions C12_refuted_shadow.

Theorem C12_refuted_par_claims :
  let c := mkCfg (PS "code") None (PS "client_secret_basic") false false (PS "RS256") None None None TPar None in
  in_product c /\ flow_outcome c (mkInp false 32 false true true) = (if repaired_par_request_class then Completed else FailAt AuthzProcess)
  /\ flow_outcome c base_inp = Completed.
Proof. split; [in_prod|split; vm_compute; reflexivity]. Qed.
Print Assumptions C12_refuted_par_claims.

(* the ID Token encryption a client registers is never applied by the provider, and the relying party insists on
   what it registered: the signed-only ID Token is rejected where it arrives *)
Theorem C12_idt_enc_ignored : forall c, idt_encrypted c = (repaired_idt_enc && is_some (c_idt_enc c)).
Proof. reflexivity. Qed.
Print Assumptions C12_idt_enc_ignored.

Theorem C12_refuted_idt_enc :
  let c := mkCfg (PS "code") None (PS "client_secret_basic") false false (PS "RS256") (Some (PS "RSA-OAEP", PS "A128CBC-HS256"))
                 None None TPlain None in
  let c' := mkCfg (PS "token") None (PS "client_secret_basic") false false (PS "RS256") (Some (PS "RSA-OAEP", PS "A128CBC-HS256"))
                 None None TPlain None in
  in_product c /\ flow_outcome c base_inp = (if repaired_idt_enc then Completed else FailAt RpFinalize)
  /\ in_product c' /\ flow_outcome c' base_inp = Completed
  (* with the repair the AES key-wrap algorithms meet the secret-length limit for ID Tokens too *)
  /\ flow_outcome (mkCfg (PS "code") None (PS "client_secret_basic") false false (PS "RS256") (Some (PS "A128KW", PS "A128GCM"))
                          None None TPlain None) (mkInp false 56 false true false)
     = (if repaired_idt_enc then FailAt TokenEp else FailAt RpFinalize).
Proof. split; [in_prod|split; [vm_compute; reflexivity|split; [in_prod|split; vm_compute; reflexivity]]]. Qed.
Print Assumptions C12_refuted_idt_enc.

(* ---- artefacts: for EVERY response type both halves can be configured with, what the relying party reads from the
        authorization response is what the provider puts there (create_authn_response probed on a real provider;
        get_access_and_id_token probed on the real class); the hashes the relying party REQUIRES in an ID Token that
        arrives together with a code / an access token (AuthorizationResponse.verify probed: c_hash / at_hash) are the
        ones the provider put into it (ID Token payload of the probe); an ID Token reaches the relying party exactly
        when the response type names one or the code is redeemed *)
Theorem C12_artefacts : forall rt, In rt cfg_response_types ->
  artefacts_agree rt = true
  /\ (forall a, In a (artefacts_rp rt) -> In a (artefacts_op rt))
  /\ (forall h, In h (idt_hashes_required rt) -> In h (idt_hashes_provided rt))
  /\ (yields_id_token rt = true <-> has_word "id_token" rt = true \/ uses_token_endpoint rt = true).
Proof. exact artefacts. Qed.
Print Assumptions C12_artefacts.

Theorem C12_required_hashes :
  assoc (PS "code") rp_idt_required_hash = Some (PS "c_hash")
  /\ assoc (PS "access_token") rp_idt_required_hash = Some (PS "at_hash").
Proof. exact required_hashes. Qed.
Print Assumptions C12_required_hashes.

Theorem C12_hashes_by_type : forall rt, In rt cfg_response_types ->
  (str_in (PS "id_token") (artefacts_op rt) = true -> str_in (PS "code") (artefacts_op rt) = true ->
     str_in (PS "c_hash") (idt_hashes_provided rt) = true)
  /\ (str_in (PS "id_token") (artefacts_op rt) = true -> str_in (PS "access_token") (artefacts_op rt) = true ->
     str_in (PS "at_hash") (idt_hashes_provided rt) = true).
Proof. exact hashes_by_type. Qed.
Print Assumptions C12_hashes_by_type.

Theorem C12_response_types_both_sides :
  cfg_response_types = rp_configurable_response_types
  /\ (forall rt, In rt rp_configurable_response_types -> In rt op_configurable_response_types)
  /\ (forall rt, In rt rp_response_types -> In rt cfg_response_types)
  /\ (forall rt, In rt op_response_types -> In rt cfg_response_types)
  /\ length cfg_response_types = 7%nat.
Proof. exact response_types_both_sides. Qed.
Print Assumptions C12_response_types_both_sides.

Example C12_nonvacuous_all_types :
  let c rt := mkCfg (PS rt) None (PS "client_secret_basic") false false (PS "RS256") None None None TRequest None in
  forallb (fun rt => outcome_eqb (flow_outcome (c rt) base_inp) Completed)
          ["code"; "id_token"; "token"; "code token"; "code id_token"; "id_token token"; "code id_token token"] = true
  /\ in_product (c "code id_token token") /\ in_product (c "code token").
Proof. split; [vm_compute; reflexivity|split; in_prod]. Qed.

(* an HMAC ID Token algorithm is harmless where no ID Token is minted *)
Example C12_hs_without_id_token :
  let c := mkCfg (PS "code token") None (PS "client_secret_basic") false false (PS "HS256") None None None TPlain None in
  in_product c /\ flow_outcome c base_inp = Completed.
Proof. split; [in_prod|vm_compute; reflexivity]. Qed.

(* ---- views.  In the composed model ONE record is created at the authorization endpoint from the request and
        from two environment functions - sub_of (user, client): the subject identifier (its consistency across
        endpoints is C18), filter_scopes (client, requested): the granted scope (here ANY function; the function the
        code computes and what every view states when requested and granted differ: C12_granted_scope ... below)
        - and the nonce of the request (returned unchanged:
        C08/C09).  Every observation point (provider session, token response, JWT access token, introspection,
        userinfo, ID Token, relying party) shows a projection of that record, so all views agree, for ALL users,
        clients, scopes, nonces, times and lifetimes.  Both clocks read `now`; see C12_rp_expiry_skew otherwise. *)
Theorem C12_views_model : forall sub_of filter_scopes user client req_scope nonce now at_life idt_life asrc at_jwt,
  let s := authorize sub_of filter_scopes user client req_scope nonce now at_life idt_life in
  (forall isrc, isrc <> SrcAuthz \/ repaired_idt_exp = true ->
     all_agree (all_views asrc isrc at_jwt s now now) = true
     /\ (forall v, In v (all_views asrc isrc at_jwt s now now) -> projects s v))
  /\ all_agree (map forget_idt_exp (all_views asrc SrcAuthz at_jwt s now now)) = true
  /\ (forall isrc,
       v_sub (view_rp asrc isrc s now now) = Some (sub_of user client)
       /\ v_scope (view_rp asrc isrc s now now) = Some (filter_scopes client req_scope)
       /\ v_nonce (view_rp asrc isrc s now now) = nonce
       /\ v_client (view_rp asrc isrc s now now) = Some client).
Proof. exact views_model. Qed.
Print Assumptions C12_views_model.

(* asrc / isrc: where the relying party's access token / ID Token come from (none, authorization response, token
   response) - rp_artefact_sources gives them per response type.  Every flow whose ID Token (if any) comes from the
   token endpoint: all views agree, for every session record and time *)
Theorem C12_views_agree : forall asrc isrc at_jwt s now, isrc <> SrcAuthz \/ repaired_idt_exp = true ->
  all_agree (all_views asrc isrc at_jwt s now now) = true.
Proof. exact views_agree. Qed.
Print Assumptions C12_views_agree.

(* Full statement for flows whose ID Token is minted at the AUTHORIZATION endpoint (id_token, id_token token,
   code id_token token) is false of the faithful model:
     Theorem C12_views_agree_implicit_full : forall asrc at_jwt s now, all_agree (all_views asrc SrcAuthz at_jwt s now now) = true.
   the session database records expires_at = 0 for such an ID Token - unless repaired_idt_exp (then C12_views_agree
   covers these flows as well and the witness below agrees). *)
Theorem C12_views_agree_implicit_partial : forall asrc at_jwt s now,
  all_agree (map forget_idt_exp (all_views asrc SrcAuthz at_jwt s now now)) = true
  /\ all_agree [view_id_token s; view_rp asrc SrcAuthz s now now] = true.
Proof. exact views_agree_implicit. Qed.
Print Assumptions C12_views_agree_implicit_partial.

Theorem C12_views_agree_implicit_refuted : exists s, all_agree (all_views SrcNone SrcAuthz false s 0 0) = repaired_idt_exp.
Proof. exact views_agree_implicit_refuted. Qed.
Print Assumptions C12_views_agree_implicit_refuted.

(* ---- after a refresh, and after any number of further refreshes (refresh_chain: client, subject, scope, nonce kept,
        expiries set anew from the provider's clock and the lifetimes): the views of the REFRESHED access token and
        ID Token - refresh response, relying party, provider session, JWT access token, introspection, userinfo,
        ID Token - are projections of the refreshed record; they agree, name the original client / subject / scope /
        nonce, and all state the expiry `clock at the last refresh + access-token lifetime` *)
Theorem C12_views_after_refresh : forall s l now at_life idt_life at_jwt,
  let s' := refresh_chain s (l ++ [(now, at_life, idt_life)]) in
  all_agree (all_views SrcToken SrcToken at_jwt s' now now) = true
  /\ (forall v, In v (all_views SrcToken SrcToken at_jwt s' now now) -> projects s' v)
  /\ v_client (view_rp SrcToken SrcToken s' now now) = Some (s_client s)
  /\ v_sub (view_rp SrcToken SrcToken s' now now) = Some (s_sub s)
  /\ v_scope (view_rp SrcToken SrcToken s' now now) = Some (s_scope s)
  /\ v_nonce (view_rp SrcToken SrcToken s' now now) = s_nonce s
  /\ v_at_exp (view_token_response s' now) = Some (now + at_life)%Z
  /\ v_at_exp (view_rp SrcToken SrcToken s' now now) = Some (now + at_life)%Z
  /\ v_at_exp (view_introspection s') = Some (now + at_life)%Z
  /\ v_at_exp (view_jwt_access_token s') = Some (now + at_life)%Z
  /\ v_at_exp (view_session SrcToken SrcToken s') = Some (now + at_life)%Z.
Proof. exact views_after_refresh. Qed.
Print Assumptions C12_views_after_refresh.

Example C12_refresh_nonvacuous :
  let s := mkSession (PS "c12-client") (PS "sub-1") [PS "openid"] (Some (PS "n-1")) 1700000600 1700000300 in
  let s2 := refresh_chain s [(1700000037, 600, 300); (1700000078, 600, 300)]%Z in
  s_at_exp s2 = 1700000678%Z /\ all_agree (all_views SrcToken SrcToken true s2 1700000078 1700000078) = true
  (* a refresh response that states the REFRESH token's remaining life instead disagrees with every other view *)
  /\ view_agree (mkView None None (Some [PS "openid"]) None (Some (1700000078 + 43200)%Z) None) (view_introspection s2) = false.
Proof. repeat split; vm_compute; reflexivity. Qed.

(* the relying party computes __expires_at from ITS clock: it is off by exactly the clock difference *)
Theorem C12_rp_expiry_skew : forall asrc isrc s now_op now_rp, asrc <> SrcNone ->
  v_at_exp (view_rp asrc isrc s now_op now_rp) = Some (s_at_exp s + (now_rp - now_op))%Z.
Proof. exact rp_expiry_skew. Qed.
Print Assumptions C12_rp_expiry_skew.

Example C12_views_nonvacuous :
  let s := mkSession (PS "c12-client") (PS "sub-1") [PS "openid"; PS "profile"] (Some (PS "n-1")) 1700000600 1700000300 in
  all_agree (all_views SrcToken SrcToken true s 1700000000 1700000000) = true
  /\ all_agree (all_views SrcAuthz SrcNone true s 1700000000 1700000000) = true
  /\ all_agree (all_views SrcToken SrcToken true s 1700000000 1700000007) = false.
Proof. repeat split; vm_compute; reflexivity. Qed.


(* ---- requested scope vs granted scope.  The scope a relying party asks for and the scope it is granted differ as
        soon as the request names a value the provider does not know (dropped without an error: the regenerated
        op_deny_unknown_scopes is false) or one the operator has not put into the client's allowed_scopes.  The
        granted scope is a function of three things - the requested scope, the provider's scopes, the client's
        allowed scopes (None: its record has none) - for ALL lists of scope values: *)
Theorem C12_granted_scope : forall provider al req x,
  In x (filter_scopes provider al req) <-> In x req /\ In x (allowed_scopes_of provider al).
Proof. exact filter_scopes_char. Qed.
Print Assumptions C12_granted_scope.

(* requested /\ provider scopes /\ the client's allowed scopes *)
Theorem C12_granted_scope_intersection : forall provider al req x,
  match al with Some a => incl a provider | None => True end ->
  (In x (filter_scopes provider al req) <->
   In x req /\ In x provider /\ match al with Some a => In x a | None => True end).
Proof. exact filter_scopes_intersection. Qed.
Print Assumptions C12_granted_scope_intersection.

(* "requested" and "granted" coincide exactly when every requested value is allowed *)
Theorem C12_granted_is_requested_iff : forall provider al req,
  filter_scopes provider al req = req <-> incl req (allowed_scopes_of provider al).
Proof. exact filter_scopes_all_or_less. Qed.
Print Assumptions C12_granted_is_requested_iff.

Theorem C12_unknown_scopes_dropped : op_deny_unknown_scopes = false.
Proof. exact unknown_scopes_dropped. Qed.
Print Assumptions C12_unknown_scopes_dropped.

(* every view of the record created for (client's allowed scopes, requested scope) that states a scope states the
   granted scope, which lies within the requested scope; the provider session, the relying party, the response
   that carries the access token, introspection and the JWT access token all state one.  For every client, subject,
   allowed / requested scope, nonce, time, lifetime, artefact source and both clocks. *)
Theorem C12_scope_views_granted :
  forall client sub al req nonce now at_life idt_life asrc isrc at_jwt now_op now_rp v l,
  let s := grant_session client sub al req nonce now at_life idt_life in
  In v (all_views asrc isrc at_jwt s now_op now_rp) -> v_scope v = Some l ->
  l = granted_scope al req /\ incl l req
  /\ (forall x, In x l <-> In x req /\ In x (allowed_scopes_of op_scopes al)).
Proof. exact scope_views_granted. Qed.
Print Assumptions C12_scope_views_granted.

Theorem C12_scope_views_present : forall asrc isrc s now_op now_rp,
  v_scope (view_session asrc isrc s) = Some (s_scope s)
  /\ v_scope (view_rp asrc isrc s now_op now_rp) = Some (s_scope s)
  /\ v_scope (view_token_response s now_op) = Some (s_scope s)
  /\ v_scope (view_introspection s) = Some (s_scope s)
  /\ v_scope (view_jwt_access_token s) = Some (s_scope s).
Proof. exact scope_views_present. Qed.
Print Assumptions C12_scope_views_present.

(* a refresh request that states a scope: refused unless the stated scope lies within the scope the refresh token
   stands for; the scope of the refresh is the stated one, else the one the token stands for *)
Theorem C12_refresh_scope : forall g stated,
  match stated with
  | None => refresh_scope g stated = Some g
  | Some n => (incl n g -> refresh_scope g stated = Some n) /\ (~ incl n g -> refresh_scope g stated = None)
  end.
Proof. exact refresh_scope_char. Qed.
Print Assumptions C12_refresh_scope.

(* ... and every view of the refreshed tokens states exactly the scope of THIS refresh, within the granted scope;
   the views agree; client, subject and nonce are kept *)
Theorem C12_views_after_scoped_refresh : forall g stated sc s r at_jwt now,
  refresh_scope g stated = Some sc ->
  let s' := refresh_session_scoped s r sc in
  all_agree (all_views SrcToken SrcToken at_jwt s' now now) = true
  /\ (forall v l, In v (all_views SrcToken SrcToken at_jwt s' now now) -> v_scope v = Some l -> l = sc)
  /\ incl sc g
  /\ s_client s' = s_client s /\ s_sub s' = s_sub s /\ s_nonce s' = s_nonce s.
Proof. exact views_after_scoped_refresh. Qed.
Print Assumptions C12_views_after_scoped_refresh.

Example C12_scope_nonvacuous :
  let al := Some [PS "openid"; PS "profile"; PS "email"; PS "offline_access"] in
  let req := [PS "calendar"; PS "email"; PS "offline_access"; PS "openid"; PS "phone"] in
  let g := [PS "email"; PS "offline_access"; PS "openid"] in
  let s := grant_session (PS "c12-client") (PS "sub-1") al req (Some (PS "n-1")) 1700000000 600 300 in
  granted_scope al req = g
  /\ granted_scope None req = [PS "email"; PS "offline_access"; PS "openid"; PS "phone"]
  /\ all_agree (all_views SrcToken SrcToken true s 1700000000 1700000000) = true
  (* a token response that states the REQUESTED scope disagrees with every other view *)
  /\ view_agree (mkView None None (Some req) None (Some 1700000600%Z) None) (view_introspection s) = false
  /\ chk_grant (al, req, [g], mkViewsCase SrcToken SrcToken false s 1700000000 1700000000
                   (view_session SrcToken SrcToken s) (Some (view_token_response s 1700000000))
                   (Some (view_introspection s)) (Some (view_userinfo s)) (Some (view_id_token s))
                   (view_rp SrcToken SrcToken s 1700000000 1700000000) None) = true
  /\ chk_grant (al, req, [g], mkViewsCase SrcToken SrcToken false s 1700000000 1700000000
                   (view_session SrcToken SrcToken s)
                   (Some (mkView None None (Some req) None (Some 1700000600%Z) None))
                   (Some (view_introspection s)) (Some (view_userinfo s)) (Some (view_id_token s))
                   (view_rp SrcToken SrcToken s 1700000000 1700000000) None) = false
  /\ refresh_scope g (Some [PS "offline_access"; PS "openid"]) = Some [PS "offline_access"; PS "openid"]
  /\ refresh_scope g (Some [PS "openid"; PS "phone"]) = None
  /\ refresh_scope g None = Some g.
Proof. repeat split; vm_compute; reflexivity. Qed.

(* --- round 11 --- *)
(* ---- the lifetime dimension of the views (Model/InteropLifetime.v).  The lifetimes that the theorems above take as
        given numbers are functions of the CONFIGURATION - the token handler's lifetime, the provider-wide usage
        rule, the client's own token_usage_rules - and the provider is an INSTANCE that serves flows of several
        clients one after the other through the same handler objects.  `step p i e` runs one minting event (a flow or
        a refresh round) of client `e_client e` on instance i; `run` runs a sequence on one instance; `alone p e` is
        the flow on an instance that has served nobody.  The driver evaluates chk_lifetimes on every sequence it
        drives on one REAL provider instance (short-lived client first, default client first, interleaved,
        with refresh rounds in between). *)
From Verif Require Import Model.InteropLifetime Proofs.InteropLifetime_proofs.

(* every view of one event - expires_in of the response, the relying party's __expires_at, the provider's session
   record, exp - iat INSIDE a JWT-formatted access / refresh token, introspection - states the lifetime the
   configuration gives THIS client for the token class, all start at the provider's clock, and they agree pairwise:
   after ANY history h of flows of any clients on the instance *)
Theorem C12_lifetime_views_agree : forall p h e,
  let v := snd (step p (run_state p (fresh p) h) e) in
  all_are (lifetime p (e_client e) TAccess) (at_lifetimes (e_now_rp e) v) = true
  /\ all_are (lifetime p (e_client e) TRefresh) (rf_lifetimes v) = true
  /\ all_are (e_now_op e) (starts v) = true
  /\ lviews_agree (e_now_rp e) v = true.
Proof. exact step_views. Qed.
Print Assumptions C12_lifetime_views_agree.

(* the views of every flow of a sequence on one instance are the views of that flow alone: they do not depend on the
   flows run earlier (or later) on the instance, whoever these were for *)
Theorem C12_lifetime_history_independent : forall p es, run p (fresh p) es = map (alone p) es.
Proof. exact run_history_independent. Qed.
Print Assumptions C12_lifetime_history_independent.

Theorem C12_lifetime_any_position : forall p pre e post d,
  nth (length pre) (run p (fresh p) (pre ++ e :: post)) d = alone p e.
Proof. exact run_nth. Qed.
Print Assumptions C12_lifetime_any_position.

Theorem C12_lifetime_two_histories : forall p h1 h2 e,
  snd (step p (run_state p (fresh p) h1) e) = snd (step p (run_state p (fresh p) h2) e).
Proof. exact after_any_history. Qed.
Print Assumptions C12_lifetime_two_histories.

(* per-client lifetime: the client's own rule, else the provider-wide rule, else the token handler's lifetime *)
Theorem C12_lifetime_precedence : forall p c k,
  lifetime p c k =
  match k with
  | TAccess => match cl_rule_at c with Some x => x | None =>
                 match p_rule_at p with Some y => y | None => p_handler_at p end end
  | TRefresh => match cl_rule_rf c with Some x => x | None =>
                  match p_rule_rf p with Some y => y | None => p_handler_rf p end end
  end.
Proof. exact lifetime_precedence. Qed.
Print Assumptions C12_lifetime_precedence.

(* the session record of the flow at ANY position of a sequence holds the provider's clock + the lifetime of THE
   FLOW'S client *)
Theorem C12_lifetime_of_own_client : forall p pre e post d,
  lv_session (nth (length pre) (run p (fresh p) (pre ++ e :: post)) d)
  = Some (e_now_op e, (e_now_op e + lifetime p (e_client e) TAccess)%Z).
Proof. exact lifetime_other_clients. Qed.
Print Assumptions C12_lifetime_of_own_client.

(* tie to the views of Model/Interop.v: the record the authorization endpoint creates with the configured lifetime
   is the one whose expiry the lifetime views state, and all of ITS views agree *)
Theorem C12_lifetime_interop_views : forall p e client sub al req nonce idt_life at_jwt,
  let s := grant_session client sub al req nonce (e_now_op e) (lifetime p (e_client e) TAccess) idt_life in
  lv_session (alone p e) = Some (e_now_op e, s_at_exp s)
  /\ v_at_exp (view_introspection s) = Some (s_at_exp s)
  /\ v_at_exp (view_jwt_access_token s) = Some (s_at_exp s)
  /\ v_at_exp (view_token_response s (e_now_op e)) = Some (e_now_op e + lifetime p (e_client e) TAccess)%Z
  /\ all_agree (all_views SrcToken SrcToken at_jwt s (e_now_op e) (e_now_op e)) = true.
Proof. exact lifetime_interop_views. Qed.
Print Assumptions C12_lifetime_interop_views.

Example C12_lifetime_nonvacuous :
  let p := mkProvLife 3600 86400 None None in
  let a := mkClientLife (PS "c12-a") None None in
  let b := mkClientLife (PS "c12-b") (Some 120%Z) (Some 900%Z) in
  let ev c t := mkEvent c t t true true true true in
  map lv_jwt (run p (fresh p) [ev a 100; ev b 200; ev a 300]%Z)
  = [Some (100, 3700); Some (200, 320); Some (300, 3900)]%Z
  /\ chk_lifetimes (p, [(ev b 200%Z, alone p (ev b 200%Z)); (ev a 300%Z, alone p (ev a 300%Z))]) = true
  /\ chk_lifetimes (p, [(ev b 200%Z, alone p (ev b 200%Z));
                        (ev a 300%Z, let v := alone p (ev a 300%Z) in
                                     mkLviews (lv_response v) (lv_rp v) (lv_session v) (Some (300, 420)%Z)
                                              (lv_introspection v) (lv_rf_session v) (lv_rf_jwt v)
                                              (lv_rf_introspection v))]) = false.
Proof. exact lifetime_nonvacuous. Qed.
(* --- end round 11 --- *)

(* --- round 12: the probed delivery table is an instance of the law of the translated source --- *)
From Verif Require Lib.PyOps Gen.Src_authz Proofs.Src_refine_authz Proofs.Src_refine_fragtab.
Theorem C12_fragment_encoding_is_source : forall rt clock,
  Src_authz.fragment_encoding_src (VList (List.map VStr rt)) clock = Ok (VBool (Src_refine_authz.fragment_encoding rt)).
Proof. exact Src_refine_authz.fragment_encoding_refines. Qed.
Print Assumptions C12_fragment_encoding_is_source.
Theorem C12_fragment_enc_table_is_source :
  forallb (fun rb => Bool.eqb (Src_refine_authz.fragment_encoding (words (fst rb))) (snd rb)) op_fragment_enc = true.
Proof. exact Src_refine_fragtab.fragment_enc_table_is_source. Qed.
Print Assumptions C12_fragment_enc_table_is_source.
(* --- end round 12 --- *)
