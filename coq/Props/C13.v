(* Props/C13.v — property C13: exported state restores to an equivalent provider or relying party;
   the file-backed store shows a new instance what was written or deleted through the dictionary
   interface.  Only statements, each closed by `exact <lemma>`, with Print Assumptions. *)
From Coq Require Import String.
From Verif Require Import Lib.Base Lib.PyStr Lib.Urlenc Lib.ImpExpTy Gen.ImpExpTables
  Model.FileStore Model.ImpExp Model.ImpExpReq Proofs.FileStore_proofs Proofs.ImpExp_proofs.
Open Scope string_scope.

(* ---- file store (AbstractFileSystem + QPKey) ----
   For EVERY sequence of dictionary operations (set / get / del / keys / items / in / len / clear /
   re-open) over arbitrary byte-string keys (the UTF-8 encodings of arbitrary str keys: URL-shaped,
   '%', '+', ' ', '/', '.lock', ...), started on an empty directory:
   (1) every answer equals the answer of a plain key -> value map that refuses to store the three
       directory names "", ".", ".." (IsADirectoryError) and names ending in ".lock" (ValueError),
   (2) the data files, decoded by unquote_plus o filename, are exactly that map,
   (3) a NEW instance opened over the same directory observes exactly that map.
   Every prefix of a sequence is a sequence, so this holds at every crash point. *)
Theorem C13_filestore_refines : forall ops, ops_ok ops = true ->
  let '(s, xs) := FileStore.run empty_store ops in
  let '(m, ys) := arun [] ops in
  xs = ys /\ FileStore.abs (st_dir s) = m /\ observe_new (st_dir s) = m.
Proof. exact filestore_refines. Qed.
Print Assumptions C13_filestore_refines.

(* what was written last is what a new instance reads, after any history *)
Theorem C13_filestore_written_is_seen : forall ops k v,
  ops_ok ops = true -> bytes_ok k = true -> set_refusal k = None ->
  assoc k (observe_new (st_dir (fst (FileStore.run empty_store (ops ++ [OSet k v]))))) = Some v.
Proof. exact set_then_new_instance. Qed.
Print Assumptions C13_filestore_written_is_seen.

(* the key converter is injective on the keys the store accepts: quote_plus has a left inverse *)
Theorem C13_key_codec : forall k, bytes_ok k = true -> unquote_plus (quote_plus k) = k.
Proof. exact unq_q. Qed.
Print Assumptions C13_key_codec.

(* ---- ImpExp codec ----
   Full statement (false of the faithful model, kept visible):
     forall v : JSON-like pyval, load_attr (type2cls v) (dump_attr (type2cls v) v) = v.
   It fails for a str beginning "BYTES:" (read back as bytes), for dicts with an "upstream_get" key
   (dropped on export) and for a non-str value under a "class" key (export raises). *)
Theorem C13_codec_partial : forall v, json_ok v = true ->
  exists x, dump_json v = Ok x /\ load_json x = Ok v.
Proof. exact codec_json. Qed.
Print Assumptions C13_codec_partial.
Theorem C13_codec_refuted :
  exists v, json_ok v = false /\ forall x, dump_json v = Ok x -> load_json x <> Ok v.
Proof. exact codec_json_unguarded_refuted. Qed.
Print Assumptions C13_codec_refuted.
Theorem C13_codec_upstream_get_refuted :
  exists v, json_ok v = false /\ forall x, dump_json v = Ok x -> load_json x <> Ok v.
Proof. exact codec_json_upstream_get_refuted. Qed.

(* one attribute under its `parameter` type marker *)
Theorem C13_codec_attr : forall ty v, attr_ok ty v = true ->
  exists x, dump_attr ty v = Ok x /\ load_attr ty x = Ok v.
Proof. exact codec_attr. Qed.
Print Assumptions C13_codec_attr.

(* ---- one ImpExp instance: dump, load into a freshly constructed instance o0, dump again ----
   for every `parameter` table without repeated attributes, every instance o whose exported
   attributes are well-shaped for their markers: load (dump o) has the attributes of o on the whole
   table, and dump (load (dump o)) = dump o. *)
Theorem C13_dump_idempotent : forall t sp o o0,
  nodup_keys t = true -> obj_ok t sp o o0 = true ->
  exists D o', dump_fields t sp o = Ok D /\ load_fields t sp o0 D = Ok o' /\
               (forall a ty, In (a, ty) t -> str_in a sp = false -> getattr a o' = getattr a o) /\
               dump_fields t sp o' = Ok D.
Proof. exact obj_roundtrip. Qed.
Print Assumptions C13_dump_idempotent.

(* ... and it applies to the REGENERATED tables of the session classes (tokens, grants, nodes, RP state) *)
Theorem C13_session_classes_flat : forall c, In c session_classes -> class_flat impexp_tables c = true.
Proof.
  assert (forallb (class_flat impexp_tables) session_classes = true) as H by (vm_compute; reflexivity).
  intros c Hc. rewrite forallb_forall in H. now apply H.
Qed.
Print Assumptions C13_session_classes_flat.

(* ---- a grant together with the tokens it issued (Grant.special_load_dump: issued_token, token_map) ----
   for every grant whose own attributes and whose tokens' attributes are well-shaped: dump, load into a
   freshly constructed grant (`fresh c` = what the constructor of class c yields), and the grant's
   exported attributes, every issued token's exported attributes (used, revoked, expires_at, usage_rules,
   value, based_on, ... in issuing order) and the token map are back. *)
Theorem C13_grant_roundtrip : forall tabs fresh g c,
  obj_class g = Some c -> grant_ok tabs fresh g = true ->
  str_in s_issued_token (specials_of tabs c) = true -> str_in s_token_map (specials_of tabs c) = true ->
  exists D g', grant_dump tabs g = Ok D /\ grant_load tabs fresh c D = Ok g' /\
    agree_on (class_table tabs c) (specials_of tabs c) g g' /\
    (forall x l, getattr s_issued_token g = Some (VList (x :: l)) ->
       exists l', assoc s_issued_token g' = Some (VList l') /\ Forall2 (tok_agree tabs) (x :: l) l') /\
    (forall x d, getattr s_token_map g = Some (VDict (x :: d)) -> assoc s_token_map g' = Some (VDict (x :: d))).
Proof. exact grant_roundtrip. Qed.
Print Assumptions C13_grant_roundtrip.
(* its side conditions hold of the regenerated Grant / ExchangeGrant tables *)
Example C13_grant_specials_regenerated :
  forallb (fun c => str_in s_issued_token (specials_of impexp_tables c) && str_in s_token_map (specials_of impexp_tables c))
          [c_Grant; c_ExchangeGrant] = true.
Proof. vm_compute. reflexivity. Qed.

(* ---- every state field the logic reads is exported and imported by its class ----
   over the tables regenerated from /repo/src on this run: deleting e.g. "used" from Item.parameter,
   "jti_db" from EndpointContext.parameter or the issued_token load function breaks this proof. *)
Theorem C13_fields_covered : forall c a k, In (c, a, k) required_fields -> covered impexp_tables c a k = true.
Proof.
  assert (fields_covered impexp_tables = true) as H by (vm_compute; reflexivity).
  intros c a k Hin. unfold fields_covered in H. rewrite forallb_forall in H. exact (H (c, a, k) Hin).
Qed.
Print Assumptions C13_fields_covered.

(* ---- sharing inside the exported state ----
   The live session database files objects under keys and two keys can lead to ONE object (the mint helpers file a grant a
   second time under its encrypted session id).  The export writes one document per key, the import builds one new object
   per key (sd_dump / sd_load), so:
   (1) the restored database shows under every key what the original shows,
   (2) but no two keys of it lead to one object: every sharing relation of the original is lost,
   (3) which no later history notices AS LONG AS every reader and writer goes through a set K of keys no two of which
       are shared in the original (the branch keys decrypt_branch_id yields) - the second filings may be created, they are
       never read: same answers, for every later sequence of changes-in-place, reads, second filings, new objects, removals,
   (4) also after any number of further export -> import rounds of the restored twin,
   (5) session_manager[sid], resolved through the tree, hands out the same contents on both,
   (6) and the condition is necessary: a reader that takes the entry filed under the session id itself sees the copy
       taken at export time after a change through the tree (refuted statements, kept visible).
   The driver checks the premise on the real provider (no two branch keys share an object; look-ups of one session that
   hand out one object in the original hand out one object in the restored provider) and evaluates sd_dump / sd_load /
   sd_exec on the real histories (chk_share). *)
Theorem C13_restore_shows_same_contents : forall s k, sd_view (sd_load (sd_dump s)) k = sd_view s k.
Proof. exact restore_views. Qed.
Print Assumptions C13_restore_shows_same_contents.
Theorem C13_restore_loses_sharing : forall s k1 k2, k1 <> k2 -> same_object (sd_load (sd_dump s)) k1 k2 = false.
Proof. exact restore_loses_alias. Qed.
Print Assumptions C13_restore_loses_sharing.
Theorem C13_restore_equivalent_on_branch_keys : forall K s ops,
  sd_canon K s -> forallb (op_canon K) ops = true -> sd_run (sd_load (sd_dump s)) ops = sd_run s ops.
Proof. exact restore_equivalent_on_canonical_keys. Qed.
Print Assumptions C13_restore_equivalent_on_branch_keys.
Theorem C13_restore_chain_equivalent : forall K s ops1 ops2,
  sd_canon K s -> forallb (op_canon K) ops1 = true -> forallb (op_canon K) ops2 = true ->
  sd_run (sd_load (sd_dump (sd_exec (sd_load (sd_dump s)) ops1))) ops2 = sd_run (sd_exec s ops1) ops2.
Proof. exact restore_chain_equivalent. Qed.
Print Assumptions C13_restore_chain_equivalent.
Theorem C13_lookup_by_session_id_restored : forall K s ops sidkey treekey,
  sd_canon K s -> forallb (op_canon K) ops = true -> K treekey = true ->
  sd_lookup true (sd_exec (sd_load (sd_dump s)) ops) sidkey treekey = sd_lookup true (sd_exec s ops) sidkey treekey.
Proof. exact lookup_tree_restored. Qed.
Print Assumptions C13_lookup_by_session_id_restored.
Theorem C13_second_filing_read_refuted :
  same_object ex_sdb ex_tree ex_sid = true
  /\ sd_run ex_sdb [SUpd ex_tree (VBool true); SGet ex_sid] = [None; Some (VBool true)]
  /\ sd_run (sd_load (sd_dump ex_sdb)) [SUpd ex_tree (VBool true); SGet ex_sid] = [None; Some (VBool false)].
Proof. exact restore_not_equivalent_through_second_filing. Qed.
Print Assumptions C13_second_filing_read_refuted.
Theorem C13_lookup_by_second_filing_refuted :
  sd_lookup false (sd_exec ex_sdb [SUpd ex_tree (VBool true)]) ex_sid ex_tree = Some (VBool true)
  /\ sd_lookup false (sd_exec (sd_load (sd_dump ex_sdb)) [SUpd ex_tree (VBool true)]) ex_sid ex_tree = Some (VBool false).
Proof. exact lookup_by_second_filing_refuted. Qed.
Print Assumptions C13_lookup_by_second_filing_refuted.
(* non-vacuity of the premise: the witness database is canonical for K = {the branch key} *)
Example C13_sharing_nonvacuous :
  sd_run (sd_load (sd_dump ex_sdb)) [SFile ex_tree ex_sid; SUpd ex_tree (VBool true); SGet ex_tree; SDel ex_tree; SGet ex_tree]
  = [None; None; Some (VBool true); None; None].
Proof. vm_compute. reflexivity. Qed.

(* ---- every later operation after a restore (one instance) ----
   An operation = any function of the attributes of an instance (answer + new attributes).  If answer and new exported
   attributes depend on the exported attributes only (op_exported), then after dump -> load into a fresh instance EVERY
   later sequence of such operations - removals, re-bindings, look-ups, ... - is answered as by the original.  A read of
   an attribute in the table is such an operation; a read of an attribute outside the table is not, and for it the
   statement is false (refuted variant, kept visible): the restored instance shows what the constructor put there.
   The premise is tied to the code by the attribute census of the driver (chk_census over the regenerated tables: every
   attribute a live token / grant / node / RP-store instance carries is exported, an init arg or a listed transient) and,
   for the configuration-bearing classes, by comparing every non-exported attribute of the live instance with a fresh
   and with the restored twin. *)
Theorem C13_restore_equivalent_for_exported_operations : forall (R : Type) t sp o o0 (steps : list (fields -> fields * R)),
  nodup_keys t = true -> obj_ok t sp o o0 = true -> Forall (op_exported t sp) steps ->
  exists D o', dump_fields t sp o = Ok D /\ load_fields t sp o0 D = Ok o' /\ run_steps steps o' = run_steps steps o.
Proof. exact (@restore_equiv_history). Qed.
Print Assumptions C13_restore_equivalent_for_exported_operations.
Theorem C13_read_of_exported_attribute : forall t sp a ty,
  In (a, ty) t -> str_in a sp = false -> op_exported t sp (read_attr a).
Proof. exact read_exported. Qed.
Print Assumptions C13_read_of_exported_attribute.
Theorem C13_read_of_nonexported_index_refuted :
  nodup_keys ex_tab = true /\ obj_ok ex_tab [] ex_live ex_fresh_obj = true /\
  exists D o', dump_fields ex_tab [] ex_live = Ok D /\ load_fields ex_tab [] ex_fresh_obj D = Ok o' /\
               run_steps [read_attr s__map; read_attr ex_idx] ex_live
                 = [Some (VDict [([110]%N, VStr [115]%N)]); Some (VDict [([115]%N, VList [VStr [110]%N])])] /\
               run_steps [read_attr s__map; read_attr ex_idx] o'
                 = [Some (VDict [([110]%N, VStr [115]%N)]); Some (VDict [])].
Proof. exact restore_nonexported_refuted. Qed.
Print Assumptions C13_read_of_nonexported_index_refuted.

(* recorded finding restore-drops-session-manager-config, as a statement: the attributes the SessionManager constructor
   takes from the configured session_params are outside the regenerated table of the class, so WHATEVER was exported, after
   load() they are what the instance that load() filled had - and EndpointContext.load fills a session manager it has just
   constructed from init_args alone (default minters, no clean-up): reading them is not an operation that "depends only on
   exported attributes", and the equivalence above does not cover a provider configured with non-default session_params. *)
Theorem C13_restore_session_manager_config_refuted :
  forall a, In a session_manager_config_attrs ->
  forall o0 D o', load_fields (class_table impexp_tables c_SessionManager) (specials_of impexp_tables c_SessionManager) o0 D = Ok o' ->
                  assoc a o' = assoc a o0.
Proof.
  exact (config_outside_table_lost (class_table impexp_tables c_SessionManager) (specials_of impexp_tables c_SessionManager)
           session_manager_config_attrs eq_refl).
Qed.
Print Assumptions C13_restore_session_manager_config_refuted.

(* ---- the relying party's state store (client/current.py: _db state -> record, _map nonce / subject / session id /
   logout state -> state) over the REGENERATED table of the class: export -> import into Current() gives the store back,
   so a restore at any point of any history of set / update / bind_key / remove_state / get_base_key / get / keys /
   further restores changes no later answer.  A store that kept an index NOT in the table (state -> bound keys, walked by
   remove_state) answers the same while it lives (curi_live_agrees) and differently after a restore: the removed
   session's nonce / subject still resolve and are exported again (refuted variant). *)
Theorem C13_rp_store_restored : forall c, cur_restore (class_table impexp_tables c_Current) c = Ok c.
Proof. exact (fun c => cur_restore_id (class_table impexp_tables c_Current) c eq_refl). Qed.
Print Assumptions C13_rp_store_restored.
Theorem C13_rp_store_restore_anywhere : forall c ops1 ops2,
  cur_run (class_table impexp_tables c_Current) c (ops1 ++ CRestore :: ops2)%list
  = (cur_run (class_table impexp_tables c_Current) c ops1
     ++ CUnit :: cur_run (class_table impexp_tables c_Current) (cur_exec (class_table impexp_tables c_Current) c ops1) ops2)%list.
Proof. exact (fun c ops1 ops2 => cur_restore_anywhere (class_table impexp_tables c_Current) c ops1 ops2 eq_refl). Qed.
Print Assumptions C13_rp_store_restore_anywhere.
Theorem C13_rp_store_index_live : forall t ops, forallb no_restore ops = true ->
  curi_run t curi_empty ops = cur_run t cur_empty ops.
Proof. exact (fun t ops H => curi_live_agrees t ops H curi_empty idx_inv_empty). Qed.
Print Assumptions C13_rp_store_index_live.
Theorem C13_rp_store_nonexported_index_refuted :
  curi_run ex_tab curi_empty (ex_hist ++ ex_after)%list = cur_run ex_tab cur_empty (ex_hist ++ ex_after)%list
  /\ cur_run ex_tab cur_empty (ex_hist ++ CRestore :: ex_after)%list
     = [CUnit; CUnit; CUnit; CUnit; CUnit; CErrR KeyError; CErrR KeyError; CStateR [] []]
  /\ curi_run ex_tab curi_empty (ex_hist ++ CRestore :: ex_after)%list
     = [CUnit; CUnit; CUnit; CUnit; CUnit; CStrR ex_st; CStrR ex_st; CStateR [] [(ex_n, ex_st); (ex_sub, ex_st)]].
Proof. exact curi_restore_refuted. Qed.
Print Assumptions C13_rp_store_nonexported_index_refuted.
(* the witness table is the regenerated one *)
Example C13_rp_store_table_regenerated : class_table impexp_tables c_Current = ex_tab.
Proof. vm_compute. reflexivity. Qed.

(* ---- non-vacuity ---- *)
Definition ex_ops : list op :=
  [OSet (PS "https://c.example.org/x?y=1&z") (PS " v1 "); OSet (PS "a b") (PS "v2"); OSet (PS "a+b") (PS "v3");
   OSet (PS "a.lock") (PS "no"); OSet (PS "..") (PS "no"); ODel (PS "a b"); OGet (PS "a+b"); OGet (PS "a+b.lock");
   OKeys; OReopen; OItems].
Example C13_filestore_nonvacuous :
  ops_ok ex_ops = true /\
  snd (FileStore.run empty_store ex_ops) =
  [RUnit; RUnit; RUnit; RErr ValueError; RErr (Refused 21); RUnit; RVal (PS "v3"); RErr KeyError;
   RKeys [PS "https://c.example.org/x?y=1&z"; PS "a+b"]; RUnit;
   RItems [(PS "https://c.example.org/x?y=1&z", PS " v1 "); (PS "a+b", PS "v3")]].
Proof. split; vm_compute; reflexivity. Qed.

(* a used, revoked authorization code: the guard of C13_dump_idempotent holds for it against the
   regenerated SessionToken table and the constructor defaults *)
Definition ex_code : list (pystr * pyval) :=
  [(PS "expires_at", VInt 1700000300); (PS "issued_at", VInt 1700000000); (PS "not_before", VInt 0);
   (PS "revoked", VBool true); (PS "usage_rules", VDict [(PS "max_usage", VInt 1); (PS "supports_minting", VList [VStr (PS "access_token")])]);
   (PS "used", VInt 1); (PS "based_on", VNone); (PS "claims", VDict []); (PS "id", VStr (PS "f00"));
   (PS "name", VStr (PS "AuthorizationCode")); (PS "resources", VList []); (PS "scope", VList [VStr (PS "openid")]);
   (PS "token_class", VStr (PS "authorization_code")); (PS "value", VStr (PS "Z0FBQUFB"))].
Definition ex_fresh : list (pystr * pyval) :=
  [(PS "expires_at", VInt 0); (PS "issued_at", VInt 1700000999); (PS "not_before", VInt 0); (PS "revoked", VBool false);
   (PS "usage_rules", VDict []); (PS "used", VInt 0); (PS "based_on", VNone); (PS "id", VStr (PS "new"))].
Example C13_dump_idempotent_nonvacuous :
  obj_ok (class_table impexp_tables c_AuthorizationCode) [] ex_code ex_fresh = true
  /\ nodup_keys (class_table impexp_tables c_AuthorizationCode) = true
  /\ (exists D, dump_fields (class_table impexp_tables c_AuthorizationCode) [] ex_code = Ok D /\ assoc (PS "used") D = Some (VInt 1)).
Proof. split; [vm_compute; reflexivity|]. split; [vm_compute; reflexivity|]. eexists. split; vm_compute; reflexivity. Qed.

(* --- round 11 --- *)
(* ---- file store: keys whose FILE NAMES are in prefix relation ----
   quote_plus leaves '.', '-', '_', '~', letters and digits alone, so the value file of one key can be
   the value file of another key plus a suffix ("https://rp.example.org" / "https://rp.example.org.uk",
   "app" / "app.v2", "a" / "a." / "a.lock" / "a.lock.lock"); the lock file of a key lives beside its value
   file under the name <value file>.lock.  A key OWNS exactly those two names. *)
From Verif Require Import Model.FileStoreFrame Proofs.FileStoreFrame_proofs.

(* an operation that names key k (set / get / del / in) changes nothing in the directory outside the two
   names k owns and nothing in the instance's cache outside k's value name - in ANY state, for ANY name *)
Theorem C13_filestore_keyed_op_touches_owned_names : forall s o k g,
  op_key o = Some k -> owned (quote_plus k) g = false ->
  assoc g (st_dir (fst (FileStore.step s o))) = assoc g (st_dir s)
  /\ assoc g (st_cache (fst (FileStore.step s o))) = assoc g (st_cache s).
Proof. exact keyed_step_touches_owned. Qed.
Print Assumptions C13_filestore_keyed_op_touches_owned_names.

(* the frame property in the directory: the value file of every OTHER key is left alone ... *)
Theorem C13_filestore_frame_value_file : forall s o k k',
  op_key o = Some k -> bytes_ok k = true -> bytes_ok k' = true -> k <> k' -> is_lock k' = false ->
  assoc (quote_plus k') (st_dir (fst (FileStore.step s o))) = assoc (quote_plus k') (st_dir s).
Proof. exact frame_value_file. Qed.
Print Assumptions C13_filestore_frame_value_file.

(* ... and so is its lock file, unless the operation names that very file (k = k' ++ ".lock") *)
Theorem C13_filestore_frame_lock_file : forall s o k k',
  op_key o = Some k -> bytes_ok k = true -> bytes_ok k' = true -> k <> k' -> k <> (k' ++ dot_lock)%list ->
  assoc (lock_of (quote_plus k')) (st_dir (fst (FileStore.step s o)))
  = assoc (lock_of (quote_plus k')) (st_dir s).
Proof. exact frame_lock_file. Qed.
Print Assumptions C13_filestore_frame_lock_file.

(* the relation spelled out: one converted name is the other plus a non-empty suffix *)
Theorem C13_filestore_beside_is_proper_prefix : forall f g,
  beside f g = true <-> exists t, t <> [] /\ g = (f ++ t)%list.
Proof. exact beside_spec. Qed.
Print Assumptions C13_filestore_beside_is_proper_prefix.

Theorem C13_filestore_frame_prefix_related_names : forall s o k k',
  op_key o = Some k -> bytes_ok k = true -> bytes_ok k' = true ->
  name_related k k' = true -> is_lock k' = false ->
  assoc (quote_plus k') (st_dir (fst (FileStore.step s o))) = assoc (quote_plus k') (st_dir s).
Proof. exact frame_related_names. Qed.
Print Assumptions C13_filestore_frame_prefix_related_names.

(* after ANY history, one more operation that is not clear() and does not name k' leaves what a NEW
   instance over the directory reads for k' exactly as it was (every step is a crash point) *)
Theorem C13_filestore_frame_new_instance : forall ops o k',
  ops_ok ops = true -> op_ok o = true -> o <> OClear -> op_key o <> Some k' ->
  assoc k' (observe_new (st_dir (fst (FileStore.run empty_store (ops ++ [o])))))
  = assoc k' (observe_new (st_dir (fst (FileStore.run empty_store ops)))).
Proof. exact frame_new_instance. Qed.
Print Assumptions C13_filestore_frame_new_instance.

(* in particular for keys whose converted names are in prefix relation: removing (writing, reading)
   "https://rp.example.org" leaves "https://rp.example.org.uk" to every new instance, and vice versa *)
Theorem C13_filestore_frame_new_instance_prefix_related : forall ops o k k',
  ops_ok ops = true -> op_ok o = true -> op_key o = Some k -> name_related k k' = true ->
  assoc k' (observe_new (st_dir (fst (FileStore.run empty_store (ops ++ [o])))))
  = assoc k' (observe_new (st_dir (fst (FileStore.run empty_store ops)))).
Proof. exact frame_new_instance_related. Qed.
Print Assumptions C13_filestore_frame_new_instance_prefix_related.

(* a key whose name is a lock name (k' = k ++ ".lock", k ++ ".lock.lock", ...) never holds a value *)
Theorem C13_filestore_lock_name_key_holds_nothing : forall ops k,
  ops_ok ops = true -> bytes_ok k = true -> is_lock k = true ->
  assoc k (observe_new (st_dir (fst (FileStore.run empty_store ops)))) = None.
Proof. exact lock_name_key_holds_nothing. Qed.
Print Assumptions C13_filestore_lock_name_key_holds_nothing.

(* the frame condition the driver's checker (chk_files) evaluates on the key family of a trace *)
Theorem C13_filestore_frame_step_holds : forall fam s o,
  forallb bytes_ok fam = true -> op_ok o = true ->
  frame_step fam (st_dir s) (st_dir (fst (FileStore.step s o))) o = true.
Proof. exact frame_step_holds. Qed.
Print Assumptions C13_filestore_frame_step_holds.

(* non-vacuity: URL-shaped client identifiers in prefix relation; the shorter one is removed while the
   longer one holds a value *)
Definition ex_short : bytes := PS "https://rp.example.org".
Definition ex_long : bytes := PS "https://rp.example.org.uk".
Definition ex_family_ops : list op :=
  [OSet ex_short (PS "A"); OSet ex_long (PS "B"); OSet (ex_short ++ PS ".lock")%list (PS "no"); ODel ex_short; OReopen; OItems].
Example C13_filestore_frame_nonvacuous :
  name_related ex_short ex_long = true
  /\ beside (quote_plus ex_short) (lock_of (quote_plus ex_short)) = true
  /\ ops_ok ex_family_ops = true
  /\ snd (FileStore.run empty_store ex_family_ops) =
     [RUnit; RUnit; RErr ValueError; RUnit; RUnit; RItems [(ex_long, PS "B")]]
  /\ map fst (st_dir (fst (FileStore.run empty_store ex_family_ops))) =
     [lock_of (quote_plus ex_long); quote_plus ex_long].
Proof. repeat split; vm_compute; reflexivity. Qed.
(* --- end round 11 --- *)
