(* Props/C14.v — property C14: the session database keeps users, clients and grants apart and
   consistent.  Only statements, each closed by `exact <lemma>`, with Print Assumptions. *)
From Coq Require Import String.
From Coq Require Import List.
From Verif Require Import Lib.Base Lib.PyStr Model.Lv Proofs.Lv_proofs Model.Db Proofs.Db_proofs.
Import ListNotations.
From Verif Require Lib.PyOps Gen.Src_db Proofs.Src_refine.
Open Scope string_scope.

(* Every session identifier resolves to exactly the path (user, client, grant) it was created for:
   for all identifiers, all random prefixes. The Fernet layer is an authenticated encryption
   (decrypt (encrypt m) = m), so the plaintext codec is what carries the property. *)
Theorem C14_sid_resolves : forall rnd p t, p <> [] -> sid_plain rnd p = Ok t -> sid_path t = Ok p.
Proof. exact sid_roundtrip. Qed.
Print Assumptions C14_sid_resolves.

(* Distinct (user, client, grant) triples never share a key / session identifier plaintext. *)
Theorem C14_key_injective : forall p q k, p <> [] -> q <> [] -> branch_key p = Ok k -> branch_key q = Ok k -> p = q.
Proof. exact branch_key_injective. Qed.
Print Assumptions C14_key_injective.

Theorem C14_sid_injective : forall r1 r2 p q t,
  p <> [] -> q <> [] -> sid_plain r1 p = Ok t -> sid_plain r2 q = Ok t -> p = q.
Proof. exact sid_injective. Qed.
Print Assumptions C14_sid_injective.

(* The framing codec: for every list of every string. *)
Theorem C14_lv_roundtrip : forall l, lv_unpack (lv_pack l) = Ok l.
Proof. exact lv_roundtrip. Qed.
Print Assumptions C14_lv_roundtrip.

(* non-vacuity: hostile identifiers that are accepted round-trip; colliding ones are refused *)
Example C14_nonvacuous :
  sid_plain (PS "rnd") [PS "3:abc"; PS "a;b"; PS " x:;"] <> Err ValueError
  /\ branch_key [PS "a;;b"; PS "c"] = Err ValueError.
Proof. split; [vm_compute; discriminate | reflexivity]. Qed.

(* TIE BY TRANSLATION: Database.branch_key as it reads in /repo/src NOW (coq/Gen/Src_db.v, regenerated every run)
   computes the model's branch_key: same refusals (divider inside an identifier, non-last identifier ending in ';'),
   same joined key. *)
Theorem C14_branch_key_is_source : forall args clock,
  Src_db.branch_key_src (VList (List.map VStr args)) clock
  = match branch_key args with Ok k => Ok (VStr k) | Err e => Err e | Unmodelled => Unmodelled end.
Proof. exact Src_refine.branch_key_refines. Qed.
Print Assumptions C14_branch_key_is_source.

(* ================================================================ the session tree, for every history
   `run G rv ops []` is the store reached from the empty database by the operation sequence ops over
   add_grant (create_session / create_grant / add_exchange_grant), revoke_sub_tree (grant / client / user level),
   delete (every depth, every path, remove_session) and flush; G is the grant payload.  kp = unpack_branch_key. *)

(* every stored node below the root level is listed by its stored parent *)
Theorem C14_reachable_from_parent : forall G rv ops k p x,
  has_key k (run G rv ops []) = true -> unpack_branch_key k = (p ++ [x])%list -> p <> [] ->
  exists pk id subs r l, branch_key p = Ok pk /\ assoc pk (run G rv ops []) = Some (NInfo id subs r l) /\ In k subs.
Proof. exact reach_reachable. Qed.
Print Assumptions C14_reachable_from_parent.

(* every listed subordinate is stored and is a one-level extension of the node that lists it *)
Theorem C14_no_dangling_subordinate : forall G rv ops k id subs r l s,
  assoc k (run G rv ops []) = Some (NInfo id subs r l) -> In s subs ->
  has_key s (run G rv ops []) = true /\ exists x, unpack_branch_key s = (unpack_branch_key k ++ [x])%list.
Proof. exact reach_no_dangling. Qed.
Print Assumptions C14_no_dangling_subordinate.

(* distinct (user, client, grant) paths never share a stored node *)
Theorem C14_one_node_per_path : forall G rv ops k k' n n',
  assoc k (run G rv ops []) = Some n -> assoc k' (run G rv ops []) = Some n' ->
  unpack_branch_key k = unpack_branch_key k' -> k = k'.
Proof. exact reach_one_node_per_path. Qed.
Print Assumptions C14_one_node_per_path.

(* a removed node takes its whole subtree with it and nothing else: after delete(path), a node that is not a
   strict ancestor of path's node is gone iff it lies in the subtree, and is otherwise bit-for-bit what it was
   (strict ancestors may lose the entry in their subordinate list, and go when that list becomes empty) *)
Theorem C14_delete_exact : forall G rv ops path leaf d',
  branch_key path = Ok leaf -> db_delete G path (run G rv ops []) = Ok d' ->
  forall k, strict_anc k leaf = false -> assoc k d' = if extb leaf k then None else assoc k (run G rv ops []).
Proof. exact reach_delete_exact. Qed.
Print Assumptions C14_delete_exact.
Theorem C14_extb_is_subtree : forall a k, extb a k = true <-> exists q, unpack_branch_key k = (unpack_branch_key a ++ q)%list.
Proof. exact extb_spec. Qed.
Theorem C14_strict_anc_is_ancestor : forall k leaf,
  strict_anc k leaf = true <-> (exists q, unpack_branch_key leaf = (unpack_branch_key k ++ q)%list) /\ k <> leaf.
Proof. exact strict_anc_spec. Qed.

(* operations on one user's branch leave every node of every other user unchanged, for any number of operations *)
Theorem C14_other_users_unchanged : forall G rv ops ops' k,
  Forall (fun o => exists u, op_root G o = Some u /\ rt k <> u) ops' ->
  assoc k (run G rv ops' (run G rv ops [])) = assoc k (run G rv ops []).
Proof. exact reach_frame. Qed.
Print Assumptions C14_other_users_unchanged.

(* no operation fails half way: on a reachable store delete and revoke either succeed or are refused before the
   first change (the model keeps the store on an error, the code raises where it stands: these are the only errors) *)
Theorem C14_delete_never_fails_half_way : forall G rv ops path,
  match db_delete G path (run G rv ops []) with
  | Ok _ => True | Err e => e = ValueError \/ e = IndexError | Unmodelled => False end.
Proof. exact reach_delete_refusals. Qed.
Print Assumptions C14_delete_never_fails_half_way.
Theorem C14_revoke_never_fails_half_way : forall G rv ops path lvl,
  match revoke_sub_tree G rv path lvl (run G rv ops []) with
  | Ok _ => True
  | Err e => e = ValueError \/
             (e = KeyError /\ exists key, branch_key (match lvl with None => path | Some l => firstn (S l) path end) = Ok key
                                          /\ has_key key (run G rv ops []) = false)
  | Unmodelled => False
  end.
Proof. exact reach_revoke_refusals. Qed.
Print Assumptions C14_revoke_never_fails_half_way.

(* non-vacuity: two users, three grants; deleting diana's client_1 session keeps her other client and babs *)
Definition demo_ops : list (op bool) :=
  [ OAddGrant (PS "diana") (PS "client_1") (PS "g1") false; OAddGrant (PS "diana") (PS "client_2") (PS "g2") false;
    OAddGrant (PS "babs") (PS "client_1") (PS "g3") false; ORevoke [PS "babs"; PS "client_1"; PS "g3"] None;
    ODelete [PS "diana"; PS "client_1"] ].
Example C14_tree_nonvacuous :
  List.map fst (run bool (fun _ => true) demo_ops []) =
  [PS "diana"; PS "diana;;client_2"; PS "diana;;client_2;;g2"; PS "babs"; PS "babs;;client_1"; PS "babs;;client_1;;g3"].
Proof. vm_compute. reflexivity. Qed.
