(* Props/C14.v — property C14: the session database keeps users, clients and grants apart and
   consistent.  Only statements, each closed by `exact <lemma>`, with Print Assumptions. *)
From Coq Require Import String.
From Coq Require Import List.
From Verif Require Import Lib.Base Lib.PyStr Model.Lv Proofs.Lv_proofs Model.Db Proofs.Db_proofs.
Import ListNotations.
From Verif Require Lib.PyOps Gen.Src_db Proofs.Src_refine.
Open Scope string_scope.

(* Every session identifier resolves to exactly the path (user, client, grant) it was created for:
   for all identifiers, all random prefixes. The Fernet layer is an authenticated encryption
   (decrypt (encrypt m) = m), so the plaintext codec is what carries the property. *)
Theorem C14_sid_resolves : forall rnd p t, p <> [] -> sid_plain rnd p = Ok t -> sid_path t = Ok p.
Proof. exact sid_roundtrip. Qed.
Print Assumptions C14_sid_resolves.

(* The encrypter under the identifier (cryptojwt's FernetEncrypter) pads the plaintext with blanks and strips every
   trailing blank after decrypting: what it hands back is `through_encrypter n t` for some n.  The framing
   lv_pack(rnd, key, "") is immune to that: the identifier resolves to exactly its path for EVERY path - also when the
   last identifier ends in blanks, is blanks only, or the key is empty - and every amount of padding. *)
Theorem C14_sid_resolves_through_encrypter : forall rnd p t n,
  p <> [] -> sid_plain rnd p = Ok t -> sid_path (through_encrypter n t) = Ok p.
Proof. exact sid_padding_immune. Qed.
Print Assumptions C14_sid_resolves_through_encrypter.
(* identifiers minted with the framing lv_pack(rnd, key) of before the repair still decode ... *)
Theorem C14_legacy_sid_decodes : forall rnd p t, p <> [] -> sid_plain_legacy rnd p = Ok t -> sid_path t = Ok p.
Proof. exact sid_legacy_decodes. Qed.
Print Assumptions C14_legacy_sid_decodes.
(* ... but that framing was not immune (the identifier of user "trail " resolved to user "trail"), and the repaired one
   is, on the same kind of path *)
Example C14_legacy_framing_refuted :
  sid_plain_legacy [114%N] [[116;114;97;105;108;32]%N] = Ok [49;58;114;54;58;116;114;97;105;108;32]%N
  /\ sid_path (through_encrypter 5 [49;58;114;54;58;116;114;97;105;108;32]%N) = Ok [[116;114;97;105;108]%N].
Proof. exact sid_legacy_refuted. Qed.
Example C14_blank_identifiers_resolve :
  exists t, sid_plain [114%N] [[32;32]%N; [32]%N] = Ok t /\ sid_path (through_encrypter 7 t) = Ok [[32;32]%N; [32]%N].
Proof. exact sid_blanks_only. Qed.

(* Distinct (user, client, grant) triples never share a key / session identifier plaintext. *)
Theorem C14_key_injective : forall p q k, p <> [] -> q <> [] -> branch_key p = Ok k -> branch_key q = Ok k -> p = q.
Proof. exact branch_key_injective. Qed.
Print Assumptions C14_key_injective.

Theorem C14_sid_injective : forall r1 r2 p q t,
  p <> [] -> q <> [] -> sid_plain r1 p = Ok t -> sid_plain r2 q = Ok t -> p = q.
Proof. exact sid_injective. Qed.
Print Assumptions C14_sid_injective.

(* The framing codec: for every list of every string. *)
Theorem C14_lv_roundtrip : forall l, lv_unpack (lv_pack l) = Ok l.
Proof. exact lv_roundtrip. Qed.
Print Assumptions C14_lv_roundtrip.

(* non-vacuity: hostile identifiers that are accepted round-trip; colliding ones are refused *)
Example C14_nonvacuous :
  sid_plain (PS "rnd") [PS "3:abc"; PS "a;b"; PS " x:;"] <> Err ValueError
  /\ branch_key [PS "a;;b"; PS "c"] = Err ValueError.
Proof. split; [vm_compute; discriminate | reflexivity]. Qed.

(* TIE BY TRANSLATION: Database.branch_key as it reads in /repo/src NOW (coq/Gen/Src_db.v, regenerated every run)
   computes the model's branch_key: same refusals (divider inside an identifier, non-last identifier ending in ';'),
   same joined key. *)
Theorem C14_branch_key_is_source : forall args clock,
  Src_db.branch_key_src (VList (List.map VStr args)) clock
  = match branch_key args with Ok k => Ok (VStr k) | Err e => Err e | Unmodelled => Unmodelled end.
Proof. exact Src_refine.branch_key_refines. Qed.
Print Assumptions C14_branch_key_is_source.

(* ================================================================ the session tree, for every history
   `run G rv ops []` is the store reached from the empty database by the operation sequence ops over
   add_grant (create_session / create_grant / add_exchange_grant), revoke_sub_tree (grant / client / user level),
   delete (every depth, every path, remove_session) and flush; G is the grant payload.  kp = unpack_branch_key. *)

(* every stored node below the root level is listed by its stored parent *)
Theorem C14_reachable_from_parent : forall G rv ops k p x,
  has_key k (run G rv ops []) = true -> unpack_branch_key k = (p ++ [x])%list -> p <> [] ->
  exists pk id subs r l, branch_key p = Ok pk /\ assoc pk (run G rv ops []) = Some (NInfo id subs r l) /\ In k subs.
Proof. exact reach_reachable. Qed.
Print Assumptions C14_reachable_from_parent.

(* every listed subordinate is stored and is a one-level extension of the node that lists it *)
Theorem C14_no_dangling_subordinate : forall G rv ops k id subs r l s,
  assoc k (run G rv ops []) = Some (NInfo id subs r l) -> In s subs ->
  has_key s (run G rv ops []) = true /\ exists x, unpack_branch_key s = (unpack_branch_key k ++ [x])%list.
Proof. exact reach_no_dangling. Qed.
Print Assumptions C14_no_dangling_subordinate.

(* distinct (user, client, grant) paths never share a stored node *)
Theorem C14_one_node_per_path : forall G rv ops k k' n n',
  assoc k (run G rv ops []) = Some n -> assoc k' (run G rv ops []) = Some n' ->
  unpack_branch_key k = unpack_branch_key k' -> k = k'.
Proof. exact reach_one_node_per_path. Qed.
Print Assumptions C14_one_node_per_path.

(* a removed node takes its whole subtree with it and nothing else: after delete(path), a node that is not a
   strict ancestor of path's node is gone iff it lies in the subtree, and is otherwise bit-for-bit what it was
   (strict ancestors may lose the entry in their subordinate list, and go when that list becomes empty) *)
Theorem C14_delete_exact : forall G rv ops path leaf d',
  branch_key path = Ok leaf -> db_delete G path (run G rv ops []) = Ok d' ->
  forall k, strict_anc k leaf = false -> assoc k d' = if extb leaf k then None else assoc k (run G rv ops []).
Proof. exact reach_delete_exact. Qed.
Print Assumptions C14_delete_exact.
Theorem C14_extb_is_subtree : forall a k, extb a k = true <-> exists q, unpack_branch_key k = (unpack_branch_key a ++ q)%list.
Proof. exact extb_spec. Qed.
Theorem C14_strict_anc_is_ancestor : forall k leaf,
  strict_anc k leaf = true <-> (exists q, unpack_branch_key leaf = (unpack_branch_key k ++ q)%list) /\ k <> leaf.
Proof. exact strict_anc_spec. Qed.

(* operations on one user's branch leave every node of every other user unchanged, for any number of operations *)
Theorem C14_other_users_unchanged : forall G rv ops ops' k,
  Forall (fun o => exists u, op_root G o = Some u /\ rt k <> u) ops' ->
  assoc k (run G rv ops' (run G rv ops [])) = assoc k (run G rv ops []).
Proof. exact reach_frame. Qed.
Print Assumptions C14_other_users_unchanged.

(* no operation fails half way: on a reachable store delete and revoke either succeed or are refused before the
   first change (the model keeps the store on an error, the code raises where it stands: these are the only errors) *)
Theorem C14_delete_never_fails_half_way : forall G rv ops path,
  match db_delete G path (run G rv ops []) with
  | Ok _ => True | Err e => e = ValueError \/ e = IndexError | Unmodelled => False end.
Proof. exact reach_delete_refusals. Qed.
Print Assumptions C14_delete_never_fails_half_way.
Theorem C14_revoke_never_fails_half_way : forall G rv ops path lvl,
  match revoke_sub_tree G rv path lvl (run G rv ops []) with
  | Ok _ => True
  | Err e => e = ValueError \/
             (e = KeyError /\ exists key, branch_key (match lvl with None => path | Some l => firstn (S l) path end) = Ok key
                                          /\ has_key key (run G rv ops []) = false)
  | Unmodelled => False
  end.
Proof. exact reach_revoke_refusals. Qed.
Print Assumptions C14_revoke_never_fails_half_way.

(* non-vacuity: two users, three grants; deleting diana's client_1 session keeps her other client and babs *)
Definition demo_ops : list (op bool) :=
  [ OAddGrant (PS "diana") (PS "client_1") (PS "g1") false; OAddGrant (PS "diana") (PS "client_2") (PS "g2") false;
    OAddGrant (PS "babs") (PS "client_1") (PS "g3") false; ORevoke [PS "babs"; PS "client_1"; PS "g3"] None;
    ODelete [PS "diana"; PS "client_1"] ].
Example C14_tree_nonvacuous :
  List.map fst (run bool (fun _ => true) demo_ops []) =
  [PS "diana"; PS "diana;;client_2"; PS "diana;;client_2;;g2"; PS "babs"; PS "babs;;client_1"; PS "babs;;client_1;;g3"].
Proof. vm_compute. reflexivity. Qed.

(* TIE BY TRANSLATION, continued: Database.unpack_branch_key and util.lv_pack as they read in /repo/src NOW
   (coq/Gen/Src_db.v) compute the model's unpack_branch_key (kp) and lv_pack. *)
Theorem C14_unpack_branch_key_is_source : forall key clock,
  Src_db.unpack_branch_key_src (VStr key) clock = Ok (VList (List.map VStr (unpack_branch_key key))).
Proof. exact Src_refine.unpack_branch_key_refines. Qed.
Print Assumptions C14_unpack_branch_key_is_source.
Theorem C14_lv_pack_is_source : forall args clock,
  Src_db.lv_pack_src (VList (List.map VStr args)) clock = Ok (VStr (lv_pack args)).
Proof. exact Src_refine.lv_pack_refines. Qed.
Print Assumptions C14_lv_pack_is_source.

(* TIE BY TRANSLATION: util.lv_unpack as it reads in /repo/src NOW (coq/Gen/Src_lv.v, regenerated by harness/py2v.py on
   every run: the `while txt:` loop as recursion on explicit fuel, `l, v = txt.split(":", 1)`, int(l), v[:n], v[n:])
   (session identifiers are lv_unpack'ed on every look-up).
   For every text of at most 4300 characters and every fuel above its length the translated function computes the
   model's lv_unpack - same list, same ValueError, Unmodelled exactly where the model is (a non-ASCII non-blank
   character in a length prefix) - and the loop never runs out of fuel.  The bound is CPython's default limit on the
   digits of an int() literal (run-time configurable, so not modelled: PyOps.py_int_of); beyond it the translation is
   either outside that fragment or again the model (second theorem), and on everything lv_pack wrote - whatever the
   length - it returns the packed list (third theorem; the side condition holds for every string a process can hold). *)
From Verif Require Lib.PyOps Gen.Src_lv Proofs.Src_refine_lv.
Theorem C14_lv_unpack_is_source : forall fuel txt clock,
  (length txt < fuel)%nat -> (length txt <= PyOps.int_max_str_digits)%nat ->
  Src_lv.lv_unpack_src fuel (VStr txt) clock = Src_refine_lv.inj_strs (lv_unpack txt) /\ lv_unpack txt <> Err OutOfFuel.
Proof. exact Src_refine_lv.lv_unpack_refines. Qed.
Print Assumptions C14_lv_unpack_is_source.
Theorem C14_lv_unpack_is_source_any_length : forall fuel txt clock,
  (length txt < fuel)%nat ->
  Src_lv.lv_unpack_src fuel (VStr txt) clock = Unmodelled
  \/ Src_lv.lv_unpack_src fuel (VStr txt) clock = Src_refine_lv.inj_strs (lv_unpack txt).
Proof. exact Src_refine_lv.lv_unpack_refines_partial. Qed.
Print Assumptions C14_lv_unpack_is_source_any_length.
Theorem C14_lv_source_roundtrip : forall l fuel clock,
  (length (lv_pack l) < fuel)%nat ->
  List.Forall (fun a => length (str_of_nat (length a)) <= PyOps.int_max_str_digits)%nat l ->
  Src_lv.lv_unpack_src fuel (VStr (lv_pack l)) clock = Ok (VList (List.map VStr l)) /\ lv_unpack (lv_pack l) = Ok l.
Proof. exact Src_refine_lv.lv_unpack_src_roundtrip. Qed.
Print Assumptions C14_lv_source_roundtrip.

(* ================================================================ read-only queries and operations through identifiers
   `xrun G rv xs d` runs an extended history: the mutating operations above, revoke_sub_tree / remove_session through a
   session or branch identifier, and the queries (sm[sid], get, get_node_info, get_grant, get_client_session_info,
   get_user_session_info, branch_info / get_session_info, get_subordinates, grants, get_authentication_events,
   find_token, decrypt_branch_id, encrypted_branch_id) through a path or an identifier of any level. *)

(* a query hands back the store it was asked about *)
Theorem C14_query_leaves_store : forall G rv d t q, fst (xstep G rv d (XQuery t q)) = d.
Proof. exact xstep_query_store. Qed.
Print Assumptions C14_query_leaves_store.

(* queries interleaved anywhere in a history, any number of them, change nothing of what the history reaches; so every
   statement above about `run G rv ops []` holds for histories with queries *)
Theorem C14_queries_are_frame : forall G rv a qs b d,
  forallb (is_query G) qs = true -> xrun G rv (a ++ qs ++ b)%list d = xrun G rv (a ++ b)%list d.
Proof. exact xrun_queries_between. Qed.
Print Assumptions C14_queries_are_frame.
Theorem C14_history_with_queries : forall G rv xs d, xrun G rv xs d = run G rv (mut_ops G xs) d.
Proof. exact xrun_run. Qed.
Print Assumptions C14_history_with_queries.

(* resolution of an issued identifier is a function of the identifier alone: after ANY history (queries through this or
   any other identifier included) it resolves to the node stored under the key of exactly the path it was issued for
   - or to KeyError once that node is removed *)
Theorem C14_issued_id_resolves_after_any_history : forall G rv rnd p t k xs,
  p <> [] -> sid_plain rnd p = Ok t -> branch_key p = Ok k ->
  resolve G t (xrun G rv xs []) =
  match assoc k (run G rv (mut_ops G xs) []) with Some n => Ok (k, n) | None => Err KeyError end.
Proof. exact resolve_stable. Qed.
Print Assumptions C14_issued_id_resolves_after_any_history.
Theorem C14_queries_do_not_move_an_id : forall G rv rnd p t qs d,
  p <> [] -> sid_plain rnd p = Ok t -> forallb (is_query G) qs = true ->
  resolve G t (xrun G rv qs d) = q_node G p d.
Proof. exact resolve_after_queries. Qed.
Print Assumptions C14_queries_do_not_move_an_id.
(* identifiers issued for different paths never resolve to the same stored node *)
Theorem C14_ids_resolve_apart : forall G r1 r2 p q t1 t2 d k1 n1 k2 n2,
  p <> [] -> q <> [] -> sid_plain r1 p = Ok t1 -> sid_plain r2 q = Ok t2 -> p <> q ->
  resolve G t1 d = Ok (k1, n1) -> resolve G t2 d = Ok (k2, n2) -> k1 <> k2.
Proof. exact resolve_apart. Qed.
Print Assumptions C14_ids_resolve_apart.

(* removal / revocation through an issued identifier is removal / revocation of exactly the path it was issued for
   (so C14_delete_exact and the frame statements apply to it), whatever was asked through the identifier before *)
Theorem C14_remove_through_id : forall G rv rnd p t d,
  p <> [] -> sid_plain rnd p = Ok t -> fst (xstep G rv d (XRemoveId (ById t))) = fst (step G rv d (ODelete p)).
Proof. exact remove_by_issued_id_store. Qed.
Print Assumptions C14_remove_through_id.
Theorem C14_revoke_through_id : forall G rv rnd p t l d,
  p <> [] -> sid_plain rnd p = Ok t -> fst (xstep G rv d (XRevokeId (ById t) l)) = fst (step G rv d (ORevoke p l)).
Proof. exact revoke_by_issued_id_store. Qed.
Print Assumptions C14_revoke_through_id.

(* what the answers contain: sm[sid] / get(path) is the one node stored for the path; grants(...) on a reachable store
   hands back stored Grants one level below the (user, client) node asked about and nothing of anybody else *)
Theorem C14_get_is_exact : forall G p d a, query G QGet p d = Ok a ->
  exists k n, branch_key p = Ok k /\ assoc k d = Some n /\ a = ([], [(k, n)]).
Proof. exact query_get_exact. Qed.
Print Assumptions C14_get_is_exact.
Theorem C14_grants_of_one_client : forall G rv xs p ck l,
  branch_key p = Ok ck -> q_grants G p (xrun G rv xs []) = Ok l ->
  forall k n, In (k, n) l -> assoc k (xrun G rv xs []) = Some n /\ is_grant G n = true /\
                             exists x, unpack_branch_key k = (unpack_branch_key ck ++ [x])%list.
Proof. exact xreach_grants_below. Qed.
Print Assumptions C14_grants_of_one_client.

(* non-vacuity: two grants of diana at client_1; grants(<id of g1>) lists both and the store is what it was; the id of
   g1 still resolves to g1; remove_session(<id of g1>) afterwards removes g1 and keeps g2 *)
Definition demo_sid : pystr := lv_pack [PS "rnd"; PS "diana;;client_1;;g1"; PS ""].
Definition demo_xops : list (xop bool) :=
  [ XOp (OAddGrant (PS "diana") (PS "client_1") (PS "g1") false); XOp (OAddGrant (PS "diana") (PS "client_1") (PS "g2") false);
    XQuery (ById demo_sid) (QGrants true); XQuery (ById demo_sid) QGet ].
Example C14_query_nonvacuous :
  List.map fst (snd (match snd (xstep bool (fun _ => true) (xrun bool (fun _ => true) demo_xops []) (XQuery (ById demo_sid) (QGrants true)))
                     with Ok a => a | _ => ([], []) end))
  = [PS "diana;;client_1;;g1"; PS "diana;;client_1;;g2"]
  /\ (match resolve bool demo_sid (xrun bool (fun _ => true) demo_xops []) with Ok kn => Some (fst kn) | _ => None end) = Some (PS "diana;;client_1;;g1")
  /\ List.map fst (xrun bool (fun _ => true) (demo_xops ++ [XRemoveId (ById demo_sid)])%list [])
     = [PS "diana"; PS "diana;;client_1"; PS "diana;;client_1;;g2"].
Proof. vm_compute. repeat split; reflexivity. Qed.

(* --- round 11 --- *)
(* ================================================================ the creation API and look-alike identifiers
   create_session / create_grant / create_exchange_session / create_exchange_grant (through SessionManager.make_path) and
   add_grant / add_exchange_grant (explicit path) are operations of the model (Model/DbCreate.v: cop / cstep / crun).
   make_path is the identity on identifiers: an identifier is an opaque string, and two identifiers that are DIFFERENT
   strings - differing only in white space at either end, letter case, Unicode normal form, a trailing NUL - are
   different users / clients.  The driver runs these operations on pools of such strings. *)
From Verif Require Import Model.DbCheck Model.DbCreate Proofs.DbCreate_proofs.

Theorem C14_make_path_is_verbatim : forall u c, make_path u c = [u; c].
Proof. exact make_path_verbatim. Qed.
Print Assumptions C14_make_path_is_verbatim.
Theorem C14_entry_points_take_identifiers_verbatim : forall e u c, entry_path e u c = [u; c].
Proof. exact entry_path_verbatim. Qed.
Print Assumptions C14_entry_points_take_identifiers_verbatim.

(* a creation through any entry point is add_grant on exactly the identifiers given, so a history over the creation API
   is a history of Model/Db.v and every statement above about `run` / `xrun` holds for it *)
Theorem C14_creation_is_add_grant : forall G rv d c, cstep G rv d c = xstep G rv d (cdenote G c).
Proof. exact cstep_denote. Qed.
Print Assumptions C14_creation_is_add_grant.
Theorem C14_creation_history : forall G rv cs d, crun G rv cs d = xrun G rv (List.map (cdenote G) cs) d.
Proof. exact crun_xrun. Qed.
Print Assumptions C14_creation_history.

(* the session id handed out by a creation resolves to the grant stored under exactly (user, client, grant) *)
Theorem C14_created_sid_resolves : forall G rv d e u c gid g d1 a rnd t,
  cstep G rv d (CCreate e u c gid g) = (d1, Ok a) -> sid_plain rnd [u; c; gid] = Ok t ->
  exists k, branch_key [u; c; gid] = Ok k /\ unpack_branch_key k = [u; c; gid] /\ resolve G t d1 = Ok (k, NGrant g).
Proof. exact create_resolves. Qed.
Print Assumptions C14_created_sid_resolves.

(* a creation changes the three nodes of its own path and nothing else ... *)
Theorem C14_creation_touches_own_path : forall G rv d e u c gid g k,
  (forall a b key, [u; c; gid] = (a ++ b)%list -> a <> [] -> branch_key a = Ok key -> k <> key) ->
  assoc k (fst (cstep G rv d (CCreate e u c gid g))) = assoc k d.
Proof. exact create_touches_own_path. Qed.
Print Assumptions C14_creation_touches_own_path.
(* ... in particular nothing at or below the client node of any OTHER (user, client) pair, however alike the strings *)
Theorem C14_creation_leaves_other_pairs : forall G rv d e u c gid g u' c' q k,
  (u, c) <> (u', c') -> branch_key (u' :: c' :: q) = Ok k ->
  assoc k (fst (cstep G rv d (CCreate e u c gid g))) = assoc k d.
Proof. exact create_other_pair_unchanged. Qed.
Print Assumptions C14_creation_leaves_other_pairs.

(* different (user, client) pairs and different users have disjoint subtrees (extb a k: k lies in the subtree of a) *)
Theorem C14_different_pairs_disjoint : forall u c u' c' q ck k,
  (u, c) <> (u', c') -> branch_key [u; c] = Ok ck -> branch_key (u' :: c' :: q) = Ok k -> extb ck k = false.
Proof. exact pair_not_below. Qed.
Print Assumptions C14_different_pairs_disjoint.
Theorem C14_different_users_disjoint : forall u u' q uk k,
  u <> u' -> branch_key [u] = Ok uk -> branch_key (u' :: q) = Ok k -> extb uk k = false.
Proof. exact user_not_below. Qed.
Print Assumptions C14_different_users_disjoint.

(* revoke_client_session through the session id issued for (u, c, gid), after any history over the creation API, leaves
   every node at or below the client node of every other pair as it was *)
Theorem C14_revoke_client_session_leaves_other_pairs : forall G rv cs rnd u c gid t u' c' q k,
  sid_plain rnd [u; c; gid] = Ok t -> (u, c) <> (u', c') -> branch_key (u' :: c' :: q) = Ok k ->
  assoc k (fst (cstep G rv (crun G rv cs []) (CRevokeClientSession (ById t)))) = assoc k (crun G rv cs []).
Proof. exact reach_revoke_client_session_other_pair. Qed.
Print Assumptions C14_revoke_client_session_leaves_other_pairs.

(* non-vacuity: "alice" and "alice " at the clients "rp" and " rp" are four pairs with four branches; revoking the client
   session of ("alice ", "rp") revokes that pair's grant only *)
Definition demo_cops : list (cop bool) :=
  [ CCreate ECreateSession (PS "alice") (PS "rp") (PS "g1") false; CCreate ECreateGrant (PS "alice ") (PS "rp") (PS "g2") false;
    CCreate ECreateExchangeSession (PS "alice") (PS " rp") (PS "g3") false; CCreate EAddGrant (PS "alice ") (PS " rp") (PS "g4") false;
    CRevokeClientSession (ById (lv_pack [PS "rnd"; PS "alice ;;rp;;g2"; PS ""])) ].
Example C14_lookalike_identifiers_apart :
  List.map (fun kn => (fst kn, match snd kn with NGrant g => g | NInfo _ _ r _ => r end)) (crun bool (fun _ => true) demo_cops [])
  = [(PS "alice", false); (PS "alice;;rp", false); (PS "alice;;rp;;g1", false);
     (PS "alice ", false); (PS "alice ;;rp", true); (PS "alice ;;rp;;g2", true);
     (PS "alice;; rp", false); (PS "alice;; rp;;g3", false); (PS "alice ;; rp", false); (PS "alice ;; rp;;g4", false)].
Proof. vm_compute. reflexivity. Qed.
(* refutation witness: a creation path that strips blanks (create_via strip_blanks is NOT the model) folds the four pairs
   into one branch - the model above and such an implementation differ on the first look-alike identifier *)
Example C14_normalising_creation_refuted :
  List.map fst (fst (create_via bool strip_blanks (PS "alice ") (PS " rp") (PS "g2") false
                     (fst (create_via bool strip_blanks (PS "alice") (PS "rp") (PS "g1") false []))))
  = [PS "alice"; PS "alice;;rp"; PS "alice;;rp;;g1"; PS "alice;;rp;;g2"].
Proof. vm_compute. reflexivity. Qed.
(* --- end round 11 --- *)
