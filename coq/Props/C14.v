(* Props/C14.v — property C14: the session database keeps users, clients and grants apart and
   consistent.  Only statements, each closed by `exact <lemma>`, with Print Assumptions. *)
From Coq Require Import String.
From Verif Require Import Lib.Base Lib.PyStr Model.Lv Proofs.Lv_proofs.
From Verif Require Lib.PyOps Gen.Src_db Proofs.Src_refine.
Open Scope string_scope.

(* Every session identifier resolves to exactly the path (user, client, grant) it was created for:
   for all identifiers, all random prefixes. The Fernet layer is an authenticated encryption
   (decrypt (encrypt m) = m), so the plaintext codec is what carries the property. *)
Theorem C14_sid_resolves : forall rnd p t, p <> [] -> sid_plain rnd p = Ok t -> sid_path t = Ok p.
Proof. exact sid_roundtrip. Qed.
Print Assumptions C14_sid_resolves.

(* Distinct (user, client, grant) triples never share a key / session identifier plaintext. *)
Theorem C14_key_injective : forall p q k, p <> [] -> q <> [] -> branch_key p = Ok k -> branch_key q = Ok k -> p = q.
Proof. exact branch_key_injective. Qed.
Print Assumptions C14_key_injective.

Theorem C14_sid_injective : forall r1 r2 p q t,
  p <> [] -> q <> [] -> sid_plain r1 p = Ok t -> sid_plain r2 q = Ok t -> p = q.
Proof. exact sid_injective. Qed.
Print Assumptions C14_sid_injective.

(* The framing codec: for every list of every string. *)
Theorem C14_lv_roundtrip : forall l, lv_unpack (lv_pack l) = Ok l.
Proof. exact lv_roundtrip. Qed.
Print Assumptions C14_lv_roundtrip.

(* non-vacuity: hostile identifiers that are accepted round-trip; colliding ones are refused *)
Example C14_nonvacuous :
  sid_plain (PS "rnd") [PS "3:abc"; PS "a;b"; PS " x:;"] <> Err ValueError
  /\ branch_key [PS "a;;b"; PS "c"] = Err ValueError.
Proof. split; [vm_compute; discriminate | reflexivity]. Qed.

(* TIE BY TRANSLATION: Database.branch_key as it reads in /repo/src NOW (coq/Gen/Src_db.v, regenerated every run)
   computes the model's branch_key: same refusals (divider inside an identifier, non-last identifier ending in ';'),
   same joined key. *)
Theorem C14_branch_key_is_source : forall args clock,
  Src_db.branch_key_src (VList (List.map VStr args)) clock
  = match branch_key args with Ok k => Ok (VStr k) | Err e => Err e | Unmodelled => Unmodelled end.
Proof. exact Src_refine.branch_key_refines. Qed.
Print Assumptions C14_branch_key_is_source.
